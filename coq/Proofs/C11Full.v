(* Proofs/C11Full.v — property C11, the full statement: "Every JSON text with unique object keys
   is a JSONata expression that evaluates, on any input, to the value the text denotes".

   Proofs/C11Proofs.v proves the property end to end only for null / true / false / strings and
   per layer for the rest.  This file supplies the missing parser-level induction and proves the
   whole chain  text -> tokens -> raw AST -> optimized AST -> value  for EVERY text of the JSON
   grammar of Spec/C11.v ([jtext]: scalars, numbers with an optional minus sign, nested arrays
   and objects with unique keys, optional whitespace around every value and inside empty
   containers).  Nothing in the existing files is changed.

   Main results (each followed by Print Assumptions at the end of the file):

     parse_json_mut      the induction (mutual, on jtext / jelems / jmembers): from a lexer
                         positioned at the start of a JSON text t that is followed by optional
                         whitespace and then the end of input or one of , ] } :  the parser's
                         [advance ;; parseExpression fuel 0] (any fuel >= |t| + 2) consumes
                         exactly t and returns a raw tree that [optimize] turns into the literal
                         node of the denoted value; arrays by the parseArray loop, objects by the
                         parseObject loop.  No fuel-monotonicity lemma is needed: the statement
                         is for every sufficient fuel.
     C11_parses          Parse (parse_fuel t) t = ROk n, n the literal node of v, jfuel n <= |t|.
     C11_denotes         the property: ... and  ev fuel n input env w = Ok (Some v) w  for every
                         input, environment, world, and every fuel >= jfuel n (C11_denotes_len:
                         every fuel >= |t|).   [axiom-free]
     C11_number_denotes  numbers as a statement of their own.   [axiom-free]
     C11_number_range    number texts the oracle reports out of range do not compile
                         (ErrNumberRange), with or without a minus sign.   [axiom-free]
     C11_denotes_top     C11_denotes for the parser as Model/Top.v instantiates it
                         (parse_with_table: the number oracle is Base/Decimal.parse_float).
     json_number_shape   on every JSON number text, parse_float is dec_to_f64 of the mantissa and
                         power of ten read off the text.   [axiom-free]
     json_number_total   ... hence the oracle answers a value or "range", never "syntax".
     jnum_nearest        "number literals denote the nearest double": the value is the binary64
                         nearest (ties to even) to the real number the text writes, with the sign
                         of the text (-0 is the negative zero).  These two depend on the four
                         standard axioms of Coq's Reals / Flocq through DecimalProofs
                         (dec_to_f64_correct); nothing else does.

   How the statement differs from the informal one / from C11_denotes_partial, and why:
   * Numbers.  Spec/C11.jtext is parameterised by the denotation of number tokens.  It is
     instantiated with [jnum parse_number]: an unsigned JSON number text denotes what the
     conversion oracle (strconv.ParseFloat) returns for it, a leading minus negates (the parser
     reads the minus as the negation operator and [optimize] folds it into the literal).  The
     theorems hold for ANY oracle; for the oracle of Model/Top.v jnum_nearest identifies the
     value as the nearest double.  Texts whose nearest double is infinite (1e999) are JSON but
     denote no JSONata number: they are outside [jnum], and C11_number_range shows that they are
     rejected at compile time.  This is the only class of JSON texts not covered.
   * Evaluation fuel.  "ev (S fuel) n ... for all fuel" is false for nested containers in the
     model (ev 1 (NArray [NNull]) is OutOfFuel, see ex_fuel_needed): the evaluator spends one unit
     per array level and two per object level.  The theorem is stated for every fuel >= jfuel n,
     and jfuel n <= |t| is proved, so every fuel >= |t| works. *)
From JV Require Import Model.Value Model.Eval Proofs.MonadFacts Spec.C14 Proofs.C14Proofs.
From JV Require Import Model.Lexer Model.Parser Proofs.LexerProofs Proofs.ParserProofs
  Proofs.Utf8Proofs Proofs.C04Proofs Spec.C11 Proofs.C11Proofs.
From Coq Require Import List Lia ZifyBool ZifyNat Permutation Sorted Bool Arith.
Import ListNotations.
Open Scope list_scope.
Open Scope string_scope.
Open Scope Z_scope.

(* ==================================================================================== *)
(* 1. Lexer: one exact-result lemma per JSON token kind                                  *)
(* ==================================================================================== *)

(* [rem inp q s]: position q is inside the input and the remaining input there is s *)
Definition rem (inp : string) (q : Z) (s : string) : Prop :=
  0 <= q <= Z.of_nat (slen inp) /\ sdrop (Z.to_nat q) inp = s.

Lemma rem_len inp q s : rem inp q s -> 0 <= q /\ Z.of_nat (slen s) = Z.of_nat (slen inp) - q.
Proof. intros [Hq <-]. rewrite slen_sdrop. lia. Qed.

Lemma rem_app inp q a b : rem inp q (a ++ b) -> rem inp (q + Z.of_nat (slen a)) b.
Proof.
  intros H. pose proof (rem_len _ _ _ H) as Hl. rewrite slen_app in Hl. destruct H as [Hq Hs].
  split; [lia|]. rewrite (sdrop_at inp q _ (slen a) ltac:(lia) Hs). apply sdrop_app_exact.
Qed.

Lemma rem_cons inp q c s : rem inp q (String c s) -> rem inp (q + 1) s.
Proof. intros H. apply (rem_app inp q (String c EmptyString) s). exact H. Qed.

Lemma rem_nil inp q : rem inp q EmptyString -> q = Z.of_nat (slen inp).
Proof. intros H. pose proof (rem_len _ _ _ H) as Hl. cbn in Hl. lia. Qed.

(* the part of [next] after the whitespace has been skipped and the first rune c read *)
Definition next_body (fuel : nat) (c : rune) : LM token :=
  do two <- trySymbols2 (lookupSymbol2 c);
  match two with
  | Some t => sret t
  | None =>
      let tt1 := lookupSymbol1 c in
      if tt_pos tt1 then newToken tt1
      else if (c =? ch """") || (c =? ch "'") then (ignore ;; scanString fuel c)
      else if (ch "0" <=? c) && (c <=? ch "9") then (backup ;; scanNumber fuel)
      else if c =? ch "`" then (ignore ;; scanEscapedName fuel c)
      else ((fun l => ROk (tt, set_current (start l) l)) ;; scanName fuel)
  end.

Lemma next_nonws fuel b inp st q wd c rest :
  rem inp q (String c rest) -> byte_of c < 128 -> isWhitespace (byte_of c) = false ->
  byte_of c <> 47 -> (slen (String c rest) < fuel)%nat ->
  next fuel b (mkL inp st q wd) = next_body fuel (byte_of c) (mkL inp q (q + 1) 1).
Proof.
  intros [[Hq0 Hq1] Hs] Hc Hw H47 Hf.
  assert (Hws : ws_len (String c rest) = 0%nat).
  { cbn [ws_len]. unfold is_ws_byte. rewrite Hw. reflexivity. }
  unfold next. unfold sbind at 1.
  rewrite skipWhitespace_mkL; [|lia|rewrite Hs, Hws; lia].
  rewrite Hs, Hws. replace (q + Z.of_nat 0) with q by lia. rewrite Hs.
  unfold sbind at 1. rewrite nextRune_mkL by lia. rewrite Hs. cbv beta iota zeta.
  rewrite decode_rune_ascii by lia. cbn [fst snd].
  pose proof (byte_of_range c) as Hr.
  replace (byte_of c =? eof) with false by (unfold eof; lia).
  replace (byte_of c =? ch "/") with false by (change (ch "/") with 47; lia).
  rewrite andb_false_r. reflexivity.
Qed.

Lemma slice_one inp q c rest : rem inp q (String c rest) -> forall k, (k <= slen (String c rest))%nat ->
  sslice (Z.to_nat q) (Z.to_nat (q + Z.of_nat k)) inp = stake k (String c rest).
Proof.
  intros [Hq Hs] k Hk. unfold sslice.
  replace (Z.to_nat (q + Z.of_nat k) - Z.to_nat q)%nat with k by lia. rewrite Hs. reflexivity.
Qed.

(* one-character symbols that do not start a two-character symbol *)
Lemma next_sym1 fuel b inp st q wd c rest ty :
  rem inp q (String c rest) -> byte_of c < 128 -> isWhitespace (byte_of c) = false ->
  byte_of c <> 47 -> lookupSymbol2 (byte_of c) = [] -> lookupSymbol1 (byte_of c) = ty ->
  tt_pos ty = true -> (slen (String c rest) < fuel)%nat ->
  next fuel b (mkL inp st q wd) =
  ROk ({| ttype := ty; tvalue := String c EmptyString; tpos := q |}, mkL inp (q + 1) (q + 1) 0).
Proof.
  intros Hrem Hc Hw H47 H2 H1 Hp Hf.
  rewrite (next_nonws fuel b inp st q wd c rest) by assumption.
  unfold next_body. rewrite H2. cbn [trySymbols2]. unfold sbind at 1, sret at 1. cbv zeta.
  rewrite H1, Hp.
  pose proof (rem_len _ _ _ Hrem) as Hl. cbn [slen String.length] in Hl.
  rewrite newToken_mkL by (destruct Hrem; lia).
  replace (q + 1) with (q + Z.of_nat 1) at 1 by lia.
  rewrite (slice_one inp q c rest Hrem 1) by (cbn [slen String.length]; lia).
  reflexivity.
Qed.

(* the colon, when no = follows *)
Lemma next_colon fuel b inp st q wd rest :
  rem inp q (String ":" rest) -> headP (fun r => r =? 61) rest = false ->
  (slen (String ":" rest) < fuel)%nat ->
  next fuel b (mkL inp st q wd) =
  ROk ({| ttype := typeColon; tvalue := ":"; tpos := q |}, mkL inp (q + 1) (q + 1) 0).
Proof.
  intros Hrem Hh Hf.
  rewrite (next_nonws fuel b inp st q wd ":" rest Hrem) by (try assumption; vm_compute; congruence).
  unfold next_body.
  change (lookupSymbol2 (byte_of ":")) with [(61, typeAssign)].
  cbn [trySymbols2]. unfold sbind at 1. unfold sbind at 1. unfold acceptRune.
  pose proof (rem_cons _ _ _ _ Hrem) as [Hq1 Hs1].
  destruct (accept_cls (fun r => r =? 61) ltac:(intros; lia) inp q (q + 1) 1 ltac:(lia)) as (w & Ha).
  rewrite Ha, Hs1, Hh. cbv beta iota. cbn [trySymbols2]. unfold sret at 1. cbv beta iota zeta.
  change (lookupSymbol1 (byte_of ":")) with typeColon. cbn [tt_pos tt_eqb tt_num Nat.eqb negb].
  rewrite newToken_mkL by (destruct Hrem; lia).
  replace (q + 1) with (q + Z.of_nat 1) at 1 by lia.
  rewrite (slice_one inp q ":" rest Hrem 1) by (cbn [slen String.length]; lia).
  reflexivity.
Qed.

(* ---- names and keywords ---- *)

Definition sym_byte (r : rune) : bool :=
  tt_pos (lookupSymbol1 r) || negb (is_nil (lookupSymbol2 r)).
Definition name_byte (c : ascii) : bool :=
  (byte_of c <? 128) && negb (isWhitespace (byte_of c)) && negb (sym_byte (byte_of c)).
Fixpoint all_name (s : string) : bool :=
  match s with EmptyString => true | String c r => name_byte c && all_name r end.
(* what ends a name: the end of the input, whitespace or a symbol character *)
Definition name_end (rest : string) : bool :=
  match rest with
  | EmptyString => true
  | String c _ => (byte_of c <? 128) && (isWhitespace (byte_of c) || sym_byte (byte_of c))
  end.

Lemma scanNameLoop_name : forall body fuel first inp st cur wd rest,
  0 <= cur -> sdrop (Z.to_nat cur) inp = body ++ rest -> all_name body = true ->
  name_end rest = true -> (first = true -> body <> EmptyString) -> (slen body < fuel)%nat ->
  exists w, scanNameLoop fuel first (mkL inp st cur wd) =
            ROk (tt, mkL inp st (cur + Z.of_nat (slen body)) w).
Proof.
  induction body as [|c body IH]; intros fuel first inp st cur wd rest Hc Hs Hn He Hfirst Hf.
  - destruct first; [exfalso; apply Hfirst; reflexivity|].
    destruct fuel as [|f]; [cbn in Hf; lia|]. cbn [scanNameLoop append] in *.
    unfold sbind. rewrite nextRune_mkL by exact Hc. rewrite Hs.
    destruct rest as [|c r].
    + exists 0. replace (eof =? eof) with true by reflexivity. unfold sret.
      f_equal. f_equal. apply mkL_eq; cbn; lia.
    + cbn [name_end] in He. apply andb_true_iff in He as [Ha He]. cbv beta iota zeta.
      rewrite decode_rune_ascii by lia. cbn [fst snd].
      pose proof (byte_of_range c) as Hr.
      replace (byte_of c =? eof) with false by (unfold eof; lia).
      exists (Z.of_nat 1). destruct (isWhitespace (byte_of c)) eqn:Ew.
      * rewrite backup_mkL. f_equal. f_equal. apply mkL_eq; cbn; lia.
      * cbn [orb] in He. unfold sym_byte in He. cbn [negb andb]. rewrite He.
        rewrite backup_mkL. f_equal. f_equal. apply mkL_eq; cbn; lia.
  - destruct fuel as [|f]; [cbn in Hf; lia|]. cbn [scanNameLoop append all_name] in *.
    apply andb_true_iff in Hn as [Hc1 Hn]. unfold name_byte in Hc1.
    apply andb_true_iff in Hc1 as [Hc1 Hc3]. apply andb_true_iff in Hc1 as [Hc1 Hc2].
    apply negb_true_iff in Hc2, Hc3.
    unfold sbind. rewrite nextRune_mkL by exact Hc. rewrite Hs. cbv beta iota zeta.
    rewrite decode_rune_ascii by lia. cbn [fst snd].
    pose proof (byte_of_range c) as Hr.
    replace (byte_of c =? eof) with false by (unfold eof; lia).
    rewrite Hc2. unfold sym_byte in Hc3. rewrite Hc3, andb_false_r.
    destruct (IH f false inp st (cur + Z.of_nat 1) (Z.of_nat 1) rest) as (w & Hw); auto.
    + lia.
    + replace (Z.to_nat (cur + Z.of_nat 1)) with (S (Z.to_nat cur)) by lia.
      eapply sdrop_next; eauto.
    + discriminate.
    + cbn [slen String.length] in Hf. unfold slen. lia.
    + exists w. rewrite Hw. f_equal. f_equal. apply mkL_eq; cbn [slen String.length]; unfold slen; lia.
Qed.

(* the first byte of a name: nothing that [next] dispatches elsewhere, and not the dollar sign *)
Definition name_start (c : ascii) : bool :=
  let r := byte_of c in
  name_byte c && negb (r =? 47) && negb (r =? 34) && negb (r =? 39) && negb (isDigit r)
  && negb (r =? 96) && negb (r =? 36).

Lemma next_name fuel b inp st q wd c body rest :
  rem inp q (String c body ++ rest) -> name_start c = true -> all_name body = true ->
  name_end rest = true -> (S (slen (String c body ++ rest)) < fuel)%nat ->
  next fuel b (mkL inp st q wd) =
  ROk (let t := {| ttype := typeName; tvalue := String c body; tpos := q |} in
       let kw := lookupKeyword (String c body) in
       if tt_pos kw then set_ttype kw t else t,
       mkL inp (q + Z.of_nat (slen (String c body))) (q + Z.of_nat (slen (String c body))) 0).
Proof.
  intros Hrem Hst Hn He Hf. unfold name_start in Hst. cbv zeta in Hst.
  do 6 (apply andb_true_iff in Hst as [Hst ?H]).
  repeat match goal with H : negb _ = true |- _ => apply negb_true_iff in H end.
  assert (Hnb := Hst). unfold name_byte in Hst.
  apply andb_true_iff in Hst as [Hc1 Hc3]. apply andb_true_iff in Hc1 as [Hc1 Hc2].
  apply negb_true_iff in Hc2, Hc3. unfold sym_byte in Hc3. apply orb_false_iff in Hc3 as [Hs1 Hs2].
  apply negb_false_iff in Hs2.
  change (String c body ++ rest) with (String c (body ++ rest)) in *.
  rewrite (next_nonws fuel b inp st q wd c (body ++ rest) Hrem) by (try assumption; try lia).
  unfold next_body.
  destruct (lookupSymbol2 (byte_of c)) as [|x l] eqn:E2; [|discriminate Hs2].
  cbn [trySymbols2]. unfold sbind at 1, sret at 1. cbv zeta. rewrite Hs1.
  change (ch """") with 34. change (ch "'") with 39. change (ch "`") with 96.
  rewrite H3, H2. cbn [orb].
  change ((ch "0" <=? byte_of c) && (byte_of c <=? ch "9")) with (isDigit (byte_of c)). rewrite H1, H0.
  unfold sbind at 1. cbn [mkL start set_current input current width err].
  change (set_current q (mkL inp q (q + 1) 1)) with (mkL inp q q 1).
  unfold scanName. unfold sbind at 1. unfold acceptRune.
  destruct Hrem as [Hq Hs].
  destruct (accept_cls (fun r => r =? ch "$") ltac:(change (ch "$") with 36; intros; lia) inp q q 1 ltac:(lia)) as (w & Ha).
  rewrite Ha, Hs. cbn [headP]. change (ch "$") with 36. rewrite H. cbv beta iota.
  unfold sbind at 1, sret at 1. cbn [negb].
  destruct (scanNameLoop_name (String c body) fuel true inp q q w rest) as (w' & Hl); auto.
  - lia.
  - cbn [all_name]. rewrite Hnb, Hn. reflexivity.
  - discriminate.
  - change (String c (body ++ rest)) with (String c body ++ rest) in Hf.
    rewrite slen_app in Hf. lia.
  - unfold sbind at 1. rewrite Hl. unfold sbind at 1.
    assert (Hl2 : Z.of_nat (slen (String c (body ++ rest))) = Z.of_nat (slen inp) - q).
    { rewrite <- Hs, slen_sdrop. lia. }
    change (String c (body ++ rest)) with (String c body ++ rest) in Hl2. rewrite slen_app in Hl2.
    rewrite newToken_mkL by lia.
    assert (Hv : sslice (Z.to_nat q) (Z.to_nat (q + Z.of_nat (slen (String c body)))) inp = String c body).
    { unfold sslice. replace (Z.to_nat (q + Z.of_nat (slen (String c body))) - Z.to_nat q)%nat
        with (slen (String c body)) by lia.
      rewrite Hs. change (String c (body ++ rest)) with (String c body ++ rest). apply stake_app_exact. }
    rewrite Hv. cbv zeta. cbn [tvalue].
    destruct (tt_pos (lookupKeyword (String c body))); reflexivity.
Qed.

(* the three JSON keywords *)
Lemma next_null fuel b inp st q wd rest : rem inp q ("null" ++ rest) -> name_end rest = true ->
  (S (slen ("null" ++ rest)) < fuel)%nat ->
  next fuel b (mkL inp st q wd) =
  ROk ({| ttype := typeNull; tvalue := "null"; tpos := q |}, mkL inp (q + 4) (q + 4) 0).
Proof. intros H He Hf. rewrite (next_name fuel b inp st q wd "n" "ull" rest H); auto. Qed.

Lemma next_true fuel b inp st q wd rest : rem inp q ("true" ++ rest) -> name_end rest = true ->
  (S (slen ("true" ++ rest)) < fuel)%nat ->
  next fuel b (mkL inp st q wd) =
  ROk ({| ttype := typeBoolean; tvalue := "true"; tpos := q |}, mkL inp (q + 4) (q + 4) 0).
Proof. intros H He Hf. rewrite (next_name fuel b inp st q wd "t" "rue" rest H); auto. Qed.

Lemma next_false fuel b inp st q wd rest : rem inp q ("false" ++ rest) -> name_end rest = true ->
  (S (slen ("false" ++ rest)) < fuel)%nat ->
  next fuel b (mkL inp st q wd) =
  ROk ({| ttype := typeBoolean; tvalue := "false"; tpos := q |}, mkL inp (q + 5) (q + 5) 0).
Proof. intros H He Hf. rewrite (next_name fuel b inp st q wd "f" "alse" rest H); auto. Qed.

(* end of input *)
Lemma next_eof fuel b inp st q wd : rem inp q EmptyString -> (0 < fuel)%nat ->
  next fuel b (mkL inp st q wd) =
  ROk ({| ttype := typeEOF; tvalue := ""; tpos := q |}, mkL inp q q 0).
Proof. intros H Hf. rewrite (rem_nil _ _ H). apply next_at_end. exact Hf. Qed.

(* leading whitespace *)
Lemma next_skip_ws fuel b inp st q wd ws s st' wd' :
  rem inp q (ws ++ s) -> all_ws ws = true -> (slen inp < fuel)%nat ->
  next fuel b (mkL inp st q wd) = next fuel b (mkL inp st' (q + Z.of_nat (slen ws)) wd').
Proof.
  intros [Hq Hs] Hws Hf.
  apply (C04_ws fuel b (mkL inp st q wd) (mkL inp st' (q + Z.of_nat (slen ws)) wd') ws s); auto.
  unfold llength. cbn [mkL input current]. lia.
Qed.

(* ==================================================================================== *)
(* 2. The parser's [advance] on JSON tokens                                              *)
(* ==================================================================================== *)

Definition mkP (inp : string) (st q wd : Z) (tk : token) : parser :=
  {| plexer := mkL inp st q wd; ptoken := tk |}.

(* [adv inp q p]: p is the parser state obtained by advancing from input position q *)
Definition adv (inp : string) (q : Z) (p : parser) : Prop :=
  exists b st wd tk, advance b (mkP inp st q wd tk) = ROk (tt, p).

Lemma advance_next b inp st q wd tk t l' :
  next (S (S (slen inp))) b (mkL inp st q wd) = ROk (t, l') -> tt_eqb (ttype t) typeError = false ->
  advance b (mkP inp st q wd tk) = ROk (tt, {| plexer := l'; ptoken := t |}).
Proof.
  intros H Ht. unfold advance, mkP. cbn [plexer]. unfold lex_fuel. cbn [mkL input].
  rewrite H, Ht. reflexivity.
Qed.

Lemma adv_det inp q p p0 : adv inp q p ->
  (forall b st wd tk, advance b (mkP inp st q wd tk) = ROk (tt, p0)) -> p = p0.
Proof. intros (b & st & wd & tk & H) H0. rewrite H0 in H. injection H as <-. reflexivity. Qed.

Definition sym1_ok (k : Z) (ty : tokentype) : bool :=
  (k <? 128) && negb (isWhitespace k) && negb (k =? 47) && is_nil (lookupSymbol2 k)
  && tt_eqb (lookupSymbol1 k) ty && tt_pos ty && negb (tt_eqb ty typeError).

Definition tokP (inp : string) (q' wd' : Z) (ty : tokentype) (v : string) (pos : Z) : parser :=
  {| plexer := mkL inp q' q' wd'; ptoken := {| ttype := ty; tvalue := v; tpos := pos |} |}.

Lemma A_sym1 k ty b inp st q wd tk c rest :
  rem inp q (String c rest) -> byte_of c = k -> sym1_ok k ty = true ->
  advance b (mkP inp st q wd tk) = ROk (tt, tokP inp (q + 1) 0 ty (String c EmptyString) q).
Proof.
  intros Hrem Hk Hok. unfold sym1_ok in Hok.
  do 6 (apply andb_true_iff in Hok as [Hok ?H]).
  apply negb_true_iff in H, H3, H4. apply tt_eqb_eq in H1.
  pose proof (rem_len _ _ _ Hrem) as Hl.
  apply advance_next; [|exact H].
  apply next_sym1 with (rest := rest); rewrite ?Hk; auto; try lia.
  destruct (lookupSymbol2 k); [reflexivity|discriminate].
Qed.

Lemma A_colon b inp st q wd tk rest :
  rem inp q (String ":" rest) -> headP (fun r => r =? 61) rest = false ->
  advance b (mkP inp st q wd tk) = ROk (tt, tokP inp (q + 1) 0 typeColon ":" q).
Proof.
  intros Hrem Hh. pose proof (rem_len _ _ _ Hrem) as Hl.
  apply advance_next; [|reflexivity]. apply next_colon with (rest := rest); auto. lia.
Qed.

Lemma A_eof b inp st q wd tk : rem inp q EmptyString ->
  advance b (mkP inp st q wd tk) = ROk (tt, tokP inp q 0 typeEOF "" q).
Proof. intros Hrem. apply advance_next; [|reflexivity]. apply next_eof; auto. lia. Qed.

Lemma A_null b inp st q wd tk rest : rem inp q ("null" ++ rest) -> name_end rest = true ->
  advance b (mkP inp st q wd tk) = ROk (tt, tokP inp (q + 4) 0 typeNull "null" q).
Proof.
  intros Hrem He. pose proof (rem_len _ _ _ Hrem) as Hl.
  apply advance_next; [|reflexivity]. apply next_null with (rest := rest); auto. lia.
Qed.
Lemma A_true b inp st q wd tk rest : rem inp q ("true" ++ rest) -> name_end rest = true ->
  advance b (mkP inp st q wd tk) = ROk (tt, tokP inp (q + 4) 0 typeBoolean "true" q).
Proof.
  intros Hrem He. pose proof (rem_len _ _ _ Hrem) as Hl.
  apply advance_next; [|reflexivity]. apply next_true with (rest := rest); auto. lia.
Qed.
Lemma A_false b inp st q wd tk rest : rem inp q ("false" ++ rest) -> name_end rest = true ->
  advance b (mkP inp st q wd tk) = ROk (tt, tokP inp (q + 5) 0 typeBoolean "false" q).
Proof.
  intros Hrem He. pose proof (rem_len _ _ _ Hrem) as Hl.
  apply advance_next; [|reflexivity]. apply next_false with (rest := rest); auto. lia.
Qed.

Lemma A_number b inp st q wd tk t rest : rem inp q (t ++ rest) -> jnumber_text t ->
  number_stop rest = true ->
  advance b (mkP inp st q wd tk) = ROk (tt, tokP inp (q + Z.of_nat (slen t)) 0 typeNumber t q).
Proof.
  intros Hrem Ht Hst. pose proof (rem_len _ _ _ Hrem) as Hl. destruct Hrem as [Hq Hs].
  apply advance_next; [|reflexivity].
  apply (scan_json_number _ b inp st q wd t rest); auto; lia.
Qed.

Lemma A_string b inp st q wd tk body rest :
  rem inp q ((dquote ++ body ++ dquote) ++ rest) -> body_ok 34 body = true ->
  advance b (mkP inp st q wd tk) =
  ROk (tt, tokP inp (q + Z.of_nat (slen (dquote ++ body ++ dquote))) 1 typeString body (q + 1)).
Proof.
  intros Hrem Hok. pose proof (rem_len _ _ _ Hrem) as Hl. destruct Hrem as [Hq Hs].
  assert (E : (dquote ++ body ++ dquote) ++ rest =
              String (ascii_of_Z 34) (body ++ String (ascii_of_Z 34) rest)).
  { unfold dquote. cbn [append]. rewrite sapp_assoc. reflexivity. }
  rewrite E in Hs, Hl.
  assert (Hb : slen (dquote ++ body ++ dquote) = (slen body + 2)%nat).
  { rewrite !slen_app. unfold dquote. cbn [slen String.length]. lia. }
  assert (Hl2 : (slen body + 2 <= slen inp)%nat).
  { cbn [slen String.length] in Hl. fold (slen (body ++ String (ascii_of_Z 34) rest)) in Hl.
    rewrite slen_app in Hl. cbn [slen String.length] in Hl. lia. }
  pose proof (scan_string_spec 34 body (S (S (slen inp))) b inp st q wd rest (or_introl eq_refl) Hok
                ltac:(lia) Hs ltac:(lia)) as Hn.
  rewrite (advance_next b inp st q wd tk _ _ Hn eq_refl).
  unfold tokP. rewrite Hb. do 3 f_equal. apply mkL_eq; lia.
Qed.

Lemma A_ws b inp st q wd tk ws s st' wd' tk' : rem inp q (ws ++ s) -> all_ws ws = true ->
  advance b (mkP inp st q wd tk) = advance b (mkP inp st' (q + Z.of_nat (slen ws)) wd' tk').
Proof.
  intros Hrem Hws. unfold advance, mkP. cbn [plexer]. unfold lex_fuel. cbn [mkL input].
  rewrite (next_skip_ws _ b inp st q wd ws s st' wd' Hrem Hws) by lia. reflexivity.
Qed.

Lemma adv_ws inp q p ws s : adv inp q p -> rem inp q (ws ++ s) -> all_ws ws = true ->
  adv inp (q + Z.of_nat (slen ws)) p.
Proof.
  intros (b & st & wd & tk & H) Hrem Hws. exists b, st, wd, tk.
  rewrite <- (A_ws b inp st q wd tk ws s st wd tk Hrem Hws). exact H.
Qed.

(* JSON whitespace is lexer whitespace *)
Lemma jws_all_ws w : jws w = true -> all_ws w = true.
Proof.
  induction w as [|c w IH]; [reflexivity|]. cbn [jws all_ws]. intros H.
  apply andb_true_iff in H as [Hc Hw]. rewrite (IH Hw), andb_true_r.
  unfold jws_char in Hc. unfold is_ws_byte, isWhitespace. change (ch " ") with 32. lia.
Qed.

(* ---- what may follow a JSON text: optional whitespace, then the end of the input or one of
   , ] } : (the colon not followed by =).  [stop_ty rest] is the type of that token. ---- *)

Definition stop_head (s : string) : option tokentype :=
  match s with
  | EmptyString => Some typeEOF
  | String c r =>
      let k := byte_of c in
      if k =? 44 then Some typeComma
      else if k =? 93 then Some typeBracketClose
      else if k =? 125 then Some typeBraceClose
      else if k =? 58 then (if headP (fun r => r =? 61) r then None else Some typeColon)
      else None
  end.
Definition stop_ty (s : string) : option tokentype := stop_head (sdrop (ws_len s) s).

Lemma ws_split s : exists ws r, s = ws ++ r /\ all_ws ws = true /\ r = sdrop (ws_len s) s.
Proof.
  induction s as [|c s (ws & r & E & Hws & Hr)].
  - exists EmptyString, EmptyString. repeat split.
  - cbn [ws_len]. destruct (is_ws_byte c) eqn:Ec.
    + exists (String c ws), r. cbn [append all_ws sdrop]. rewrite Ec, Hws, <- E. repeat split. exact Hr.
    + exists EmptyString, (String c s). repeat split.
Qed.

Lemma stop_ty_ws w rest : all_ws w = true -> stop_ty (w ++ rest) = stop_ty rest.
Proof.
  intros Hw. unfold stop_ty. rewrite ws_len_app by exact Hw.
  rewrite <- sdrop_sdrop, sdrop_app_exact. reflexivity.
Qed.

Lemma stop_head_bp s ty : stop_head s = Some ty ->
  lookupBp ty = 0 /\ tt_eqb ty typeError = false /\
  (ty = typeEOF \/ ty = typeComma \/ ty = typeBracketClose \/ ty = typeBraceClose \/ ty = typeColon).
Proof.
  destruct s as [|c r]; cbn [stop_head]; cbv zeta.
  - intros H. injection H as <-. repeat split; auto.
  - repeat match goal with |- (if ?b then _ else _) = _ -> _ => destruct b end;
      intros H; try discriminate H; injection H as <-; repeat split; auto 10.
Qed.

(* advancing onto the token after a JSON text succeeds and yields that token *)
Lemma adv_stop b inp st q wd tk rest ty : rem inp q rest -> stop_ty rest = Some ty ->
  exists p, advance b (mkP inp st q wd tk) = ROk (tt, p) /\ ttype (ptoken p) = ty.
Proof.
  intros Hrem Hst. destruct (ws_split rest) as (ws & r & E & Hws & Hr).
  unfold stop_ty in Hst. rewrite <- Hr in Hst. subst rest.
  rewrite (A_ws b inp st q wd tk ws r st wd tk Hrem Hws).
  apply rem_app in Hrem. set (q' := q + Z.of_nat (slen ws)) in *.
  destruct r as [|c r]; cbn [stop_head] in Hst; cbv zeta in Hst.
  - injection Hst as <-. eexists. split; [apply A_eof; exact Hrem|reflexivity].
  - destruct (byte_of c =? 44) eqn:E1.
    { injection Hst as <-. eexists. split; [eapply (A_sym1 44 typeComma); [exact Hrem|lia|reflexivity]|reflexivity]. }
    destruct (byte_of c =? 93) eqn:E2.
    { injection Hst as <-. eexists. split; [eapply (A_sym1 93 typeBracketClose); [exact Hrem|lia|reflexivity]|reflexivity]. }
    destruct (byte_of c =? 125) eqn:E3.
    { injection Hst as <-. eexists. split; [eapply (A_sym1 125 typeBraceClose); [exact Hrem|lia|reflexivity]|reflexivity]. }
    destruct (byte_of c =? 58) eqn:E4; [|discriminate].
    destruct (headP (fun r0 => r0 =? 61) r) eqn:E5; [discriminate|]. injection Hst as <-.
    assert (c = ":"%char) as ->.
    { rewrite <- (ascii_of_Z_byte_of c). replace (byte_of c) with 58 by lia. reflexivity. }
    eexists. split; [eapply A_colon; [exact Hrem|exact E5]|reflexivity].
Qed.

Lemma adv_stop_ty inp q p rest ty : adv inp q p -> rem inp q rest -> stop_ty rest = Some ty ->
  ttype (ptoken p) = ty /\ lookupBp ty = 0.
Proof.
  intros (b & st & wd & tk & H) Hrem Hst.
  destruct (adv_stop b inp st q wd tk rest ty Hrem Hst) as (p0 & H0 & Hty).
  rewrite H0 in H. injection H as <-. split; [exact Hty|].
  unfold stop_ty in Hst. apply stop_head_bp in Hst. tauto.
Qed.

(* the first byte of what follows a JSON text: whitespace, or , ] } : — it can continue neither
   a number nor a name *)
Definition sep_head (s : string) : bool :=
  match s with
  | EmptyString => true
  | String c _ => let k := byte_of c in
      is_ws_byte c || (k =? 44) || (k =? 93) || (k =? 125) || (k =? 58)
  end.

Lemma stop_sep rest ty : stop_ty rest = Some ty -> sep_head rest = true.
Proof.
  unfold stop_ty. destruct rest as [|c r]; [reflexivity|]. cbn [ws_len sep_head]. cbv zeta.
  destruct (is_ws_byte c); [reflexivity|]. cbn [sdrop stop_head orb]. cbv zeta.
  repeat match goal with |- (if ?b then _ else _) = _ -> _ => destruct b eqn:? end;
    intros H; try discriminate H; lia.
Qed.

Lemma sep_number_stop rest : sep_head rest = true -> number_stop rest = true.
Proof.
  destruct rest as [|c r]; [reflexivity|]. unfold sep_head, number_stop, is_ws_byte, isWhitespace. cbn [headP].
  unfold isDigit, isDot, isE. change (ch " ") with 32. change (ch "0") with 48. change (ch "9") with 57. lia.
Qed.

Lemma sep_name_end rest : sep_head rest = true -> name_end rest = true.
Proof.
  destruct rest as [|c r]; [reflexivity|]. unfold sep_head, name_end, is_ws_byte. cbv zeta. intros H.
  destruct (isWhitespace (byte_of c)) eqn:Ew.
  - apply isWhitespace_lt in Ew. cbn [orb]. lia.
  - cbn [orb] in *.
    assert (Hk : byte_of c = 44 \/ byte_of c = 93 \/ byte_of c = 125 \/ byte_of c = 58) by lia.
    destruct Hk as [-> | [-> | [-> | ->]]]; reflexivity.
Qed.

(* ==================================================================================== *)
(* 3. Parser: generic one-step equations (any recursive call pe)                          *)
(* ==================================================================================== *)

Lemma sbind_ok {S A B} (m : SM S A) (k : A -> SM S B) s a s' :
  m s = ROk (a, s') -> sbind m k s = k a s'.
Proof. intros H. unfold sbind. rewrite H. reflexivity. Qed.

Lemma consume_ok ty b p : ttype (ptoken p) = ty -> consume ty b p = advance b p.
Proof.
  intros H. unfold consume. rewrite bind_curToken, H.
  replace (tt_eqb ty ty) with true by (symmetry; apply tt_eqb_eq; reflexivity). reflexivity.
Qed.

Section Steps.
Variable pe : Z -> PM node.
Variable lf : nat.

Lemma parseArray_nil tok p1 p2 :
  ttype (ptoken p1) = typeBracketClose -> advance false p1 = ROk (tt, p2) ->
  parseArray lf pe tok p1 = ROk (NArray [], p2).
Proof.
  intros Hty Ha. unfold parseArray. rewrite bind_curType, Hty. cbn [tt_eqb tt_num Nat.eqb negb].
  rewrite (sbind_ok _ _ p1 [] p1 eq_refl).
  rewrite (sbind_ok _ _ p1 tt p2); [reflexivity|]. rewrite consume_ok by exact Hty. exact Ha.
Qed.

Lemma parseArray_items tok p1 items p2 p3 :
  tt_eqb (ttype (ptoken p1)) typeBracketClose = false ->
  parseArrayLoop pe lf [] p1 = ROk (items, p2) ->
  ttype (ptoken p2) = typeBracketClose -> advance false p2 = ROk (tt, p3) ->
  parseArray lf pe tok p1 = ROk (NArray items, p3).
Proof.
  intros Hty Hl Hty2 Ha. unfold parseArray. rewrite bind_curType, Hty. cbn [negb].
  rewrite (sbind_ok _ _ p1 items p2 Hl).
  rewrite (sbind_ok _ _ p2 tt p3); [reflexivity|]. rewrite consume_ok by exact Hty2. exact Ha.
Qed.

Lemma parseArrayLoop_last n items p r p1 :
  pe 0 p = ROk (r, p1) -> ttype (ptoken p1) = typeBracketClose ->
  parseArrayLoop pe (S n) items p = ROk ((items ++ [r])%list, p1).
Proof.
  intros He Hty. cbn [parseArrayLoop]. rewrite (sbind_ok _ _ p r p1 He).
  rewrite bind_curType, Hty. cbn [tt_eqb tt_num Nat.eqb].
  rewrite (sbind_ok _ _ p1 r p1 eq_refl). rewrite bind_curType, Hty. reflexivity.
Qed.

Lemma parseArrayLoop_more n items p r p1 p2 :
  pe 0 p = ROk (r, p1) -> ttype (ptoken p1) = typeComma -> advance true p1 = ROk (tt, p2) ->
  parseArrayLoop pe (S n) items p = parseArrayLoop pe n (items ++ [r])%list p2.
Proof.
  intros He Hty Ha. cbn [parseArrayLoop]. rewrite (sbind_ok _ _ p r p1 He).
  rewrite bind_curType, Hty. cbn [tt_eqb tt_num Nat.eqb].
  rewrite (sbind_ok _ _ p1 r p1 eq_refl). rewrite bind_curType, Hty. cbn [tt_eqb tt_num Nat.eqb negb].
  rewrite (sbind_ok _ _ p1 tt p2); [reflexivity|]. rewrite consume_ok by exact Hty. exact Ha.
Qed.

Lemma parseObject_nil tok p1 p2 :
  ttype (ptoken p1) = typeBraceClose -> advance false p1 = ROk (tt, p2) ->
  parseObject lf pe tok p1 = ROk (NObject [], p2).
Proof.
  intros Hty Ha. unfold parseObject, parseObjectPairs.
  rewrite (sbind_ok _ _ p1 [] p2); [reflexivity|].
  rewrite bind_curType, Hty. cbn [tt_eqb tt_num Nat.eqb negb].
  rewrite (sbind_ok _ _ p1 [] p1 eq_refl).
  rewrite (sbind_ok _ _ p1 tt p2); [reflexivity|]. rewrite consume_ok by exact Hty. exact Ha.
Qed.

Lemma parseObject_items tok p1 pairs p2 p3 :
  tt_eqb (ttype (ptoken p1)) typeBraceClose = false ->
  parseObjectLoop pe lf [] p1 = ROk (pairs, p2) ->
  ttype (ptoken p2) = typeBraceClose -> advance false p2 = ROk (tt, p3) ->
  parseObject lf pe tok p1 = ROk (NObject pairs, p3).
Proof.
  intros Hty Hl Hty2 Ha. unfold parseObject, parseObjectPairs.
  rewrite (sbind_ok _ _ p1 pairs p3); [reflexivity|].
  rewrite bind_curType, Hty. cbn [negb].
  rewrite (sbind_ok _ _ p1 pairs p2 Hl).
  rewrite (sbind_ok _ _ p2 tt p3); [reflexivity|]. rewrite consume_ok by exact Hty2. exact Ha.
Qed.

Lemma parseObjectLoop_last n pairs p k p1 p2 v p3 :
  pe 0 p = ROk (k, p1) -> ttype (ptoken p1) = typeColon -> advance true p1 = ROk (tt, p2) ->
  pe 0 p2 = ROk (v, p3) -> ttype (ptoken p3) = typeBraceClose ->
  parseObjectLoop pe (S n) pairs p = ROk ((pairs ++ [(k, v)])%list, p3).
Proof.
  intros Hk Hty1 Ha Hv Hty3. cbn [parseObjectLoop]. rewrite (sbind_ok _ _ p k p1 Hk).
  rewrite (sbind_ok _ _ p1 tt p2) by (rewrite consume_ok by exact Hty1; exact Ha).
  rewrite (sbind_ok _ _ p2 v p3 Hv). rewrite bind_curType, Hty3. reflexivity.
Qed.

Lemma parseObjectLoop_more n pairs p k p1 p2 v p3 p4 :
  pe 0 p = ROk (k, p1) -> ttype (ptoken p1) = typeColon -> advance true p1 = ROk (tt, p2) ->
  pe 0 p2 = ROk (v, p3) -> ttype (ptoken p3) = typeComma -> advance true p3 = ROk (tt, p4) ->
  parseObjectLoop pe (S n) pairs p = parseObjectLoop pe n (pairs ++ [(k, v)])%list p4.
Proof.
  intros Hk Hty1 Ha Hv Hty3 Ha3. cbn [parseObjectLoop]. rewrite (sbind_ok _ _ p k p1 Hk).
  rewrite (sbind_ok _ _ p1 tt p2) by (rewrite consume_ok by exact Hty1; exact Ha).
  rewrite (sbind_ok _ _ p2 v p3 Hv). rewrite bind_curType, Hty3. cbn [tt_eqb tt_num Nat.eqb negb].
  rewrite (sbind_ok _ _ p3 tt p4); [reflexivity|]. rewrite consume_ok by exact Hty3. exact Ha3.
Qed.

End Steps.

Scheme jtext_min := Minimality for jtext Sort Prop
  with jelems_min := Minimality for jelems Sort Prop
  with jmembers_min := Minimality for jmembers Sort Prop.
Combined Scheme jtext_mutind from jtext_min, jelems_min, jmembers_min.

Definition opener (ty : tokentype) : bool :=
  negb (tt_eqb ty typeBracketClose) && negb (tt_eqb ty typeBraceClose).

Definition head_ok (t : string) : Prop := exists c r, t = String c r /\ byte_of c <> 61.

Lemma head_ok_app t x : head_ok t -> headP (fun r => r =? 61) (t ++ x) = false.
Proof. intros (c & r & -> & H). cbn [append headP]. lia. Qed.

Lemma adv_eq inp q q' p : adv inp q p -> q = q' -> adv inp q' p.
Proof. intros H <-. exact H. Qed.

Lemma rem_eq inp q q' s s' : rem inp q s -> q = q' -> s = s' -> rem inp q' s'.
Proof. intros H <- <-. exact H. Qed.

(* ==================================================================================== *)
(* 4. JSON texts parse to their literal nodes                                            *)
(* ==================================================================================== *)

Section Full.
Variable parse_number : string -> numlit.
Variable regex_check : string -> option string.
Variable fmt_g : f64 -> string.
Variable quote : string -> string.

Notation pExpr := (parseExpression parse_number regex_check fmt_g quote).
Notation lLoop := (ledLoop parse_number regex_check fmt_g quote).
Notation nudOf := (lookupNud parse_number regex_check).
Notation opt := (optimize fmt_g quote).
Notation Parse := (parse parse_number regex_check fmt_g quote).
Notation ParseRaw := (parse_raw parse_number regex_check fmt_g quote).

(* the denotation of number texts, relative to the conversion oracle (strconv.ParseFloat): an
   unsigned JSON number denotes what the oracle returns for it, and a minus sign negates *)
Inductive jnum : string -> f64 -> Prop :=
| jnum_pos t x : jnumber_text t -> parse_number t = NumOk x -> jnum t x
| jnum_neg t x : jnumber_text t -> parse_number t = NumOk x -> jnum ("-" ++ t) (fopp x).

(* n is the literal node of the value v *)
Definition good (n : node) (v : value) : Prop :=
  jliteral n = true /\ jkeys_unique n = true /\ jvalue n = v.
(* the raw (un-optimized) tree r optimizes to the literal node of v *)
Definition lit (r : node) (v : value) (m : nat) : Prop :=
  exists n, opt r = ROk n /\ good n v /\ (jfuel n <= m)%nat.
Definition litpair (m : nat) (rp : node * node) (kv : string * value) : Prop :=
  opt (fst rp) = ROk (NString (fst kv)) /\ lit (snd rp) (snd kv) m.

Lemma lit_mono r v m m' : lit r v m -> (m <= m')%nat -> lit r v m'.
Proof. intros (n & H1 & H2 & H3) Hm. exists n. split; [exact H1|split; [exact H2|lia]]. Qed.
Lemma lits_mono rs vs m m' : Forall2 (fun r v => lit r v m) rs vs -> (m <= m')%nat ->
  Forall2 (fun r v => lit r v m') rs vs.
Proof. intros H Hm. induction H; constructor; eauto using lit_mono. Qed.
Lemma litpairs_mono rps kvs m m' : Forall2 (litpair m) rps kvs -> (m <= m')%nat ->
  Forall2 (litpair m') rps kvs.
Proof.
  intros H Hm. induction H as [|rp kv rps kvs [H1 H2] _ IH]; constructor; auto.
  split; [exact H1|exact (lit_mono _ _ _ _ H2 Hm)].
Qed.

Lemma good_str n k : good n (VStr k) -> n = NString k.
Proof. intros (Hl & _ & Hv). destruct n; try discriminate Hl; cbn in Hv; congruence. Qed.

(* ---- optimize on arrays and objects of literals ---- *)

Lemma lit_array rs vs m : Forall2 (fun r v => lit r v m) rs vs -> lit (NArray rs) (VArr vs) (S m).
Proof.
  intros H.
  assert (E : exists ns, Forall2 (fun r n => opt r = ROk n) rs ns /\ Forall2 good ns vs /\
                         Forall (fun n => jfuel n <= m)%nat ns).
  { induction H as [|r v rs vs (n & Hn & Hg & Hj) _ (ns & H1 & H2 & H3)].
    - exists []. split; [constructor|split; constructor].
    - exists (n :: ns). split; [constructor; auto|split; constructor; auto]. }
  destruct E as (ns & H1 & H2 & H3). exists (NArray ns). split; [|split].
  - cbn [optimize].
    match goal with |- rbind ?t _ = _ => assert (E : t = ROk ns) end.
    { clear H H2 H3. induction H1 as [|r n rs ns Hr _ IH]; [reflexivity|]. rewrite Hr, IH. reflexivity. }
    rewrite E. reflexivity.
  - clear H H1 H3. unfold good. cbn [jliteral jkeys_unique jvalue].
    induction H2 as [|n v ns vs (G1 & G2 & G3) _ (I1 & I2 & I3)]; [repeat split|].
    cbn [forallb map]. rewrite G1, G2, I1, I2. repeat split. rewrite G3. injection I3 as ->. reflexivity.
  - cbn [jfuel]. apply le_n_S. clear H H1 H2.
    induction H3 as [|n ns Hn _ IH]; cbn [fold_right]; lia.
Qed.

Lemma lit_object rps kvs m : Forall2 (litpair m) rps kvs -> distinct (map fst kvs) = true ->
  lit (NObject rps) (VObj (obj_of_list kvs)) (S (S m)).
Proof.
  intros H Hd.
  assert (E : exists nps,
            Forall2 (fun (rp np : node * node) => opt (fst rp) = ROk (fst np) /\ opt (snd rp) = ROk (snd np)) rps nps /\
            Forall2 (fun (np : node * node) (kv : string * value) => fst np = NString (fst kv) /\ good (snd np) (snd kv)) nps kvs /\
            Forall (fun np : node * node => jfuel (snd np) <= m)%nat nps).
  { clear Hd. induction H as [|[rk rv] [k v] rps kvs (Hk & n & Hn & Hg & Hj) _ (nps & H1 & H2 & H3)].
    - exists []. split; [apply Forall2_nil|split; [apply Forall2_nil|apply Forall_nil]].
    - exists ((NString k, n) :: nps). split; [constructor; auto|split; constructor; auto]. }
  destruct E as (nps & H1 & H2 & H3). exists (NObject nps). split; [|split].
  - cbn [optimize].
    match goal with |- rbind ?t _ = _ => assert (E : t = ROk nps) end.
    { clear H H2 H3 Hd. induction H1 as [|[rk rv] [nk nv] rps nps (Hr1 & Hr2) _ IH]; [reflexivity|].
      cbn [fst snd] in Hr1, Hr2. rewrite Hr1, Hr2, IH. reflexivity. }
    rewrite E. reflexivity.
  - clear H H1 H3. unfold good. cbn [jliteral jkeys_unique jvalue].
    assert (K : map (fun kv : node * node => key_of (fst kv)) nps = map fst kvs /\
                map (fun kv : node * node => let '(k, v) := kv in (key_of k, jvalue v)) nps = kvs /\
                forallb (fun kv : node * node => let '(k, v) := kv in
                           match k with NString _ => jliteral v | _ => false end) nps = true /\
                forallb (fun kv : node * node => let '(_, v) := kv in jkeys_unique v) nps = true).
    { clear Hd. induction H2 as [|[nk nv] [k v] nps kvs (Hk & G1 & G2 & G3) _ (I1 & I2 & I3 & I4)]; [repeat split|].
      cbn [fst snd] in *. subst nk. cbn [map forallb fst snd key_of]. rewrite I1, I2, I3, I4, G1, G2, G3.
      repeat split. }
    destruct K as (K1 & K2 & K3 & K4). rewrite K1, K2, K3, K4, Hd. repeat split.
  - cbn [jfuel]. do 2 apply le_n_S. clear H H1 H2 Hd.
    induction H3 as [|[nk nv] nps Hn _ IH]; cbn [fold_right snd] in *; lia.
Qed.

(* ---- the Pratt loop at the end of a JSON text ---- *)

Lemma lLoop_stop f rbp lhs inp q p rest ty :
  adv inp q p -> rem inp q rest -> stop_ty rest = Some ty -> 0 <= rbp ->
  lLoop (S f) rbp lhs p = ROk (lhs, p).
Proof.
  intros Ha Hr Hs Hb. destruct (adv_stop_ty inp q p rest ty Ha Hr Hs) as [Hty Hbp].
  rewrite ledLoop_unfold, bind_curToken, Hty, Hbp. replace (rbp <? 0) with false by lia. reflexivity.
Qed.

Lemma pExpr_nud f rbp p p1 nud lhs p2 :
  tt_eqb (ttype (ptoken p)) typeEOF = false ->
  advance (opens_operand (ttype (ptoken p))) p = ROk (tt, p1) ->
  nudOf f (pExpr f) (ttype (ptoken p)) = Some nud -> nud (ptoken p) p1 = ROk (lhs, p2) ->
  pExpr (S f) rbp p = lLoop f rbp lhs p2.
Proof.
  intros H1 H2 H3 H4. rewrite parseExpression_unfold, bind_curToken, H1.
  rewrite (sbind_ok _ _ p tt p1 H2), H3. rewrite (sbind_ok _ _ p1 lhs p2 H4). reflexivity.
Qed.

(* a one-token operand followed by the end of the text *)
Lemma pExpr_leaf f rbp inp q' wd' ty0 v0 pos0 nud r rest ty :
  tt_eqb ty0 typeEOF = false -> opens_operand ty0 = false ->
  nudOf (S f) (pExpr (S f)) ty0 = Some nud ->
  (forall p1, nud {| ttype := ty0; tvalue := v0; tpos := pos0 |} p1 = ROk (r, p1)) ->
  rem inp q' rest -> stop_ty rest = Some ty -> 0 <= rbp ->
  exists p', pExpr (S (S f)) rbp (tokP inp q' wd' ty0 v0 pos0) = ROk (r, p') /\ adv inp q' p'.
Proof.
  intros H1 H2 H3 H4 Hrem Hst Hb.
  destruct (adv_stop false inp q' q' wd' {| ttype := ty0; tvalue := v0; tpos := pos0 |} rest ty Hrem Hst)
    as (p1 & Hp1 & Hty).
  assert (Ha : adv inp q' p1) by (eexists _, _, _, _; exact Hp1).
  exists p1. split; [|exact Ha].
  rewrite (pExpr_nud (S f) rbp _ p1 nud r p1); cbn [tokP ptoken ttype]; auto.
  - apply (lLoop_stop f rbp r inp q' p1 rest ty); auto.
  - rewrite H2. exact Hp1.
Qed.

(* ---- the statement proved by mutual induction on the JSON grammar ---- *)

Definition P (v : value) (t : string) : Prop :=
  head_ok t /\
  forall fuel inp q rest ty b st wd tk,
    rem inp q (t ++ rest) -> stop_ty rest = Some ty -> (slen t + 2 <= fuel)%nat ->
    exists p r p', advance b (mkP inp st q wd tk) = ROk (tt, p) /\
      opener (ttype (ptoken p)) = true /\
      pExpr fuel 0 p = ROk (r, p') /\ adv inp (q + Z.of_nat (slen t)) p' /\ lit r v (slen t).

Definition Pe (vs : list value) (body : string) : Prop :=
  (vs = [] /\ jws body = true) \/
  (vs <> [] /\ forall f lf inp q rest b st wd tk items,
     rem inp q (body ++ "]" ++ rest) -> (slen body + 2 <= f)%nat -> (slen body + 1 <= lf)%nat ->
     exists p rs p', advance b (mkP inp st q wd tk) = ROk (tt, p) /\
       opener (ttype (ptoken p)) = true /\
       parseArrayLoop (pExpr f) lf items p = ROk ((items ++ rs)%list, p') /\
       adv inp (q + Z.of_nat (slen body)) p' /\ Forall2 (fun r v => lit r v (slen body)) rs vs).

Definition Pm (kvs : list (string * value)) (body : string) : Prop :=
  (kvs = [] /\ jws body = true) \/
  (kvs <> [] /\ forall f lf inp q rest b st wd tk pairs,
     rem inp q (body ++ "}" ++ rest) -> (slen body + 2 <= f)%nat -> (slen body + 1 <= lf)%nat ->
     exists p rps p', advance b (mkP inp st q wd tk) = ROk (tt, p) /\
       opener (ttype (ptoken p)) = true /\
       parseObjectLoop (pExpr f) lf pairs p = ROk ((pairs ++ rps)%list, p') /\
       adv inp (q + Z.of_nat (slen body)) p' /\ Forall2 (litpair (slen body)) rps kvs).

(* ---- scalars ---- *)

Lemma case_null : P VNull "null".
Proof.
  split; [exists "n"%char, "ull"; split; [reflexivity|vm_compute; congruence]|].
  intros fuel inp q rest ty b st wd tk Hrem Hst Hf.
  destruct fuel as [|[|f]]; [cbn in Hf; lia..|].
  pose proof (sep_name_end _ (stop_sep _ _ Hst)) as He.
  rewrite (A_null b inp st q wd tk rest Hrem He).
  destruct (pExpr_leaf f 0 inp (q + 4) 0 typeNull "null" q parseNull NNull rest ty) as (p' & Hp & Ha);
    try reflexivity; auto; try lia.
  { exact (rem_app inp q "null" rest Hrem). }
  eexists _, NNull, p'. split; [reflexivity|]. split; [reflexivity|]. split; [exact Hp|].
  split; [exact Ha|]. exists NNull. repeat split. cbn; lia.
Qed.

Lemma case_true : P (VBool true) "true".
Proof.
  split; [exists "t"%char, "rue"; split; [reflexivity|vm_compute; congruence]|].
  intros fuel inp q rest ty b st wd tk Hrem Hst Hf.
  destruct fuel as [|[|f]]; [cbn in Hf; lia..|].
  pose proof (sep_name_end _ (stop_sep _ _ Hst)) as He.
  rewrite (A_true b inp st q wd tk rest Hrem He).
  destruct (pExpr_leaf f 0 inp (q + 4) 0 typeBoolean "true" q parseBoolean (NBoolean true) rest ty)
    as (p' & Hp & Ha); try reflexivity; auto; try lia.
  { exact (rem_app inp q "true" rest Hrem). }
  eexists _, (NBoolean true), p'. split; [reflexivity|]. split; [reflexivity|]. split; [exact Hp|].
  split; [exact Ha|]. exists (NBoolean true). repeat split. cbn; lia.
Qed.

Lemma case_false : P (VBool false) "false".
Proof.
  split; [exists "f"%char, "alse"; split; [reflexivity|vm_compute; congruence]|].
  intros fuel inp q rest ty b st wd tk Hrem Hst Hf.
  destruct fuel as [|[|f]]; [cbn in Hf; lia..|].
  pose proof (sep_name_end _ (stop_sep _ _ Hst)) as He.
  rewrite (A_false b inp st q wd tk rest Hrem He).
  destruct (pExpr_leaf f 0 inp (q + 5) 0 typeBoolean "false" q parseBoolean (NBoolean false) rest ty)
    as (p' & Hp & Ha); try reflexivity; auto; try lia.
  { exact (rem_app inp q "false" rest Hrem). }
  eexists _, (NBoolean false), p'. split; [reflexivity|]. split; [reflexivity|]. split; [exact Hp|].
  split; [exact Ha|]. exists (NBoolean false). repeat split. cbn; lia.
Qed.

Lemma jnumber_text_head t : jnumber_text t ->
  exists c r, t = String c r /\ 48 <= byte_of c <= 57.
Proof.
  intros [i f e Hi _ _]. destruct i as [|c r]; [discriminate|]. exists c, (r ++ f ++ e).
  split; [reflexivity|]. cbn [jint] in Hi. destruct (byte_of c =? 48) eqn:E; [lia|].
  apply andb_true_iff in Hi as [Hi _]. lia.
Qed.

Lemma case_number s x : jnum s x -> P (VNum x) s.
Proof.
  intros [t y Ht Hp|t y Ht Hp].
  - (* unsigned *)
    destruct (jnumber_text_head t Ht) as (c & r & E & Hc).
    split; [exists c, r; split; [exact E|lia]|].
    intros fuel inp q rest ty b st wd tk Hrem Hst Hf.
    destruct fuel as [|[|f]]; [lia..|].
    pose proof (sep_number_stop _ (stop_sep _ _ Hst)) as Hns.
    rewrite (A_number b inp st q wd tk t rest Hrem Ht Hns).
    destruct (pExpr_leaf f 0 inp (q + Z.of_nat (slen t)) 0 typeNumber t q (parseNumber parse_number) (NNumber y) rest ty)
      as (p' & Hp' & Ha); try reflexivity; auto; try lia.
    { intros p1. rewrite parseNumber_oracle. cbn [tvalue]. rewrite Hp. reflexivity. }
    { exact (rem_app inp q t rest Hrem). }
    eexists _, (NNumber y), p'. split; [reflexivity|]. split; [reflexivity|]. split; [exact Hp'|].
    split; [exact Ha|]. exists (NNumber y). repeat split. rewrite E. cbn [jfuel slen String.length]. lia.
  - (* a minus sign and an unsigned number *)
    split; [exists "-"%char, t; split; [reflexivity|vm_compute; congruence]|].
    intros fuel inp q rest ty b st wd tk Hrem Hst Hf.
    change (("-" ++ t) ++ rest) with (String "-" (t ++ rest)) in Hrem.
    change (slen ("-" ++ t)) with (S (slen t)) in *.
    destruct (jnumber_text_head t Ht) as (c & r & E & Hc).
    assert (Hlt : (1 <= slen t)%nat) by (rewrite E; cbn [slen String.length]; lia).
    destruct fuel as [|[|[|f]]]; [lia..|].
    pose proof (sep_number_stop _ (stop_sep _ _ Hst)) as Hns.
    rewrite (A_sym1 45 typeMinus b inp st q wd tk "-" (t ++ rest) Hrem eq_refl eq_refl).
    pose proof (rem_cons _ _ _ _ Hrem) as Hrem1.
    pose proof (rem_app _ _ _ _ Hrem1) as Hrem2.
    destruct (pExpr_leaf f (bp typeMinus) inp (q + 1 + Z.of_nat (slen t)) 0 typeNumber t (q + 1)
                (parseNumber parse_number) (NNumber y) rest ty)
      as (p' & Hp' & Ha); try reflexivity; auto.
    { intros p1. rewrite parseNumber_oracle. cbn [tvalue]. rewrite Hp. reflexivity. }
    { vm_compute. discriminate. }
    eexists _, (NNegation (NNumber y)), p'. split; [reflexivity|]. split; [reflexivity|].
    split; [|split].
    + rewrite (pExpr_nud (S (S f)) 0 _ (tokP inp (q + 1 + Z.of_nat (slen t)) 0 typeNumber t (q + 1))
                 (parseNegation (pExpr (S (S f)))) (NNegation (NNumber y)) p').
      * apply (lLoop_stop (S f) 0 _ inp (q + 1 + Z.of_nat (slen t)) p' rest ty); auto. lia.
      * reflexivity.
      * cbn [tokP ptoken ttype]. change (opens_operand typeMinus) with true.
        exact (A_number true inp (q + 1) (q + 1) 0 _ t rest Hrem1 Ht Hns).
      * reflexivity.
      * cbn [tokP ptoken ttype]. unfold parseNegation. cbn [ttype].
        rewrite (sbind_ok _ _ _ (NNumber y) p' Hp'). reflexivity.
    + eapply adv_eq; [exact Ha|lia].
    + exists (NNumber (fopp y)). repeat split. cbn [jfuel]. lia.
Qed.

Lemma case_string us cs : jstring_body us cs -> P (VStr (denote cs)) (dquote ++ render us ++ dquote).
Proof.
  intros Hb.
  split; [exists (ascii_of_Z 34), (render us ++ dquote); split; [reflexivity|vm_compute; congruence]|].
  intros fuel inp q rest ty b st wd tk Hrem Hst Hf.
  assert (Hok : body_ok 34 (render us) = true).
  { apply (body_ok_render 34 us cs); auto. apply (jstring_body_no_raw_dquote us cs Hb). }
  destruct fuel as [|[|f]]; [lia..|].
  rewrite (A_string b inp st q wd tk (render us) rest Hrem Hok).
  set (L := slen (dquote ++ render us ++ dquote)) in *.
  destruct (pExpr_leaf f 0 inp (q + Z.of_nat L) 1 typeString (render us) (q + 1) parseString
              (NString (denote cs)) rest ty) as (p' & Hp' & Ha); try reflexivity; auto; try lia.
  { intros p1. apply parseString_accepts. cbn [tvalue]. apply unescape_spec; auto. }
  { exact (rem_app inp q _ rest Hrem). }
  eexists _, (NString (denote cs)), p'. split; [reflexivity|]. split; [reflexivity|]. split; [exact Hp'|].
  split; [exact Ha|]. exists (NString (denote cs)). repeat split.
  cbn [jfuel]. subst L. rewrite slen_app. change (slen dquote) with 1%nat. lia.
Qed.

(* ---- optional whitespace around a text ---- *)

Lemma jws_head_ok w t : jws w = true -> head_ok t -> head_ok (w ++ t).
Proof.
  intros Hw Ht. destruct w as [|c w]; [exact Ht|]. exists c, (w ++ t). split; [reflexivity|].
  cbn [jws] in Hw. apply andb_true_iff in Hw as [Hc _]. unfold jws_char in Hc. lia.
Qed.

Lemma case_ws v t w1 w2 : P v t -> jws w1 = true -> jws w2 = true -> P v (w1 ++ t ++ w2).
Proof.
  intros [Hh IH] H1 H2. split.
  { apply jws_head_ok; auto. destruct Hh as (c & r & -> & Hc). exists c, (r ++ w2). split; [reflexivity|exact Hc]. }
  intros fuel inp q rest ty b st wd tk Hrem Hst Hf.
  rewrite !sapp_assoc in Hrem. rewrite !slen_app in Hf.
  pose proof (jws_all_ws _ H1) as A1. pose proof (jws_all_ws _ H2) as A2.
  rewrite (A_ws b inp st q wd tk w1 _ st wd tk Hrem A1).
  pose proof (rem_app _ _ _ _ Hrem) as Hrem1.
  destruct (IH fuel inp (q + Z.of_nat (slen w1)) (w2 ++ rest) ty b st wd tk Hrem1) as (p & r & p' & Hp & Ho & He & Ha & Hl).
  { rewrite stop_ty_ws by exact A2. exact Hst. }
  { lia. }
  exists p, r, p'. repeat (split; [assumption|]). split; [|apply (lit_mono _ _ _ _ Hl); rewrite !slen_app; lia].
  pose proof (rem_app _ _ _ _ Hrem1) as Hrem2.
  eapply adv_eq; [exact (adv_ws inp _ p' w2 rest Ha Hrem2 A2)|]. rewrite !slen_app. lia.
Qed.

(* ---- arrays ---- *)

Lemma opener_false_l ty : opener ty = true -> tt_eqb ty typeBracketClose = false.
Proof. unfold opener. intros H. apply andb_true_iff in H as [H _]. apply negb_true_iff in H. exact H. Qed.
Lemma opener_false_r ty : opener ty = true -> tt_eqb ty typeBraceClose = false.
Proof. unfold opener. intros H. apply andb_true_iff in H as [_ H]. apply negb_true_iff in H. exact H. Qed.

Lemma case_array vs body : Pe vs body -> P (VArr vs) ("[" ++ body ++ "]").
Proof.
  intros IH. split; [exists "["%char, (body ++ "]"); split; [reflexivity|vm_compute; congruence]|].
  intros fuel inp q rest ty b st wd tk Hrem Hst Hf.
  change (("[" ++ body ++ "]") ++ rest) with (String "[" ((body ++ "]") ++ rest)) in Hrem.
  rewrite sapp_assoc in Hrem.
  change (slen ("[" ++ body ++ "]")) with (S (slen (body ++ "]"))) in *. rewrite slen_app in *.
  change (slen "]") with 1%nat in *.
  destruct fuel as [|[|f]]; [lia..|].
  rewrite (A_sym1 91 typeBracketOpen b inp st q wd tk "[" _ Hrem eq_refl eq_refl).
  set (tok := {| ttype := typeBracketOpen; tvalue := "["; tpos := q |}).
  pose proof (rem_cons _ _ _ _ Hrem) as Hrem1.
  pose proof (rem_app _ _ _ _ Hrem1) as Hrem2.
  pose proof (rem_cons _ _ _ _ Hrem2) as Hrem3.
  set (q2 := q + 1 + Z.of_nat (slen body)) in *.
  assert (Hclose : forall b st wd tk, advance b (mkP inp st q2 wd tk) =
                     ROk (tt, tokP inp (q2 + 1) 0 typeBracketClose "]" q2)).
  { intros. exact (A_sym1 93 typeBracketClose _ inp _ q2 _ _ "]" rest Hrem2 eq_refl eq_refl). }
  destruct (adv_stop false inp (q2 + 1) (q2 + 1) 0
              {| ttype := typeBracketClose; tvalue := "]"; tpos := q2 |} rest ty Hrem3 Hst) as (p3 & Hp3 & Hty3).
  assert (Ha3 : adv inp (q2 + 1) p3) by (eexists _, _, _, _; exact Hp3).
  destruct IH as [[-> Hw]|[Hne IH]].
  - (* the empty array, possibly with whitespace inside *)
    eexists _, (NArray []), p3. split; [reflexivity|]. split; [reflexivity|]. split; [|split].
    + rewrite (pExpr_nud (S f) 0 _ (tokP inp (q2 + 1) 0 typeBracketClose "]" q2)
                 (parseArray (S f) (pExpr (S f))) (NArray []) p3).
      * apply (lLoop_stop f 0 _ inp (q2 + 1) p3 rest ty); auto. lia.
      * reflexivity.
      * change (advance true (mkP inp (q + 1) (q + 1) 0 tok) =
                ROk (tt, tokP inp (q2 + 1) 0 typeBracketClose "]" q2)).
        rewrite (A_ws true inp (q + 1) (q + 1) 0 tok body _ (q + 1) 0 tok Hrem1 (jws_all_ws _ Hw)).
        apply Hclose.
      * reflexivity.
      * apply parseArray_nil; [reflexivity|exact Hp3].
    + eapply adv_eq; [exact Ha3|]. unfold q2. lia.
    + apply (lit_mono _ _ 1%nat); [apply (lit_array [] [] 0); constructor|lia].
  - (* one or more elements *)
    destruct (IH (S f) (S f) inp (q + 1) rest true (q + 1) 0 tok [] Hrem1 ltac:(lia) ltac:(lia))
      as (p1 & rs & p2 & Hp1 & Ho1 & Hloop & Ha2 & Hlit).
    fold q2 in Ha2. pose proof (adv_det inp q2 p2 _ Ha2 Hclose) as ->.
    eexists _, (NArray rs), p3. split; [reflexivity|]. split; [reflexivity|]. split; [|split].
    + rewrite (pExpr_nud (S f) 0 _ p1 (parseArray (S f) (pExpr (S f))) (NArray rs) p3).
      * apply (lLoop_stop f 0 _ inp (q2 + 1) p3 rest ty); auto. lia.
      * reflexivity.
      * cbn [tokP ptoken ttype]. change (opens_operand typeBracketOpen) with true. exact Hp1.
      * reflexivity.
      * eapply parseArray_items; [exact (opener_false_l _ Ho1)|exact Hloop|reflexivity|exact Hp3].
    + eapply adv_eq; [exact Ha3|]. unfold q2. lia.
    + apply (lit_mono _ _ (S (slen body))); [apply lit_array; exact Hlit|lia].
Qed.

Lemma case_elems_one v t : P v t -> Pe [v] t.
Proof.
  intros [_ IH]. right. split; [discriminate|].
  intros f lf inp q rest b st wd tk items Hrem Hf Hlf.
  destruct lf as [|lf]; [lia|].
  destruct (IH f inp q ("]" ++ rest) typeBracketClose b st wd tk Hrem eq_refl ltac:(lia))
    as (p & r & p1 & Hp & Ho & He & Ha & Hl).
  pose proof (rem_app _ _ _ _ Hrem) as Hrem1.
  destruct (adv_stop_ty inp _ p1 ("]" ++ rest) typeBracketClose Ha Hrem1 eq_refl) as [Hty _].
  exists p, [r], p1. split; [exact Hp|]. split; [exact Ho|]. split; [|split; [exact Ha|constructor; auto]].
  apply parseArrayLoop_last; auto.
Qed.

Lemma case_elems_cons v t vs body : P v t -> Pe vs body -> vs <> [] -> Pe (v :: vs) (t ++ "," ++ body).
Proof.
  intros [_ IH] [[-> _]|[_ IHe]] Hne; [congruence|]. right. split; [discriminate|].
  intros f lf inp q rest b st wd tk items Hrem Hf Hlf.
  rewrite !sapp_assoc in Hrem. rewrite !slen_app in *. change (slen ",") with 1%nat in *.
  destruct lf as [|lf]; [lia|].
  destruct (IH f inp q ("," ++ body ++ "]" ++ rest) typeComma b st wd tk Hrem eq_refl ltac:(lia))
    as (p & r & p1 & Hp & Ho & He & Ha & Hl).
  pose proof (rem_app _ _ _ _ Hrem) as Hrem1.
  change ("," ++ body ++ "]" ++ rest) with (String "," (body ++ "]" ++ rest)) in Hrem1.
  pose proof (rem_cons _ _ _ _ Hrem1) as Hrem2.
  set (q1 := q + Z.of_nat (slen t)) in *.
  set (ctok := {| ttype := typeComma; tvalue := ","; tpos := q1 |}).
  assert (Hcomma : forall b st wd tk, advance b (mkP inp st q1 wd tk) =
                     ROk (tt, tokP inp (q1 + 1) 0 typeComma "," q1)).
  { intros. exact (A_sym1 44 typeComma _ inp _ q1 _ _ "," _ Hrem1 eq_refl eq_refl). }
  pose proof (adv_det inp q1 p1 _ Ha Hcomma) as ->.
  destruct (IHe f lf inp (q1 + 1) rest true (q1 + 1) 0 ctok (items ++ [r])%list Hrem2 ltac:(lia) ltac:(lia))
    as (p2 & rs & p3 & Hp2 & Ho2 & Hloop & Ha3 & Hlit).
  exists p, (r :: rs), p3. split; [exact Hp|]. split; [exact Ho|]. split; [|split].
  - rewrite (parseArrayLoop_more _ lf items p r _ p2 He eq_refl Hp2).
    rewrite Hloop, <- app_assoc. reflexivity.
  - eapply adv_eq; [exact Ha3|]. unfold q1. lia.
  - constructor; [apply (lit_mono _ _ _ _ Hl); lia|apply (lits_mono _ _ _ _ Hlit); lia].
Qed.

(* ---- objects ---- *)

Lemma case_object kvs body : Pm kvs body -> distinct (map fst kvs) = true ->
  P (VObj (obj_of_list kvs)) ("{" ++ body ++ "}").
Proof.
  intros IH Hd. split; [exists "{"%char, (body ++ "}"); split; [reflexivity|vm_compute; congruence]|].
  intros fuel inp q rest ty b st wd tk Hrem Hst Hf.
  change (("{" ++ body ++ "}") ++ rest) with (String "{" ((body ++ "}") ++ rest)) in Hrem.
  rewrite sapp_assoc in Hrem.
  change (slen ("{" ++ body ++ "}")) with (S (slen (body ++ "}"))) in *. rewrite slen_app in *.
  change (slen "}") with 1%nat in *.
  destruct fuel as [|[|f]]; [lia..|].
  rewrite (A_sym1 123 typeBraceOpen b inp st q wd tk "{" _ Hrem eq_refl eq_refl).
  set (tok := {| ttype := typeBraceOpen; tvalue := "{"; tpos := q |}).
  pose proof (rem_cons _ _ _ _ Hrem) as Hrem1.
  pose proof (rem_app _ _ _ _ Hrem1) as Hrem2.
  pose proof (rem_cons _ _ _ _ Hrem2) as Hrem3.
  set (q2 := q + 1 + Z.of_nat (slen body)) in *.
  assert (Hclose : forall b st wd tk, advance b (mkP inp st q2 wd tk) =
                     ROk (tt, tokP inp (q2 + 1) 0 typeBraceClose "}" q2)).
  { intros. exact (A_sym1 125 typeBraceClose _ inp _ q2 _ _ "}" rest Hrem2 eq_refl eq_refl). }
  destruct (adv_stop false inp (q2 + 1) (q2 + 1) 0
              {| ttype := typeBraceClose; tvalue := "}"; tpos := q2 |} rest ty Hrem3 Hst) as (p3 & Hp3 & Hty3).
  assert (Ha3 : adv inp (q2 + 1) p3) by (eexists _, _, _, _; exact Hp3).
  destruct IH as [[-> Hw]|[Hne IH]].
  - eexists _, (NObject []), p3. split; [reflexivity|]. split; [reflexivity|]. split; [|split].
    + rewrite (pExpr_nud (S f) 0 _ (tokP inp (q2 + 1) 0 typeBraceClose "}" q2)
                 (parseObject (S f) (pExpr (S f))) (NObject []) p3).
      * apply (lLoop_stop f 0 _ inp (q2 + 1) p3 rest ty); auto. lia.
      * reflexivity.
      * change (advance true (mkP inp (q + 1) (q + 1) 0 tok) =
                ROk (tt, tokP inp (q2 + 1) 0 typeBraceClose "}" q2)).
        rewrite (A_ws true inp (q + 1) (q + 1) 0 tok body _ (q + 1) 0 tok Hrem1 (jws_all_ws _ Hw)).
        apply Hclose.
      * reflexivity.
      * apply parseObject_nil; [reflexivity|exact Hp3].
    + eapply adv_eq; [exact Ha3|]. unfold q2. lia.
    + apply (lit_mono _ _ 2%nat); [apply (lit_object [] [] 0); [constructor|reflexivity]|lia].
  - destruct (IH (S f) (S f) inp (q + 1) rest true (q + 1) 0 tok [] Hrem1 ltac:(lia) ltac:(lia))
      as (p1 & rps & p2 & Hp1 & Ho1 & Hloop & Ha2 & Hlit).
    fold q2 in Ha2. pose proof (adv_det inp q2 p2 _ Ha2 Hclose) as ->.
    eexists _, (NObject rps), p3. split; [reflexivity|]. split; [reflexivity|]. split; [|split].
    + rewrite (pExpr_nud (S f) 0 _ p1 (parseObject (S f) (pExpr (S f))) (NObject rps) p3).
      * apply (lLoop_stop f 0 _ inp (q2 + 1) p3 rest ty); auto. lia.
      * reflexivity.
      * cbn [tokP ptoken ttype]. change (opens_operand typeBraceOpen) with true. exact Hp1.
      * reflexivity.
      * eapply parseObject_items; [exact (opener_false_r _ Ho1)|exact Hloop|reflexivity|exact Hp3].
    + eapply adv_eq; [exact Ha3|]. unfold q2. lia.
    + apply (lit_mono _ _ (S (S (slen body)))); [apply lit_object; assumption|lia].
Qed.

Lemma lit_key rk k m : lit rk (VStr k) m -> opt rk = ROk (NString k).
Proof. intros (n & Hn & Hg & _). rewrite (good_str n k Hg) in Hn. exact Hn. Qed.

Lemma case_members_one k tk0 v t : P (VStr k) tk0 -> P v t -> Pm [(k, v)] (tk0 ++ ":" ++ t).
Proof.
  intros [_ IHk] [Hh IHv]. right. split; [discriminate|].
  intros f lf inp q rest b st wd tk pairs Hrem Hf Hlf.
  rewrite !sapp_assoc in Hrem. rewrite !slen_app in *. change (slen ":") with 1%nat in *.
  destruct lf as [|lf]; [lia|].
  assert (Hcs : forall x, stop_ty (":" ++ t ++ x) = Some typeColon).
  { intros x. unfold stop_ty. cbn [ws_len append]. change (is_ws_byte ":") with false. cbn [sdrop stop_head].
    cbv zeta. change (byte_of ":") with 58. cbn [Z.eqb Pos.eqb]. rewrite (head_ok_app t x Hh). reflexivity. }
  destruct (IHk f inp q (":" ++ t ++ "}" ++ rest) typeColon b st wd tk Hrem (Hcs _) ltac:(lia))
    as (p & rk & p1 & Hp & Ho & He & Ha & Hl).
  pose proof (rem_app _ _ _ _ Hrem) as Hrem1.
  change (":" ++ t ++ "}" ++ rest) with (String ":" (t ++ "}" ++ rest)) in Hrem1.
  pose proof (rem_cons _ _ _ _ Hrem1) as Hrem2.
  set (q1 := q + Z.of_nat (slen tk0)) in *.
  set (ctok := {| ttype := typeColon; tvalue := ":"; tpos := q1 |}).
  assert (Hcolon : forall b st wd tk, advance b (mkP inp st q1 wd tk) =
                     ROk (tt, tokP inp (q1 + 1) 0 typeColon ":" q1)).
  { intros. exact (A_colon _ inp _ q1 _ _ _ Hrem1 (head_ok_app t _ Hh)). }
  pose proof (adv_det inp q1 p1 _ Ha Hcolon) as ->.
  destruct (IHv f inp (q1 + 1) ("}" ++ rest) typeBraceClose true (q1 + 1) 0 ctok Hrem2 eq_refl ltac:(lia))
    as (p2 & rv & p3 & Hp2 & Ho2 & He2 & Ha3 & Hl2).
  pose proof (rem_app _ _ _ _ Hrem2) as Hrem3.
  destruct (adv_stop_ty inp _ p3 ("}" ++ rest) typeBraceClose Ha3 Hrem3 eq_refl) as [Hty3 _].
  exists p, [(rk, rv)], p3. split; [exact Hp|]. split; [exact Ho|]. split; [|split].
  - apply (parseObjectLoop_last _ lf pairs p rk _ p2 rv p3 He eq_refl Hp2 He2 Hty3).
  - eapply adv_eq; [exact Ha3|]. unfold q1. lia.
  - constructor; [|constructor]. split; [exact (lit_key _ _ _ Hl)|apply (lit_mono _ _ _ _ Hl2); lia].
Qed.

Lemma case_members_cons k tk0 v t kvs body : P (VStr k) tk0 -> P v t -> Pm kvs body -> kvs <> [] ->
  Pm ((k, v) :: kvs) (tk0 ++ ":" ++ t ++ "," ++ body).
Proof.
  intros [_ IHk] [Hh IHv] [[-> _]|[_ IHm]] Hne; [congruence|]. right. split; [discriminate|].
  intros f lf inp q rest b st wd tk pairs Hrem Hf Hlf.
  rewrite !sapp_assoc in Hrem. rewrite !slen_app in *. change (slen ":") with 1%nat in *.
  change (slen ",") with 1%nat in *.
  destruct lf as [|lf]; [lia|].
  assert (Hcs : forall x, stop_ty (":" ++ t ++ x) = Some typeColon).
  { intros x. unfold stop_ty. cbn [ws_len append]. change (is_ws_byte ":") with false. cbn [sdrop stop_head].
    cbv zeta. change (byte_of ":") with 58. cbn [Z.eqb Pos.eqb]. rewrite (head_ok_app t x Hh). reflexivity. }
  destruct (IHk f inp q (":" ++ t ++ "," ++ body ++ "}" ++ rest) typeColon b st wd tk Hrem (Hcs _) ltac:(lia))
    as (p & rk & p1 & Hp & Ho & He & Ha & Hl).
  pose proof (rem_app _ _ _ _ Hrem) as Hrem1.
  change (":" ++ t ++ "," ++ body ++ "}" ++ rest) with (String ":" (t ++ "," ++ body ++ "}" ++ rest)) in Hrem1.
  pose proof (rem_cons _ _ _ _ Hrem1) as Hrem2.
  set (q1 := q + Z.of_nat (slen tk0)) in *.
  set (ctok := {| ttype := typeColon; tvalue := ":"; tpos := q1 |}).
  assert (Hcolon : forall b st wd tk, advance b (mkP inp st q1 wd tk) =
                     ROk (tt, tokP inp (q1 + 1) 0 typeColon ":" q1)).
  { intros. exact (A_colon _ inp _ q1 _ _ _ Hrem1 (head_ok_app t _ Hh)). }
  pose proof (adv_det inp q1 p1 _ Ha Hcolon) as ->.
  destruct (IHv f inp (q1 + 1) ("," ++ body ++ "}" ++ rest) typeComma true (q1 + 1) 0 ctok Hrem2 eq_refl ltac:(lia))
    as (p2 & rv & p3 & Hp2 & Ho2 & He2 & Ha3 & Hl2).
  pose proof (rem_app _ _ _ _ Hrem2) as Hrem3.
  change ("," ++ body ++ "}" ++ rest) with (String "," (body ++ "}" ++ rest)) in Hrem3.
  pose proof (rem_cons _ _ _ _ Hrem3) as Hrem4.
  set (q3 := q1 + 1 + Z.of_nat (slen t)) in *.
  set (mtok := {| ttype := typeComma; tvalue := ","; tpos := q3 |}).
  assert (Hcomma : forall b st wd tk, advance b (mkP inp st q3 wd tk) =
                     ROk (tt, tokP inp (q3 + 1) 0 typeComma "," q3)).
  { intros. exact (A_sym1 44 typeComma _ inp _ q3 _ _ "," _ Hrem3 eq_refl eq_refl). }
  pose proof (adv_det inp q3 p3 _ Ha3 Hcomma) as ->.
  destruct (IHm f lf inp (q3 + 1) rest true (q3 + 1) 0 mtok (pairs ++ [(rk, rv)])%list Hrem4 ltac:(lia) ltac:(lia))
    as (p4 & rps & p5 & Hp4 & Ho4 & Hloop & Ha5 & Hlit).
  exists p, ((rk, rv) :: rps), p5. split; [exact Hp|]. split; [exact Ho|]. split; [|split].
  - rewrite (parseObjectLoop_more _ lf pairs p rk _ p2 rv _ p4 He eq_refl Hp2 He2 eq_refl Hp4).
    rewrite Hloop, <- app_assoc. reflexivity.
  - eapply adv_eq; [exact Ha5|]. unfold q3, q1. lia.
  - constructor; [|apply (litpairs_mono _ _ _ _ Hlit); lia].
    split; [exact (lit_key _ _ _ Hl)|apply (lit_mono _ _ _ _ Hl2); lia].
Qed.

(* ---- the induction ---- *)

Theorem parse_json_mut :
  (forall v t, jtext jnum v t -> P v t) /\
  (forall vs ts body, jelems jnum vs ts body -> Pe vs body) /\
  (forall kvs body, jmembers jnum kvs body -> Pm kvs body).
Proof.
  apply (jtext_mutind jnum P (fun vs _ body => Pe vs body) Pm).
  - exact case_null.
  - exact case_true.
  - exact case_false.
  - exact case_number.
  - exact case_string.
  - intros vs ts body _ H. apply case_array. exact H.
  - intros kvs body _ H Hd. apply case_object; assumption.
  - intros v t w1 w2 _ H H1 H2. apply case_ws; assumption.
  - intros w Hw. left. split; [reflexivity|exact Hw].
  - intros v t _ H. apply case_elems_one. exact H.
  - intros v t vs ts body _ H _ He Hne. apply case_elems_cons; assumption.
  - intros w Hw. left. split; [reflexivity|exact Hw].
  - intros k tk0 v t _ Hk _ Hv. apply case_members_one; assumption.
  - intros k tk0 v t kvs body _ Hk _ Hv _ Hm Hne. apply case_members_cons; assumption.
Qed.

(* ---- whole programs ---- *)

(* C11_parses: every JSON text (unique object keys; numbers that the conversion oracle accepts)
   is a program: it parses — raw tree r — and optimizes to the literal node n of the value v
   the text denotes; the evaluation depth of n is at most the length of the text *)
Theorem C11_parses v t : jtext jnum v t ->
  exists r n, ParseRaw (parse_fuel t) t = ROk r /\ opt r = ROk n /\
              Parse (parse_fuel t) t = ROk n /\ good n v /\ (jfuel n <= slen t)%nat.
Proof.
  intros H. destruct parse_json_mut as [HP _]. destruct (HP v t H) as [_ IH].
  assert (Hrem : rem t 0 (t ++ "")).
  { split; [lia|]. rewrite sapp_nil_r. reflexivity. }
  destruct (IH (parse_fuel t) t 0 "" typeEOF true 0 0 zeroToken Hrem eq_refl)
    as (p & r & p' & Hp & _ & He & Ha & (n & Hn & Hg & Hj)).
  { unfold parse_fuel. lia. }
  pose proof (rem_app _ _ _ _ Hrem) as Hrem1.
  destruct (adv_stop_ty t _ p' "" typeEOF Ha Hrem1 eq_refl) as [Hty _].
  assert (Hraw : ParseRaw (parse_fuel t) t = ROk r).
  { unfold parse_raw, newParser. change (newLexer t) with (mkL t 0 0 0).
    change {| plexer := mkL t 0 0 0; ptoken := zeroToken |} with (mkP t 0 0 0 zeroToken).
    rewrite Hp. cbn [rbind]. rewrite He, Hty. reflexivity. }
  exists r, n. split; [exact Hraw|]. split; [exact Hn|]. split; [|split; assumption].
  unfold parse. rewrite Hraw. exact Hn.
Qed.

Section Eval.
Variable fmt_num : f64 -> string.
Variable regex_find : string -> string -> option (list (list (Z * Z))).
Variable pow_fn : f64 -> f64 -> option f64.
Variable xlib : string -> list carg -> option (lres ovalue).

Notation ev := (eval fmt_num regex_find pow_fn xlib).

(* C11_denotes: every JSON text with unique object keys is a JSONata expression that
   evaluates, on any input, in any environment and world (left unchanged), to the value the
   text denotes.  The evaluator's depth budget must cover the nesting of the literal
   ([jfuel n], at most the length of the text); with less the model evaluator reports
   out-of-fuel, so the statement "for every fuel" of the informal property reads "for every
   sufficient fuel". *)
Theorem C11_denotes v t : jtext jnum v t ->
  exists n, Parse (parse_fuel t) t = ROk n /\ jliteral n = true /\ jkeys_unique n = true /\
    jvalue n = v /\ (jfuel n <= slen t)%nat /\
    forall fuel input env w, (jfuel n <= fuel)%nat -> ev fuel n input env w = Ok (Some v) w.
Proof.
  intros H. destruct (C11_parses v t H) as (r & n & _ & _ & Hp & (G1 & G2 & G3) & Hj).
  exists n. repeat (split; [assumption|]).
  intros fuel input env w Hf. rewrite <- G3.
  apply (C11_literal_denotes fmt_num regex_find pow_fn xlib); assumption.
Qed.

Corollary C11_denotes_len v t : jtext jnum v t ->
  exists n, Parse (parse_fuel t) t = ROk n /\
    forall fuel input env w, (slen t <= fuel)%nat -> ev fuel n input env w = Ok (Some v) w.
Proof.
  intros H. destruct (C11_denotes v t H) as (n & Hp & _ & _ & _ & Hj & He).
  exists n. split; [exact Hp|]. intros. apply He. lia.
Qed.

(* numbers, as a statement of its own: the text of a JSON number, with or without a minus
   sign, is a program that parses to the number literal the oracle returns (negated for a
   minus sign: -0 is the negative zero) and evaluates to it *)
Theorem C11_number_denotes s x : jnum s x ->
  Parse (parse_fuel s) s = ROk (NNumber x) /\
  forall fuel input env w, ev (S fuel) (NNumber x) input env w = Ok (Some (VNum x)) w.
Proof.
  intros H. destruct (C11_parses (VNum x) s (jt_number jnum s x H)) as (r & n & _ & _ & Hp & (G1 & G2 & G3) & _).
  assert (n = NNumber x) as -> by (destruct n; try discriminate G1; cbn in G3; congruence).
  split; [exact Hp|]. intros. reflexivity.
Qed.

End Eval.

(* numbers the oracle reports as out of range (the nearest double would be infinite) are not
   JSONata numbers: the program does not compile, error NumberRange on the number token *)
Theorem C11_number_range t : jnumber_text t -> parse_number t = NumRange ->
  exists e, Parse (parse_fuel t) t = RErr e /\ etype e = ErrNumberRange /\ etoken e = t /\
            Parse (parse_fuel ("-" ++ t)) ("-" ++ t) = RErr (mkError ErrNumberRange {| ttype := typeNumber; tvalue := t; tpos := 1 |} "").
Proof.
  intros Ht Hp.
  assert (Hnud : forall f pe, nudOf f pe typeNumber = Some (parseNumber parse_number)) by reflexivity.
  assert (Hnum : forall f rbp inp q pos rest, rem inp q rest -> stop_ty rest = Some typeEOF ->
            pExpr (S f) rbp (tokP inp q 0 typeNumber t pos) =
            RErr (mkError ErrNumberRange {| ttype := typeNumber; tvalue := t; tpos := pos |} "")).
  { intros f rbp inp q pos rest Hrem Hst.
    destruct (adv_stop false inp q q 0 {| ttype := typeNumber; tvalue := t; tpos := pos |} rest typeEOF Hrem Hst)
      as (p1 & Hp1 & _).
    rewrite parseExpression_unfold, bind_curToken. cbn [tokP ptoken ttype tt_eqb tt_num Nat.eqb].
    change (opens_operand typeNumber) with false.
    change {| plexer := mkL inp q q 0; ptoken := {| ttype := typeNumber; tvalue := t; tpos := pos |} |}
      with (mkP inp q q 0 {| ttype := typeNumber; tvalue := t; tpos := pos |}).
    rewrite (sbind_ok _ _ _ tt p1 Hp1), Hnud. unfold sbind. rewrite parseNumber_oracle. cbn [tvalue].
    rewrite Hp. reflexivity. }
  eexists. split; [|split; [|split]].
  - assert (Hrem : rem t 0 (t ++ "")) by (split; [lia|rewrite sapp_nil_r; reflexivity]).
    pose proof (A_number true t 0 0 0 zeroToken t "" Hrem Ht eq_refl) as Ha.
    pose proof (rem_app _ _ _ _ Hrem) as Hrem1.
    unfold parse, parse_raw, newParser. change (newLexer t) with (mkL t 0 0 0).
    change {| plexer := mkL t 0 0 0; ptoken := zeroToken |} with (mkP t 0 0 0 zeroToken).
    rewrite Ha. cbn [rbind]. unfold parse_fuel.
    replace (2 * slen t + 6)%nat with (S (2 * slen t + 5)) by lia.
    rewrite (Hnum _ 0 t _ 0 "" Hrem1 eq_refl). reflexivity.
  - reflexivity.
  - reflexivity.
  - set (s := "-" ++ t).
    assert (Hrem : rem s 0 (String "-" (t ++ ""))) by (split; [lia|rewrite sapp_nil_r; reflexivity]).
    pose proof (A_sym1 45 typeMinus true s 0 0 0 zeroToken "-" (t ++ "") Hrem eq_refl eq_refl) as Ha.
    pose proof (rem_cons _ _ _ _ Hrem) as Hrem1.
    pose proof (A_number true s (0 + 1) (0 + 1) 0 {| ttype := typeMinus; tvalue := "-"; tpos := 0 |} t "" Hrem1 Ht eq_refl) as Ha1.
    pose proof (rem_app _ _ _ _ Hrem1) as Hrem2.
    unfold parse, parse_raw, newParser. change (newLexer s) with (mkL s 0 0 0).
    change {| plexer := mkL s 0 0 0; ptoken := zeroToken |} with (mkP s 0 0 0 zeroToken).
    rewrite Ha. cbn [rbind]. unfold parse_fuel.
    replace (2 * slen s + 6)%nat with (S (S (2 * slen s + 4))) by lia.
    rewrite parseExpression_unfold, bind_curToken. cbn [tokP ptoken ttype tt_eqb tt_num Nat.eqb].
    change (opens_operand typeMinus) with true.
    change {| plexer := mkL s (0 + 1) (0 + 1) 0; ptoken := {| ttype := typeMinus; tvalue := "-"; tpos := 0 |} |}
      with (mkP s (0 + 1) (0 + 1) 0 {| ttype := typeMinus; tvalue := "-"; tpos := 0 |}).
    rewrite (sbind_ok _ _ _ tt _ Ha1).
    change (nudOf (S (2 * slen s + 4)) (pExpr (S (2 * slen s + 4))) typeMinus)
      with (Some (parseNegation (pExpr (S (2 * slen s + 4))))).
    cbv iota. unfold sbind at 1. unfold parseNegation. unfold sbind at 1.
    rewrite (Hnum _ _ s _ (0 + 1) "" Hrem2 eq_refl). reflexivity.
Qed.

End Full.

Print Assumptions parse_json_mut.
Print Assumptions C11_parses.
Print Assumptions C11_denotes.
Print Assumptions C11_denotes_len.
Print Assumptions C11_number_denotes.
Print Assumptions C11_number_range.
(* examples instantiating these theorems: section 6 (ex_jtext, ex_denotes, ex_number, ex_range,
   ex_fuel_needed), once the concrete number oracle is available *)

(* ==================================================================================== *)
(* (imports for the number oracle: real numbers, Flocq, Base/Decimal and its proofs)     *)
(* ==================================================================================== *)
From Coq Require Import Reals Psatz Ascii String.
From Flocq Require Import Core IEEE754.BinarySingleNaN.
From JV Require Import Base.Bytes Base.F64 Base.Decimal Proofs.DecimalProofs Model.Top.
Open Scope string_scope.
Open Scope Z_scope.

(* ==================================================================================== *)
(* 5. Numbers: the oracle of Model/Top.v (Base/Decimal.parse_float)                       *)
(* ==================================================================================== *)

(* the decimal meaning of the parts of a JSON number: mantissa digits and power of ten *)
Definition frac_digits (f : string) : string :=
  match f with String _ d => d | EmptyString => EmptyString end.
Definition exp_value (e : string) : Z :=
  match e with
  | String _ (String sg d) =>
      if byte_of sg =? 43 then dval d 0
      else if byte_of sg =? 45 then - dval d 0
      else dval (String sg d) 0
  | _ => 0
  end.
Definition json_mant (i f : string) : Z := dval (i ++ frac_digits f) 0.
Definition json_exp10 (f e : string) : Z := exp_value e - Z.of_nat (slen (frac_digits f)).

Lemma all_digits_eq s : C11.all_digits s = DecimalProofs.all_digits s.
Proof. induction s as [|c s IH]; [reflexivity|]. cbn [C11.all_digits DecimalProofs.all_digits]. rewrite IH. reflexivity. Qed.

Lemma ascii_of_byte c k : byte_of c = k -> c = ascii_of_Z k.
Proof. intros <-. symmetry. apply ascii_of_Z_byte_of. Qed.

Lemma digits1_dec d : digits1 d = true -> DecimalProofs.all_digits d = true /\ d <> EmptyString.
Proof.
  destruct d as [|c r]; [discriminate|]. unfold digits1. rewrite all_digits_eq. intros H. split; [exact H|discriminate].
Qed.

Lemma jint_dec i : jint i = true ->
  DecimalProofs.all_digits i = true /\ exists c r, i = String c r /\ is_digit c = true.
Proof.
  destruct i as [|c r]; [discriminate|]. cbn [jint]. intros H.
  destruct (byte_of c =? 48) eqn:E.
  - destruct r; [|discriminate]. assert (Hc : is_digit c = true) by (unfold is_digit; lia).
    split; [cbn [DecimalProofs.all_digits]; rewrite Hc; reflexivity|exists c, EmptyString; auto].
  - apply andb_true_iff in H as [H1 H2]. assert (Hc : is_digit c = true) by (unfold is_digit; lia).
    split; [cbn [DecimalProofs.all_digits]; rewrite Hc, <- all_digits_eq; exact H2|exists c, r; auto].
Qed.

(* the exponent part, as parse_float reads it *)
Lemma json_exp_tail neg m2 n2 e : jexp e = true ->
  match e with
  | EmptyString => dec_to_f64 neg m2 (- n2)
  | String c r =>
      if Ascii.eqb c "e" || Ascii.eqb c "E" then
        let '(eneg, s4) := read_sign r in
        let '(ev, en, s5) := read_digits s4 0 0 in
        if en =? 0 then PFSyntax
        else match s5 with
             | EmptyString => dec_to_f64 neg m2 ((if eneg then - ev else ev) - n2)
             | String _ _ => PFSyntax
             end
      else PFSyntax
  end = dec_to_f64 neg m2 (exp_value e - n2).
Proof.
  intros He. destruct e as [|c r]; [reflexivity|].
  cbn [jexp] in He. apply andb_true_iff in He as [Hc Hr].
  assert (Hce : Ascii.eqb c "e" || Ascii.eqb c "E" = true).
  { destruct (byte_of c =? 101) eqn:E1.
    - rewrite (ascii_of_byte c 101) by lia. reflexivity.
    - rewrite (ascii_of_byte c 69) by lia. reflexivity. }
  rewrite Hce. destruct r as [|sg d]; [discriminate|].
  cbn [exp_value].
  destruct (byte_of sg =? 43) eqn:E43.
  { rewrite (ascii_of_byte sg 43) by lia. cbn [orb] in Hr.
    destruct (digits1_dec d Hr) as [Hd Hne].
    change (read_sign (String (ascii_of_Z 43) d)) with (false, d). cbv beta iota.
    rewrite read_digits_all by exact Hd. pose proof (slen_pos d Hne).
    replace (0 + Z.of_nat (slen d) =? 0) with false by lia. reflexivity. }
  destruct (byte_of sg =? 45) eqn:E45.
  { rewrite (ascii_of_byte sg 45) by lia. cbn [orb] in Hr.
    destruct (digits1_dec d Hr) as [Hd Hne].
    change (read_sign (String (ascii_of_Z 45) d)) with (true, d). cbv beta iota.
    rewrite read_digits_all by exact Hd. pose proof (slen_pos d Hne).
    replace (0 + Z.of_nat (slen d) =? 0) with false by lia. reflexivity. }
  cbn [orb] in Hr. destruct (digits1_dec _ Hr) as [Hd Hne].
  assert (Hsg : is_digit sg = true).
  { cbn [DecimalProofs.all_digits] in Hd. apply andb_true_iff in Hd as [H _]. exact H. }
  destruct (is_digit_not_sign sg Hsg) as [S1 S2].
  assert (Hrs : read_sign (String sg d) = (false, String sg d)) by (cbn [read_sign]; rewrite S1, S2; reflexivity).
  rewrite Hrs. cbv beta iota. rewrite read_digits_all by exact Hd. pose proof (slen_pos _ Hne).
  replace (0 + Z.of_nat (slen (String sg d)) =? 0) with false by lia. reflexivity.
Qed.

Lemma jexp_nondigit e : jexp e = true -> nondigit_start e.
Proof.
  destruct e as [|c r]; [exact (fun _ => I)|]. cbn [jexp nondigit_start]. intros H.
  apply andb_true_iff in H as [H _]. unfold is_digit. lia.
Qed.

(* json_number_shape: on the text of a JSON number, parse_float computes the correctly rounded
   value of  mantissa * 10^exponent  read off the text *)
Theorem json_number_shape i f e : jint i = true -> jfrac f = true -> jexp e = true ->
  parse_float (i ++ f ++ e) = dec_to_f64 false (json_mant i f) (json_exp10 f e).
Proof.
  intros Hi Hf He. destruct (jint_dec i Hi) as (Hid & c & r & Ei & Hc).
  pose proof (jexp_nondigit e He) as Hen.
  assert (Hnd : nondigit_start (f ++ e)).
  { destruct f as [|cf d]; [exact Hen|]. cbn [jfrac] in Hf. apply andb_true_iff in Hf as [Hcf _].
    cbn [append nondigit_start]. unfold is_digit. lia. }
  assert (Hsign : read_sign (i ++ f ++ e) = (false, i ++ f ++ e)).
  { rewrite Ei. destruct (is_digit_not_sign c Hc) as [S1 S2]. cbn [append read_sign]. rewrite S1, S2. reflexivity. }
  unfold parse_float. rewrite Hsign. rewrite read_digits_app by assumption.
  assert (Hli : 0 < Z.of_nat (slen i)) by (rewrite Ei; cbn [slen String.length]; lia).
  unfold json_mant, json_exp10. rewrite dval_app. set (m1 := dval i 0).
  destruct f as [|cf d].
  - cbn [append frac_digits dval slen String.length].
    assert (Hm : match e with
                 | EmptyString => (m1, 0, e)
                 | String c0 r0 => if Ascii.eqb c0 "." then read_digits r0 m1 0 else (m1, 0, e)
                 end = (m1, 0, e)).
    { destruct e as [|ce re]; [reflexivity|]. cbn [jexp] in He. apply andb_true_iff in He as [Hce _].
      destruct (byte_of ce =? 101) eqn:E1.
      - rewrite (ascii_of_byte ce 101) by lia. reflexivity.
      - rewrite (ascii_of_byte ce 69) by lia. reflexivity. }
    rewrite Hm. replace (0 + Z.of_nat (slen i) + 0 =? 0) with false by lia.
    change (Z.of_nat 0) with 0. rewrite <- (json_exp_tail false m1 0 e He). reflexivity.
  - cbn [jfrac] in Hf. apply andb_true_iff in Hf as [Hcf Hd]. destruct (digits1_dec d Hd) as [Hdd Hne].
    rewrite (ascii_of_byte cf 46) by lia. cbn [append frac_digits].
    change (Ascii.eqb (ascii_of_Z 46) ".") with true. cbv iota.
    rewrite read_digits_app by assumption.
    replace (0 + Z.of_nat (slen i) + (0 + Z.of_nat (slen d)) =? 0) with false by lia.
    replace (0 + Z.of_nat (slen d)) with (Z.of_nat (slen d)) by lia.
    apply json_exp_tail. exact He.
Qed.

Lemma dval_nonneg s : forall acc, DecimalProofs.all_digits s = true -> 0 <= acc -> 0 <= dval s acc.
Proof.
  induction s as [|c s IH]; intros acc Hs Ha; [exact Ha|]. cbn [DecimalProofs.all_digits dval] in *.
  apply andb_true_iff in Hs as [Hc Hs]. apply IH; [exact Hs|]. unfold is_digit, digit_val in *. lia.
Qed.

Lemma json_mant_nonneg i f : jint i = true -> jfrac f = true -> 0 <= json_mant i f.
Proof.
  intros Hi Hf. destruct (jint_dec i Hi) as (Hid & _). unfold json_mant. apply dval_nonneg; [|lia].
  rewrite all_digits_app, Hid. destruct f as [|c d]; [reflexivity|]. cbn [jfrac] in Hf.
  apply andb_true_iff in Hf as [_ Hd]. cbn [frac_digits]. apply (digits1_dec d Hd).
Qed.

(* the oracle never rejects the syntax of a JSON number: the only failure is overflow *)
Theorem json_number_total t : jnumber_text t ->
  (exists x, parse_number_of_decimal t = NumOk x) \/ parse_number_of_decimal t = NumRange.
Proof.
  intros [i f e Hi Hf He]. unfold parse_number_of_decimal. rewrite (json_number_shape i f e Hi Hf He).
  pose proof (dec_to_f64_valid false (json_mant i f) (json_exp10 f e)) as H.
  destruct (dec_to_f64 false (json_mant i f) (json_exp10 f e)) as [x|x|]; [left; eauto|right; reflexivity|destruct H].
Qed.

(* the exact real number written by a JSON number text with sign neg and parts i f e *)
Definition json_real (neg : bool) (i f e : string) : R :=
  dec_real neg (json_mant i f) (json_exp10 f e).

Lemma unsigned_nearest i f e y : jint i = true -> jfrac f = true -> jexp e = true ->
  parse_float (i ++ f ++ e) = PFOk y ->
  SF2R radix2 y = round64 (json_real false i f e) /\ is_finite_SF y = true /\ sign_SF y = false.
Proof.
  intros Hi Hf He Hp. rewrite (json_number_shape i f e Hi Hf He) in Hp. unfold json_real.
  pose proof (json_mant_nonneg i f Hi Hf) as Hm. set (M := json_mant i f) in *. set (k := json_exp10 f e) in *.
  destruct (Z_lt_le_dec 0 M) as [HM|HM].
  - pose proof (dec_to_f64_correct false M k HM) as H. unfold pf_correct in H.
    destruct (Rlt_bool _ _).
    + destruct H as (f0 & E & H1 & H2 & H3 & _). rewrite E in Hp. injection Hp as <-. auto.
    + rewrite H in Hp. discriminate Hp.
  - rewrite dec_to_f64_zero in Hp by exact HM. injection Hp as <-.
    assert (M = 0) as -> by lia. unfold dec_real. cbn [SpecFloat.cond_Zopp].
    rewrite F2R_0, round_0 by apply valid_rnd_N. repeat split.
Qed.

Lemma SF2R_fopp y : SF2R radix2 (fopp y) = (- SF2R radix2 y)%R.
Proof.
  destruct y as [s|s| |s m e]; cbn [fopp SFopp SF2R]; try (symmetry; apply Ropp_0).
  destruct s; cbn [negb SpecFloat.cond_Zopp]; rewrite <- F2R_Zopp; reflexivity.
Qed.

(* jnum_nearest ("number literals denote the nearest double"): for the oracle of Model/Top.v a
   number text [-] int frac exp denotes the IEEE-754 binary64 value nearest (ties to even) to the
   real number it writes, with the sign of the text (so -0 and -1e-999 are the negative zero);
   texts whose nearest double would be infinite denote nothing (the program does not compile) *)
Theorem jnum_nearest s x : jnum parse_number_of_decimal s x ->
  exists neg i f e, s = sign_str neg ++ i ++ f ++ e /\
    jint i = true /\ jfrac f = true /\ jexp e = true /\
    SF2R radix2 x = round64 (json_real neg i f e) /\ is_finite_SF x = true /\ sign_SF x = neg.
Proof.
  intros [t y Ht Hp|t y Ht Hp]; destruct Ht as [i f e Hi Hf He];
    unfold parse_number_of_decimal in Hp;
    destruct (parse_float (i ++ f ++ e)) as [y'| |] eqn:Epf; try discriminate Hp; injection Hp as ->;
    destruct (unsigned_nearest i f e y Hi Hf He Epf) as (H1 & H2 & H3).
  - exists false, i, f, e. repeat split; auto.
  - exists true, i, f, e. split; [reflexivity|]. repeat (split; [assumption|]).
    split; [|split].
    + rewrite SF2R_fopp, H1. unfold json_real, dec_real. cbn [SpecFloat.cond_Zopp].
      rewrite F2R_Zopp, round_NE_opp. reflexivity.
    + destruct y; try discriminate H2; reflexivity.
    + destruct y; try discriminate H2; cbn in *; rewrite H3; reflexivity.
Qed.

Print Assumptions json_number_shape.
Print Assumptions json_number_total.
Print Assumptions jnum_nearest.

(* ==================================================================================== *)
(* 6. The statement for the oracles of Model/Top.v, and examples                          *)
(* ==================================================================================== *)

(* the denotation of number tokens with strconv.ParseFloat modelled by Base/Decimal *)
Definition jnum_dec : string -> f64 -> Prop := jnum parse_number_of_decimal.

(* C11_denotes_top: C11_denotes for the parser as Model/Top.v runs it (parse_with_table: the
   number oracle is Base/Decimal.parse_float, any oracle table) *)
Theorem C11_denotes_top tbl fmt_num regex_find pow_fn xlib v t : jtext jnum_dec v t ->
  exists n, parse_with_table tbl t = ROk n /\ jliteral n = true /\ jkeys_unique n = true /\
    jvalue n = v /\ (jfuel n <= slen t)%nat /\
    forall fuel input env w, (jfuel n <= fuel)%nat ->
      eval fmt_num regex_find pow_fn xlib fuel n input env w = Ok (Some v) w.
Proof. intros H. apply (C11_denotes _ _ _ _ fmt_num regex_find pow_fn xlib v t H). Qed.

Lemma jtext_sp J v t : jtext J v t -> jtext J v (String " " t).
Proof.
  intros H. pose proof (jt_ws J v t " " "" H eq_refl eq_refl) as H'.
  rewrite sapp_nil_r in H'. exact H'.
Qed.

Definition ex_text : string := "[1, [[]], {""b"": [-1.5e3], ""a"": null}, ""x\u00e9é""]".
Definition ex_value : value :=
  VArr [VNum (f_of_Z 1); VArr [VArr []];
        VObj [("a", VNull); ("b", VArr [VNum (fopp (f_of_Z 1500))])];
        VStr "xéé"].

Example ex_jtext : jtext jnum_dec ex_value ex_text.
Proof.
  assert (N1 : jnum_dec "1" (f_of_Z 1)).
  { apply jnum_pos; [apply (jn_parts "1" "" ""); reflexivity|vm_compute; reflexivity]. }
  assert (N2 : jnum_dec "-1.5e3" (fopp (f_of_Z 1500))).
  { apply (jnum_neg parse_number_of_decimal "1.5e3");
      [apply (jn_parts "1" ".5" "e3"); reflexivity|vm_compute; reflexivity]. }
  assert (S1 : jstring_body [URaw 98] [98]).
  { apply jb_cons; [vm_compute; intuition congruence|apply jb_nil]. }
  assert (S2 : jstring_body [URaw 97] [97]).
  { apply jb_cons; [vm_compute; intuition congruence|apply jb_nil]. }
  assert (S3 : jstring_body [URaw 120; UHex "00e9"; URaw 233] [120; 233; 233]).
  { repeat (apply jb_cons; [vm_compute; intuition congruence|]). apply jb_nil. }
  assert (T1 : jtext jnum_dec (VNum (f_of_Z 1)) "1") by (apply jt_number; exact N1).
  assert (T2 : jtext jnum_dec (VArr [VArr []]) " [[]]").
  { apply jtext_sp. apply (jt_array _ [VArr []] ["[]"] "[]"). apply je_one.
    apply (jt_array _ [] [] ""). apply je_nil. reflexivity. }
  assert (T3b : jtext jnum_dec (VArr [VNum (fopp (f_of_Z 1500))]) " [-1.5e3]").
  { apply jtext_sp. apply (jt_array _ [VNum (fopp (f_of_Z 1500))] ["-1.5e3"] "-1.5e3"). apply je_one.
    apply jt_number. exact N2. }
  assert (K1 : jtext jnum_dec (VStr "b") """b""") by exact (jt_string jnum_dec _ _ S1).
  assert (K2 : jtext jnum_dec (VStr "a") " ""a""") by (apply jtext_sp; exact (jt_string jnum_dec _ _ S2)).
  assert (T3 : jtext jnum_dec (VObj [("a", VNull); ("b", VArr [VNum (fopp (f_of_Z 1500))])])
                 " {""b"": [-1.5e3], ""a"": null}").
  { apply jtext_sp.
    apply (jt_object jnum_dec [("b", VArr [VNum (fopp (f_of_Z 1500))]); ("a", VNull)]
             ("""b""" ++ ":" ++ " [-1.5e3]" ++ "," ++ (" ""a""" ++ ":" ++ " null"))); [|reflexivity].
    apply jm_cons; [exact K1|exact T3b| |discriminate].
    apply jm_one; [exact K2|]. apply jtext_sp. apply jt_null. }
  assert (T4 : jtext jnum_dec (VStr "xéé") " ""x\u00e9é""").
  { apply jtext_sp. exact (jt_string jnum_dec _ _ S3). }
  unfold ex_value, ex_text.
  apply (jt_array jnum_dec _ ["1"; " [[]]"; " {""b"": [-1.5e3], ""a"": null}"; " ""x\u00e9é"""]
           ("1" ++ "," ++ (" [[]]" ++ "," ++ (" {""b"": [-1.5e3], ""a"": null}" ++ "," ++ " ""x\u00e9é""")))).
  apply je_cons; [exact T1| |discriminate].
  apply je_cons; [exact T2| |discriminate].
  apply je_cons; [exact T3| |discriminate].
  apply je_one. exact T4.
Qed.

(* the theorem applied to the example: it parses (with an empty oracle table: no oracle is
   consulted for a JSON text) and evaluates to the value, on any input *)
Example ex_denotes fmt_num regex_find pow_fn xlib :
  exists n, parse_with_table [] ex_text = ROk n /\ jvalue n = ex_value /\
    forall input env w, eval fmt_num regex_find pow_fn xlib 5 n input env w = Ok (Some ex_value) w.
Proof.
  destruct (C11_denotes_top [] fmt_num regex_find pow_fn xlib _ _ ex_jtext) as (n & Hp & _ & _ & Hv & _ & He).
  exists n. split; [exact Hp|]. split; [exact Hv|]. intros. apply He.
  assert (E : parse_with_table [] ex_text =
              ROk (NArray [NNumber (f_of_Z 1); NArray [NArray []];
                           NObject [(NString "b", NArray [NNumber (fopp (f_of_Z 1500))]); (NString "a", NNull)];
                           NString "xéé"])) by (vm_compute; reflexivity).
  rewrite E in Hp. injection Hp as <-. vm_compute. lia.
Qed.

(* the number oracle on examples: nearest double, negative zero, overflow is not a JSONata number *)
Example ex_numbers :
  jnum_dec "0.1" (S754_finite false 7205759403792794 (-56)) /\
  jnum_dec "-0" (S754_zero true) /\
  jnum_dec "-0.0e-5" (S754_zero true) /\
  jnum_dec "1E+2" (f_of_Z 100) /\
  jnumber_text "1e999" /\ parse_number_of_decimal "1e999" = NumRange.
Proof.
  split; [apply jnum_pos; [apply (jn_parts "0" ".1" ""); reflexivity|vm_compute; reflexivity]|].
  split; [apply (jnum_neg parse_number_of_decimal "0" (S754_zero false));
            [apply (jn_parts "0" "" ""); reflexivity|vm_compute; reflexivity]|].
  split; [apply (jnum_neg parse_number_of_decimal "0.0e-5" (S754_zero false));
            [apply (jn_parts "0" ".0" "e-5"); reflexivity|vm_compute; reflexivity]|].
  split; [apply jnum_pos; [apply (jn_parts "1" "" "E+2"); reflexivity|vm_compute; reflexivity]|].
  split; [apply (jn_parts "1" "" "e999"); reflexivity|vm_compute; reflexivity].
Qed.

(* C11_number_denotes and C11_number_range on instances *)
Example ex_number rc fg q :
  parse parse_number_of_decimal rc fg q (parse_fuel "-1.5e3") "-1.5e3" = ROk (NNumber (fopp (f_of_Z 1500))).
Proof.
  apply (C11_number_denotes parse_number_of_decimal rc fg q (fun _ => "") (fun _ _ => None)
           (fun _ _ => None) (fun _ _ => None)).
  apply (jnum_neg parse_number_of_decimal "1.5e3");
    [apply (jn_parts "1" ".5" "e3"); reflexivity|vm_compute; reflexivity].
Qed.

Example ex_range rc fg q :
  exists e, parse parse_number_of_decimal rc fg q (parse_fuel "1e999") "1e999" = RErr e /\
            etype e = ErrNumberRange /\ etoken e = "1e999".
Proof.
  destruct (C11_number_range parse_number_of_decimal rc fg q "1e999") as (e & H1 & H2 & H3 & _).
  - apply (jn_parts "1" "" "e999"); reflexivity.
  - vm_compute. reflexivity.
  - exists e. auto.
Qed.

(* why the evaluation fuel of C11_denotes is bounded below: one unit per array level *)
Example ex_fuel_needed fmt_num regex_find pow_fn xlib input env w :
  eval fmt_num regex_find pow_fn xlib 1 (NArray [NNull]) input env w = OutOfFuel.
Proof. reflexivity. Qed.

Print Assumptions C11_denotes_top.
Print Assumptions ex_denotes.
