(* Proofs/LibDateProofs.v — theorems about Model/LibDate.v and Model/LibFormatDate.v against
   Spec/C19.v.  All statements are for ALL integers / all instants unless a hypothesis says
   otherwise.  Finite residue classes (the 146097 days of a 400-year era) are discharged by
   exhaustive evaluation inside Coq ([forall_from], a proof by reflection, not a sample test);
   everything else is [lia] with div/mod elimination. *)
From Coq Require Import ZArith List String Ascii Bool Lia ZifyBool.
From JV Require Import Base.Bytes Base.Utf8 Base.Res Model.LibDate Model.LibFormatDate Spec.C19.
Import ListNotations.
Open Scope Z_scope.

Ltac Zify.zify_post_hook ::= Z.div_mod_to_equations.

(* ------------------------------------------------------------------------------------------ *)
(** * Bounded universal quantification by evaluation *)

Fixpoint forall_from (n : nat) (i : Z) (p : Z -> bool) : bool :=
  match n with
  | O => true
  | S n' => if p i then forall_from n' (i + 1) p else false
  end.

Lemma forall_from_spec n : forall i p, forall_from n i p = true ->
  forall j, i <= j < i + Z.of_nat n -> p j = true.
Proof.
  induction n as [|n IH]; intros i p H j Hj.
  - simpl in Hj. lia.
  - cbn [forall_from] in H. destruct (p i) eqn:Hp; [|discriminate].
    destruct (Z.eq_dec j i) as [->|Hne]; [exact Hp|].
    apply (IH (i + 1) p H). lia.
Qed.

(* ------------------------------------------------------------------------------------------ *)
(** * The model's leap/length functions are the specification's *)

Lemma is_leap_spec y : is_leap y = leap_year y.
Proof.
  unfold is_leap, leap_year.
  destruct (y mod 4 =? 0) eqn:E4, (y mod 100 =? 0) eqn:E100, (y mod 400 =? 0) eqn:E400;
    try reflexivity; exfalso; lia.
Qed.

Lemma days_in_month_spec y m : 1 <= m <= 12 -> days_in_month y m = month_length y m.
Proof.
  intros Hm. unfold days_in_month. rewrite is_leap_spec.
  assert (m = 1 \/ m = 2 \/ m = 3 \/ m = 4 \/ m = 5 \/ m = 6 \/ m = 7 \/ m = 8 \/ m = 9 \/
          m = 10 \/ m = 11 \/ m = 12) as Hc by lia.
  repeat (destruct Hc as [->|Hc]; [reflexivity|]). subst m. reflexivity.
Qed.

Lemma is_leap_period y k : is_leap (y + 400 * k) = is_leap y.
Proof.
  unfold is_leap.
  replace ((y + 400 * k) mod 4) with (y mod 4) by lia.
  replace ((y + 400 * k) mod 100) with (y mod 100) by lia.
  replace ((y + 400 * k) mod 400) with (y mod 400) by lia.
  reflexivity.
Qed.

Lemma days_in_month_period y k m : days_in_month (y + 400 * k) m = days_in_month y m.
Proof. unfold days_in_month. now rewrite is_leap_period. Qed.

(* ------------------------------------------------------------------------------------------ *)
(** * One era (400 years = 146097 days) by exhaustive evaluation *)

(* day-of-era of (year-of-era, month, day), the inner part of days_of_civil *)
Definition doe_of (yoe m d : Z) : Z :=
  let mp := if 2 <? m then m - 3 else m + 9 in
  yoe * 365 + yoe / 4 - yoe / 100 + ((153 * mp + 2) / 5 + d - 1).

Definition year_shift (m : Z) : Z := if m <=? 2 then 1 else 0.

Definition chk_doe (doe : Z) : bool :=
  let '(yoe, m, d) := civil_of_doe doe in
  (0 <=? yoe) && (yoe <? 400) && (1 <=? m) && (m <=? 12) && (1 <=? d)
  && (d <=? days_in_month (yoe + year_shift m) m) && (doe_of yoe m d =? doe).

Lemma chk_doe_all : forall_from (Z.to_nat 146097) 0 chk_doe = true.
Proof. vm_compute. reflexivity. Qed.

Lemma civil_of_doe_spec doe : 0 <= doe < 146097 ->
  let '(yoe, m, d) := civil_of_doe doe in
  0 <= yoe < 400 /\ 1 <= m <= 12 /\ 1 <= d <= days_in_month (yoe + year_shift m) m /\
  doe_of yoe m d = doe.
Proof.
  intros H.
  pose proof (forall_from_spec _ _ _ chk_doe_all doe) as Hc.
  rewrite Z2Nat.id in Hc by lia. specialize (Hc ltac:(lia)).
  unfold chk_doe in Hc. destruct (civil_of_doe doe) as [[yoe m] d].
  repeat (apply andb_prop in Hc; destruct Hc as [Hc ?]). lia.
Qed.

Definition chk_ymd (yoe : Z) : bool :=
  forall_from 12 1 (fun m =>
  forall_from 31 1 (fun d =>
    if d <=? days_in_month (yoe + year_shift m) m then
      let doe := doe_of yoe m d in
      (0 <=? doe) && (doe <? 146097) &&
      (let '(yoe', m', d') := civil_of_doe doe in (yoe' =? yoe) && (m' =? m) && (d' =? d))
    else true)).

Lemma chk_ymd_all : forall_from 400 0 chk_ymd = true.
Proof. vm_compute. reflexivity. Qed.

Lemma doe_of_spec yoe m d : 0 <= yoe < 400 -> 1 <= m <= 12 ->
  1 <= d <= days_in_month (yoe + year_shift m) m ->
  0 <= doe_of yoe m d < 146097 /\ civil_of_doe (doe_of yoe m d) = (yoe, m, d).
Proof.
  intros Hy Hm Hd.
  pose proof (forall_from_spec _ _ _ chk_ymd_all yoe ltac:(simpl; lia)) as H1.
  unfold chk_ymd in H1.
  pose proof (forall_from_spec _ _ _ H1 m ltac:(simpl; lia)) as H2. cbv beta in H2.
  assert (d <= 31) as Hd31.
  { destruct Hd as [_ Hd]. unfold days_in_month in Hd.
    destruct (m =? 2); [destruct (is_leap _); lia|].
    destruct ((m =? 4) || (m =? 6) || (m =? 9) || (m =? 11)); lia. }
  pose proof (forall_from_spec _ _ _ H2 d ltac:(simpl; lia)) as H3. cbv beta in H3.
  destruct (d <=? days_in_month (yoe + year_shift m) m) eqn:E; [|lia].
  destruct (civil_of_doe (doe_of yoe m d)) as [[yoe' m'] d'].
  repeat (apply andb_prop in H3; destruct H3 as [H3 ?]).
  split; [lia|]. f_equal; [f_equal|]; lia.
Qed.

(* ------------------------------------------------------------------------------------------ *)
(** * 1. civil_of_days and days_of_civil are mutually inverse (all of Z) *)

Lemma days_of_civil_unfold y m d :
  days_of_civil y m d =
  let y' := y - year_shift m in
  (y' / 400) * 146097 + doe_of (y' - (y' / 400) * 400) m d - 719468.
Proof.
  unfold days_of_civil, doe_of, year_shift. destruct (m <=? 2); cbv zeta; lia.
Qed.

Theorem civil_bijection : forall z,
  let '(y, m, d) := civil_of_days z in
  days_of_civil y m d = z /\ 1 <= m <= 12 /\ 1 <= d <= days_in_month y m.
Proof.
  intros z. unfold civil_of_days.
  set (z' := z + 719468). set (era := z' / 146097). set (doe := z' - era * 146097).
  assert (0 <= doe < 146097) as Hdoe by (subst doe era; lia).
  pose proof (civil_of_doe_spec doe Hdoe) as Hs.
  destruct (civil_of_doe doe) as [[yoe m] d].
  destruct Hs as (Hyoe & Hm & Hd & Hdoe_eq).
  rewrite days_of_civil_unfold. cbv zeta.
  assert ((if m <=? 2 then yoe + era * 400 + 1 else yoe + era * 400) - year_shift m
          = yoe + era * 400) as Hy' by (unfold year_shift; destruct (m <=? 2); lia).
  rewrite Hy'.
  assert ((yoe + era * 400) / 400 = era) as Hera by lia.
  rewrite Hera.
  replace (yoe + era * 400 - era * 400) with yoe by lia.
  rewrite Hdoe_eq.
  split; [subst doe z'; lia|]. split; [exact Hm|].
  replace (if m <=? 2 then yoe + era * 400 + 1 else yoe + era * 400)
    with ((yoe + year_shift m) + 400 * era) by (unfold year_shift; destruct (m <=? 2); lia).
  rewrite days_in_month_period. exact Hd.
Qed.
Print Assumptions civil_bijection.

Theorem civil_of_days_of_civil : forall y m d,
  1 <= m <= 12 -> 1 <= d <= days_in_month y m ->
  civil_of_days (days_of_civil y m d) = (y, m, d).
Proof.
  intros y m d Hm Hd.
  rewrite days_of_civil_unfold. cbv zeta.
  set (y' := y - year_shift m). set (era := y' / 400). set (yoe := y' - era * 400).
  assert (0 <= yoe < 400) as Hyoe by (subst yoe era; lia).
  assert (days_in_month y m = days_in_month (yoe + year_shift m) m) as Hdim.
  { replace y with ((yoe + year_shift m) + 400 * era) at 1 by (subst yoe y'; lia).
    apply days_in_month_period. }
  rewrite Hdim in Hd.
  destruct (doe_of_spec yoe m d Hyoe Hm Hd) as [Hr Hc].
  unfold civil_of_days.
  replace (era * 146097 + doe_of yoe m d - 719468 + 719468) with (era * 146097 + doe_of yoe m d) by lia.
  assert ((era * 146097 + doe_of yoe m d) / 146097 = era) as He by lia.
  rewrite He.
  replace (era * 146097 + doe_of yoe m d - era * 146097) with (doe_of yoe m d) by lia.
  rewrite Hc.
  f_equal. f_equal. subst yoe y'. unfold year_shift. destruct (m <=? 2); lia.
Qed.
Print Assumptions civil_of_days_of_civil.

(* the hypotheses are satisfiable on a non-trivial instance: the leap day of 2000 *)
Example civil_bijection_ex :
  civil_of_days 11016 = (2000, 2, 29) /\ days_of_civil 2000 2 29 = 11016 /\
  civil_of_days (-719528) = (0, 1, 1) /\ civil_of_days 2932896 = (9999, 12, 31).
Proof. vm_compute. repeat split. Qed.

(* ------------------------------------------------------------------------------------------ *)
(** * The calendar law: consecutive day numbers are consecutive dates *)

Lemma month_cases m : 1 <= m <= 12 ->
  m = 1 \/ m = 2 \/ m = 3 \/ m = 4 \/ m = 5 \/ m = 6 \/ m = 7 \/ m = 8 \/ m = 9 \/
  m = 10 \/ m = 11 \/ m = 12.
Proof. lia. Qed.

(* days_of_civil is linear in the day *)
Lemma days_of_civil_day y m d k : days_of_civil y m (d + k) = days_of_civil y m d + k.
Proof. unfold days_of_civil. destruct (m <=? 2), (2 <? m); lia. Qed.

(* first of next month = last of this month + 1 *)
Lemma days_of_civil_month_end y m : 1 <= m <= 11 ->
  days_of_civil y (m + 1) 1 = days_of_civil y m (days_in_month y m) + 1.
Proof.
  intros Hm.
  destruct (month_cases m ltac:(lia)) as [->|[->|[->|[->|[->|[->|[->|[->|[->|[->|[->| ->]]]]]]]]]]];
    try lia.
  all: unfold days_of_civil, days_in_month, is_leap.
  all: repeat match goal with |- context [if ?b then _ else _] =>
         let v := eval vm_compute in b in
         match v with
         | true => change b with true; cbv iota
         | false => change b with false; cbv iota
         end end.
  all: try lia.
  - (* February -> March *)
    destruct (y mod 4 =? 0) eqn:E4, (y mod 100 =? 0) eqn:E100, (y mod 400 =? 0) eqn:E400;
    cbn [andb orb negb]; lia.
Qed.

Lemma days_of_civil_year_end y : days_of_civil (y + 1) 1 1 = days_of_civil y 12 31 + 1.
Proof.
  unfold days_of_civil.
  repeat match goal with |- context [if ?b then _ else _] =>
         let v := eval vm_compute in b in
         match v with
         | true => change b with true; cbv iota
         | false => change b with false; cbv iota
         end end.
  replace (y + 1 - 1) with y by lia. lia.
Qed.

Lemma valid_date_model y m d :
  valid_date y m d <-> (1 <= m <= 12 /\ 1 <= d <= days_in_month y m).
Proof.
  unfold valid_date. split; intros [Hm Hd]; split; auto.
  - now rewrite days_in_month_spec.
  - now rewrite <- days_in_month_spec.
Qed.

(* the day after a valid date is a valid date, one day number later *)
Lemma days_of_civil_next y m d : valid_date y m d ->
  let '(y2, m2, d2) := next_day (y, m, d) in
  valid_date y2 m2 d2 /\ days_of_civil y2 m2 d2 = days_of_civil y m d + 1.
Proof.
  intros Hv. pose proof Hv as [Hm Hd]. unfold next_day.
  destruct (d <? month_length y m) eqn:E1.
  - split; [unfold valid_date; lia|]. apply days_of_civil_day.
  - assert (d = month_length y m) as -> by lia.
    destruct (m <? 12) eqn:E2.
    + split.
      * unfold valid_date. split; [lia|].
        destruct (month_cases m Hm) as [->|[->|[->|[->|[->|[->|[->|[->|[->|[->|[->| ->]]]]]]]]]]];
          cbn [month_length Z.add Pos.add Pos.succ]; try lia; destruct (leap_year y); lia.
      * rewrite <- days_in_month_spec by lia. apply days_of_civil_month_end. lia.
    + assert (m = 12) as -> by lia. cbn [month_length].
      split; [unfold valid_date; cbn [month_length]; lia|]. apply days_of_civil_year_end.
Qed.

(** The model's day -> date function IS the proleptic Gregorian calendar counted from
    1970-01-01. *)
Theorem civil_of_days_is_calendar : is_calendar civil_of_days.
Proof.
  split; [vm_compute; reflexivity|].
  intros z. pose proof (civil_bijection z) as Hb.
  destruct (civil_of_days z) as [[y m] d]. destruct Hb as (Hz & Hm & Hd).
  assert (valid_date y m d) as Hv by (apply valid_date_model; auto).
  pose proof (days_of_civil_next y m d Hv) as Hn.
  destruct (next_day (y, m, d)) as [[y2 m2] d2]. destruct Hn as [Hv2 Hn].
  apply valid_date_model in Hv2. destruct Hv2 as [Hm2 Hd2].
  rewrite <- Hz, <- Hn. apply civil_of_days_of_civil; auto.
Qed.
Print Assumptions civil_of_days_is_calendar.

(* next_day is injective on valid dates, hence the two clauses of is_calendar determine the
   function on negative day numbers too *)
Lemma next_day_inj y m d y' m' d' : valid_date y m d -> valid_date y' m' d' ->
  next_day (y, m, d) = next_day (y', m', d') -> (y, m, d) = (y', m', d').
Proof.
  intros Hv Hv' He.
  pose proof (days_of_civil_next y m d Hv) as H1.
  pose proof (days_of_civil_next y' m' d' Hv') as H2.
  rewrite <- He in H2. destruct (next_day (y, m, d)) as [[y2 m2] d2].
  destruct H1 as [_ H1], H2 as [_ H2].
  apply valid_date_model in Hv, Hv'. destruct Hv, Hv'.
  rewrite <- (civil_of_days_of_civil y m d), <- (civil_of_days_of_civil y' m' d') by assumption.
  f_equal. lia.
Qed.

Theorem calendar_unique f : is_calendar f ->
  (forall z, let '(y, m, d) := f z in valid_date y m d) ->
  forall z, f z = civil_of_days z.
Proof.
  intros [F0 FS] Fv. destruct civil_of_days_is_calendar as [C0 CS].
  assert (forall n : nat, f (Z.of_nat n) = civil_of_days (Z.of_nat n)) as Hpos.
  { induction n as [|n IH]; [simpl; congruence|].
    rewrite Nat2Z.inj_succ. unfold Z.succ. now rewrite FS, CS, IH. }
  assert (forall n : nat, f (- Z.of_nat n) = civil_of_days (- Z.of_nat n)) as Hneg.
  { induction n as [|n IH]; [simpl; congruence|].
    rewrite Nat2Z.inj_succ. unfold Z.succ.
    set (z := - (Z.of_nat n + 1)). replace (- Z.of_nat n) with (z + 1) in IH by (subst z; lia).
    rewrite FS, CS in IH.
    pose proof (Fv z) as Hv. pose proof (civil_bijection z) as Hb.
    destruct (f z) as [[y m] d], (civil_of_days z) as [[y' m'] d'].
    apply next_day_inj; auto. apply valid_date_model. tauto. }
  intros z. destruct (Z.le_gt_cases 0 z).
  - rewrite <- (Z2Nat.id z) by lia. apply Hpos.
  - replace z with (- Z.of_nat (Z.to_nat (- z))) by lia. apply Hneg.
Qed.
Print Assumptions calendar_unique.

(* ------------------------------------------------------------------------------------------ *)
(** * 2. weekday, year-day, ISO week *)

Theorem weekday_spec : is_weekday weekday_of_days /\ forall z, 0 <= weekday_of_days z <= 6.
Proof.
  unfold is_weekday, weekday_of_days. split; [split; [reflexivity|]|]; intros z; lia.
Qed.
Print Assumptions weekday_spec.
Example weekday_ex : weekday_of_days 17804 = 0 (* 2018-09-30 was a Sunday *).
Proof. reflexivity. Qed.

Lemma months_before_doy y m : 1 <= m <= 12 ->
  days_of_civil y m 1 - days_of_civil y 1 1 = months_before y (Z.to_nat (m - 1)).
Proof.
  intros Hm.
  assert (forall k : nat, (k <= 11)%nat ->
            days_of_civil y (Z.of_nat k + 1) 1 - days_of_civil y 1 1 = months_before y k) as H.
  { induction k as [|k IH]; intros Hk; [simpl; lia|].
    cbn [months_before]. rewrite <- IH by lia.
    rewrite Nat2Z.inj_succ. unfold Z.succ.
    rewrite days_of_civil_month_end by lia.
    replace (days_in_month y (Z.of_nat k + 1)) with (1 + (days_in_month y (Z.of_nat k + 1) - 1)) by lia.
    rewrite days_of_civil_day. rewrite <- days_in_month_spec by lia. lia. }
  specialize (H (Z.to_nat (m - 1)) ltac:(lia)).
  rewrite Z2Nat.id in H by lia. replace (m - 1 + 1) with m in H by lia. exact H.
Qed.

(** YearDay is the day's rank in its year: d plus the lengths of the preceding months. *)
Theorem yearday_spec : forall z,
  let '(y, m, d) := civil_of_days z in yearday z = day_of_year y m d.
Proof.
  intros z. unfold yearday. pose proof (civil_bijection z) as Hb.
  destruct (civil_of_days z) as [[y m] d]. destruct Hb as (Hz & Hm & Hd).
  unfold day_of_year. rewrite <- months_before_doy by lia.
  rewrite <- Hz at 1. replace d with (1 + (d - 1)) at 1 by lia. rewrite days_of_civil_day. lia.
Qed.
Print Assumptions yearday_spec.
Example yearday_ex : yearday 19782 = 60 /\ civil_of_days 19782 = (2024, 2, 29).
Proof. vm_compute. split; reflexivity. Qed.

Lemma year_bounds z : let '(y, _, _) := civil_of_days z in
  days_of_civil y 1 1 <= z < days_of_civil (y + 1) 1 1.
Proof.
  pose proof (civil_bijection z) as Hb. pose proof (yearday_spec z) as Hy. unfold yearday in Hy.
  destruct (civil_of_days z) as [[y m] d]. destruct Hb as (Hz & Hm & Hd).
  rewrite days_of_civil_year_end.
  assert (days_of_civil y 12 31 = days_of_civil y 12 1 + 30) as H31.
  { replace 31 with (1 + 30) by lia. apply days_of_civil_day. }
  pose proof (months_before_doy y 12 ltac:(lia)) as H12.
  pose proof (months_before_doy y m Hm) as Hmm.
  assert (forall a b : nat, (a <= b)%nat -> (b <= 11)%nat ->
          months_before y a + 28 * Z.of_nat (b - a) <= months_before y b) as Hmono.
  { intros a b Hab Hb. induction b as [|b IH]; [replace a with 0%nat by lia; simpl; lia|].
    destruct (Nat.eq_dec a (S b)) as [->|Hne]; [rewrite Nat.sub_diag; lia|].
    cbn [months_before]. specialize (IH ltac:(lia) ltac:(lia)).
    assert (28 <= month_length y (Z.of_nat (S b))).
    { rewrite <- days_in_month_spec by lia. unfold days_in_month.
      destruct (_ =? 2); [destruct (is_leap y); lia|]. destruct (_ || _); lia. }
    lia. }
  replace d with (1 + (d - 1)) in Hz by lia. rewrite days_of_civil_day in Hz.
  pose proof (Hmono 0%nat (Z.to_nat (m - 1)) ltac:(lia) ltac:(lia)) as H0.
  change (months_before y 0) with 0 in H0.
  replace (Z.to_nat (12 - 1)) with 11%nat in H12 by reflexivity.
  split; [lia|].
  destruct (Z.eq_dec m 12) as [->|Hne].
  - rewrite days_in_month_spec in Hd by lia. cbn [month_length] in Hd.
    replace (Z.to_nat (12 - 1)) with 11%nat in Hmm by reflexivity. lia.
  - pose proof (Hmono (S (Z.to_nat (m - 1))) 11%nat ltac:(lia) ltac:(lia)) as H1.
    set (mb11 := months_before y 11) in *.
    cbn [months_before] in H1.
    replace (Z.of_nat (S (Z.to_nat (m - 1)))) with m in H1 by lia.
    rewrite days_in_month_spec in Hd by lia. lia.
Qed.

(** ISOWeek: the model's (week-year, week) is the ISO 8601 week date of the day. *)
Theorem iso_week_spec : forall z,
  let '(wy, wk) := iso_week z in
  is_iso_week days_of_civil weekday_of_days z wy wk /\ 1 <= wk <= 53.
Proof.
  intros z. unfold iso_week.
  set (d0 := 4 - weekday_of_days z). set (d := if d0 =? 4 then -3 else d0). set (thu := z + d).
  pose proof (year_bounds thu) as Hb.
  destruct (civil_of_days thu) as [[y m'] d'].
  unfold is_iso_week, iso_week1_start, monday_of.
  assert (forall yy, days_of_civil yy 1 4 = days_of_civil yy 1 1 + 3) as H4
    by (intros yy; apply (days_of_civil_day yy 1 1 3)).
  rewrite !H4.
  set (a := days_of_civil y 1 1) in *. set (b := days_of_civil (y + 1) 1 1) in *.
  assert (b - a <= 366) as Hlen.
  { subst a b. rewrite days_of_civil_year_end.
    pose proof (months_before_doy y 12 ltac:(lia)) as H12.
    replace 31 with (1 + 30) by lia. rewrite days_of_civil_day.
    replace (Z.to_nat (12 - 1)) with 11%nat in H12 by reflexivity.
    cbn [months_before month_length Z.of_nat Pos.of_succ_nat Pos.succ] in H12.
    destruct (leap_year y); lia. }
  unfold weekday_of_days in *. subst thu d d0.
  clearbody a b. clear H4 m' d'.
  destruct (4 - (z + 4) mod 7 =? 4) eqn:E.
  all: split; [split|].
  all: lia.
Qed.
Print Assumptions iso_week_spec.
Example iso_week_ex :
  iso_week 16800 = (2015, 53) (* 2015-12-31 *) /\ iso_week 16803 = (2015, 53) (* 2016-01-03 *) /\
  iso_week 18627 = (2020, 53) (* 2020-12-31 *) /\ iso_week 18631 = (2021, 1) (* 2021-01-04 *).
Proof. vm_compute. repeat split. Qed.


(* ------------------------------------------------------------------------------------------ *)
(** * 3. msToTime / timeToMS *)

(* from here on lia also eliminates Go's truncated division (Z.quot / Z.rem) *)
Ltac Zify.zify_post_hook ::= Z.to_euclidean_division_equations.

(* msToTime(ms).UTC() is the instant: floor seconds and non-negative nanoseconds *)
Lemma ms_to_time_fields ms :
  unix_sec (ms_to_time ms) = ms / 1000 /\
  nsec (ms_to_time ms) = (ms mod 1000) * 1000000 /\
  offset (ms_to_time ms) = 0 /\ zname (ms_to_time ms) = "UTC"%string.
Proof.
  unfold ms_to_time, go_time_unix.
  set (ns := Z.rem ms 1000 * 1000000).
  destruct ((ns <? 0) || (1000000000 <=? ns)) eqn:E.
  - assert (Z.quot ns 1000000000 = 0) as Hq by (subst ns; lia).
    rewrite Hq.
    destruct (ns - 0 * 1000000000 <? 0) eqn:E2; cbn [unix_sec nsec offset zname];
      repeat split; subst ns; lia.
  - cbn [unix_sec nsec offset zname]. repeat split; subst ns; lia.
Qed.

Lemma time_to_ms_of_ms ms :
  time_to_ms (ms_to_time ms) = Z.quot (wrap64 (ms * 1000000)) 1000000.
Proof.
  unfold time_to_ms, unix_nano.
  destruct (ms_to_time_fields ms) as (Hs & Hn & _). rewrite Hs, Hn.
  f_equal. f_equal. lia.
Qed.

Lemma wrap64_id z : - two63 <= z < two63 -> wrap64 z = z.
Proof. unfold wrap64, two63, two64. intros H. lia. Qed.

(** timeToMS inverts msToTime exactly as long as ms*10^6 fits an int64 (1677-09-21 .. 2262-04-11). *)
Theorem ms_to_time_inverse : forall ms,
  - two63 <= ms * 1000000 < two63 -> time_to_ms (ms_to_time ms) = ms.
Proof.
  intros ms H. rewrite time_to_ms_of_ms, wrap64_id by exact H. lia.
Qed.
Print Assumptions ms_to_time_inverse.
Example ms_to_time_inverse_ex :
  - two63 <= (-1) * 1000000 < two63 /\ ms_to_time (-1) = {| unix_sec := -1; nsec := 999000000; offset := 0; zname := "UTC" |}
  /\ time_to_ms (ms_to_time (-1)) = -1.
Proof. vm_compute. repeat split; congruence. Qed.

(** The property's round-trip demand fails beyond the int64 nanosecond range: the instant
    9999-01-01T00:00:00.000Z (inside the property's domain) comes back negative.  This is the
    Time.UnixNano overflow defect of timeToMS. *)
Theorem time_to_ms_wraps_refuted :
  exists ms, in_roundtrip_domain ms /\ t_year (ms_to_time ms) = 9999 /\
             time_to_ms (ms_to_time ms) <> ms /\ time_to_ms (ms_to_time ms) < 0.
Proof.
  exists 253370764800000. unfold in_roundtrip_domain, ms_year_1000, ms_year_10000.
  split; [lia|]. split; [vm_compute; reflexivity|].
  split; [vm_compute; discriminate | vm_compute; reflexivity].
Qed.
Print Assumptions time_to_ms_wraps_refuted.

(* the first instant after the epoch at which the round trip fails *)
Example time_to_ms_first_failure :
  time_to_ms (ms_to_time 9223372036854) = 9223372036854 /\
  time_to_ms (ms_to_time 9223372036855) = -9223372036854.
Proof. vm_compute. split; reflexivity. Qed.

(* ------------------------------------------------------------------------------------------ *)
(** * 4. The 12-hour clock of [h] *)

(** What formatHour prints for [h]: the property's 12,1..11,12,1..11 except at midnight,
    where it prints 0. *)
Theorem hour12_spec : forall h, 0 <= h <= 23 ->
  hour12_of h = if h =? 0 then 0 else hour12_demanded h.
Proof.
  intros h Hh. unfold hour12_of, hour12_demanded.
  destruct (12 <? h) eqn:E1, (h =? 0) eqn:E2, (h mod 12 =? 0) eqn:E3; lia.
Qed.
Print Assumptions hour12_spec.

Theorem hour12_refuted : exists h, 0 <= h <= 23 /\ hour12_of h <> hour12_demanded h.
Proof. exists 0. split; [lia|]. vm_compute. discriminate. Qed.

(* the deviation is exactly midnight *)
Theorem hour12_deviates_only_at_midnight : forall h, 0 <= h <= 23 ->
  (hour12_of h <> hour12_demanded h <-> h = 0).
Proof.
  intros h Hh. rewrite hour12_spec by exact Hh. unfold hour12_demanded.
  destruct (h =? 0) eqn:E; destruct (h mod 12 =? 0) eqn:E3; lia.
Qed.

(* [h] is wired to hour12_of: whatever format_integer is, $fromMillis(0, "[h]") prints the
   integer 0 (the property demands 12) *)
Theorem from_millis_h_midnight (fi : Z -> string -> lres string) :
  from_millis fi 0 (Some "[h]"%string) None = lbind (fi 0 "1"%string) (fun s => LOk (s ++ "")%string).
Proof.
  unfold from_millis. cbn [opt_string]. 
  change (seqb "" "") with true. cbv iota.
  change (seqb "[h]" "") with false. cbv iota.
  unfold format_time.
  change (runes_pos "[h]") with [(0%nat, 91); (1%nat, 104); (2%nat, 93)].
  cbn [format_time_loop]. unfold format_time_step at 1.
  change (91 =? 91) with true. cbv iota. cbn [fs_in_marker fs_start fs_result fs_dcb fs_expanded].
  change (slice_checked "[h]" 0 0) with (@LOk string ""). cbn [lbind].
  unfold format_time_step at 1.
  change (104 =? 91) with false. change (104 =? 93) with false. cbv iota. cbn [lbind].
  unfold format_time_step at 1.
  change (93 =? 91) with false. change (93 =? 93) with true. cbv iota.
  cbn [fs_in_marker fs_start fs_result fs_dcb fs_expanded].
  change (2 =? 1)%nat with false. cbv iota.
  change (slice_checked "[h]" 1 2) with (@LOk string "h"). cbn [lbind].
  unfold expand_variable_marker.
  change (parse_variable_marker "h") with (@LOk (Z * marker) (104, zero_marker)). cbn [lbind].
  cbn [mk_format zero_marker]. change (seqb "" "") with true. cbv iota.
  unfold with_default_format. change (default_date_format 104) with "1"%string.
  unfold expand_date_component.
  change (104 =? cY) with false. change (104 =? cM) with false. change (104 =? cD) with false.
  change (104 =? cd) with false. change (104 =? cF) with false. change (104 =? cW) with false.
  change (104 =? cw) with false. change (104 =? cH) with false. change (104 =? ch) with true.
  cbv iota.
  unfold format_hour. cbn [mk_format]. change (is_decimal_format "1") with true. cbn [negb].
  change (t_hour (ms_to_time 0)) with 0. change (hour12_of 0) with 0.
  unfold format_integer_component. cbn [mk_format mk_modifier].
  destruct (fi 0 "1"%string) as [s| | | |]; cbn [lbind andb negb]; try reflexivity.
  all: repeat match goal with |- context [seqb ?t "errUnsupported"] =>
         destruct (seqb t "errUnsupported") end.
  all: cbn [andb lbind fs_in_marker fs_expanded negb fs_result fs_start]; reflexivity.
Qed.
Print Assumptions from_millis_h_midnight.


(* ------------------------------------------------------------------------------------------ *)
(** * 5. parseTimeZone *)

(* strconv.Atoi on a two-byte string: two digits, or a sign and one digit *)
Definition pair_val (c1 c2 : ascii) : option Z :=
  let b1 := byte_of c1 in
  let b2 := byte_of c2 in
  if is_digit_byte b2 then
    if is_digit_byte b1 then Some (10 * (b1 - 48) + (b2 - 48))
    else if Ascii.eqb c1 "+" then Some (b2 - 48)
    else if Ascii.eqb c1 "-" then Some (- (b2 - 48))
    else None
  else None.

Definition sign_val (c : ascii) : option Z :=
  if Ascii.eqb c "-" then Some (-1) else if Ascii.eqb c "+" then Some 1 else None.

(* the set of strings parseTimeZone really accepts, with the offset it computes *)
Definition tz_accepts (s : string) : option Z :=
  match s with
  | String sg (String c1 (String c2 (String c3 (String c4 EmptyString)))) =>
      match sign_val sg, pair_val c1 c2, pair_val c3 c4 with
      | Some k, Some h, Some m => Some (k * (60 * (60 * h + m)))
      | _, _, _ => None
      end
  | _ => None
  end.

Lemma go_atoi_shape s : go_atoi s =
  match s with
  | EmptyString => None
  | String c r =>
      let neg := Ascii.eqb c "-" in
      let body := if Ascii.eqb c "+" || neg then r else s in
      match body with
      | EmptyString => None
      | _ => match Z_of_dec_acc body 0 with
             | None => None
             | Some n => let v := if neg then - n else n in
                         if (- two63 <=? v) && (v <? two63) then Some v else None
             end
      end
  end.
Proof.
  destruct s as [|c r]; [reflexivity|].
  destruct c as [[] [] [] [] [] [] [] []]; reflexivity.
Qed.

Lemma byte_of_range c : 0 <= byte_of c <= 255.
Proof. destruct c as [[] [] [] [] [] [] [] []]; vm_compute; split; discriminate. Qed.

Lemma byte_of_plus c : Ascii.eqb c "+" = true -> byte_of c = 43.
Proof. intros H. apply Ascii.eqb_eq in H. now subst. Qed.
Lemma byte_of_minus c : Ascii.eqb c "-" = true -> byte_of c = 45.
Proof. intros H. apply Ascii.eqb_eq in H. now subst. Qed.

Lemma go_atoi_two c1 c2 : go_atoi (String c1 (String c2 EmptyString)) = pair_val c1 c2.
Proof.
  rewrite go_atoi_shape. unfold pair_val. cbv zeta.
  pose proof (byte_of_range c1) as R1. pose proof (byte_of_range c2) as R2.
  destruct (Ascii.eqb c1 "+") eqn:Ep; [pose proof (byte_of_plus _ Ep) as B1|];
  (destruct (Ascii.eqb c1 "-") eqn:Em; [pose proof (byte_of_minus _ Em) as B1'|]);
  cbn [orb]; cbn [Z_of_dec_acc]; fold (is_digit_byte (byte_of c2)); fold (is_digit_byte (byte_of c1));
  unfold is_digit_byte in *; unfold two63.
  all: destruct ((48 <=? byte_of c2) && (byte_of c2 <=? 57)) eqn:D2;
       destruct ((48 <=? byte_of c1) && (byte_of c1 <=? 57)) eqn:D1; try lia; try reflexivity.
  all: match goal with |- (if ?b then _ else _) = _ => replace b with true by lia end; f_equal; lia.
Qed.

Theorem parse_time_zone_char : forall s,
  parse_time_zone s = match tz_accepts s with
                      | Some off => LOk (off, s)
                      | None => LErr "invalid timezone"
                      end.
Proof.
  intros s. unfold parse_time_zone, tz_accepts.
  destruct s as [|sg [|c1 [|c2 [|c3 [|c4 [|c5 r]]]]]]; try reflexivity.
  change (negb (slen _ =? 5)%nat) with false. cbv iota.
  change (sslice 1 3 (String sg (String c1 (String c2 (String c3 (String c4 ""))))))
    with (String c1 (String c2 "")).
  change (sslice 3 5 (String sg (String c1 (String c2 (String c3 (String c4 ""))))))
    with (String c3 (String c4 "")).
  rewrite !go_atoi_two.
  change (byte_at (String sg (String c1 (String c2 (String c3 (String c4 ""))))) 0) with (byte_of sg).
  unfold sign_val.
  pose proof (byte_of_range sg) as R.
  destruct (Ascii.eqb sg "-") eqn:Em.
  - rewrite (byte_of_minus _ Em). change (45 =? 45) with true. cbv iota.
    destruct (pair_val c1 c2), (pair_val c3 c4); reflexivity.
  - destruct (Ascii.eqb sg "+") eqn:Ep.
    + rewrite (byte_of_plus _ Ep). change (43 =? 45) with false. change (43 =? 43) with true.
      cbv iota. destruct (pair_val c1 c2), (pair_val c3 c4); reflexivity.
    + assert (byte_of sg =? 45 = false) as ->.
      { apply Z.eqb_neq. intros H. apply Ascii.eqb_neq in Em. apply Em.
        destruct sg as [[] [] [] [] [] [] [] []]; vm_compute in H; try discriminate. reflexivity. }
      assert (byte_of sg =? 43 = false) as ->.
      { apply Z.eqb_neq. intros H. apply Ascii.eqb_neq in Ep. apply Ep.
        destruct sg as [[] [] [] [] [] [] [] []]; vm_compute in H; try discriminate. reflexivity. }
      reflexivity.
Qed.
Print Assumptions parse_time_zone_char.

(** Every +HHMM / -HHMM string is accepted with the offset it denotes ... *)
Theorem parse_time_zone_spec : forall s off, tz_denotes s off -> parse_time_zone s = LOk (off, s).
Proof.
  intros s off (sg & h1 & h2 & m1 & m2 & -> & Hsg & D1 & D2 & D3 & D4 & ->).
  rewrite parse_time_zone_char. unfold tz_accepts, pair_val, sign_val.
  unfold is_digit in *. unfold digit_val. fold (byte_of h1) (byte_of h2) (byte_of m1) (byte_of m2) in *.
  unfold is_digit_byte. rewrite D1, D2, D3, D4.
  destruct Hsg as [-> | ->]; reflexivity.
Qed.
Print Assumptions parse_time_zone_spec.
Example parse_time_zone_ex : tz_denotes "-0730" (-27000) /\ parse_time_zone "-0730" = LOk (-27000, "-0730"%string).
Proof.
  split; [|reflexivity].
  exists "-"%char, "0"%char, "7"%char, "3"%char, "0"%char. repeat split; auto.
Qed.

(** ... and a string whose four trailing characters are digits is accepted only if it is
    +HHMM / -HHMM ... *)
Theorem parse_time_zone_digits_only : forall sg h1 h2 m1 m2 off n,
  is_digit h1 = true -> is_digit h2 = true -> is_digit m1 = true -> is_digit m2 = true ->
  parse_time_zone (String sg (String h1 (String h2 (String m1 (String m2 EmptyString))))) = LOk (off, n) ->
  tz_denotes (String sg (String h1 (String h2 (String m1 (String m2 EmptyString))))) off.
Proof.
  intros sg h1 h2 m1 m2 off n D1 D2 D3 D4 H.
  rewrite parse_time_zone_char in H. unfold tz_accepts, pair_val, sign_val in H.
  unfold is_digit in *. fold (byte_of h1) (byte_of h2) (byte_of m1) (byte_of m2) in *.
  unfold is_digit_byte in H. rewrite D1, D2, D3, D4 in H.
  exists sg, h1, h2, m1, m2. unfold is_digit, digit_val.
  fold (byte_of h1) (byte_of h2) (byte_of m1) (byte_of m2).
  destruct (Ascii.eqb sg "-") eqn:Em.
  - apply Ascii.eqb_eq in Em. subst sg. inversion H. repeat split; auto.
  - destruct (Ascii.eqb sg "+") eqn:Ep; [|discriminate].
    apply Ascii.eqb_eq in Ep. subst sg. inversion H. repeat split; auto.
Qed.

(** ... but "accepts exactly [+-]DDDD" is false: strconv.Atoi takes a sign, so "+-1-2"
    (and "++1+2", "-+0-0", ...) are accepted as time zones. *)
Theorem parse_time_zone_exactly_refuted :
  exists s off, parse_time_zone s = LOk (off, s) /\ ~ (exists off', tz_denotes s off').
Proof.
  exists "+-1-2"%string, (-3720). split; [reflexivity|].
  intros (off' & sg & h1 & h2 & m1 & m2 & Hs & _ & D1 & _). inversion Hs. subst. discriminate.
Qed.
Print Assumptions parse_time_zone_exactly_refuted.
