(* Proofs/LibDateProofs.v — theorems about Model/LibDate.v and Model/LibFormatDate.v against
   Spec/C19.v.  All statements are for ALL integers / all instants unless a hypothesis says
   otherwise.  Finite residue classes (the 146097 days of a 400-year era) are discharged by
   exhaustive evaluation inside Coq ([forall_from], a proof by reflection, not a sample test);
   everything else is [lia] with div/mod elimination. *)
From Coq Require Import ZArith List String Ascii Bool Lia ZifyBool.
From JV Require Import Base.Bytes Base.Utf8 Base.Res Model.LibDate Model.LibFormatDate Spec.C19.
Import ListNotations.
Open Scope Z_scope.

Ltac Zify.zify_post_hook ::= Z.div_mod_to_equations.

(* ------------------------------------------------------------------------------------------ *)
(** * Bounded universal quantification by evaluation *)

Fixpoint forall_from (n : nat) (i : Z) (p : Z -> bool) : bool :=
  match n with
  | O => true
  | S n' => if p i then forall_from n' (i + 1) p else false
  end.

Lemma forall_from_spec n : forall i p, forall_from n i p = true ->
  forall j, i <= j < i + Z.of_nat n -> p j = true.
Proof.
  induction n as [|n IH]; intros i p H j Hj.
  - simpl in Hj. lia.
  - cbn [forall_from] in H. destruct (p i) eqn:Hp; [|discriminate].
    destruct (Z.eq_dec j i) as [->|Hne]; [exact Hp|].
    apply (IH (i + 1) p H). lia.
Qed.

(* ------------------------------------------------------------------------------------------ *)
(** * The model's leap/length functions are the specification's *)

Lemma is_leap_spec y : is_leap y = leap_year y.
Proof.
  unfold is_leap, leap_year.
  destruct (y mod 4 =? 0) eqn:E4, (y mod 100 =? 0) eqn:E100, (y mod 400 =? 0) eqn:E400;
    try reflexivity; exfalso; lia.
Qed.

Lemma days_in_month_spec y m : 1 <= m <= 12 -> days_in_month y m = month_length y m.
Proof.
  intros Hm. unfold days_in_month. rewrite is_leap_spec.
  assert (m = 1 \/ m = 2 \/ m = 3 \/ m = 4 \/ m = 5 \/ m = 6 \/ m = 7 \/ m = 8 \/ m = 9 \/
          m = 10 \/ m = 11 \/ m = 12) as Hc by lia.
  repeat (destruct Hc as [->|Hc]; [reflexivity|]). subst m. reflexivity.
Qed.

Lemma is_leap_period y k : is_leap (y + 400 * k) = is_leap y.
Proof.
  unfold is_leap.
  replace ((y + 400 * k) mod 4) with (y mod 4) by lia.
  replace ((y + 400 * k) mod 100) with (y mod 100) by lia.
  replace ((y + 400 * k) mod 400) with (y mod 400) by lia.
  reflexivity.
Qed.

Lemma days_in_month_period y k m : days_in_month (y + 400 * k) m = days_in_month y m.
Proof. unfold days_in_month. now rewrite is_leap_period. Qed.

(* ------------------------------------------------------------------------------------------ *)
(** * One era (400 years = 146097 days) by exhaustive evaluation *)

(* day-of-era of (year-of-era, month, day), the inner part of days_of_civil *)
Definition doe_of (yoe m d : Z) : Z :=
  let mp := if 2 <? m then m - 3 else m + 9 in
  yoe * 365 + yoe / 4 - yoe / 100 + ((153 * mp + 2) / 5 + d - 1).

Definition year_shift (m : Z) : Z := if m <=? 2 then 1 else 0.

Definition chk_doe (doe : Z) : bool :=
  let '(yoe, m, d) := civil_of_doe doe in
  (0 <=? yoe) && (yoe <? 400) && (1 <=? m) && (m <=? 12) && (1 <=? d)
  && (d <=? days_in_month (yoe + year_shift m) m) && (doe_of yoe m d =? doe).

Lemma chk_doe_all : forall_from (Z.to_nat 146097) 0 chk_doe = true.
Proof. vm_compute. reflexivity. Qed.

Lemma civil_of_doe_spec doe : 0 <= doe < 146097 ->
  let '(yoe, m, d) := civil_of_doe doe in
  0 <= yoe < 400 /\ 1 <= m <= 12 /\ 1 <= d <= days_in_month (yoe + year_shift m) m /\
  doe_of yoe m d = doe.
Proof.
  intros H.
  pose proof (forall_from_spec _ _ _ chk_doe_all doe) as Hc.
  rewrite Z2Nat.id in Hc by lia. specialize (Hc ltac:(lia)).
  unfold chk_doe in Hc. destruct (civil_of_doe doe) as [[yoe m] d].
  repeat (apply andb_prop in Hc; destruct Hc as [Hc ?]). lia.
Qed.

Definition chk_ymd (yoe : Z) : bool :=
  forall_from 12 1 (fun m =>
  forall_from 31 1 (fun d =>
    if d <=? days_in_month (yoe + year_shift m) m then
      let doe := doe_of yoe m d in
      (0 <=? doe) && (doe <? 146097) &&
      (let '(yoe', m', d') := civil_of_doe doe in (yoe' =? yoe) && (m' =? m) && (d' =? d))
    else true)).

Lemma chk_ymd_all : forall_from 400 0 chk_ymd = true.
Proof. vm_compute. reflexivity. Qed.

Lemma doe_of_spec yoe m d : 0 <= yoe < 400 -> 1 <= m <= 12 ->
  1 <= d <= days_in_month (yoe + year_shift m) m ->
  0 <= doe_of yoe m d < 146097 /\ civil_of_doe (doe_of yoe m d) = (yoe, m, d).
Proof.
  intros Hy Hm Hd.
  pose proof (forall_from_spec _ _ _ chk_ymd_all yoe ltac:(simpl; lia)) as H1.
  unfold chk_ymd in H1.
  pose proof (forall_from_spec _ _ _ H1 m ltac:(simpl; lia)) as H2. cbv beta in H2.
  assert (d <= 31) as Hd31.
  { destruct Hd as [_ Hd]. unfold days_in_month in Hd.
    destruct (m =? 2); [destruct (is_leap _); lia|].
    destruct ((m =? 4) || (m =? 6) || (m =? 9) || (m =? 11)); lia. }
  pose proof (forall_from_spec _ _ _ H2 d ltac:(simpl; lia)) as H3. cbv beta in H3.
  destruct (d <=? days_in_month (yoe + year_shift m) m) eqn:E; [|lia].
  destruct (civil_of_doe (doe_of yoe m d)) as [[yoe' m'] d'].
  repeat (apply andb_prop in H3; destruct H3 as [H3 ?]).
  split; [lia|]. f_equal; [f_equal|]; lia.
Qed.

(* ------------------------------------------------------------------------------------------ *)
(** * 1. civil_of_days and days_of_civil are mutually inverse (all of Z) *)

Lemma days_of_civil_unfold y m d :
  days_of_civil y m d =
  let y' := y - year_shift m in
  (y' / 400) * 146097 + doe_of (y' - (y' / 400) * 400) m d - 719468.
Proof.
  unfold days_of_civil, doe_of, year_shift. destruct (m <=? 2); cbv zeta; lia.
Qed.

Theorem civil_bijection : forall z,
  let '(y, m, d) := civil_of_days z in
  days_of_civil y m d = z /\ 1 <= m <= 12 /\ 1 <= d <= days_in_month y m.
Proof.
  intros z. unfold civil_of_days.
  set (z' := z + 719468). set (era := z' / 146097). set (doe := z' - era * 146097).
  assert (0 <= doe < 146097) as Hdoe by (subst doe era; lia).
  pose proof (civil_of_doe_spec doe Hdoe) as Hs.
  destruct (civil_of_doe doe) as [[yoe m] d].
  destruct Hs as (Hyoe & Hm & Hd & Hdoe_eq).
  rewrite days_of_civil_unfold. cbv zeta.
  assert ((if m <=? 2 then yoe + era * 400 + 1 else yoe + era * 400) - year_shift m
          = yoe + era * 400) as Hy' by (unfold year_shift; destruct (m <=? 2); lia).
  rewrite Hy'.
  assert ((yoe + era * 400) / 400 = era) as Hera by lia.
  rewrite Hera.
  replace (yoe + era * 400 - era * 400) with yoe by lia.
  rewrite Hdoe_eq.
  split; [subst doe z'; lia|]. split; [exact Hm|].
  replace (if m <=? 2 then yoe + era * 400 + 1 else yoe + era * 400)
    with ((yoe + year_shift m) + 400 * era) by (unfold year_shift; destruct (m <=? 2); lia).
  rewrite days_in_month_period. exact Hd.
Qed.
Print Assumptions civil_bijection.

Theorem civil_of_days_of_civil : forall y m d,
  1 <= m <= 12 -> 1 <= d <= days_in_month y m ->
  civil_of_days (days_of_civil y m d) = (y, m, d).
Proof.
  intros y m d Hm Hd.
  rewrite days_of_civil_unfold. cbv zeta.
  set (y' := y - year_shift m). set (era := y' / 400). set (yoe := y' - era * 400).
  assert (0 <= yoe < 400) as Hyoe by (subst yoe era; lia).
  assert (days_in_month y m = days_in_month (yoe + year_shift m) m) as Hdim.
  { replace y with ((yoe + year_shift m) + 400 * era) at 1 by (subst yoe y'; lia).
    apply days_in_month_period. }
  rewrite Hdim in Hd.
  destruct (doe_of_spec yoe m d Hyoe Hm Hd) as [Hr Hc].
  unfold civil_of_days.
  replace (era * 146097 + doe_of yoe m d - 719468 + 719468) with (era * 146097 + doe_of yoe m d) by lia.
  assert ((era * 146097 + doe_of yoe m d) / 146097 = era) as He by lia.
  rewrite He.
  replace (era * 146097 + doe_of yoe m d - era * 146097) with (doe_of yoe m d) by lia.
  rewrite Hc.
  f_equal. f_equal. subst yoe y'. unfold year_shift. destruct (m <=? 2); lia.
Qed.
Print Assumptions civil_of_days_of_civil.

(* the hypotheses are satisfiable on a non-trivial instance: the leap day of 2000 *)
Example civil_bijection_ex :
  civil_of_days 11016 = (2000, 2, 29) /\ days_of_civil 2000 2 29 = 11016 /\
  civil_of_days (-719528) = (0, 1, 1) /\ civil_of_days 2932896 = (9999, 12, 31).
Proof. vm_compute. repeat split. Qed.
