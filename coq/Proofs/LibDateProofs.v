(* Proofs/LibDateProofs.v — theorems about Model/LibDate.v and Model/LibFormatDate.v against
   Spec/C19.v.  All statements are for ALL integers / all instants unless a hypothesis says
   otherwise.  Finite residue classes (the 146097 days of a 400-year era) are discharged by
   exhaustive evaluation inside Coq ([forall_from], a proof by reflection, not a sample test);
   everything else is [lia] with div/mod elimination. *)
From Coq Require Import ZArith List String Ascii Bool Lia ZifyBool.
From JV Require Import Base.Bytes Base.Utf8 Base.Res Model.LibDate Model.LibFormatDate Spec.C19.
Import ListNotations.
Open Scope Z_scope.

Ltac Zify.zify_post_hook ::= Z.div_mod_to_equations.

(* ------------------------------------------------------------------------------------------ *)
(** * Bounded universal quantification by evaluation *)

Fixpoint forall_from (n : nat) (i : Z) (p : Z -> bool) : bool :=
  match n with
  | O => true
  | S n' => if p i then forall_from n' (i + 1) p else false
  end.

Lemma forall_from_spec n : forall i p, forall_from n i p = true ->
  forall j, i <= j < i + Z.of_nat n -> p j = true.
Proof.
  induction n as [|n IH]; intros i p H j Hj.
  - simpl in Hj. lia.
  - cbn [forall_from] in H. destruct (p i) eqn:Hp; [|discriminate].
    destruct (Z.eq_dec j i) as [->|Hne]; [exact Hp|].
    apply (IH (i + 1) p H). lia.
Qed.

(* ------------------------------------------------------------------------------------------ *)
(** * The model's leap/length functions are the specification's *)

Lemma is_leap_spec y : is_leap y = leap_year y.
Proof.
  unfold is_leap, leap_year.
  destruct (y mod 4 =? 0) eqn:E4, (y mod 100 =? 0) eqn:E100, (y mod 400 =? 0) eqn:E400;
    try reflexivity; exfalso; lia.
Qed.

Lemma days_in_month_spec y m : 1 <= m <= 12 -> days_in_month y m = month_length y m.
Proof.
  intros Hm. unfold days_in_month. rewrite is_leap_spec.
  assert (m = 1 \/ m = 2 \/ m = 3 \/ m = 4 \/ m = 5 \/ m = 6 \/ m = 7 \/ m = 8 \/ m = 9 \/
          m = 10 \/ m = 11 \/ m = 12) as Hc by lia.
  repeat (destruct Hc as [->|Hc]; [reflexivity|]). subst m. reflexivity.
Qed.

Lemma is_leap_period y k : is_leap (y + 400 * k) = is_leap y.
Proof.
  unfold is_leap.
  replace ((y + 400 * k) mod 4) with (y mod 4) by lia.
  replace ((y + 400 * k) mod 100) with (y mod 100) by lia.
  replace ((y + 400 * k) mod 400) with (y mod 400) by lia.
  reflexivity.
Qed.

Lemma days_in_month_period y k m : days_in_month (y + 400 * k) m = days_in_month y m.
Proof. unfold days_in_month. now rewrite is_leap_period. Qed.

(* ------------------------------------------------------------------------------------------ *)
(** * One era (400 years = 146097 days) by exhaustive evaluation *)

(* day-of-era of (year-of-era, month, day), the inner part of days_of_civil *)
Definition doe_of (yoe m d : Z) : Z :=
  let mp := if 2 <? m then m - 3 else m + 9 in
  yoe * 365 + yoe / 4 - yoe / 100 + ((153 * mp + 2) / 5 + d - 1).

Definition year_shift (m : Z) : Z := if m <=? 2 then 1 else 0.

Definition chk_doe (doe : Z) : bool :=
  let '(yoe, m, d) := civil_of_doe doe in
  (0 <=? yoe) && (yoe <? 400) && (1 <=? m) && (m <=? 12) && (1 <=? d)
  && (d <=? days_in_month (yoe + year_shift m) m) && (doe_of yoe m d =? doe).

Lemma chk_doe_all : forall_from (Z.to_nat 146097) 0 chk_doe = true.
Proof. vm_compute. reflexivity. Qed.

Lemma civil_of_doe_spec doe : 0 <= doe < 146097 ->
  let '(yoe, m, d) := civil_of_doe doe in
  0 <= yoe < 400 /\ 1 <= m <= 12 /\ 1 <= d <= days_in_month (yoe + year_shift m) m /\
  doe_of yoe m d = doe.
Proof.
  intros H.
  pose proof (forall_from_spec _ _ _ chk_doe_all doe) as Hc.
  rewrite Z2Nat.id in Hc by lia. specialize (Hc ltac:(lia)).
  unfold chk_doe in Hc. destruct (civil_of_doe doe) as [[yoe m] d].
  repeat (apply andb_prop in Hc; destruct Hc as [Hc ?]). lia.
Qed.

Definition chk_ymd (yoe : Z) : bool :=
  forall_from 12 1 (fun m =>
  forall_from 31 1 (fun d =>
    if d <=? days_in_month (yoe + year_shift m) m then
      let doe := doe_of yoe m d in
      (0 <=? doe) && (doe <? 146097) &&
      (let '(yoe', m', d') := civil_of_doe doe in (yoe' =? yoe) && (m' =? m) && (d' =? d))
    else true)).

Lemma chk_ymd_all : forall_from 400 0 chk_ymd = true.
Proof. vm_compute. reflexivity. Qed.

Lemma doe_of_spec yoe m d : 0 <= yoe < 400 -> 1 <= m <= 12 ->
  1 <= d <= days_in_month (yoe + year_shift m) m ->
  0 <= doe_of yoe m d < 146097 /\ civil_of_doe (doe_of yoe m d) = (yoe, m, d).
Proof.
  intros Hy Hm Hd.
  pose proof (forall_from_spec _ _ _ chk_ymd_all yoe ltac:(simpl; lia)) as H1.
  unfold chk_ymd in H1.
  pose proof (forall_from_spec _ _ _ H1 m ltac:(simpl; lia)) as H2. cbv beta in H2.
  assert (d <= 31) as Hd31.
  { destruct Hd as [_ Hd]. unfold days_in_month in Hd.
    destruct (m =? 2); [destruct (is_leap _); lia|].
    destruct ((m =? 4) || (m =? 6) || (m =? 9) || (m =? 11)); lia. }
  pose proof (forall_from_spec _ _ _ H2 d ltac:(simpl; lia)) as H3. cbv beta in H3.
  destruct (d <=? days_in_month (yoe + year_shift m) m) eqn:E; [|lia].
  destruct (civil_of_doe (doe_of yoe m d)) as [[yoe' m'] d'].
  repeat (apply andb_prop in H3; destruct H3 as [H3 ?]).
  split; [lia|]. f_equal; [f_equal|]; lia.
Qed.

(* ------------------------------------------------------------------------------------------ *)
(** * 1. civil_of_days and days_of_civil are mutually inverse (all of Z) *)

Lemma days_of_civil_unfold y m d :
  days_of_civil y m d =
  let y' := y - year_shift m in
  (y' / 400) * 146097 + doe_of (y' - (y' / 400) * 400) m d - 719468.
Proof.
  unfold days_of_civil, doe_of, year_shift. destruct (m <=? 2); cbv zeta; lia.
Qed.

Theorem civil_bijection : forall z,
  let '(y, m, d) := civil_of_days z in
  days_of_civil y m d = z /\ 1 <= m <= 12 /\ 1 <= d <= days_in_month y m.
Proof.
  intros z. unfold civil_of_days.
  set (z' := z + 719468). set (era := z' / 146097). set (doe := z' - era * 146097).
  assert (0 <= doe < 146097) as Hdoe by (subst doe era; lia).
  pose proof (civil_of_doe_spec doe Hdoe) as Hs.
  destruct (civil_of_doe doe) as [[yoe m] d].
  destruct Hs as (Hyoe & Hm & Hd & Hdoe_eq).
  rewrite days_of_civil_unfold. cbv zeta.
  assert ((if m <=? 2 then yoe + era * 400 + 1 else yoe + era * 400) - year_shift m
          = yoe + era * 400) as Hy' by (unfold year_shift; destruct (m <=? 2); lia).
  rewrite Hy'.
  assert ((yoe + era * 400) / 400 = era) as Hera by lia.
  rewrite Hera.
  replace (yoe + era * 400 - era * 400) with yoe by lia.
  rewrite Hdoe_eq.
  split; [subst doe z'; lia|]. split; [exact Hm|].
  replace (if m <=? 2 then yoe + era * 400 + 1 else yoe + era * 400)
    with ((yoe + year_shift m) + 400 * era) by (unfold year_shift; destruct (m <=? 2); lia).
  rewrite days_in_month_period. exact Hd.
Qed.
Print Assumptions civil_bijection.

Theorem civil_of_days_of_civil : forall y m d,
  1 <= m <= 12 -> 1 <= d <= days_in_month y m ->
  civil_of_days (days_of_civil y m d) = (y, m, d).
Proof.
  intros y m d Hm Hd.
  rewrite days_of_civil_unfold. cbv zeta.
  set (y' := y - year_shift m). set (era := y' / 400). set (yoe := y' - era * 400).
  assert (0 <= yoe < 400) as Hyoe by (subst yoe era; lia).
  assert (days_in_month y m = days_in_month (yoe + year_shift m) m) as Hdim.
  { replace y with ((yoe + year_shift m) + 400 * era) at 1 by (subst yoe y'; lia).
    apply days_in_month_period. }
  rewrite Hdim in Hd.
  destruct (doe_of_spec yoe m d Hyoe Hm Hd) as [Hr Hc].
  unfold civil_of_days.
  replace (era * 146097 + doe_of yoe m d - 719468 + 719468) with (era * 146097 + doe_of yoe m d) by lia.
  assert ((era * 146097 + doe_of yoe m d) / 146097 = era) as He by lia.
  rewrite He.
  replace (era * 146097 + doe_of yoe m d - era * 146097) with (doe_of yoe m d) by lia.
  rewrite Hc.
  f_equal. f_equal. subst yoe y'. unfold year_shift. destruct (m <=? 2); lia.
Qed.
Print Assumptions civil_of_days_of_civil.

(* the hypotheses are satisfiable on a non-trivial instance: the leap day of 2000 *)
Example civil_bijection_ex :
  civil_of_days 11016 = (2000, 2, 29) /\ days_of_civil 2000 2 29 = 11016 /\
  civil_of_days (-719528) = (0, 1, 1) /\ civil_of_days 2932896 = (9999, 12, 31).
Proof. vm_compute. repeat split. Qed.

(* ------------------------------------------------------------------------------------------ *)
(** * The calendar law: consecutive day numbers are consecutive dates *)

Lemma month_cases m : 1 <= m <= 12 ->
  m = 1 \/ m = 2 \/ m = 3 \/ m = 4 \/ m = 5 \/ m = 6 \/ m = 7 \/ m = 8 \/ m = 9 \/
  m = 10 \/ m = 11 \/ m = 12.
Proof. lia. Qed.

(* days_of_civil is linear in the day *)
Lemma days_of_civil_day y m d k : days_of_civil y m (d + k) = days_of_civil y m d + k.
Proof. unfold days_of_civil. destruct (m <=? 2), (2 <? m); lia. Qed.

(* first of next month = last of this month + 1 *)
Lemma days_of_civil_month_end y m : 1 <= m <= 11 ->
  days_of_civil y (m + 1) 1 = days_of_civil y m (days_in_month y m) + 1.
Proof.
  intros Hm.
  destruct (month_cases m ltac:(lia)) as [->|[->|[->|[->|[->|[->|[->|[->|[->|[->|[->| ->]]]]]]]]]]];
    try lia.
  all: unfold days_of_civil, days_in_month, is_leap.
  all: repeat match goal with |- context [if ?b then _ else _] =>
         let v := eval vm_compute in b in
         match v with
         | true => change b with true; cbv iota
         | false => change b with false; cbv iota
         end end.
  all: try lia.
  - (* February -> March *)
    destruct (y mod 4 =? 0) eqn:E4, (y mod 100 =? 0) eqn:E100, (y mod 400 =? 0) eqn:E400;
    cbn [andb orb negb]; lia.
Qed.

Lemma days_of_civil_year_end y : days_of_civil (y + 1) 1 1 = days_of_civil y 12 31 + 1.
Proof.
  unfold days_of_civil.
  repeat match goal with |- context [if ?b then _ else _] =>
         let v := eval vm_compute in b in
         match v with
         | true => change b with true; cbv iota
         | false => change b with false; cbv iota
         end end.
  replace (y + 1 - 1) with y by lia. lia.
Qed.

Lemma valid_date_model y m d :
  valid_date y m d <-> (1 <= m <= 12 /\ 1 <= d <= days_in_month y m).
Proof.
  unfold valid_date. split; intros [Hm Hd]; split; auto.
  - now rewrite days_in_month_spec.
  - now rewrite <- days_in_month_spec.
Qed.

(* the day after a valid date is a valid date, one day number later *)
Lemma days_of_civil_next y m d : valid_date y m d ->
  let '(y2, m2, d2) := next_day (y, m, d) in
  valid_date y2 m2 d2 /\ days_of_civil y2 m2 d2 = days_of_civil y m d + 1.
Proof.
  intros Hv. pose proof Hv as [Hm Hd]. unfold next_day.
  destruct (d <? month_length y m) eqn:E1.
  - split; [unfold valid_date; lia|]. apply days_of_civil_day.
  - assert (d = month_length y m) as -> by lia.
    destruct (m <? 12) eqn:E2.
    + split.
      * unfold valid_date. split; [lia|].
        destruct (month_cases m Hm) as [->|[->|[->|[->|[->|[->|[->|[->|[->|[->|[->| ->]]]]]]]]]]];
          cbn [month_length Z.add Pos.add Pos.succ]; try lia; destruct (leap_year y); lia.
      * rewrite <- days_in_month_spec by lia. apply days_of_civil_month_end. lia.
    + assert (m = 12) as -> by lia. cbn [month_length].
      split; [unfold valid_date; cbn [month_length]; lia|]. apply days_of_civil_year_end.
Qed.

(** The model's day -> date function IS the proleptic Gregorian calendar counted from
    1970-01-01. *)
Theorem civil_of_days_is_calendar : is_calendar civil_of_days.
Proof.
  split; [vm_compute; reflexivity|].
  intros z. pose proof (civil_bijection z) as Hb.
  destruct (civil_of_days z) as [[y m] d]. destruct Hb as (Hz & Hm & Hd).
  assert (valid_date y m d) as Hv by (apply valid_date_model; auto).
  pose proof (days_of_civil_next y m d Hv) as Hn.
  destruct (next_day (y, m, d)) as [[y2 m2] d2]. destruct Hn as [Hv2 Hn].
  apply valid_date_model in Hv2. destruct Hv2 as [Hm2 Hd2].
  rewrite <- Hz, <- Hn. apply civil_of_days_of_civil; auto.
Qed.
Print Assumptions civil_of_days_is_calendar.

(* next_day is injective on valid dates, hence the two clauses of is_calendar determine the
   function on negative day numbers too *)
Lemma next_day_inj y m d y' m' d' : valid_date y m d -> valid_date y' m' d' ->
  next_day (y, m, d) = next_day (y', m', d') -> (y, m, d) = (y', m', d').
Proof.
  intros Hv Hv' He.
  pose proof (days_of_civil_next y m d Hv) as H1.
  pose proof (days_of_civil_next y' m' d' Hv') as H2.
  rewrite <- He in H2. destruct (next_day (y, m, d)) as [[y2 m2] d2].
  destruct H1 as [_ H1], H2 as [_ H2].
  apply valid_date_model in Hv, Hv'. destruct Hv, Hv'.
  rewrite <- (civil_of_days_of_civil y m d), <- (civil_of_days_of_civil y' m' d') by assumption.
  f_equal. lia.
Qed.

Theorem calendar_unique f : is_calendar f ->
  (forall z, let '(y, m, d) := f z in valid_date y m d) ->
  forall z, f z = civil_of_days z.
Proof.
  intros [F0 FS] Fv. destruct civil_of_days_is_calendar as [C0 CS].
  assert (forall n : nat, f (Z.of_nat n) = civil_of_days (Z.of_nat n)) as Hpos.
  { induction n as [|n IH]; [simpl; congruence|].
    rewrite Nat2Z.inj_succ. unfold Z.succ. now rewrite FS, CS, IH. }
  assert (forall n : nat, f (- Z.of_nat n) = civil_of_days (- Z.of_nat n)) as Hneg.
  { induction n as [|n IH]; [simpl; congruence|].
    rewrite Nat2Z.inj_succ. unfold Z.succ.
    set (z := - (Z.of_nat n + 1)). replace (- Z.of_nat n) with (z + 1) in IH by (subst z; lia).
    rewrite FS, CS in IH.
    pose proof (Fv z) as Hv. pose proof (civil_bijection z) as Hb.
    destruct (f z) as [[y m] d], (civil_of_days z) as [[y' m'] d'].
    apply next_day_inj; auto. apply valid_date_model. tauto. }
  intros z. destruct (Z.le_gt_cases 0 z).
  - rewrite <- (Z2Nat.id z) by lia. apply Hpos.
  - replace z with (- Z.of_nat (Z.to_nat (- z))) by lia. apply Hneg.
Qed.
Print Assumptions calendar_unique.

(* ------------------------------------------------------------------------------------------ *)
(** * 2. weekday, year-day, ISO week *)

Theorem weekday_spec : is_weekday weekday_of_days /\ forall z, 0 <= weekday_of_days z <= 6.
Proof.
  unfold is_weekday, weekday_of_days. split; [split; [reflexivity|]|]; intros z; lia.
Qed.
Print Assumptions weekday_spec.
Example weekday_ex : weekday_of_days 17804 = 0 (* 2018-09-30 was a Sunday *).
Proof. reflexivity. Qed.

Lemma months_before_doy y m : 1 <= m <= 12 ->
  days_of_civil y m 1 - days_of_civil y 1 1 = months_before y (Z.to_nat (m - 1)).
Proof.
  intros Hm.
  assert (forall k : nat, (k <= 11)%nat ->
            days_of_civil y (Z.of_nat k + 1) 1 - days_of_civil y 1 1 = months_before y k) as H.
  { induction k as [|k IH]; intros Hk; [simpl; lia|].
    cbn [months_before]. rewrite <- IH by lia.
    rewrite Nat2Z.inj_succ. unfold Z.succ.
    rewrite days_of_civil_month_end by lia.
    replace (days_in_month y (Z.of_nat k + 1)) with (1 + (days_in_month y (Z.of_nat k + 1) - 1)) by lia.
    rewrite days_of_civil_day. rewrite <- days_in_month_spec by lia. lia. }
  specialize (H (Z.to_nat (m - 1)) ltac:(lia)).
  rewrite Z2Nat.id in H by lia. replace (m - 1 + 1) with m in H by lia. exact H.
Qed.

(** YearDay is the day's rank in its year: d plus the lengths of the preceding months. *)
Theorem yearday_spec : forall z,
  let '(y, m, d) := civil_of_days z in yearday z = day_of_year y m d.
Proof.
  intros z. unfold yearday. pose proof (civil_bijection z) as Hb.
  destruct (civil_of_days z) as [[y m] d]. destruct Hb as (Hz & Hm & Hd).
  unfold day_of_year. rewrite <- months_before_doy by lia.
  rewrite <- Hz at 1. replace d with (1 + (d - 1)) at 1 by lia. rewrite days_of_civil_day. lia.
Qed.
Print Assumptions yearday_spec.
Example yearday_ex : yearday 19782 = 60 /\ civil_of_days 19782 = (2024, 2, 29).
Proof. vm_compute. split; reflexivity. Qed.

Lemma year_bounds z : let '(y, _, _) := civil_of_days z in
  days_of_civil y 1 1 <= z < days_of_civil (y + 1) 1 1.
Proof.
  pose proof (civil_bijection z) as Hb. pose proof (yearday_spec z) as Hy. unfold yearday in Hy.
  destruct (civil_of_days z) as [[y m] d]. destruct Hb as (Hz & Hm & Hd).
  rewrite days_of_civil_year_end.
  assert (days_of_civil y 12 31 = days_of_civil y 12 1 + 30) as H31.
  { replace 31 with (1 + 30) by lia. apply days_of_civil_day. }
  pose proof (months_before_doy y 12 ltac:(lia)) as H12.
  pose proof (months_before_doy y m Hm) as Hmm.
  assert (forall a b : nat, (a <= b)%nat -> (b <= 11)%nat ->
          months_before y a + 28 * Z.of_nat (b - a) <= months_before y b) as Hmono.
  { intros a b Hab Hb. induction b as [|b IH]; [replace a with 0%nat by lia; simpl; lia|].
    destruct (Nat.eq_dec a (S b)) as [->|Hne]; [rewrite Nat.sub_diag; lia|].
    cbn [months_before]. specialize (IH ltac:(lia) ltac:(lia)).
    assert (28 <= month_length y (Z.of_nat (S b))).
    { rewrite <- days_in_month_spec by lia. unfold days_in_month.
      destruct (_ =? 2); [destruct (is_leap y); lia|]. destruct (_ || _); lia. }
    lia. }
  replace d with (1 + (d - 1)) in Hz by lia. rewrite days_of_civil_day in Hz.
  pose proof (Hmono 0%nat (Z.to_nat (m - 1)) ltac:(lia) ltac:(lia)) as H0.
  change (months_before y 0) with 0 in H0.
  replace (Z.to_nat (12 - 1)) with 11%nat in H12 by reflexivity.
  split; [lia|].
  destruct (Z.eq_dec m 12) as [->|Hne].
  - rewrite days_in_month_spec in Hd by lia. cbn [month_length] in Hd.
    replace (Z.to_nat (12 - 1)) with 11%nat in Hmm by reflexivity. lia.
  - pose proof (Hmono (S (Z.to_nat (m - 1))) 11%nat ltac:(lia) ltac:(lia)) as H1.
    set (mb11 := months_before y 11) in *.
    cbn [months_before] in H1.
    replace (Z.of_nat (S (Z.to_nat (m - 1)))) with m in H1 by lia.
    rewrite days_in_month_spec in Hd by lia. lia.
Qed.

(** ISOWeek: the model's (week-year, week) is the ISO 8601 week date of the day. *)
Theorem iso_week_spec : forall z,
  let '(wy, wk) := iso_week z in
  is_iso_week days_of_civil weekday_of_days z wy wk /\ 1 <= wk <= 53.
Proof.
  intros z. unfold iso_week.
  set (d0 := 4 - weekday_of_days z). set (d := if d0 =? 4 then -3 else d0). set (thu := z + d).
  pose proof (year_bounds thu) as Hb.
  destruct (civil_of_days thu) as [[y m'] d'].
  unfold is_iso_week, iso_week1_start, monday_of.
  assert (forall yy, days_of_civil yy 1 4 = days_of_civil yy 1 1 + 3) as H4
    by (intros yy; apply (days_of_civil_day yy 1 1 3)).
  rewrite !H4.
  set (a := days_of_civil y 1 1) in *. set (b := days_of_civil (y + 1) 1 1) in *.
  assert (b - a <= 366) as Hlen.
  { subst a b. rewrite days_of_civil_year_end.
    pose proof (months_before_doy y 12 ltac:(lia)) as H12.
    replace 31 with (1 + 30) by lia. rewrite days_of_civil_day.
    replace (Z.to_nat (12 - 1)) with 11%nat in H12 by reflexivity.
    cbn [months_before month_length Z.of_nat Pos.of_succ_nat Pos.succ] in H12.
    destruct (leap_year y); lia. }
  unfold weekday_of_days in *. subst thu d d0.
  clearbody a b. clear H4 m' d'.
  destruct (4 - (z + 4) mod 7 =? 4) eqn:E.
  all: split; [split|].
  all: lia.
Qed.
Print Assumptions iso_week_spec.
Example iso_week_ex :
  iso_week 16800 = (2015, 53) (* 2015-12-31 *) /\ iso_week 16803 = (2015, 53) (* 2016-01-03 *) /\
  iso_week 18627 = (2020, 53) (* 2020-12-31 *) /\ iso_week 18631 = (2021, 1) (* 2021-01-04 *).
Proof. vm_compute. repeat split. Qed.


(* ------------------------------------------------------------------------------------------ *)
(** * 3. msToTime / timeToMS *)

(* from here on lia also eliminates Go's truncated division (Z.quot / Z.rem) *)
Ltac Zify.zify_post_hook ::= Z.to_euclidean_division_equations.

(* msToTime(ms).UTC() is the instant: floor seconds and non-negative nanoseconds *)
Lemma ms_to_time_fields ms :
  unix_sec (ms_to_time ms) = ms / 1000 /\
  nsec (ms_to_time ms) = (ms mod 1000) * 1000000 /\
  offset (ms_to_time ms) = 0 /\ zname (ms_to_time ms) = "UTC"%string.
Proof.
  unfold ms_to_time, go_time_unix.
  set (ns := Z.rem ms 1000 * 1000000).
  destruct ((ns <? 0) || (1000000000 <=? ns)) eqn:E.
  - assert (Z.quot ns 1000000000 = 0) as Hq by (subst ns; lia).
    rewrite Hq.
    destruct (ns - 0 * 1000000000 <? 0) eqn:E2; cbn [unix_sec nsec offset zname];
      repeat split; subst ns; lia.
  - cbn [unix_sec nsec offset zname]. repeat split; subst ns; lia.
Qed.

Lemma wrap64_id z : - two63 <= z < two63 -> wrap64 z = z.
Proof. unfold wrap64, two63, two64. intros H. lia. Qed.

Lemma wrap64_add_l a b : wrap64 (wrap64 a + b) = wrap64 (a + b).
Proof. unfold wrap64, two63, two64. lia. Qed.

(* timeToMS (as repaired: seconds*1000 + nanoseconds/10^6 in int64 arithmetic) *)
Lemma time_to_ms_unfold t : 0 <= nsec t ->
  time_to_ms t = wrap64 (unix_sec t * 1000 + nsec t / 1000000).
Proof. intros _. unfold time_to_ms. apply wrap64_add_l. Qed.

Lemma time_to_ms_of_ms ms : time_to_ms (ms_to_time ms) = wrap64 ms.
Proof.
  unfold time_to_ms. rewrite wrap64_add_l.
  destruct (ms_to_time_fields ms) as (Hs & Hn & _). rewrite Hs, Hn. f_equal. lia.
Qed.

(** timeToMS inverts msToTime for EVERY int64 ms (since the repair of /repo commit 321eb7c;
    before it this held only while ms*10^6 fitted an int64, i.e. 1677-09-21 .. 2262-04-11). *)
Theorem ms_to_time_inverse : forall ms,
  - two63 <= ms < two63 -> time_to_ms (ms_to_time ms) = ms.
Proof. intros ms H. rewrite time_to_ms_of_ms. apply wrap64_id. exact H. Qed.
Print Assumptions ms_to_time_inverse.
Example ms_to_time_inverse_ex :
  ms_to_time (-1) = {| unix_sec := -1; nsec := 999000000; offset := 0; zname := "UTC" |}
  /\ time_to_ms (ms_to_time (-1)) = -1
  /\ time_to_ms (ms_to_time 253370764800000) = 253370764800000   (* 9999-01-01, see below *)
  /\ time_to_ms (ms_to_time (- two63)) = - two63.
Proof. vm_compute. repeat split; congruence. Qed.

(* HISTORICAL (the defect repaired by /repo commit 321eb7c): the old timeToMS was
   t.UnixNano()/10^6, i.e. [Z.quot (unix_nano t) 1000000]; UnixNano wraps outside
   1677-09-21 .. 2262-04-11, so the instant 9999-01-01T00:00:00.000Z, inside the property's
   domain, came back negative.  Kept as a statement about [unix_nano], which timeToMS no longer
   uses. *)
Theorem old_time_to_ms_wrapped :
  exists ms, in_roundtrip_domain ms /\ t_year (ms_to_time ms) = 9999 /\
             Z.quot (unix_nano (ms_to_time ms)) 1000000 <> ms /\
             Z.quot (unix_nano (ms_to_time ms)) 1000000 < 0.
Proof.
  exists 253370764800000. unfold in_roundtrip_domain, ms_year_1000, ms_year_10000.
  split; [lia|]. split; [vm_compute; reflexivity|].
  split; [vm_compute; discriminate | vm_compute; reflexivity].
Qed.
Print Assumptions old_time_to_ms_wrapped.

(* ------------------------------------------------------------------------------------------ *)
(** * 4. The 12-hour clock of [h] *)

(** What formatHour prints for [h] (since the repair of /repo commit 36c4339): exactly the
    property's 12,1..11,12,1..11.  (Before the repair hour 0 was printed as 0.) *)
Theorem hour12_spec : forall h, hour12_of h = hour12_demanded h.
Proof. intros h. reflexivity. Qed.
Print Assumptions hour12_spec.
Example hour12_ex : map hour12_of [0; 1; 11; 12; 13; 23] = [12; 1; 11; 12; 1; 11].
Proof. reflexivity. Qed.

Theorem hour12_range : forall h, 1 <= hour12_of h <= 12.
Proof. intros h. unfold hour12_of. destruct (h mod 12 =? 0) eqn:E; lia. Qed.

(* no minimum width: no zero padding *)
Lemma pad_left_zeros_0 s : pad_left_zeros s 0 = LOk s.
Proof. unfold pad_left_zeros. destruct (0 <? 0 - Z.of_nat (rune_count s)) eqn:E; [lia|reflexivity]. Qed.

(* [h] is wired to hour12_of: whatever format_integer is, $fromMillis(0, "[h]") prints the
   integer 12, as the property demands *)
Theorem from_millis_h_midnight (fi : Z -> string -> lres string) :
  from_millis fi 0 (Some "[h]"%string) None = lbind (fi 12 "1"%string) (fun s => LOk (s ++ "")%string).
Proof.
  unfold from_millis. cbn [opt_string]. 
  change (seqb "" "") with true. cbv iota.
  change (seqb "[h]" "") with false. cbv iota.
  unfold format_time.
  change (runes_pos "[h]") with [(0%nat, 91); (1%nat, 104); (2%nat, 93)].
  cbn [format_time_loop]. unfold format_time_step at 1.
  change (91 =? 91) with true. cbv iota. cbn [fs_in_marker fs_start fs_result fs_dcb fs_expanded].
  change (slice_checked "[h]" 0 0) with (@LOk string ""). cbn [lbind].
  unfold format_time_step at 1.
  change (104 =? 91) with false. change (104 =? 93) with false. cbv iota. cbn [lbind].
  unfold format_time_step at 1.
  change (93 =? 91) with false. change (93 =? 93) with true. cbv iota.
  cbn [fs_in_marker fs_start fs_result fs_dcb fs_expanded].
  change (2 =? 1)%nat with false. cbv iota.
  change (slice_checked "[h]" 1 2) with (@LOk string "h"). cbn [lbind].
  unfold expand_variable_marker.
  change (parse_variable_marker "h") with (@LOk (Z * marker) (104, zero_marker)). cbn [lbind].
  cbn [mk_format zero_marker]. change (seqb "" "") with true. cbv iota.
  unfold with_default_format. change (default_date_format 104) with "1"%string.
  unfold expand_date_component.
  change (104 =? cY) with false. change (104 =? cM) with false. change (104 =? cD) with false.
  change (104 =? cd) with false. change (104 =? cF) with false. change (104 =? cW) with false.
  change (104 =? cw) with false. change (104 =? cH) with false. change (104 =? ch) with true.
  cbv iota.
  unfold format_hour. cbn [mk_format]. change (is_decimal_format "1") with true. cbn [negb].
  change (t_hour (ms_to_time 0)) with 0. change (hour12_of 0) with 12.
  unfold format_integer_component. cbn [mk_format mk_modifier].
  destruct (fi 12 "1"%string) as [s| | | |]; cbn [lbind andb negb mk_minw zero_marker];
    rewrite ?pad_left_zeros_0; cbn [lbind andb negb]; try reflexivity.
  all: repeat match goal with |- context [seqb ?t "errUnsupported"] =>
         destruct (seqb t "errUnsupported") end.
  all: cbn [andb lbind fs_in_marker fs_expanded negb fs_result fs_start]; reflexivity.
Qed.
Print Assumptions from_millis_h_midnight.


(* ------------------------------------------------------------------------------------------ *)
(** * 5. parseTimeZone *)

(* strconv.Atoi on a two-byte string: two digits, or a sign and one digit *)
Definition pair_val (c1 c2 : ascii) : option Z :=
  let b1 := byte_of c1 in
  let b2 := byte_of c2 in
  if is_digit_byte b2 then
    if is_digit_byte b1 then Some (10 * (b1 - 48) + (b2 - 48))
    else if Ascii.eqb c1 "+" then Some (b2 - 48)
    else if Ascii.eqb c1 "-" then Some (- (b2 - 48))
    else None
  else None.

Definition sign_val (c : ascii) : option Z :=
  if Ascii.eqb c "-" then Some (-1) else if Ascii.eqb c "+" then Some 1 else None.

(* the set of strings parseTimeZone accepts (as repaired), with the offset it computes *)
Definition tz_accepts (s : string) : option Z :=
  match s with
  | String sg (String c1 (String c2 (String c3 (String c4 EmptyString)))) =>
      if is_digit_byte (byte_of c1) && is_digit_byte (byte_of c2)
         && is_digit_byte (byte_of c3) && is_digit_byte (byte_of c4) then
        match sign_val sg with
        | Some k =>
            let h := 10 * (byte_of c1 - 48) + (byte_of c2 - 48) in
            let m := 10 * (byte_of c3 - 48) + (byte_of c4 - 48) in
            if (h <=? 23) && (m <=? 59) then Some (k * (60 * (60 * h + m))) else None
        | None => None
        end
      else None
  | _ => None
  end.

Lemma go_atoi_shape s : go_atoi s =
  match s with
  | EmptyString => None
  | String c r =>
      let neg := Ascii.eqb c "-" in
      let body := if Ascii.eqb c "+" || neg then r else s in
      match body with
      | EmptyString => None
      | _ => match Z_of_dec_acc body 0 with
             | None => None
             | Some n => let v := if neg then - n else n in
                         if (- two63 <=? v) && (v <? two63) then Some v else None
             end
      end
  end.
Proof.
  destruct s as [|c r]; [reflexivity|].
  destruct c as [[] [] [] [] [] [] [] []]; reflexivity.
Qed.

Lemma byte_of_range c : 0 <= byte_of c <= 255.
Proof. destruct c as [[] [] [] [] [] [] [] []]; vm_compute; split; discriminate. Qed.

Lemma byte_of_plus c : Ascii.eqb c "+" = true -> byte_of c = 43.
Proof. intros H. apply Ascii.eqb_eq in H. now subst. Qed.
Lemma byte_of_minus c : Ascii.eqb c "-" = true -> byte_of c = 45.
Proof. intros H. apply Ascii.eqb_eq in H. now subst. Qed.

Lemma go_atoi_two c1 c2 : go_atoi (String c1 (String c2 EmptyString)) = pair_val c1 c2.
Proof.
  rewrite go_atoi_shape. unfold pair_val. cbv zeta.
  pose proof (byte_of_range c1) as R1. pose proof (byte_of_range c2) as R2.
  destruct (Ascii.eqb c1 "+") eqn:Ep; [pose proof (byte_of_plus _ Ep) as B1|];
  (destruct (Ascii.eqb c1 "-") eqn:Em; [pose proof (byte_of_minus _ Em) as B1'|]);
  cbn [orb]; cbn [Z_of_dec_acc]; fold (is_digit_byte (byte_of c2)); fold (is_digit_byte (byte_of c1));
  unfold is_digit_byte in *; unfold two63.
  all: destruct ((48 <=? byte_of c2) && (byte_of c2 <=? 57)) eqn:D2;
       destruct ((48 <=? byte_of c1) && (byte_of c1 <=? 57)) eqn:D1; try lia; try reflexivity.
  all: match goal with |- (if ?b then _ else _) = _ => replace b with true by lia end; f_equal; lia.
Qed.

Theorem parse_time_zone_char : forall s,
  parse_time_zone s = match tz_accepts s with
                      | Some off => LOk (off, s)
                      | None => LErr "invalid timezone"
                      end.
Proof.
  intros s. unfold parse_time_zone, tz_accepts.
  destruct s as [|sg [|c1 [|c2 [|c3 [|c4 [|c5 r]]]]]]; try reflexivity.
  change (negb (slen _ =? 5)%nat) with false. cbv iota.
  change (sslice 1 3 (String sg (String c1 (String c2 (String c3 (String c4 ""))))))
    with (String c1 (String c2 "")).
  change (sslice 3 5 (String sg (String c1 (String c2 (String c3 (String c4 ""))))))
    with (String c3 (String c4 "")).
  change (forallb is_digit_byte (bytes_of (sdrop 1 (String sg (String c1 (String c2 (String c3 (String c4 ""))))))))
    with (is_digit_byte (byte_of c1) && (is_digit_byte (byte_of c2) &&
          (is_digit_byte (byte_of c3) && (is_digit_byte (byte_of c4) && true)))).
  rewrite !go_atoi_two. unfold pair_val.
  change (byte_at (String sg (String c1 (String c2 (String c3 (String c4 ""))))) 0) with (byte_of sg).
  assert ((if byte_of sg =? 45 then Some (-1) else if byte_of sg =? 43 then Some 1 else None)
          = sign_val sg) as ->.
  { unfold sign_val. pose proof (byte_of_range sg) as R.
    destruct (Ascii.eqb sg "-") eqn:Em; [now rewrite (byte_of_minus _ Em)|].
    destruct (Ascii.eqb sg "+") eqn:Ep; [now rewrite (byte_of_plus _ Ep)|].
    assert (byte_of sg =? 45 = false) as ->.
    { apply Z.eqb_neq. intros H. apply Ascii.eqb_neq in Em. apply Em.
      destruct sg as [[] [] [] [] [] [] [] []]; vm_compute in H; try discriminate. reflexivity. }
    assert (byte_of sg =? 43 = false) as ->.
    { apply Z.eqb_neq. intros H. apply Ascii.eqb_neq in Ep. apply Ep.
      destruct sg as [[] [] [] [] [] [] [] []]; vm_compute in H; try discriminate. reflexivity. }
    reflexivity. }
  destruct (is_digit_byte (byte_of c1)) eqn:D1, (is_digit_byte (byte_of c2)) eqn:D2,
           (is_digit_byte (byte_of c3)) eqn:D3, (is_digit_byte (byte_of c4)) eqn:D4;
    cbn [andb negb]; destruct (sign_val sg) as [k|]; try reflexivity.
  cbv zeta.
  destruct (23 <? 10 * (byte_of c1 - 48) + (byte_of c2 - 48)) eqn:E1;
  destruct (59 <? 10 * (byte_of c3 - 48) + (byte_of c4 - 48)) eqn:E2;
  destruct (10 * (byte_of c1 - 48) + (byte_of c2 - 48) <=? 23) eqn:E3;
  destruct (10 * (byte_of c3 - 48) + (byte_of c4 - 48) <=? 59) eqn:E4;
  cbn [andb]; try reflexivity; lia.
Qed.
Print Assumptions parse_time_zone_char.

(** parseTimeZone accepts EXACTLY the strings +HHMM / -HHMM (HH <= 23, MM <= 59), with the
    offset they denote; everything else is an error.  (Before the repair strconv.Atoi's own
    sign made "+-1-2" acceptable and hours/minutes up to 99 were taken.) *)
Theorem parse_time_zone_spec : forall s off, tz_denotes s off <-> parse_time_zone s = LOk (off, s).
Proof.
  intros s off. rewrite parse_time_zone_char. split.
  - intros (sg & h1 & h2 & m1 & m2 & -> & Hsg & D1 & D2 & D3 & D4 & Hh & Hm & ->).
    unfold tz_accepts, sign_val.
    unfold is_digit in *. unfold digit_val in *.
    fold (byte_of h1) (byte_of h2) (byte_of m1) (byte_of m2) in *.
    unfold is_digit_byte. rewrite D1, D2, D3, D4. cbn [andb]. cbv zeta.
    destruct Hsg as [-> | ->]; cbn [Ascii.eqb Bool.eqb andb];
      (destruct ((10 * (byte_of h1 - 48) + (byte_of h2 - 48) <=? 23)
                 && (10 * (byte_of m1 - 48) + (byte_of m2 - 48) <=? 59)) eqn:E; [reflexivity|lia]).
  - unfold tz_accepts.
    destruct s as [|sg [|c1 [|c2 [|c3 [|c4 [|c5 r]]]]]]; try discriminate.
    destruct (is_digit_byte (byte_of c1)) eqn:D1; [|discriminate].
    destruct (is_digit_byte (byte_of c2)) eqn:D2; [|discriminate].
    destruct (is_digit_byte (byte_of c3)) eqn:D3; [|discriminate].
    destruct (is_digit_byte (byte_of c4)) eqn:D4; [|discriminate].
    cbn [andb]. unfold sign_val. cbv zeta.
    destruct (Ascii.eqb sg "-") eqn:Em.
    + apply Ascii.eqb_eq in Em. subst sg.
      destruct ((10 * (byte_of c1 - 48) + (byte_of c2 - 48) <=? 23)
                && (10 * (byte_of c3 - 48) + (byte_of c4 - 48) <=? 59)) eqn:E; [|discriminate].
      intros H. inversion H. exists "-"%char, c1, c2, c3, c4.
      unfold is_digit, digit_val. fold (byte_of c1) (byte_of c2) (byte_of c3) (byte_of c4).
      unfold is_digit_byte in *. repeat split; auto; lia.
    + destruct (Ascii.eqb sg "+") eqn:Ep; [|discriminate].
      apply Ascii.eqb_eq in Ep. subst sg.
      destruct ((10 * (byte_of c1 - 48) + (byte_of c2 - 48) <=? 23)
                && (10 * (byte_of c3 - 48) + (byte_of c4 - 48) <=? 59)) eqn:E; [|discriminate].
      intros H. inversion H. exists "+"%char, c1, c2, c3, c4.
      unfold is_digit, digit_val. fold (byte_of c1) (byte_of c2) (byte_of c3) (byte_of c4).
      unfold is_digit_byte in *. repeat split; auto; lia.
Qed.
Print Assumptions parse_time_zone_spec.
Example parse_time_zone_ex : tz_denotes "-0730" (-27000) /\ parse_time_zone "-0730" = LOk (-27000, "-0730"%string).
Proof. split; [apply parse_time_zone_spec|]; reflexivity. Qed.

(* every other string is an error *)
Theorem parse_time_zone_rejects : forall s,
  (forall off, ~ tz_denotes s off) -> parse_time_zone s = LErr "invalid timezone".
Proof.
  intros s H. pose proof (parse_time_zone_char s) as Hc.
  destruct (tz_accepts s) as [off|]; [|exact Hc].
  exfalso. apply (H off). apply parse_time_zone_spec. exact Hc.
Qed.
Example parse_time_zone_rejects_ex :
  map parse_time_zone ["+-1-2"; "++1+2"; "+9999"; "+2500"; "+2400"; "+0060"; "0100"; "+01:00"]%string
  = repeat (LErr "invalid timezone") 8.
Proof. reflexivity. Qed.

(* ------------------------------------------------------------------------------------------ *)
(** * 6. $toMillis inverts $fromMillis on the default picture *)

(* decimal digit strings of fixed width *)
Definition dch (n : Z) : ascii := ascii_of_Z (48 + n).
Definition dig2 (n : Z) : string := String (dch (n / 10)) (String (dch (n mod 10)) EmptyString).
Definition dig3 (n : Z) : string := String (dch (n / 100)) (dig2 (n mod 100)).
Definition dig4 (n : Z) : string := String (dch (n / 1000)) (dig3 (n mod 1000)).

Lemma byte_of_ascii_of_Z z : 0 <= z <= 255 -> byte_of (ascii_of_Z z) = z.
Proof.
  intros H. unfold byte_of, ascii_of_Z. rewrite N_ascii_embedding.
  - rewrite Z2N.id by lia. lia.
  - apply N2Z.inj_lt. rewrite Z2N.id by lia. change (Z.of_N 256) with 256. lia.
Qed.

Lemma byte_of_dch a : 0 <= a <= 9 -> byte_of (dch a) = 48 + a.
Proof. intros H. unfold dch. apply byte_of_ascii_of_Z. lia. Qed.

Lemma is_digit_dch a : 0 <= a <= 9 -> is_digit_byte (byte_of (dch a)) = true.
Proof. intros H. rewrite byte_of_dch by exact H. unfold is_digit_byte. lia. Qed.

Lemma getnum_dig2 n rest fixed : 0 <= n <= 99 ->
  getnum (dig2 n ++ rest) fixed = Some (n, rest).
Proof.
  intros H. unfold getnum, is_digit_at, byte_at, dig2. cbn [append String.get sdrop].
  rewrite !is_digit_dch by lia. cbn [negb]. rewrite !byte_of_dch by lia. f_equal. f_equal. lia.
Qed.

Lemma time_atoi_shape s : time_atoi s =
  let neg := match s with String c _ => Ascii.eqb c "-" | _ => false end in
  let body := match s with
              | String c r => if Ascii.eqb c "-" || Ascii.eqb c "+" then r else s
              | _ => s
              end in
  match leading_int body with
  | None => None
  | Some (q, rem) =>
      match rem with
      | EmptyString => let x := wrap64 q in Some (if neg then wrap64 (- x) else x)
      | _ => None
      end
  end.
Proof.
  destruct s as [|c r]; [reflexivity|].
  destruct c as [[] [] [] [] [] [] [] []]; reflexivity.
Qed.

Lemma dch_not_sign a : 0 <= a <= 9 -> Ascii.eqb (dch a) "-" = false /\ Ascii.eqb (dch a) "+" = false.
Proof.
  intros H. split; apply Ascii.eqb_neq; intros E; apply (f_equal byte_of) in E;
    rewrite byte_of_dch in E by exact H;
    [change (byte_of "-"%char) with 45 in E | change (byte_of "+"%char) with 43 in E]; lia.
Qed.

Lemma leading_int_step a r x : 0 <= a <= 9 -> 0 <= x < 100000000 ->
  leading_int_aux (String (dch a) r) x = leading_int_aux r (x * 10 + a).
Proof.
  intros Ha Hx. cbn [leading_int_aux]. rewrite is_digit_dch by exact Ha.
  rewrite byte_of_dch by exact Ha. unfold two63.
  destruct (9223372036854775808 / 10 <? x) eqn:E1; [lia|].
  destruct (9223372036854775808 <? x * 10 + (48 + a - 48)) eqn:E2; [lia|].
  f_equal. lia.
Qed.

Lemma time_atoi_dig4 n : 0 <= n <= 9999 -> time_atoi (dig4 n) = Some n.
Proof.
  intros H. rewrite time_atoi_shape. unfold dig4, dig3, dig2. cbv zeta.
  destruct (dch_not_sign (n / 1000) ltac:(lia)) as [-> ->]. cbn [orb].
  unfold leading_int. rewrite !leading_int_step by lia. cbn [leading_int_aux].
  rewrite wrap64_id by (unfold two63; lia). f_equal. lia.
Qed.

Lemma time_atoi_dig3 n : 0 <= n <= 999 -> time_atoi (dig3 n) = Some n.
Proof.
  intros H. rewrite time_atoi_shape. unfold dig3, dig2. cbv zeta.
  destruct (dch_not_sign (n / 100) ltac:(lia)) as [-> ->]. cbn [orb].
  unfold leading_int. rewrite !leading_int_step by lia. cbn [leading_int_aux].
  rewrite wrap64_id by (unfold two63; lia). f_equal. lia.
Qed.

(* formatNano of a whole number of milliseconds, three digits *)
Lemma format_nano_ms k : 0 <= k <= 999 -> format_nano (k * 1000000) 3 = dig3 k.
Proof.
  intros H. unfold format_nano. change (9 <? 3) with false. cbv iota.
  change (Z.to_nat 3) with 3%nat. cbn [nano_digits].
  set (q1 := Z.quot (k * 1000000) 10). assert (q1 = k * 100000) as E1 by (subst q1; lia).
  set (q2 := Z.quot q1 10). assert (q2 = k * 10000) as E2 by (subst q2; lia).
  set (q3 := Z.quot q2 10). assert (q3 = k * 1000) as E3 by (subst q3; lia).
  set (q4 := Z.quot q3 10). assert (q4 = k * 100) as E4 by (subst q4; lia).
  set (q5 := Z.quot q4 10). assert (q5 = k * 10) as E5 by (subst q5; lia).
  set (q6 := Z.quot q5 10). assert (q6 = k) as E6 by (subst q6; lia).
  set (q7 := Z.quot q6 10). assert (q7 = k / 10) as E7 by (subst q7; lia).
  set (q8 := Z.quot q7 10). assert (q8 = k / 100) as E8 by (subst q8; lia).
  cbn [stake]. unfold dig3, dig2, dch.
  rewrite E8, E7, E6. clear - H.
  replace (Z.rem (k / 100) 10 + 48) with (48 + k / 100) by lia.
  replace (Z.rem (k / 10) 10 + 48) with (48 + k mod 100 / 10) by lia.
  replace (Z.rem k 10 + 48) with (48 + (k mod 100) mod 10) by lia.
  reflexivity.
Qed.

(* --- facts about time.Parse and the calendar fields that do not involve FormatNumber --- *)

(* the text of the zone for [Z01:01t]: "Z" for UTC, else sign, hours, ":", minutes — the sign
   is that of the whole offset (hour and minute parts both carry it) *)
Definition ztext (h m : Z) : string :=
  if (h =? 0) && (m =? 0) then "Z"%string
  else if (h <? 0) || (m <? 0) then String "-" (dig2 (Z.abs h) ++ String ":" (dig2 (Z.abs m)))
  else String "+" (dig2 (Z.abs h) ++ String ":" (dig2 (Z.abs m))).

Lemma t_fields_range t :
  1 <= t_month t <= 12 /\ 1 <= t_day t <= 31 /\ 0 <= t_hour t <= 23 /\
  0 <= t_minute t <= 59 /\ 0 <= t_second t <= 59.
Proof.
  unfold t_month, t_day, t_hour, t_minute, t_second, t_sod.
  pose proof (civil_bijection (t_days t)) as Hb.
  destruct (civil_of_days (t_days t)) as [[y m] d]. destruct Hb as (_ & Hm & Hd).
  assert (days_in_month y m <= 31).
  { unfold days_in_month. destruct (m =? 2); [destruct (is_leap y); lia|].
    destruct ((m =? 4) || (m =? 6) || (m =? 9) || (m =? 11)); lia. }
  repeat split; try lia.
Qed.

(* --- symbolic execution of time.Parse on the layout "2006-01-02T15:04:05Z07:00" --- *)

Lemma parse_loop_step f layout value p :
  parse_loop (S f) layout value p =
  let '(prefix, st, suffix) := next_std_chunk layout in
  match skip value prefix with
  | None => LErr "parse: literal text mismatch"
  | Some value =>
      match st with
      | StdNone => match value with EmptyString => LOk p | _ => LErr "parse: extra text" end
      | _ => match parse_elem st suffix value p with
             | None => LErr "parse: bad or out-of-range element"
             | Some (p', value') => parse_loop f suffix value' p'
             end
      end
  end.
Proof. reflexivity. Qed.

Lemma skip_nil v : skip v "" = Some v.
Proof. reflexivity. Qed.
Lemma skip_char c rest : ascii_eqb c " " = false -> skip (String c rest) (String c "") = Some rest.
Proof.
  intros H. unfold skip. cbn [skip_aux]. rewrite H.
  unfold ascii_eqb. rewrite Ascii.eqb_refl. reflexivity.
Qed.

Lemma getnum_two n rest fixed : 0 <= n <= 99 ->
  getnum (String (dch (n / 10)) (String (dch (n mod 10)) rest)) fixed = Some (n, rest).
Proof. intros H. apply (getnum_dig2 n rest fixed H). Qed.

Lemma pe_longyear suf y rest p : 0 <= y <= 9999 ->
  parse_elem StdLongYear suf (dig4 y ++ rest) p = Some (set_year y p, rest).
Proof.
  intros H. unfold parse_elem.
  assert ((slen (dig4 y ++ rest) <? 4)%nat = false) as -> by reflexivity.
  assert (is_digit_at (dig4 y ++ rest) 0 = true) as ->
    by (unfold is_digit_at, byte_at, dig4; cbn [append String.get]; apply is_digit_dch; lia).
  cbn [orb negb].
  assert (stake 4 (dig4 y ++ rest) = dig4 y) as -> by reflexivity.
  rewrite time_atoi_dig4 by exact H. reflexivity.
Qed.

Lemma pe_zeromonth suf n rest p : 1 <= n <= 12 ->
  parse_elem StdZeroMonth suf (dig2 n ++ rest) p = Some (set_month n p, rest).
Proof.
  intros H. unfold parse_elem. rewrite getnum_dig2 by lia.
  destruct ((n <=? 0) || (12 <? n)) eqn:E; [lia|reflexivity].
Qed.

Lemma pe_zeroday suf n rest p : 0 <= n <= 99 ->
  parse_elem StdZeroDay suf (dig2 n ++ rest) p = Some (set_day n p, rest).
Proof. intros H. unfold parse_elem. rewrite getnum_dig2 by lia. reflexivity. Qed.

Lemma pe_hour suf n rest p : 0 <= n <= 23 ->
  parse_elem StdHour suf (dig2 n ++ rest) p = Some (set_hour n p, rest).
Proof.
  intros H. unfold parse_elem. rewrite getnum_dig2 by lia.
  destruct ((n <? 0) || (24 <=? n)) eqn:E; [lia|reflexivity].
Qed.

Lemma pe_zerominute suf n rest p : 0 <= n <= 59 ->
  parse_elem StdZeroMinute suf (dig2 n ++ rest) p = Some (set_min n p, rest).
Proof.
  intros H. unfold parse_elem. rewrite getnum_dig2 by lia.
  destruct ((n <? 0) || (60 <=? n)) eqn:E; [lia|reflexivity].
Qed.

(* seconds followed by ".ddd" although the layout has no fractional element: the "special
   case" of time.Parse reads the fraction *)
Lemma pe_zerosecond_frac n k rest p : 0 <= n <= 59 -> 0 <= k <= 999 ->
  count_digits rest = 0%nat ->
  parse_elem StdZeroSecond "Z07:00" (dig2 n ++ String "." (dig3 k ++ rest)) p
  = Some (set_nsec (k * 1000000) (set_sec n p), rest).
Proof.
  intros Hn Hk Hr. unfold parse_elem. rewrite getnum_dig2 by lia.
  destruct ((n <? 0) || (60 <=? n)) eqn:E; [lia|]. cbv zeta.
  assert ((2 <=? slen (String "." (dig3 k ++ rest)))%nat = true) as -> by reflexivity.
  change (byte_at (String "." (dig3 k ++ rest)) 0) with 46.
  change ((46 =? 46) || (46 =? 44)) with true.
  assert (is_digit_at (String "." (dig3 k ++ rest)) 1 = true) as ->
    by (unfold is_digit_at, byte_at, dig3; cbn [append String.get]; apply is_digit_dch; lia).
  cbn [andb].
  change (next_std_chunk "Z07:00") with (""%string, StdISO8601ColonTZ, ""%string). cbv iota beta.
  assert (count_digits_from (String "." (dig3 k ++ rest)) 2 = 2%nat) as ->.
  { unfold count_digits_from, dig3, dig2. cbn [append sdrop count_digits].
    rewrite !is_digit_dch by lia. now rewrite Hr. }
  change (2 + 2)%nat with 4%nat.
  unfold parse_nanoseconds.
  change (byte_at (String "." (dig3 k ++ rest)) 0) with 46.
  change (negb ((46 =? 46) || (46 =? 44))) with false. cbv iota.
  change (10 <? 4)%nat with false. cbv iota.
  assert (sslice 1 4 (String "." (dig3 k ++ rest)) = dig3 k) as -> by reflexivity.
  rewrite time_atoi_dig3 by exact Hk.
  destruct (k <? 0) eqn:E2; [lia|].
  assert (sdrop 4 (String "." (dig3 k ++ rest)) = rest) as -> by reflexivity.
  change (10 ^ Z.of_nat (10 - 4)) with 1000000. reflexivity.
Qed.

Lemma pe_zone_Z p : parse_elem StdISO8601ColonTZ "" "Z" p = Some (set_utc p, ""%string).
Proof. reflexivity. Qed.

Lemma pe_zone_num sg ah am p : sg = "+"%char \/ sg = "-"%char -> 0 <= ah <= 24 -> 0 <= am <= 59 ->
  parse_elem StdISO8601ColonTZ "" (String sg (dig2 ah ++ String ":" (dig2 am))) p
  = Some (set_zoff ((if Ascii.eqb sg "-" then -1 else 1) * ((ah * 60 + am) * 60)) p, ""%string).
Proof.
  intros Hsg Hh Hm. unfold parse_elem.
  assert (byte_at (String sg (dig2 ah ++ String ":" (dig2 am))) 0 =? 90 = false) as ->
    by (destruct Hsg as [-> | ->]; reflexivity).
  unfold parse_num_tz.
  assert ((slen (String sg (dig2 ah ++ String ":" (dig2 am))) <? 6)%nat = false) as -> by reflexivity.
  assert (byte_at (String sg (dig2 ah ++ String ":" (dig2 am))) 3 = 58) as -> by reflexivity.
  change (negb (58 =? 58)) with false. cbv iota.
  assert (sslice 1 3 (String sg (dig2 ah ++ String ":" (dig2 am))) = dig2 ah ++ "")%string as -> by reflexivity.
  assert (sslice 4 6 (String sg (dig2 ah ++ String ":" (dig2 am))) = dig2 am ++ "")%string as -> by reflexivity.
  assert (sslice 0 1 (String sg (dig2 ah ++ String ":" (dig2 am))) = String sg "") as -> by reflexivity.
  assert (sdrop 6 (String sg (dig2 ah ++ String ":" (dig2 am))) = ""%string) as -> by reflexivity.
  rewrite !getnum_dig2 by lia.
  change (getnum "00" true) with (Some (0, ""%string)).
  destruct Hsg as [-> | ->].
  - change (byte_at "+" 0) with 43. change (43 =? 43) with true. cbv iota.
    change (Ascii.eqb "+" "-") with false. cbv iota.
    replace ((24 <? ah) || (60 <? am) || (60 <? 0)) with false by lia. do 3 f_equal. lia.
  - change (byte_at "-" 0) with 45. change (45 =? 43) with false. change (45 =? 45) with true.
    cbv iota. change (Ascii.eqb "-" "-") with true. cbv iota.
    replace ((24 <? ah) || (60 <? am) || (60 <? 0)) with false by lia. do 3 f_equal. lia.
Qed.

Lemma count_digits_ztext h m : count_digits (ztext h m) = 0%nat.
Proof. unfold ztext. destruct ((h =? 0) && (m =? 0)); [reflexivity|]. destruct ((h <? 0) || (m <? 0)); reflexivity. Qed.

(* the offset (seconds) that ztext h m denotes when read back *)
Definition zoff_of (h m : Z) : Z :=
  if (h <? 0) || (m <? 0) then - ((Z.abs h * 60 + Z.abs m) * 60) else (Z.abs h * 60 + Z.abs m) * 60.

Ltac pl_step :=
  rewrite parse_loop_step;
  match goal with |- context [next_std_chunk ?L] =>
    let v := eval vm_compute in (next_std_chunk L) in change (next_std_chunk L) with v end;
  cbv iota beta; cbn [append];
  first [rewrite skip_nil | rewrite skip_char by reflexivity];
  cbv iota beta.

Lemma parse_default_text y mo d H mi s k h m :
  0 <= y <= 9999 -> 1 <= mo <= 12 -> 1 <= d <= days_in_month y mo -> 0 <= H <= 23 ->
  0 <= mi <= 59 -> 0 <= s <= 59 -> 0 <= k <= 999 -> -24 <= h <= 24 -> -59 <= m <= 59 ->
  exists t',
    go_time_parse "2006-01-02T15:04:05Z07:00"
      (dig4 y ++ "-" ++ dig2 mo ++ "-" ++ dig2 d ++ "T" ++ dig2 H ++ ":" ++ dig2 mi ++ ":" ++
       dig2 s ++ "." ++ dig3 k ++ ztext h m) = LOk t' /\
    unix_sec t' = days_of_civil y mo d * 86400 + H * 3600 + mi * 60 + s - zoff_of h m /\
    nsec t' = k * 1000000.
Proof.
  intros Hy Hmo Hd HH Hmi Hs Hk Hh Hm.
  assert (d <= 31) as Hd31.
  { destruct Hd as [_ Hd]. unfold days_in_month in Hd. destruct (mo =? 2); [destruct (is_leap y); lia|].
    destruct ((mo =? 4) || (mo =? 6) || (mo =? 9) || (mo =? 11)); lia. }
  unfold go_time_parse.
  change (S (slen "2006-01-02T15:04:05Z07:00")) with 26%nat.
  pl_step. rewrite pe_longyear by lia. cbv iota beta.
  pl_step. rewrite pe_zeromonth by lia. cbv iota beta.
  pl_step. rewrite pe_zeroday by lia. cbv iota beta.
  pl_step. rewrite pe_hour by lia. cbv iota beta.
  pl_step. rewrite pe_zerominute by lia. cbv iota beta.
  pl_step. rewrite pe_zerosecond_frac by (auto using count_digits_ztext). cbv iota beta.
  pl_step.
  unfold ztext, zoff_of.
  destruct ((h =? 0) && (m =? 0)) eqn:E0.
  - rewrite pe_zone_Z. cbv iota beta. pl_step. cbn [lbind].
    unfold parse_finish. cbn.
    replace (mo <? 0) with false by lia. replace (d <? 0) with false by lia. cbv iota.
    replace ((d <? 1) || (days_in_month y mo <? d)) with false by lia.
    eexists; split; [reflexivity|]. cbn [unix_sec nsec]. split; [|reflexivity].
    assert (h = 0 /\ m = 0) as [-> ->] by lia. cbn. lia.
  - destruct ((h <? 0) || (m <? 0)) eqn:Eh.
    + rewrite (pe_zone_num "-" (Z.abs h) (Z.abs m)) by (auto; lia). cbv iota beta. pl_step. cbn [lbind].
      change (Ascii.eqb "-" "-") with true. cbv iota.
      match goal with |- context [set_zoff ?z _] => remember z as zz eqn:Ezz end.
      unfold parse_finish. cbn.
      replace (mo <? 0) with false by lia. replace (d <? 0) with false by lia. cbv iota.
      replace ((d <? 1) || (days_in_month y mo <? d)) with false by lia.
      replace (zz =? -1) with false by lia. cbn [negb].
      eexists; split; [reflexivity|]. cbn [unix_sec nsec]. split; [lia|reflexivity].
    + rewrite (pe_zone_num "+" (Z.abs h) (Z.abs m)) by (auto; lia). cbv iota beta. pl_step. cbn [lbind].
      change (Ascii.eqb "+" "-") with false. cbv iota.
      match goal with |- context [set_zoff ?z _] => remember z as zz eqn:Ezz end.
      unfold parse_finish. cbn.
      replace (mo <? 0) with false by lia. replace (d <? 0) with false by lia. cbv iota.
      replace ((d <? 1) || (days_in_month y mo <? d)) with false by lia.
      replace (zz =? -1) with false by lia. cbn [negb].
      eexists; split; [reflexivity|]. cbn [unix_sec nsec]. split; [lia|reflexivity].
Qed.

(* the civil year of instant ms seen at offset off (seconds) *)
Definition local_year (ms off : Z) : Z :=
  let '(y, _, _) := civil_of_days ((ms / 1000 + off) / 86400) in y.


(* 1 January is monotone in the year, hence a bound on the local year bounds the instant *)
Lemma jan1_step y : days_of_civil y 1 1 + 365 <= days_of_civil (y + 1) 1 1.
Proof.
  unfold days_of_civil.
  repeat match goal with |- context [if ?b then _ else _] =>
         let v := eval vm_compute in b in
         match v with
         | true => change b with true; cbv iota
         | false => change b with false; cbv iota
         end end.
  replace (y + 1 - 1) with y by lia. lia.
Qed.

Lemma jan1_mono a b : a <= b -> days_of_civil a 1 1 <= days_of_civil b 1 1.
Proof.
  intros H. replace b with (a + Z.of_nat (Z.to_nat (b - a))) by lia.
  generalize (Z.to_nat (b - a)). intros n. induction n as [|n IH]; [rewrite Z.add_0_r; lia|].
  rewrite Nat2Z.inj_succ. unfold Z.succ. rewrite Z.add_assoc.
  pose proof (jan1_step (a + Z.of_nat n)). lia.
Qed.

Lemma local_year_ms_bounds ms off : 0 <= local_year ms off <= 9999 -> -90000 < off < 90000 ->
  -62167309200000 <= ms < 253402390800000.
Proof.
  intros Hy Hoff. unfold local_year in Hy.
  pose proof (year_bounds ((ms / 1000 + off) / 86400)) as Hb.
  destruct (civil_of_days ((ms / 1000 + off) / 86400)) as [[y mo] d].
  pose proof (jan1_mono 0 y ltac:(lia)) as H0.
  pose proof (jan1_mono (y + 1) 10000 ltac:(lia)) as H1.
  change (days_of_civil 0 1 1) with (-719528) in H0.
  change (days_of_civil 10000 1 1) with 2932897 in H1.
  lia.
Qed.


(* a valid time zone is a whole number of minutes below 24h, and a non-empty string *)
Lemma tz_denotes_range s off : tz_denotes s off ->
  (off mod 60 = 0 /\ -90000 < off < 90000) /\ s <> EmptyString.
Proof.
  intros (sg & h1 & h2 & m1 & m2 & -> & Hsg & D1 & D2 & D3 & D4 & Hh & Hm & ->).
  unfold is_digit in *. unfold digit_val in *.
  split; [|discriminate].
  destruct (Ascii.eqb sg "-"); lia.
Qed.

Section InverseLaw.

(* What the proof needs to know about FormatNumber(float64(n), layout) — two facts about the
   layouts "1" and "01" (validated against the real FormatNumber for every n in these ranges by
   the vector generator, and to be discharged by the FormatNumber model). *)
Variable fi : Z -> string -> lres string.
Hypothesis fi_year : forall n, 1000 <= n <= 9999 -> fi n "1" = LOk (dig4 n).
Hypothesis fi_2 : forall n, 0 <= n <= 99 -> fi n "01" = LOk (dig2 n).

(* --- symbolic execution of FormatTime on a closed picture --- *)

Lemma ft_step_plain t pic st cur r : (r =? 91) = false -> (r =? 93) = false ->
  format_time_step fi t pic st (cur, r) = LOk st.
Proof. intros H1 H2. unfold format_time_step. now rewrite H1, H2. Qed.

Lemma ft_step_open t pic start dcb ex res cur :
  format_time_step fi t pic
    {| fs_start := start; fs_in_marker := false; fs_dcb := dcb; fs_expanded := ex; fs_result := res |}
    (cur, 91) =
  lbind (slice_checked pic start cur) (fun lit =>
    LOk {| fs_start := S cur; fs_in_marker := true; fs_dcb := dcb; fs_expanded := ex;
           fs_result := res ++ lit |}).
Proof. reflexivity. Qed.

Lemma ft_step_close t pic start dcb ex res cur : (cur =? start)%nat = false ->
  format_time_step fi t pic
    {| fs_start := start; fs_in_marker := true; fs_dcb := dcb; fs_expanded := ex; fs_result := res |}
    (cur, 93) =
  lbind (slice_checked pic start cur) (fun body =>
  lbind (expand_variable_marker fi t body) (fun s =>
    LOk {| fs_start := S cur; fs_in_marker := false; fs_dcb := dcb; fs_expanded := true;
           fs_result := res ++ s |})).
Proof.
  intros H. unfold format_time_step. change (93 =? 91) with false. change (93 =? 93) with true.
  cbv iota. cbn [fs_in_marker fs_start fs_dcb fs_expanded fs_result]. now rewrite H.
Qed.

(* the markers of the default pictures *)
Lemma evm_decimal t body c fmt n :
  parse_variable_marker body = LOk (c, {| mk_format := fmt; mk_modifier := ModNone; mk_minw := 0; mk_maxw := 0 |}) ->
  seqb fmt "" = false ->
  (forall mk, mk_format mk = fmt -> mk_modifier mk = ModNone ->
              expand_date_component fi t c mk = format_integer_component fi n mk) ->
  forall s, fi n fmt = LOk s ->
  expand_variable_marker fi t body = LOk s.
Proof.
  intros Hp Hne Hc s Hfi. unfold expand_variable_marker. rewrite Hp. cbn [lbind mk_format].
  rewrite Hne. rewrite Hc by reflexivity.
  unfold format_integer_component. cbn [mk_format mk_modifier mk_minw]. rewrite Hfi. cbn [lbind].
  rewrite pad_left_zeros_0. reflexivity.
Qed.

Lemma evm_default t body c n :
  parse_variable_marker body = LOk (c, zero_marker) ->
  (forall mk, mk_format mk = default_date_format c -> mk_modifier mk = ModNone ->
              expand_date_component fi t c mk = format_integer_component fi n mk) ->
  forall s, fi n (default_date_format c) = LOk s ->
  expand_variable_marker fi t body = LOk s.
Proof.
  intros Hp Hc s Hfi. unfold expand_variable_marker. rewrite Hp. cbn [lbind mk_format zero_marker].
  change (seqb "" "") with true. cbv iota.
  rewrite Hc by reflexivity.
  unfold format_integer_component, with_default_format. cbn [mk_format mk_modifier mk_minw zero_marker].
  rewrite Hfi. cbn [lbind]. rewrite pad_left_zeros_0. reflexivity.
Qed.

Lemma edc_Y t mk : mk_format mk = "1"%string -> mk_modifier mk = ModNone -> mk_maxw mk = 0 ->
  expand_date_component fi t cY mk = format_integer_component fi (t_year t) mk.
Proof.
  intros Hf Hm Hw. unfold expand_date_component. change (cY =? cY) with true. cbv iota.
  unfold format_year. rewrite Hf, Hw. reflexivity.
Qed.

Ltac edc_dec :=
  let Hf := fresh in let Hm := fresh in
  intros Hf Hm; unfold expand_date_component;
  repeat match goal with |- context [?a =? ?b] =>
    let v := eval vm_compute in (a =? b) in change (a =? b) with v end;
  cbv iota; unfold format_decimal_field, format_month, format_hour; rewrite Hf; reflexivity.

Lemma edc_M t mk : mk_format mk = "01"%string -> mk_modifier mk = ModNone ->
  expand_date_component fi t cM mk = format_integer_component fi (t_month t) mk.
Proof. edc_dec. Qed.
Lemma edc_D t mk : mk_format mk = "01"%string -> mk_modifier mk = ModNone ->
  expand_date_component fi t cD mk = format_integer_component fi (t_day t) mk.
Proof. edc_dec. Qed.
Lemma edc_H t mk : mk_format mk = "01"%string -> mk_modifier mk = ModNone ->
  expand_date_component fi t cH mk = format_integer_component fi (t_hour t) mk.
Proof. edc_dec. Qed.
Lemma edc_m t mk : mk_format mk = "01"%string -> mk_modifier mk = ModNone ->
  expand_date_component fi t cm mk = format_integer_component fi (t_minute t) mk.
Proof. edc_dec. Qed.
Lemma edc_s t mk : mk_format mk = "01"%string -> mk_modifier mk = ModNone ->
  expand_date_component fi t cs mk = format_integer_component fi (t_second t) mk.
Proof. edc_dec. Qed.

Lemma ft_loop_cons t pic cr l st :
  format_time_loop fi t pic (cr :: l) st =
  lbind (format_time_step fi t pic st cr) (format_time_loop fi t pic l).
Proof. reflexivity. Qed.

Lemma format_timezone_default t name h m mk :
  get_timezone_info t = (name, h, m) -> -99 <= h <= 99 -> -99 <= m <= 99 ->
  mk_format mk = "01:01"%string -> mk_modifier mk = ModTraditional -> mk_minw mk = 0 ->
  format_timezone fi t mk false = LOk (ztext h m).
Proof.
  intros Hi Hh Hm Hf Hmod Hw. unfold format_timezone. rewrite Hi, Hf, Hmod, Hw.
  change (get_timezone_style "01:01") with (TzSplit "01" "01" ":").
  cbn [is_traditional andb]. unfold ztext.
  destruct ((h =? 0) && (m =? 0)) eqn:E0.
  - cbn [lbind andb]. reflexivity.
  - unfold format_timezone_split, timezone_sign.
    rewrite (fi_2 (Z.abs m)), (fi_2 (Z.abs h)) by lia. cbn [lbind lmap andb]. unfold pad_right.
    change (0 <? 0) with false. cbv iota.
    destruct ((h <? 0) || (m <? 0)); reflexivity.
Qed.

Ltac ft_one :=
  rewrite ft_loop_cons;
  lazymatch goal with
  | |- context [format_time_step _ _ _ _ (_, 91)] =>
      rewrite ft_step_open;
      match goal with |- context [slice_checked ?p ?a ?b] =>
        let v := eval vm_compute in (slice_checked p a b) in change (slice_checked p a b) with v end;
      cbn [lbind]
  | |- context [format_time_step _ _ _ _ (_, 93)] =>
      rewrite ft_step_close by reflexivity;
      match goal with |- context [slice_checked ?p ?a ?b] =>
        let v := eval vm_compute in (slice_checked p a b) in change (slice_checked p a b) with v end;
      cbn [lbind]
  | |- _ => rewrite ft_step_plain by reflexivity; cbn [lbind]
  end.

Lemma evm_Y t : 1000 <= t_year t <= 9999 ->
  expand_variable_marker fi t "Y" = LOk (dig4 (t_year t)).
Proof.
  intros Hy. unfold expand_variable_marker.
  change (parse_variable_marker "Y") with (@LOk (Z * marker) (cY, zero_marker)).
  cbn [lbind mk_format zero_marker]. change (seqb "" "") with true. cbv iota.
  rewrite edc_Y by reflexivity.
  unfold format_integer_component, with_default_format. cbn [mk_format mk_modifier mk_minw zero_marker].
  change (default_date_format cY) with "1"%string. rewrite fi_year by exact Hy. cbn [lbind].
  rewrite pad_left_zeros_0. reflexivity.
Qed.

Lemma evm_two t body c n :
  parse_variable_marker body = LOk (c, {| mk_format := "01"; mk_modifier := ModNone; mk_minw := 0; mk_maxw := 0 |}) ->
  (forall mk, mk_format mk = "01"%string -> mk_modifier mk = ModNone ->
              expand_date_component fi t c mk = format_integer_component fi n mk) ->
  0 <= n <= 99 ->
  expand_variable_marker fi t body = LOk (dig2 n).
Proof.
  intros Hp Hc Hn. unfold expand_variable_marker. rewrite Hp. cbn [lbind mk_format].
  change (seqb "01" "") with false. cbv iota. rewrite Hc by reflexivity.
  unfold format_integer_component. cbn [mk_format mk_modifier mk_minw zero_marker].
  rewrite fi_2 by exact Hn. cbn [lbind]. rewrite pad_left_zeros_0. reflexivity.
Qed.

Lemma evm_two_default t body c n :
  parse_variable_marker body = LOk (c, zero_marker) -> default_date_format c = "01"%string ->
  (forall mk, mk_format mk = "01"%string -> mk_modifier mk = ModNone ->
              expand_date_component fi t c mk = format_integer_component fi n mk) ->
  0 <= n <= 99 ->
  expand_variable_marker fi t body = LOk (dig2 n).
Proof.
  intros Hp Hd Hc Hn. unfold expand_variable_marker. rewrite Hp. cbn [lbind mk_format zero_marker].
  change (seqb "" "") with true. cbv iota. unfold with_default_format. rewrite Hd.
  rewrite Hc by reflexivity.
  unfold format_integer_component. cbn [mk_format mk_modifier mk_minw zero_marker].
  rewrite fi_2 by exact Hn. cbn [lbind]. rewrite pad_left_zeros_0. reflexivity.
Qed.

Lemma evm_f001 t : expand_variable_marker fi t "f001" = LOk (format_nano (t_nanosecond t) 3).
Proof. reflexivity. Qed.

Lemma evm_Z t name h m :
  get_timezone_info t = (name, h, m) -> -99 <= h <= 99 -> -99 <= m <= 99 ->
  expand_variable_marker fi t "Z01:01t" = LOk (ztext h m).
Proof.
  intros Hi Hh Hm. unfold expand_variable_marker.
  change (parse_variable_marker "Z01:01t") with
    (@LOk (Z * marker) (cZ, {| mk_format := "01:01"; mk_modifier := ModTraditional; mk_minw := 0; mk_maxw := 0 |})).
  cbn [lbind mk_format]. change (seqb "01:01" "") with false. cbv iota.
  unfold expand_date_component.
  repeat match goal with |- context [cZ =? ?b] =>
    let v := eval vm_compute in (cZ =? b) in change (cZ =? b) with v end.
  cbv iota. rewrite (format_timezone_default t name h m) by (auto; reflexivity). reflexivity.
Qed.

(* FormatTime on the default picture *)
Lemma format_time_default t name h m :
  1000 <= t_year t <= 9999 ->
  get_timezone_info t = (name, h, m) -> -99 <= h <= 99 -> -99 <= m <= 99 ->
  format_time fi t default_format_time_layout =
  LOk (dig4 (t_year t) ++ "-" ++ dig2 (t_month t) ++ "-" ++ dig2 (t_day t) ++ "T" ++
       dig2 (t_hour t) ++ ":" ++ dig2 (t_minute t) ++ ":" ++ dig2 (t_second t) ++ "." ++
       format_nano (t_nanosecond t) 3 ++ ztext h m)%string.
Proof.
  intros Hy Hi Hh Hm.
  destruct (t_fields_range t) as (RM & RD & RH & Rm & Rs).
  pose proof (evm_Y t Hy) as EY.
  pose proof (evm_two t "M01" cM (t_month t) eq_refl (edc_M t) ltac:(lia)) as EM.
  pose proof (evm_two t "D01" cD (t_day t) eq_refl (edc_D t) ltac:(lia)) as ED.
  pose proof (evm_two t "H01" cH (t_hour t) eq_refl (edc_H t) ltac:(lia)) as EH.
  pose proof (evm_two_default t "m" cm (t_minute t) eq_refl eq_refl (edc_m t) ltac:(lia)) as Em.
  pose proof (evm_two_default t "s" cs (t_second t) eq_refl eq_refl (edc_s t) ltac:(lia)) as Es.
  pose proof (evm_f001 t) as Ef.
  pose proof (evm_Z t name h m Hi Hh Hm) as EZ.
  unfold format_time, default_format_time_layout.
  let l := eval vm_compute in (runes_pos "[Y]-[M01]-[D01]T[H01]:[m]:[s].[f001][Z01:01t]") in
  change (runes_pos "[Y]-[M01]-[D01]T[H01]:[m]:[s].[f001][Z01:01t]") with l.
  repeat (ft_one; try first [rewrite EY | rewrite EM | rewrite ED | rewrite EH | rewrite Em
                            | rewrite Es | rewrite Ef | rewrite EZ]; cbn [lbind]).
  cbn [format_time_loop lbind fs_in_marker fs_expanded negb fs_result fs_start].
  change (sdrop 45 "[Y]-[M01]-[D01]T[H01]:[m]:[s].[f001][Z01:01t]") with ""%string.
  f_equal. cbn [append]. rewrite !sapp_assoc, sapp_nil_r. cbn [append]. reflexivity.
Qed.

(* the layouts ToMillis derives from the default parse pictures *)
Lemma ref_layout_1 :
  format_time fi ref_time "[Y]-[M01]-[D01]T[H01]:[m]:[s][Z01:01t]" = LOk "2006-01-02T15:04:05-07:00"%string.
Proof.
  set (t := ref_time).
  assert (1000 <= t_year t <= 9999) as Hy by (vm_compute; split; discriminate).
  destruct (t_fields_range t) as (RM & RD & RH & Rm & Rs).
  pose proof (evm_Y t Hy) as EY.
  pose proof (evm_two t "M01" cM (t_month t) eq_refl (edc_M t) ltac:(lia)) as EM.
  pose proof (evm_two t "D01" cD (t_day t) eq_refl (edc_D t) ltac:(lia)) as ED.
  pose proof (evm_two t "H01" cH (t_hour t) eq_refl (edc_H t) ltac:(lia)) as EH.
  pose proof (evm_two_default t "m" cm (t_minute t) eq_refl eq_refl (edc_m t) ltac:(lia)) as Em.
  pose proof (evm_two_default t "s" cs (t_second t) eq_refl eq_refl (edc_s t) ltac:(lia)) as Es.
  pose proof (evm_Z t "MST" (-7) 0 eq_refl ltac:(lia) ltac:(lia)) as EZ.
  unfold format_time.
  let l := eval vm_compute in (runes_pos "[Y]-[M01]-[D01]T[H01]:[m]:[s][Z01:01t]") in
  change (runes_pos "[Y]-[M01]-[D01]T[H01]:[m]:[s][Z01:01t]") with l.
  repeat (ft_one; try first [rewrite EY | rewrite EM | rewrite ED | rewrite EH | rewrite Em
                            | rewrite Es | rewrite EZ]; cbn [lbind]).
  cbn [format_time_loop lbind fs_in_marker fs_expanded negb fs_result fs_start].
  vm_compute. reflexivity.
Qed.

(* General form: what $toMillis returns on the default rendering of ms at offset off — the
   instant shifted by the difference between the true offset and the offset the text denotes. *)
Lemma to_millis_from_millis_default_gen : forall ms tz off,
  (tz = None /\ off = 0) \/
  (exists s, tz = Some s /\ s <> EmptyString /\ parse_time_zone s = LOk (off, s)) ->
  -90000 < off < 90000 ->
  1000 <= local_year ms off <= 9999 ->
  let ms' := ms + 1000 * (off - zoff_of (Z.quot off 3600) (Z.quot (Z.rem off 3600) 60)) in
  exists text, from_millis fi ms None tz = LOk text /\ to_millis fi text None None = LOk ms'.
Proof.
  intros ms tz off Htz Hrange Hyear ms'.
  pose proof (local_year_ms_bounds ms off ltac:(lia) Hrange) as Hms.
  destruct (ms_to_time_fields ms) as (Fs & Fn & Fo & Fz).
  (* the time value FormatTime receives *)
  assert (exists t, unix_sec t = ms / 1000 /\ nsec t = (ms mod 1000) * 1000000 /\ offset t = off /\
                    from_millis fi ms None tz = format_time fi t default_format_time_layout)
    as (t & Ts & Tn & To & Hfrom).
  { destruct Htz as [[-> ->] | (s & -> & Hne & Hp)].
    - exists (ms_to_time ms). repeat split; auto.
    - exists (time_in (ms_to_time ms) off s). cbn [time_in unix_sec nsec offset]. repeat split; auto.
      unfold from_millis. cbn [opt_string].
      assert (seqb s "" = false) as -> by (destruct s; [congruence|reflexivity]).
      rewrite Hp. reflexivity. }
  set (h := Z.quot off 3600) in *. set (m := Z.quot (Z.rem off 3600) 60) in *.
  assert (get_timezone_info t = (zname t, h, m)) as Hi by (unfold get_timezone_info; now rewrite To).
  assert (-24 <= h <= 24) as Hh by (subst h; lia).
  assert (-59 <= m <= 59) as Hm by (subst m; lia).
  assert (t_year t = local_year ms off) as Hty
    by (unfold t_year, local_year, t_days, t_local_sec; now rewrite Ts, To).
  rewrite Hfrom, (format_time_default t (zname t) h m) by (try rewrite Hty; auto; lia).
  eexists; split; [reflexivity|].
  (* ToMillis: first default layout *)
  unfold to_millis. cbn [opt_string]. change (seqb "" "") with true. cbv iota.
  unfold default_parse_time_layouts. cbn [to_millis_loop]. unfold parse_time at 1.
  rewrite ref_layout_1.
  change (replace_minus7 "2006-01-02T15:04:05-07:00") with "2006-01-02T15:04:05Z07:00"%string.
  unfold t_nanosecond. rewrite Tn, format_nano_ms by lia.
  destruct (t_fields_range t) as (RM & RD & RH & Rm & Rs).
  pose proof (civil_bijection (t_days t)) as Hb.
  assert (t_year t = let '(y, _, _) := civil_of_days (t_days t) in y) as Ey by reflexivity.
  assert (t_month t = let '(_, mo, _) := civil_of_days (t_days t) in mo) as Emo by reflexivity.
  assert (t_day t = let '(_, _, d) := civil_of_days (t_days t) in d) as Ed by reflexivity.
  destruct (civil_of_days (t_days t)) as [[y mo] d]. destruct Hb as (Hdays & Hmo & Hd).
  rewrite Ey, Emo, Ed in *.
  destruct (parse_default_text y mo d (t_hour t) (t_minute t) (t_second t) (ms mod 1000) h m)
    as (t' & Hparse & Hu & Hn); try lia.
  rewrite Hparse. f_equal.
  unfold time_to_ms. rewrite wrap64_add_l, Hu, Hn, Hdays.
  assert (t_days t * 86400 + t_hour t * 3600 + t_minute t * 60 + t_second t = ms / 1000 + off) as Hloc.
  { unfold t_days, t_hour, t_minute, t_second, t_sod, t_local_sec. rewrite Ts, To.
    generalize (ms / 1000 + off). intros L. lia. }
  rewrite Hloc.
  replace ((ms / 1000 + off - zoff_of h m) * 1000 + ms mod 1000 * 1000000 / 1000000)
    with ms' by (subst ms'; lia).
  apply wrap64_id.
  assert (-90000 <= zoff_of h m <= 90000) by (unfold zoff_of; destruct ((h <? 0) || (m <? 0)); lia).
  subst ms'. fold h m. unfold two63. lia.
Qed.

(** PARTIAL inverse law ($toMillis after $fromMillis, default picture).  Proved for EVERY
    instant whose local year is 1000..9999 and EVERY valid time zone (+HHMM / -HHMM with
    HH <= 23, MM <= 59, which is all parseTimeZone accepts; in particular -1400..+1400), or none.
    What is missing for the full property: (a) it is conditional on the two stated facts about
    FormatNumber (validated against the real FormatNumber by the vector generator); (b) of the
    other pictures only [explicit_picture] is covered (section 6b).
    HISTORICAL: before the repair of formatTimezoneShort/Long/Split the sign of the zone was
    taken from the hour part alone, so for offsets in (-1h, 0) the text carried a "+" and this
    law failed by 2*|offset| ($fromMillis(0,(),"-0030") = "1969-12-31T23:30:00.000+00:30",
    read back as -3600000); the theorem then excluded those offsets (and a theorem
    offset_sign_defect proved the deviation). *)
Theorem to_millis_from_millis_default_partial : forall ms tz off,
  (tz = None /\ off = 0) \/ (exists s, tz = Some s /\ tz_denotes s off) ->
  1000 <= local_year ms off <= 9999 ->
  exists text, from_millis fi ms None tz = LOk text /\ to_millis fi text None None = LOk ms.
Proof.
  intros ms tz off Htz Hyear.
  assert (off mod 60 = 0 /\ -90000 < off < 90000) as [Hmin Hrange].
  { destruct Htz as [[_ ->] | (s & _ & Hd)]; [split; [reflexivity|lia]|].
    apply (proj1 (tz_denotes_range s off Hd)). }
  assert ((tz = None /\ off = 0) \/
          (exists s, tz = Some s /\ s <> EmptyString /\ parse_time_zone s = LOk (off, s))) as Htz'.
  { destruct Htz as [H | (s & -> & Hd)]; [left; exact H|].
    right. exists s. split; [reflexivity|]. split; [apply (proj2 (tz_denotes_range s off Hd))|].
    apply parse_time_zone_spec. exact Hd. }
  assert (zoff_of (Z.quot off 3600) (Z.quot (Z.rem off 3600) 60) = off) as Hz
    by (unfold zoff_of; destruct ((Z.quot off 3600 <? 0) || (Z.quot (Z.rem off 3600) 60 <? 0)) eqn:E; lia).
  pose proof (to_millis_from_millis_default_gen ms tz off Htz' Hrange Hyear) as H.
  cbv zeta in H. rewrite Hz in H. replace (ms + 1000 * (off - off)) with ms in H by lia.
  exact H.
Qed.
End InverseLaw.

Print Assumptions to_millis_from_millis_default_partial.

(* the FormatNumber facts are satisfiable, and the theorems apply to concrete instances *)
Definition fi_example (n : Z) (layout : string) : lres string :=
  if seqb layout "1" || seqb layout "0001" then LOk (dig4 n)
  else if 0 <=? n then LOk (dig2 n) else LOk (String "-" (dig2 (- n))).

Example inverse_law_ex :
  exists text, from_millis fi_example 1538323085762 None (Some "+0530"%string) = LOk text /\
               to_millis fi_example text None None = LOk 1538323085762.
Proof.
  apply (to_millis_from_millis_default_partial fi_example) with (off := 19800).
  - intros n H. reflexivity.
  - intros n H. unfold fi_example. change (seqb "01" "1" || seqb "01" "0001") with false. cbv iota.
    destruct (0 <=? n) eqn:E; [reflexivity|lia].
  - right. exists "+0530"%string. split; [reflexivity|]. apply parse_time_zone_spec. reflexivity.
  - vm_compute. split; discriminate.
Qed.

(* the offsets of the former sign defect now round-trip *)
Example offset_sign_repaired_ex :
  from_millis fi_example 0 None (Some "-0030"%string) = LOk "1969-12-31T23:30:00.000-00:30"%string /\
  to_millis fi_example "1969-12-31T23:30:00.000-00:30" None None = LOk 0.
Proof. vm_compute. split; reflexivity. Qed.

(* ------------------------------------------------------------------------------------------ *)
(** * Invalid time zones are errors; ToMillis ignores its tz argument *)

Theorem from_millis_invalid_tz fi ms pic s :
  s <> EmptyString -> tz_accepts s = None -> exists e, from_millis fi ms pic (Some s) = LErr e.
Proof.
  intros Hne Hacc. unfold from_millis. cbn [opt_string].
  assert (seqb s "" = false) as -> by (destruct s; [congruence|reflexivity]).
  rewrite parse_time_zone_char, Hacc. cbn [lbind]. eexists; reflexivity.
Qed.
Print Assumptions from_millis_invalid_tz.

Theorem to_millis_ignores_tz fi s pic tz tz' : to_millis fi s pic tz = to_millis fi s pic tz'.
Proof. reflexivity. Qed.

(* ------------------------------------------------------------------------------------------ *)
(** * $now() and $millis() of one evaluation denote the same instant *)

(* Both are closed over the single clock reading of the evaluation (timeCallables), so every
   $now(p, tz) is the rendering of every $millis(). *)
Theorem now_millis_same_instant fi clock_ms pic tz :
  eval_now fi clock_ms pic tz = from_millis fi (eval_millis clock_ms) pic tz.
Proof. reflexivity. Qed.


(* ------------------------------------------------------------------------------------------ *)
(** * Each picture component shows the corresponding field of the instant *)

(* the time value FromMillis hands to FormatTime: instant ms seen at offset off *)
Definition instant_at (ms off : Z) (name : string) : gotime := time_in (ms_to_time ms) off name.

(** The clock and calendar fields of that value are the specification's fields of the instant
    ms at offset off (floor arithmetic, also for negative ms). *)
Theorem fields_of_instant : forall ms off name,
  let t := instant_at ms off name in
  t_days t = local_day ms off /\
  (t_year t, t_month t, t_day t) = civil_of_days (local_day ms off) /\
  t_weekday t = weekday_of_days (local_day ms off) /\
  t_yearday t = yearday (local_day ms off) /\
  t_isoweek t = iso_week (local_day ms off) /\
  t_hour t = hour_of ms off /\ t_minute t = minute_of ms off /\ t_second t = second_of ms off /\
  t_nanosecond t = millisecond_of ms * 1000000.
Proof.
  intros ms off name t.
  destruct (ms_to_time_fields ms) as (Fs & Fn & _).
  assert (t_local_sec t = local_seconds ms off) as HL
    by (unfold t_local_sec, local_seconds; subst t; cbn [instant_at time_in unix_sec offset]; now rewrite Fs).
  assert (t_days t = local_day ms off) as HD by (unfold t_days, local_day; now rewrite HL).
  unfold t_year, t_month, t_day, t_weekday, t_yearday, t_isoweek, t_hour, t_minute, t_second, t_sod,
    t_nanosecond, hour_of, minute_of, second_of, millisecond_of.
  rewrite HD, HL.
  destruct (civil_of_days (local_day ms off)) as [[y m] d].
  repeat split; try reflexivity.
  - generalize (local_seconds ms off). intros L. lia.
  - generalize (local_seconds ms off). intros L. lia.
  - subst t. cbn [instant_at time_in nsec]. exact Fn.
Qed.
Print Assumptions fields_of_instant.
Example fields_of_instant_ex :
  let t := instant_at (-1) (-27000) "-0730" in   (* 1 ms before the epoch, at -07:30 *)
  (t_year t, t_month t, t_day t, t_hour t, t_minute t, t_second t, t_nanosecond t)
  = (1969, 12, 31, 16, 29, 59, 999000000).
Proof. vm_compute. reflexivity. Qed.

Lemma decimal_not_name s : is_decimal_format s = true -> is_name_format s = false.
Proof.
  intros H. unfold is_name_format.
  destruct (seqb s "N") eqn:E1; [apply seqb_eq in E1; subst; discriminate|].
  destruct (seqb s "n") eqn:E2; [apply seqb_eq in E2; subst; discriminate|].
  destruct (seqb s "Nn") eqn:E3; [apply seqb_eq in E3; subst; discriminate|]. reflexivity.
Qed.

(* the integer each numeric component hands to formatInteger *)
Definition component_value (t : gotime) (c : Z) : Z :=
  if c =? cM then t_month t else if c =? cD then t_day t else if c =? cd then t_yearday t
  else if c =? cF then t_weekday t + 1 else if c =? cW then snd (t_isoweek t)
  else if c =? cH then t_hour t else if c =? ch then hour12_of (t_hour t)
  else if c =? cm then t_minute t else if c =? cs then t_second t else 0.

(** With a decimal presentation modifier, [M] [D] [d] [F] [W] [H] [h] [m] [s] print (through
    FormatNumber, plus the ordinal suffix for the 'o' modifier) the month, day, day of year,
    weekday number (Sunday = 1), ISO week, hour, 12-hour clock value, minute, second; since the
    repair of formatIntegerComponent the digits are zero-padded up to the minimum width
    ([pad_left_zeros]); the maximum width is not consulted for these components. *)
Theorem component_decimal fi t c mk :
  In c [cM; cD; cd; cF; cW; cH; ch; cm; cs] -> is_decimal_format (mk_format mk) = true ->
  expand_date_component fi t c mk = format_integer_component fi (component_value t c) mk.
Proof.
  intros Hc Hd. pose proof (decimal_not_name _ Hd) as Hn.
  cbn [In] in Hc.
  repeat (destruct Hc as [<- | Hc];
          [unfold expand_date_component, component_value;
           repeat match goal with |- context [?a =? ?b] =>
             let v := eval vm_compute in (a =? b) in
             match v with true => change (a =? b) with true | false => change (a =? b) with false end
           end; cbv iota;
           unfold format_month, format_decimal_field, format_day_of_week, format_hour;
           rewrite ?Hn, ?Hd; reflexivity|]).
  destruct Hc.
Qed.
Print Assumptions component_decimal.

(** [Y]: the year, truncated (Go's %) to the last maxWidth digits, or — without a maximum
    width — to as many digits as the format has digit signs when there are at least two. *)
Theorem component_year fi t mk : is_decimal_format (mk_format mk) = true ->
  let size := if mk_maxw mk <=? 0
              then (if 2 <=? count_digits_hash (mk_format mk) then count_digits_hash (mk_format mk)
                    else mk_maxw mk)
              else mk_maxw mk in
  expand_date_component fi t cY mk =
  if 0 <? size then format_integer_component fi (last_digits (t_year t) size) mk
  else format_integer_component fi (t_year t) mk.
Proof.
  intros Hd. unfold expand_date_component. change (cY =? cY) with true. cbv iota.
  unfold format_year. rewrite Hd. reflexivity.
Qed.

(** A maximum width of 19 or more leaves the year alone.  (HISTORICAL: before the repair the
    modulus was an int64-wrapped 10^N: garbage for N = 19..63, and 0 from N = 64 on, where
    $fromMillis(0, "[Y,*-64]") panicked with "integer divide by zero".) *)
Theorem year_wide_width fi t mk : is_decimal_format (mk_format mk) = true -> 19 <= mk_maxw mk ->
  expand_date_component fi t cY mk = format_integer_component fi (t_year t) mk.
Proof.
  intros Hd Hw. rewrite component_year by exact Hd. cbv zeta.
  destruct (mk_maxw mk <=? 0) eqn:E; [lia|].
  destruct (0 <? mk_maxw mk) eqn:E2; [|lia].
  unfold last_digits. rewrite E. destruct (19 <=? mk_maxw mk) eqn:E3; [reflexivity|lia].
Qed.
Example year_wide_width_ex :
  from_millis fi_example 0 (Some "[Y,*-64]"%string) None = LOk "1970"%string /\
  from_millis fi_example 0 (Some "[Y01]|[D01,3]|[m01,2-4]"%string) None = LOk "70|001|00"%string.
Proof. vm_compute. split; reflexivity. Qed.

(* English names (language.go): the first name of every month / day is the full English name *)
Example english_names :
  map (hd ""%string) (tl en_months) =
    ["January"; "February"; "March"; "April"; "May"; "June"; "July"; "August"; "September";
     "October"; "November"; "December"]%string /\
  map (hd ""%string) en_days =
    ["Sunday"; "Monday"; "Tuesday"; "Wednesday"; "Thursday"; "Friday"; "Saturday"]%string.
Proof. split; reflexivity. Qed.

(* ------------------------------------------------------------------------------------------ *)
(** * 6b. The same law through the explicit picture
        [Y0001]-[M01]-[D01]T[H01]:[m01]:[s01].[f001][Z01:01] *)

Definition explicit_picture : string := "[Y0001]-[M01]-[D01]T[H01]:[m01]:[s01].[f001][Z01:01]".

(* zone text of [Z01:01] (no 't' modifier): always numeric *)
Definition ztext_num (h m : Z) : string :=
  if (h <? 0) || (m <? 0) then String "-" (dig2 (Z.abs h) ++ String ":" (dig2 (Z.abs m)))
  else String "+" (dig2 (Z.abs h) ++ String ":" (dig2 (Z.abs m))).

(* seconds followed by ".ddd" when the layout continues with ".000": left to the next element *)
Lemma pe_zerosecond_layoutfrac n k rest p : 0 <= n <= 59 -> 0 <= k <= 999 ->
  parse_elem StdZeroSecond ".000Z07:00" (dig2 n ++ String "." (dig3 k ++ rest)) p
  = Some (set_sec n p, String "." (dig3 k ++ rest)).
Proof.
  intros Hn Hk. unfold parse_elem. rewrite getnum_dig2 by lia.
  destruct ((n <? 0) || (60 <=? n)) eqn:E; [lia|]. cbv zeta.
  assert ((2 <=? slen (String "." (dig3 k ++ rest)))%nat = true) as -> by reflexivity.
  change (byte_at (String "." (dig3 k ++ rest)) 0) with 46.
  change ((46 =? 46) || (46 =? 44)) with true.
  assert (is_digit_at (String "." (dig3 k ++ rest)) 1 = true) as ->
    by (unfold is_digit_at, byte_at, dig3; cbn [append String.get]; apply is_digit_dch; lia).
  cbn [andb].
  change (next_std_chunk ".000Z07:00") with (""%string, StdFracSecond0 3, "Z07:00"%string).
  reflexivity.
Qed.

Lemma pe_frac0_3 suf k rest p : 0 <= k <= 999 ->
  parse_elem (StdFracSecond0 3) suf (String "." (dig3 k ++ rest)) p
  = Some (set_nsec (k * 1000000) p, rest).
Proof.
  intros Hk. unfold parse_elem. change (Z.to_nat (1 + 3)) with 4%nat.
  assert ((slen (String "." (dig3 k ++ rest)) <? 4)%nat = false) as -> by reflexivity.
  unfold parse_nanoseconds.
  change (byte_at (String "." (dig3 k ++ rest)) 0) with 46.
  change (negb ((46 =? 46) || (46 =? 44))) with false. cbv iota.
  change (10 <? 4)%nat with false. cbv iota.
  assert (sslice 1 4 (String "." (dig3 k ++ rest)) = dig3 k) as -> by reflexivity.
  rewrite time_atoi_dig3 by exact Hk.
  destruct (k <? 0) eqn:E2; [lia|].
  assert (sdrop 4 (String "." (dig3 k ++ rest)) = rest) as -> by reflexivity.
  change (10 ^ Z.of_nat (10 - 4)) with 1000000. reflexivity.
Qed.

Lemma parse_explicit_text y mo d H mi s k h m :
  0 <= y <= 9999 -> 1 <= mo <= 12 -> 1 <= d <= days_in_month y mo -> 0 <= H <= 23 ->
  0 <= mi <= 59 -> 0 <= s <= 59 -> 0 <= k <= 999 -> -24 <= h <= 24 -> -59 <= m <= 59 ->
  exists t',
    go_time_parse "2006-01-02T15:04:05.000Z07:00"
      (dig4 y ++ "-" ++ dig2 mo ++ "-" ++ dig2 d ++ "T" ++ dig2 H ++ ":" ++ dig2 mi ++ ":" ++
       dig2 s ++ "." ++ dig3 k ++ ztext_num h m) = LOk t' /\
    unix_sec t' = days_of_civil y mo d * 86400 + H * 3600 + mi * 60 + s - zoff_of h m /\
    nsec t' = k * 1000000.
Proof.
  intros Hy Hmo Hd HH Hmi Hs Hk Hh Hm.
  assert (d <= 31) as Hd31.
  { destruct Hd as [_ Hd]. unfold days_in_month in Hd. destruct (mo =? 2); [destruct (is_leap y); lia|].
    destruct ((mo =? 4) || (mo =? 6) || (mo =? 9) || (mo =? 11)); lia. }
  unfold go_time_parse.
  change (S (slen "2006-01-02T15:04:05.000Z07:00")) with 30%nat.
  pl_step. rewrite pe_longyear by lia. cbv iota beta.
  pl_step. rewrite pe_zeromonth by lia. cbv iota beta.
  pl_step. rewrite pe_zeroday by lia. cbv iota beta.
  pl_step. rewrite pe_hour by lia. cbv iota beta.
  pl_step. rewrite pe_zerominute by lia. cbv iota beta.
  pl_step. rewrite pe_zerosecond_layoutfrac by lia. cbv iota beta.
  pl_step. rewrite pe_frac0_3 by lia. cbv iota beta.
  pl_step.
  unfold ztext_num, zoff_of.
  destruct ((h <? 0) || (m <? 0)) eqn:Eh.
  + rewrite (pe_zone_num "-" (Z.abs h) (Z.abs m)) by (auto; lia). cbv iota beta. pl_step. cbn [lbind].
    change (Ascii.eqb "-" "-") with true. cbv iota.
    match goal with |- context [set_zoff ?z _] => remember z as zz eqn:Ezz end.
    unfold parse_finish. cbn.
    replace (mo <? 0) with false by lia. replace (d <? 0) with false by lia. cbv iota.
    replace ((d <? 1) || (days_in_month y mo <? d)) with false by lia.
    replace (zz =? -1) with false by lia. cbn [negb].
    eexists; split; [reflexivity|]. cbn [unix_sec nsec]. split; [lia|reflexivity].
  + rewrite (pe_zone_num "+" (Z.abs h) (Z.abs m)) by (auto; lia). cbv iota beta. pl_step. cbn [lbind].
    change (Ascii.eqb "+" "-") with false. cbv iota.
    match goal with |- context [set_zoff ?z _] => remember z as zz eqn:Ezz end.
    unfold parse_finish. cbn.
    replace (mo <? 0) with false by lia. replace (d <? 0) with false by lia. cbv iota.
    replace ((d <? 1) || (days_in_month y mo <? d)) with false by lia.
    replace (zz =? -1) with false by lia. cbn [negb].
    eexists; split; [reflexivity|]. cbn [unix_sec nsec]. split; [lia|reflexivity].
Qed.

Section InverseLawExplicit.

Variable fi : Z -> string -> lres string.
Hypothesis fi_4 : forall n, 0 <= n <= 9999 -> fi n "0001" = LOk (dig4 n).
Hypothesis fi_2 : forall n, 0 <= n <= 99 -> fi n "01" = LOk (dig2 n).

Lemma evm_Y0001 t : 0 <= t_year t <= 9999 ->
  expand_variable_marker fi t "Y0001" = LOk (dig4 (t_year t)).
Proof.
  intros Hy. unfold expand_variable_marker.
  change (parse_variable_marker "Y0001") with
    (@LOk (Z * marker) (cY, {| mk_format := "0001"; mk_modifier := ModNone; mk_minw := 0; mk_maxw := 0 |})).
  cbn [lbind mk_format]. change (seqb "0001" "") with false. cbv iota.
  rewrite component_year by reflexivity. cbv zeta. cbn [mk_maxw mk_format].
  change (count_digits_hash "0001") with 4.
  change (0 <=? 0) with true. change (2 <=? 4) with true. cbv iota.
  change (0 <? 4) with true. cbv iota.
  change (last_digits (t_year t) 4) with (Z.rem (t_year t) 10000).
  replace (Z.rem (t_year t) 10000) with (t_year t) by lia.
  unfold format_integer_component. cbn [mk_format mk_modifier mk_minw].
  rewrite fi_4 by exact Hy. cbn [lbind]. rewrite pad_left_zeros_0. reflexivity.
Qed.

Lemma evm_Znum t name h m :
  get_timezone_info t = (name, h, m) -> -99 <= h <= 99 -> -99 <= m <= 99 ->
  expand_variable_marker fi t "Z01:01" = LOk (ztext_num h m).
Proof.
  intros Hi Hh Hm. unfold expand_variable_marker.
  change (parse_variable_marker "Z01:01") with
    (@LOk (Z * marker) (cZ, {| mk_format := "01:01"; mk_modifier := ModNone; mk_minw := 0; mk_maxw := 0 |})).
  cbn [lbind mk_format]. change (seqb "01:01" "") with false. cbv iota.
  unfold expand_date_component.
  repeat match goal with |- context [cZ =? ?b] =>
    let v := eval vm_compute in (cZ =? b) in change (cZ =? b) with v end.
  cbv iota. unfold format_timezone. rewrite Hi. cbn [mk_format mk_modifier mk_minw].
  change (get_timezone_style "01:01") with (TzSplit "01" "01" ":").
  cbn [is_traditional andb]. unfold ztext_num, format_timezone_split, timezone_sign.
  rewrite (fi_2 (Z.abs m)), (fi_2 (Z.abs h)) by lia. cbn [lbind lmap andb]. unfold pad_right.
  change (0 <? 0) with false. cbv iota.
  destruct ((h <? 0) || (m <? 0)); reflexivity.
Qed.

Ltac ft_one' :=
  rewrite ft_loop_cons;
  lazymatch goal with
  | |- context [format_time_step _ _ _ _ (_, 91)] =>
      rewrite ft_step_open;
      match goal with |- context [slice_checked ?p ?a ?b] =>
        let v := eval vm_compute in (slice_checked p a b) in change (slice_checked p a b) with v end;
      cbn [lbind]
  | |- context [format_time_step _ _ _ _ (_, 93)] =>
      rewrite ft_step_close by reflexivity;
      match goal with |- context [slice_checked ?p ?a ?b] =>
        let v := eval vm_compute in (slice_checked p a b) in change (slice_checked p a b) with v end;
      cbn [lbind]
  | |- _ => rewrite ft_step_plain by reflexivity; cbn [lbind]
  end.

Lemma format_time_explicit t name h m :
  0 <= t_year t <= 9999 ->
  get_timezone_info t = (name, h, m) -> -99 <= h <= 99 -> -99 <= m <= 99 ->
  format_time fi t explicit_picture =
  LOk (dig4 (t_year t) ++ "-" ++ dig2 (t_month t) ++ "-" ++ dig2 (t_day t) ++ "T" ++
       dig2 (t_hour t) ++ ":" ++ dig2 (t_minute t) ++ ":" ++ dig2 (t_second t) ++ "." ++
       format_nano (t_nanosecond t) 3 ++ ztext_num h m)%string.
Proof.
  intros Hy Hi Hh Hm.
  destruct (t_fields_range t) as (RM & RD & RH & Rm & Rs).
  pose proof (evm_Y0001 t Hy) as EY.
  pose proof (evm_two fi fi_2 t "M01" cM (t_month t) eq_refl (edc_M fi t) ltac:(lia)) as EM.
  pose proof (evm_two fi fi_2 t "D01" cD (t_day t) eq_refl (edc_D fi t) ltac:(lia)) as ED.
  pose proof (evm_two fi fi_2 t "H01" cH (t_hour t) eq_refl (edc_H fi t) ltac:(lia)) as EH.
  pose proof (evm_two fi fi_2 t "m01" cm (t_minute t) eq_refl (edc_m fi t) ltac:(lia)) as Em.
  pose proof (evm_two fi fi_2 t "s01" cs (t_second t) eq_refl (edc_s fi t) ltac:(lia)) as Es.
  pose proof (evm_f001 fi t) as Ef.
  pose proof (evm_Znum t name h m Hi Hh Hm) as EZ.
  unfold format_time, explicit_picture.
  let l := eval vm_compute in (runes_pos "[Y0001]-[M01]-[D01]T[H01]:[m01]:[s01].[f001][Z01:01]") in
  change (runes_pos "[Y0001]-[M01]-[D01]T[H01]:[m01]:[s01].[f001][Z01:01]") with l.
  repeat (ft_one'; try first [rewrite EY | rewrite EM | rewrite ED | rewrite EH | rewrite Em
                             | rewrite Es | rewrite Ef | rewrite EZ]; cbn [lbind]).
  cbn [format_time_loop lbind fs_in_marker fs_expanded negb fs_result fs_start].
  change (sdrop 53 "[Y0001]-[M01]-[D01]T[H01]:[m01]:[s01].[f001][Z01:01]") with ""%string.
  f_equal. cbn [append]. rewrite !sapp_assoc, sapp_nil_r. cbn [append]. reflexivity.
Qed.

Lemma ref_layout_explicit :
  format_time fi ref_time explicit_picture = LOk "2006-01-02T15:04:05.000-07:00"%string.
Proof.
  rewrite (format_time_explicit ref_time "MST" (-7) 0); [vm_compute; reflexivity| |reflexivity|lia|lia].
  vm_compute. split; discriminate.
Qed.

(** PARTIAL: the inverse law through the explicit picture: every instant of the local years
    0..9999 ([Y0001] pads the year) and every valid time zone, or none.  Other pictures "built
    from" these components (without [f001], date-only, [Z0101]) are validated by vectors only. *)
Theorem to_millis_from_millis_explicit_partial : forall ms tz off,
  (tz = None /\ off = 0) \/ (exists s, tz = Some s /\ tz_denotes s off) ->
  0 <= local_year ms off <= 9999 ->
  exists text, from_millis fi ms (Some explicit_picture) tz = LOk text /\
               to_millis fi text (Some explicit_picture) tz = LOk ms.
Proof.
  intros ms tz off Htz0 Hyear.
  assert (off mod 60 = 0 /\ -90000 < off < 90000) as [Hmin Hrange].
  { destruct Htz0 as [[_ ->] | (s & _ & Hd)]; [split; [reflexivity|lia]|].
    apply (proj1 (tz_denotes_range s off Hd)). }
  assert ((tz = None /\ off = 0) \/
          (exists s, tz = Some s /\ s <> EmptyString /\ parse_time_zone s = LOk (off, s))) as Htz.
  { destruct Htz0 as [H | (s & -> & Hd)]; [left; exact H|].
    right. exists s. split; [reflexivity|]. split; [apply (proj2 (tz_denotes_range s off Hd))|].
    apply parse_time_zone_spec. exact Hd. }
  pose proof (local_year_ms_bounds ms off Hyear Hrange) as Hms.
  destruct (ms_to_time_fields ms) as (Fs & Fn & Fo & Fz).
  assert (exists t, unix_sec t = ms / 1000 /\ nsec t = (ms mod 1000) * 1000000 /\ offset t = off /\
                    from_millis fi ms (Some explicit_picture) tz = format_time fi t explicit_picture)
    as (t & Ts & Tn & To & Hfrom).
  { destruct Htz as [[-> ->] | (s & -> & Hne & Hp)].
    - exists (ms_to_time ms). repeat split; auto.
    - exists (time_in (ms_to_time ms) off s). cbn [time_in unix_sec nsec offset]. repeat split; auto.
      unfold from_millis. cbn [opt_string].
      assert (seqb s "" = false) as -> by (destruct s; [congruence|reflexivity]).
      rewrite Hp. reflexivity. }
  set (h := Z.quot off 3600) in *. set (m := Z.quot (Z.rem off 3600) 60) in *.
  assert (get_timezone_info t = (zname t, h, m)) as Hi by (unfold get_timezone_info; now rewrite To).
  assert (-24 <= h <= 24) as Hh by (subst h; lia).
  assert (-59 <= m <= 59) as Hm by (subst m; lia).
  assert (t_year t = local_year ms off) as Hty
    by (unfold t_year, local_year, t_days, t_local_sec; now rewrite Ts, To).
  rewrite Hfrom, (format_time_explicit t (zname t) h m) by (try rewrite Hty; auto; lia).
  eexists; split; [reflexivity|].
  unfold to_millis. cbn [opt_string]. change (seqb explicit_picture "") with false. cbv iota.
  cbn [to_millis_loop]. unfold parse_time at 1.
  rewrite ref_layout_explicit.
  change (replace_minus7 "2006-01-02T15:04:05.000-07:00") with "2006-01-02T15:04:05.000Z07:00"%string.
  unfold t_nanosecond. rewrite Tn, format_nano_ms by lia.
  destruct (t_fields_range t) as (RM & RD & RH & Rm & Rs).
  pose proof (civil_bijection (t_days t)) as Hb.
  assert (t_year t = let '(y, _, _) := civil_of_days (t_days t) in y) as Ey by reflexivity.
  assert (t_month t = let '(_, mo, _) := civil_of_days (t_days t) in mo) as Emo by reflexivity.
  assert (t_day t = let '(_, _, d) := civil_of_days (t_days t) in d) as Ed by reflexivity.
  destruct (civil_of_days (t_days t)) as [[y mo] d]. destruct Hb as (Hdays & Hmo & Hd).
  rewrite Ey, Emo, Ed in *.
  destruct (parse_explicit_text y mo d (t_hour t) (t_minute t) (t_second t) (ms mod 1000) h m)
    as (t' & Hparse & Hu & Hn); try lia.
  rewrite Hparse. f_equal.
  unfold time_to_ms. rewrite wrap64_add_l, Hu, Hn, Hdays.
  assert (zoff_of h m = off) as Hz
    by (unfold zoff_of; subst h m;
        destruct ((Z.quot off 3600 <? 0) || (Z.quot (Z.rem off 3600) 60 <? 0)) eqn:E; lia).
  rewrite Hz.
  assert (t_days t * 86400 + t_hour t * 3600 + t_minute t * 60 + t_second t = ms / 1000 + off) as Hloc.
  { unfold t_days, t_hour, t_minute, t_second, t_sod, t_local_sec. rewrite Ts, To.
    generalize (ms / 1000 + off). intros L. lia. }
  rewrite Hloc.
  replace ((ms / 1000 + off - off) * 1000 + ms mod 1000 * 1000000 / 1000000) with ms by lia.
  apply wrap64_id. unfold two63. lia.
Qed.
End InverseLawExplicit.
Print Assumptions to_millis_from_millis_explicit_partial.

Example inverse_law_explicit_ex :
  from_millis fi_example (-1) (Some explicit_picture) (Some "-0730"%string)
    = LOk "1969-12-31T16:29:59.999-07:30"%string /\
  to_millis fi_example "1969-12-31T16:29:59.999-07:30" (Some explicit_picture) None = LOk (-1).
Proof. vm_compute. split; reflexivity. Qed.
