(* Proofs/C12Proofs.v — property C12: lexical scoping, closures, signatures, partial
   application and chaining.  Theorems about Model/Value.v (frames), Model/Eval.v
   (lambda_args, valid_arg_type, partial_args, bind_params, the NBlock / NAssignment / NVariable /
   NLambda / NPartial / NCall / NApply cases of eval and the CLambda / CPartial / CChain cases of
   call) against the declarative definitions of Spec/C12.v. *)
From Coq Require Import Lia.
From JV Require Import Model.Value Model.Eval Proofs.MonadFacts Spec.C12.
Local Open Scope nat_scope.
Local Open Scope list_scope.

(* ================================================================================== *)
(** * 1. Signatures: [valid_arg_type] and [lambda_args] *)

(** ** the type table, per kind of value (any positive fuel) *)
Lemma valid_arg_type_num f x p :
  valid_arg_type (S f) (VNum x) p = has_bit p PT_any || (has_bit p PT_json || has_bit p PT_number).
Proof. destruct p as [t o s]. cbn. unfold has_bit. cbn. destruct (negb (N.land t PT_any =? 0)%N); reflexivity. Qed.

Lemma valid_arg_type_str f x p :
  valid_arg_type (S f) (VStr x) p = has_bit p PT_any || (has_bit p PT_json || has_bit p PT_string).
Proof. destruct p as [t o s]. cbn. unfold has_bit. cbn. destruct (negb (N.land t PT_any =? 0)%N); reflexivity. Qed.

Lemma valid_arg_type_bool f x p :
  valid_arg_type (S f) (VBool x) p = has_bit p PT_any || (has_bit p PT_json || has_bit p PT_bool).
Proof. destruct p as [t o s]. cbn. unfold has_bit. cbn. destruct (negb (N.land t PT_any =? 0)%N); reflexivity. Qed.

Lemma valid_arg_type_obj f x p :
  valid_arg_type (S f) (VObj x) p = has_bit p PT_any || (has_bit p PT_json || has_bit p PT_object).
Proof. destruct p as [t o s]. cbn. unfold has_bit. cbn. destruct (negb (N.land t PT_any =? 0)%N); reflexivity. Qed.

Lemma valid_arg_type_fun f x p :
  valid_arg_type (S f) (VFun x) p = has_bit p PT_any || has_bit p PT_func.
Proof. destruct p as [t o s]. cbn. unfold has_bit. cbn. destruct (negb (N.land t PT_any =? 0)%N); reflexivity. Qed.

(** null is accepted by x only *)
Lemma valid_arg_type_null f p : valid_arg_type (S f) VNull p = has_bit p PT_any.
Proof. destruct p as [t o s]. cbn. unfold has_bit. cbn. destruct (negb (N.land t PT_any =? 0)%N); reflexivity. Qed.

(** arrays: x and j accept any array, a accepts it when every member has the subtype (if any) *)
Lemma valid_arg_type_arr f l p :
  valid_arg_type (S f) (VArr l) p =
  has_bit p PT_any || (has_bit p PT_json ||
    (has_bit p PT_array &&
     match param_sub p with
     | Some (sp :: _) => forallb (fun x => valid_arg_type f x sp) l
     | _ => true
     end)).
Proof.
  destruct p as [t o s]. cbn. unfold has_bit. cbn.
  destruct (negb (N.land t PT_any =? 0)%N); [reflexivity|].
  destruct (negb (N.land t PT_json =? 0)%N); [reflexivity|].
  destruct (negb (N.land t PT_array =? 0)%N); [|reflexivity].
  destruct s as [[|sp r]|]; reflexivity.
Qed.

Lemma forallb_ext_In {A} (f g : A -> bool) l : (forall x, In x l -> f x = g x) -> forallb f l = forallb g l.
Proof.
  induction l as [|a r IH]; intro H; simpl; [reflexivity|].
  rewrite (H a (or_introl eq_refl)), IH; [reflexivity|]. intros x I. apply H. now right.
Qed.

(** with enough fuel for the nesting of array subtypes, the executable check is [has_type] *)
Theorem valid_arg_type_spec fuel : forall v p,
  param_depth p < fuel -> valid_arg_type fuel v p = has_type p v.
Proof.
  induction fuel as [|f IH]; intros v p D; [lia|].
  destruct p as [t o s]. cbn [valid_arg_type has_type].
  destruct (negb (N.land t PT_any =? 0)%N); [reflexivity|].
  destruct v; try reflexivity.
  destruct (negb (N.land t PT_json =? 0)%N); [reflexivity|].
  destruct (negb (N.land t PT_array =? 0)%N); [|reflexivity].
  destruct s as [[|sp r]|]; try reflexivity.
  apply forallb_ext_In. intros x _. apply IH. cbn in D. lia.
Qed.
