(* Proofs/C12Proofs.v — property C12: lexical scoping, closures, signatures, partial
   application and chaining.  Theorems about Model/Value.v (frames), Model/Eval.v
   (lambda_args, valid_arg_type, partial_args, bind_params, the NBlock / NAssignment / NVariable /
   NLambda / NPartial / NCall / NApply cases of eval and the CLambda / CPartial / CChain cases of
   call) against the declarative definitions of Spec/C12.v. *)
From Coq Require Import Lia.
From JV Require Import Model.Value Model.Eval Proofs.MonadFacts Proofs.C14Proofs Spec.C12.
Local Open Scope nat_scope.
Local Open Scope list_scope.

(* ================================================================================== *)
(** * 1. Signatures: [valid_arg_type] and [lambda_args] *)

(** ** the type table, per kind of value (any positive fuel) *)
Lemma valid_arg_type_num f x p :
  valid_arg_type (S f) (VNum x) p = has_bit p PT_any || (has_bit p PT_json || has_bit p PT_number).
Proof. destruct p as [t o s]. cbn. unfold has_bit. cbn. destruct (negb (N.land t PT_any =? 0)%N); reflexivity. Qed.

Lemma valid_arg_type_str f x p :
  valid_arg_type (S f) (VStr x) p = has_bit p PT_any || (has_bit p PT_json || has_bit p PT_string).
Proof. destruct p as [t o s]. cbn. unfold has_bit. cbn. destruct (negb (N.land t PT_any =? 0)%N); reflexivity. Qed.

Lemma valid_arg_type_bool f x p :
  valid_arg_type (S f) (VBool x) p = has_bit p PT_any || (has_bit p PT_json || has_bit p PT_bool).
Proof. destruct p as [t o s]. cbn. unfold has_bit. cbn. destruct (negb (N.land t PT_any =? 0)%N); reflexivity. Qed.

Lemma valid_arg_type_obj f x p :
  valid_arg_type (S f) (VObj x) p = has_bit p PT_any || (has_bit p PT_json || has_bit p PT_object).
Proof. destruct p as [t o s]. cbn. unfold has_bit. cbn. destruct (negb (N.land t PT_any =? 0)%N); reflexivity. Qed.

Lemma valid_arg_type_fun f x p :
  valid_arg_type (S f) (VFun x) p = has_bit p PT_any || has_bit p PT_func.
Proof. destruct p as [t o s]. cbn. unfold has_bit. cbn. destruct (negb (N.land t PT_any =? 0)%N); reflexivity. Qed.

(** null is accepted by x only *)
Lemma valid_arg_type_null f p : valid_arg_type (S f) VNull p = has_bit p PT_any.
Proof. destruct p as [t o s]. cbn. unfold has_bit. cbn. destruct (negb (N.land t PT_any =? 0)%N); reflexivity. Qed.

(** arrays: x and j accept any array, a accepts it when every member has the subtype (if any) *)
Lemma valid_arg_type_arr f l p :
  valid_arg_type (S f) (VArr l) p =
  has_bit p PT_any || (has_bit p PT_json ||
    (has_bit p PT_array &&
     match param_sub p with
     | Some (sp :: _) => forallb (fun x => valid_arg_type f x sp) l
     | _ => true
     end)).
Proof.
  destruct p as [t o s]. cbn. unfold has_bit. cbn.
  destruct (negb (N.land t PT_any =? 0)%N); [reflexivity|].
  destruct (negb (N.land t PT_json =? 0)%N); [reflexivity|].
  destruct (negb (N.land t PT_array =? 0)%N); [|reflexivity].
  destruct s as [[|sp r]|]; reflexivity.
Qed.

Lemma forallb_ext_In {A} (f g : A -> bool) l : (forall x, In x l -> f x = g x) -> forallb f l = forallb g l.
Proof.
  induction l as [|a r IH]; intro H; simpl; [reflexivity|].
  rewrite (H a (or_introl eq_refl)), IH; [reflexivity|]. intros x I. apply H. now right.
Qed.

(** with enough fuel for the nesting of array subtypes, the executable check is [has_type] *)
Theorem valid_arg_type_spec fuel : forall v p,
  param_depth p < fuel -> valid_arg_type fuel v p = has_type p v.
Proof.
  induction fuel as [|f IH]; intros v p D; [lia|].
  destruct p as [t o s]. cbn [valid_arg_type has_type].
  destruct (negb (N.land t PT_any =? 0)%N); [reflexivity|].
  destruct v; try reflexivity.
  destruct (negb (N.land t PT_json =? 0)%N); [reflexivity|].
  destruct (negb (N.land t PT_array =? 0)%N); [|reflexivity].
  destruct s as [[|sp r]|]; try reflexivity.
  apply forallb_ext_In. intros x _. apply IH. cbn in D. lia.
Qed.
(** ** optional padding *)
Lemma padded_iff params : forall l r, padded params l r <-> r = pad_lambda_optionals params l.
Proof.
  induction params as [|p ps IH]; intros l r; split.
  - intro H. inversion H; subst. now destruct r.
  - intros ->. destruct l; constructor.
  - intro H. inversion H as [|? ? ? ? ? HP|? ? ? HO HP|? ? HO]; subst; simpl.
    + f_equal. now apply IH.
    + rewrite HO. f_equal. now apply IH.
    + now rewrite HO.
  - intros ->. destruct l as [|a l]; simpl.
    + destruct (is_optional p) eqn:E; [apply padded_opt|apply padded_stop]; auto. now apply IH.
    + constructor. now apply IH.
Qed.

Lemma padded_fun params l r1 r2 : padded params l r1 -> padded params l r2 -> r1 = r2.
Proof. intros H1 H2. apply padded_iff in H1, H2. congruence. Qed.

(** ** the argument-count test *)
Lemma last_variadic_eq params :
  last_variadic params = match rev params with p :: _ => is_variadic p | [] => false end.
Proof. reflexivity. Qed.

Lemma count_test_spec params n :
  (n <? List.length params) || ((List.length params <? n) && negb (last_variadic params)) = false
  <-> count_fits params n.
Proof.
  unfold count_fits. rewrite orb_false_iff, andb_false_iff, negb_false_iff, !Nat.ltb_ge. tauto.
Qed.

(** ** the type-checking loop *)
Section ChkArgs.
  Variables (vfuel : nat) (params : list param) (fname : string).
  Fixpoint chk_args (l : list ovalue) (i : nat) : pure_res (list ovalue) :=
    match l with
    | [] => inl []
    | None :: r => match chk_args r (S i) with inl t => inl (None :: t) | inr e => inr e end
    | Some a :: r =>
        let p := nth i params (last params (Param 0 OptNone None)) in
        let a' := if N.eqb (param_typ p) PT_array then VArr (arrayify (Some a)) else a in
        if (match params with [] => false | _ => valid_arg_type vfuel a' p end)
        then match chk_args r (S i) with inl t => inl (Some a' :: t) | inr e => inr e end
        else inr (EArgType fname (S i))
    end.
End ChkArgs.

Lemma lambda_args_unfold vfuel params lctx fname argv :
  lambda_args vfuel params lctx fname argv =
  let args := pad_lambda_optionals params (subst_ctx params lctx argv) in
  if (List.length args <? List.length params) ||
     ((List.length params <? List.length args) && negb (last_variadic params))
  then inr (EArgCount fname)
  else match chk_args vfuel params fname args 0 with
       | inr e => inr e
       | inl checked => inl (collect params checked)
       end.
Proof.
  unfold lambda_args. cbv zeta. fold (first_contextable params). fold (subst_ctx params lctx argv).
  fold (last_variadic params).
  destruct (_ || _); [reflexivity|].
  change ((fix chk (l : list ovalue) (i : nat) {struct l} : pure_res (list ovalue) := _) ?a 0)
    with (chk_args vfuel params fname a 0).
  destruct (chk_args vfuel params fname _ 0) as [t|e]; [|reflexivity].
  unfold collect. destruct (last_variadic params); reflexivity.
Qed.

Lemma last_In {A} (l : list A) d : l <> [] -> In (last l d) l.
Proof.
  induction l as [|a r IH]; intro N; [contradiction|].
  destruct r as [|b r]; [now left|]. right. apply IH. discriminate.
Qed.

Lemma arg_param_In params i : params <> [] -> In (arg_param params i) params.
Proof.
  intro N. unfold arg_param. destruct (Nat.lt_ge_cases i (List.length params)) as [L|L].
  - now apply nth_In.
  - rewrite nth_overflow by assumption. now apply last_In.
Qed.

Lemma has_type_dflt v : has_type dflt_param v = false.
Proof. destruct v; reflexivity. Qed.

Definition fuel_ok (vfuel : nat) (params : list param) : Prop :=
  forall p, In p params -> param_depth p < vfuel.

Lemma check_eq vfuel params i a' :
  fuel_ok vfuel params ->
  (match params with [] => false | _ => valid_arg_type vfuel a' (arg_param params i) end) =
  has_type (arg_param params i) a'.
Proof.
  intro F. destruct params as [|p ps] eqn:E.
  - unfold arg_param. replace (nth i [] (last [] dflt_param)) with dflt_param by (destruct i; reflexivity).
    now rewrite has_type_dflt.
  - rewrite <- E in *. apply valid_arg_type_spec. apply F. apply arg_param_In. congruence.
Qed.

Lemma chk_args_some vfuel params fname a r i :
  chk_args vfuel params fname (Some a :: r) i =
  if (match params with [] => false | _ => valid_arg_type vfuel (coerce (arg_param params i) a) (arg_param params i) end)
  then match chk_args vfuel params fname r (S i) with
       | inl t => inl (Some (coerce (arg_param params i) a) :: t)
       | inr e => inr e
       end
  else inr (EArgType fname (S i)).
Proof. reflexivity. Qed.

Lemma chk_args_none vfuel params fname r i :
  chk_args vfuel params fname (None :: r) i =
  match chk_args vfuel params fname r (S i) with inl t => inl (None :: t) | inr e => inr e end.
Proof. reflexivity. Qed.

(** complete description of the loop: either all defined arguments are well typed and the result
    is the coerced list, or the error names the first ill-typed one (1-based) *)
Lemma chk_args_post vfuel params fname : fuel_ok vfuel params -> forall l i,
  match chk_args vfuel params fname l i with
  | inl t => typed_from params i l t
  | inr e =>
      exists j, e = EArgType fname (S (i + j)) /\
        (exists a, nth_error l j = Some (Some a) /\
                   has_type (arg_param params (i + j)) (coerce (arg_param params (i + j)) a) = false) /\
        forall j' a', j' < j -> nth_error l j' = Some (Some a') ->
                      has_type (arg_param params (i + j')) (coerce (arg_param params (i + j')) a') = true
  end.
Proof.
  intro F. induction l as [|[a|] r IH]; intro i.
  - constructor.
  - rewrite chk_args_some, (check_eq vfuel params i _ F).
    destruct (has_type (arg_param params i) (coerce (arg_param params i) a)) eqn:Ht.
    + specialize (IH (S i)). destruct (chk_args vfuel params fname r (S i)) as [t|e]; cbv beta iota.
      * now constructor.
      * destruct IH as (j & -> & (b & Hn & Hb) & Hlt). exists (S j).
        replace (i + S j) with (S i + j) by lia. split; [reflexivity|]. split; [eauto|].
        intros [|j'] a' L Hn'; simpl in Hn'.
        -- inversion Hn'; subst a'. now rewrite Nat.add_0_r.
        -- replace (i + S j') with (S i + j') by lia. apply Hlt; [lia|assumption].
    + cbv beta iota. exists 0. rewrite Nat.add_0_r. split; [reflexivity|]. split; [exists a; auto|]. intros; lia.
  - rewrite chk_args_none.
    specialize (IH (S i)). destruct (chk_args vfuel params fname r (S i)) as [t|e]; cbv beta iota.
    + now constructor.
    + destruct IH as (j & -> & (b & Hn & Hb) & Hlt). exists (S j).
      replace (i + S j) with (S i + j) by lia. split; [reflexivity|]. split; [eauto|].
      intros [|j'] a' L Hn'; simpl in Hn'; [discriminate|].
      replace (i + S j') with (S i + j') by lia. apply Hlt; [lia|assumption].
Qed.

Lemma typed_from_fun params i l t1 : typed_from params i l t1 -> forall t2, typed_from params i l t2 -> t1 = t2.
Proof.
  induction 1; intros t2 H2; inversion H2; subst; try reflexivity; f_equal; auto.
Qed.

Lemma typed_from_well params i l t : typed_from params i l t ->
  forall j a, nth_error l j = Some (Some a) ->
              has_type (arg_param params (i + j)) (coerce (arg_param params (i + j)) a) = true.
Proof.
  induction 1; intros j b Hn.
  - destruct j; discriminate.
  - destruct j; simpl in Hn; [discriminate|]. replace (i + S j) with (S i + j) by lia. eauto.
  - destruct j; simpl in Hn.
    + inversion Hn; subst. now rewrite Nat.add_0_r.
    + replace (i + S j) with (S i + j) by lia. eauto.
Qed.

Lemma ill_typed_at_fun params l j1 j2 : ill_typed_at params l j1 -> ill_typed_at params l j2 -> j1 = j2.
Proof.
  intros [(a1 & N1 & B1) L1] [(a2 & N2 & B2) L2].
  destruct (Nat.lt_trichotomy j1 j2) as [H|[H|H]]; [|assumption|].
  - rewrite (L2 _ _ H N1) in B1. discriminate.
  - rewrite (L1 _ _ H N2) in B2. discriminate.
Qed.

(** *** C12_signature *)
Section Signature.
  Variables (vfuel : nat) (params : list param) (ctx : ovalue) (name : string) (argv : list ovalue).
  Hypothesis Hfuel : fuel_ok vfuel params.

  Let args := pad_lambda_optionals params (subst_ctx params ctx argv).

  Lemma padded_args : padded params (subst_ctx params ctx argv) args.
  Proof. now apply padded_iff. Qed.

  (** a call fits its signature exactly when validation succeeds, and then the body sees [out] *)
  Theorem C12_signature out :
    lambda_args vfuel params ctx name argv = inl out <-> fits params ctx argv out.
  Proof.
    rewrite lambda_args_unfold. cbv zeta. fold args.
    pose proof (count_test_spec params (List.length args)) as CT.
    pose proof (chk_args_post vfuel params name Hfuel args 0) as CK.
    split.
    - destruct (_ || _); [discriminate|].
      destruct (chk_args vfuel params name args 0) as [t|e]; [|discriminate].
      intro H. inversion H; subst out. exists args, t.
      split; [apply padded_args|]. split; [now apply CT|]. split; [assumption|reflexivity].
    - intros (args' & checked & HP & HC & HT & ->).
      rewrite (padded_fun _ _ _ _ HP padded_args) in *.
      apply CT in HC. rewrite HC.
      destruct (chk_args vfuel params name args 0) as [t|e].
      + now rewrite (typed_from_fun _ _ _ _ CK _ HT).
      + exfalso. destruct CK as (j & _ & (a & Hn & Hb) & _).
        pose proof (typed_from_well _ _ _ _ HT j a Hn) as W. congruence.
  Qed.

  (** ArgCount exactly when the padded argument count does not fit *)
  Theorem C12_signature_count fn :
    lambda_args vfuel params ctx name argv = inr (EArgCount fn) <-> fn = name /\ count_misfit params ctx argv.
  Proof.
    rewrite lambda_args_unfold. cbv zeta. fold args.
    pose proof (count_test_spec params (List.length args)) as CT.
    pose proof (chk_args_post vfuel params name Hfuel args 0) as CK.
    split.
    - destruct (_ || _) eqn:E.
      + intro H. inversion H. split; [reflexivity|]. exists args. split; [apply padded_args|].
        intro C. apply CT in C. congruence.
      + destruct (chk_args vfuel params name args 0) as [t|e]; [discriminate|].
        destruct CK as (j & -> & _). discriminate.
    - intros [-> (args' & HP & HC)]. rewrite (padded_fun _ _ _ _ HP padded_args) in *.
      destruct (_ || _) eqn:E; [reflexivity|]. exfalso. apply HC, CT. reflexivity.
  Qed.

  (** ArgType i exactly when the count fits and i is the 1-based position of the first defined
      argument that does not have the type of its parameter *)
  Theorem C12_signature_type fn i :
    lambda_args vfuel params ctx name argv = inr (EArgType fn i) <-> fn = name /\ type_misfit params ctx argv i.
  Proof.
    rewrite lambda_args_unfold. cbv zeta. fold args.
    pose proof (count_test_spec params (List.length args)) as CT.
    pose proof (chk_args_post vfuel params name Hfuel args 0) as CK.
    split.
    - destruct (_ || _) eqn:E; [discriminate|].
      destruct (chk_args vfuel params name args 0) as [t|e]; [discriminate|].
      destruct CK as (j & -> & Hbad & Hlt). intro H. inversion H; subst fn i.
      split; [reflexivity|]. exists args, j. split; [apply padded_args|]. split; [now apply CT|].
      split; [|reflexivity]. split; assumption.
    - intros [-> (args' & j & HP & HC & HI & ->)]. rewrite (padded_fun _ _ _ _ HP padded_args) in *.
      apply CT in HC. rewrite HC.
      destruct (chk_args vfuel params name args 0) as [t|e].
      + exfalso. destruct HI as [(a & Hn & Hb) _].
        pose proof (typed_from_well _ _ _ _ CK j a Hn) as W. simpl in W. congruence.
      + destruct CK as (j2 & -> & Hbad & Hlt). simpl in *.
        assert (j2 = j) by (eapply ill_typed_at_fun; [split; eassumption|exact HI]). now subst.
  Qed.

  (** there is no other outcome *)
  Theorem C12_signature_total :
    (exists out, lambda_args vfuel params ctx name argv = inl out) \/
    lambda_args vfuel params ctx name argv = inr (EArgCount name) \/
    (exists i, lambda_args vfuel params ctx name argv = inr (EArgType name i)).
  Proof.
    rewrite lambda_args_unfold. cbv zeta. fold args.
    pose proof (chk_args_post vfuel params name Hfuel args 0) as CK.
    destruct (_ || _); [auto|].
    destruct (chk_args vfuel params name args 0) as [t|e]; [eauto|].
    destruct CK as (j & -> & _). eauto.
  Qed.
End Signature.

Print Assumptions valid_arg_type_spec.
Print Assumptions C12_signature.
Print Assumptions C12_signature_count.
Print Assumptions C12_signature_type.
Print Assumptions C12_signature_total.
(* ================================================================================== *)
(** * 2. Partial application: [partial_args] *)

(** the loop body of partialCallable.Call *)
Definition pa_step (evn : node -> M ovalue) (st : list ovalue * list ovalue) (a : node)
  : M (list ovalue * list ovalue) :=
  let '(acc, rest) := st in
  if is_placeholder a then
    match rest with
    | v :: r => ret (acc ++ [v], r)
    | [] => ret (acc ++ [None], [])
    end
  else v <- evn a ;; ret (acc ++ [v], rest).

Lemma bind_unfold {A B} (m : M A) (f : A -> M B) w :
  bind m f w = match m w with
               | Ok a w' => f a w' | Err e => Err e | Panic s => Panic s
               | OutOfFuel => OutOfFuel | Need q => Need q end.
Proof. reflexivity. Qed.

Lemma partial_args_unfold evn pargs argv w :
  partial_args evn pargs argv w =
  match foldM (pa_step evn) ([], argv) pargs w with
  | Ok st w' => Ok (fst st) w'
  | Err e => Err e
  | Panic s => Panic s
  | OutOfFuel => OutOfFuel
  | Need q => Need q
  end.
Proof.
  unfold partial_args. rewrite bind_unfold.
  change (foldM _ ([], argv) pargs w) with (foldM (pa_step evn) ([], argv) pargs w).
  destruct (foldM (pa_step evn) ([], argv) pargs w) as [[a b] w'|e|s| |q]; reflexivity.
Qed.

(** the fixed (non-placeholder) arguments of a partial application *)
Definition fixed_args (pargs : list node) : list node := filter (fun a => negb (is_placeholder a)) pargs.

(** placeholders filled from [argv], fixed arguments taken from [vs], both left to right *)
Fixpoint fill_with (pargs : list node) (argv vs : list ovalue) : list ovalue :=
  match pargs with
  | [] => []
  | a :: r =>
      if is_placeholder a then
        match argv with
        | v :: vr => v :: fill_with r vr vs
        | [] => None :: fill_with r [] vs
        end
      else match vs with
           | v :: vr => v :: fill_with r argv vr
           | [] => []
           end
  end.

Lemma fill_with_fill ev pargs : forall argv,
  fill_with pargs argv (map ev (fixed_args pargs)) = fill ev pargs argv.
Proof.
  induction pargs as [|a r IH]; intro argv; simpl; [reflexivity|].
  unfold fixed_args in *. simpl. destruct (is_placeholder a); simpl.
  - destruct argv; now rewrite IH.
  - now rewrite IH.
Qed.

Lemma fill_length ev pargs : forall argv, List.length (fill ev pargs argv) = List.length pargs.
Proof.
  induction pargs as [|a r IH]; intro argv; simpl; [reflexivity|].
  destruct (is_placeholder a); [destruct argv|]; simpl; now rewrite IH.
Qed.

Lemma foldM_pa_step evn pargs : forall acc rest w st w',
  foldM (pa_step evn) (acc, rest) pargs w = Ok st w' ->
  exists vs, steps evn (fixed_args pargs) w vs w' /\ fst st = acc ++ fill_with pargs rest vs.
Proof.
  induction pargs as [|a r IH]; intros acc rest w st w' H.
  - apply ret_ok in H as [<- <-]. exists []. split; [constructor|]. simpl. now rewrite app_nil_r.
  - rewrite foldM_cons in H. apply bind_ok in H as (st1 & w1 & H1 & H2).
    unfold pa_step in H1. unfold fixed_args. simpl. destruct (is_placeholder a) eqn:Ep; simpl.
    + destruct rest as [|v vr]; apply ret_ok in H1 as [<- <-];
        apply IH in H2 as (vs & Hs & ->); exists vs; (split; [assumption|]);
        now rewrite <- app_assoc.
    + apply bind_ok in H1 as (v & w2 & Hv & Hr). apply ret_ok in Hr as [<- <-].
      apply IH in H2 as (vs & Hs & ->). exists (v :: vs). split; [econstructor; eauto|].
      now rewrite <- app_assoc.
Qed.

(** C12_partial, general form: the fixed arguments are evaluated once each, left to right, by the
    definition-site evaluator; the placeholders receive the call's arguments in order *)
Theorem C12_partial_steps evn pargs argv w args w' :
  partial_args evn pargs argv w = Ok args w' ->
  exists vs, steps evn (fixed_args pargs) w vs w' /\ args = fill_with pargs argv vs.
Proof.
  rewrite partial_args_unfold.
  destruct (foldM (pa_step evn) ([], argv) pargs w) as [st w1|e|s| |q] eqn:E; try discriminate.
  intro H. inversion H; subst. apply foldM_pa_step in E as (vs & Hs & ->). eauto.
Qed.

(** C12_partial: with a pure definition-site evaluator the result is the declarative [fill] *)
Theorem C12_partial evn ev pargs argv w :
  pure_ev evn ev ->
  partial_args evn pargs argv w = Ok (fill ev pargs argv) w.
Proof.
  intro P. rewrite partial_args_unfold.
  assert (G : forall pargs acc rest, exists rest',
             foldM (pa_step evn) (acc, rest) pargs w = Ok (acc ++ fill ev pargs rest, rest') w).
  { clear pargs argv. induction pargs as [|a r IH]; intros acc rest.
    - exists rest. simpl. now rewrite app_nil_r.
    - rewrite foldM_cons, bind_unfold. unfold pa_step at 1. destruct (is_placeholder a) eqn:Ep.
      + destruct rest as [|v vr]; unfold ret at 1.
        * destruct (IH (acc ++ [None]) []) as (rest' & ->). exists rest'. cbn [fill]. now rewrite Ep, <- app_assoc.
        * destruct (IH (acc ++ [v]) vr) as (rest' & ->). exists rest'. cbn [fill]. now rewrite Ep, <- app_assoc.
      + rewrite bind_unfold, P. unfold ret at 1.
        destruct (IH (acc ++ [ev a]) rest) as (rest' & ->). exists rest'. cbn [fill]. now rewrite Ep, <- app_assoc. }
  destruct (G pargs [] argv) as (rest' & ->). reflexivity.
Qed.

Theorem partial_args_length evn pargs argv w args w' :
  partial_args evn pargs argv w = Ok args w' -> List.length args = List.length pargs.
Proof.
  rewrite partial_args_unfold.
  destruct (foldM (pa_step evn) ([], argv) pargs w) as [st w1|e|s| |q] eqn:E; try discriminate.
  intro H. inversion H; subst. clear H.
  assert (G : forall pargs acc rest w st w',
             foldM (pa_step evn) (acc, rest) pargs w = Ok st w' ->
             List.length (fst st) = List.length acc + List.length pargs).
  { clear. induction pargs as [|a r IH]; intros acc rest w st w' H.
    - apply ret_ok in H as [<- <-]. simpl. lia.
    - rewrite foldM_cons in H. apply bind_ok in H as (st1 & w1 & H1 & H2).
      unfold pa_step in H1. destruct (is_placeholder a).
      + destruct rest as [|v vr]; apply ret_ok in H1 as [<- <-]; apply IH in H2; rewrite H2, app_length; simpl; lia.
      + apply bind_ok in H1 as (v & w2 & Hv & Hr). apply ret_ok in Hr as [<- <-].
        apply IH in H2. rewrite H2, app_length. simpl. lia. }
  apply G in E. simpl in E. exact E.
Qed.

(** placeholders in order: the i-th placeholder receives the i-th call argument *)
Example fill_example :
  fill (fun _ => Some VNull) [NPlaceholder; NNull; NPlaceholder; NPlaceholder]
       [Some (VBool true); Some (VBool false)] =
  [Some (VBool true); Some VNull; Some (VBool false); None].
Proof. reflexivity. Qed.

Example fill_surplus :
  fill (fun _ => Some VNull) [NNull; NPlaceholder] [Some (VBool true); Some (VBool false)] =
  [Some VNull; Some (VBool true)].
Proof. reflexivity. Qed.

Print Assumptions C12_partial.
Print Assumptions C12_partial_steps.
Print Assumptions partial_args_length.
(* ================================================================================== *)
(** * 3. Frames: lexical scope chains *)

(** ** [list_update] *)
Lemma list_update_length {A} n (f : A -> A) l : List.length (list_update n f l) = List.length l.
Proof. revert n. induction l as [|a r IH]; intros [|n]; simpl; auto. Qed.

Lemma nth_error_list_update {A} n (f : A -> A) l i :
  nth_error (list_update n f l) i = if i =? n then option_map f (nth_error l i) else nth_error l i.
Proof.
  revert n i. induction l as [|a r IH]; intros [|n] [|i]; simpl; try reflexivity.
  - now destruct (i =? n).
  - apply IH.
Qed.

Lemma list_update_twice {A} n (f g : A -> A) l :
  list_update n f (list_update n g l) = list_update n (fun x => f (g x)) l.
Proof. revert n. induction l as [|a r IH]; intros [|n]; simpl; try reflexivity. now rewrite IH. Qed.

Lemma list_update_ext {A} n (f g : A -> A) l : (forall x, f x = g x) -> list_update n f l = list_update n g l.
Proof. intro H. revert n. induction l as [|a r IH]; intros [|n]; simpl; try reflexivity; now rewrite ?H, ?IH. Qed.

(** ** equations for the three frame operations *)
Lemma lookup_var_eq env x w : lookup_var env x w = Ok (visible w env x) w.
Proof. reflexivity. Qed.

Lemma new_frame_eq parent w :
  new_frame parent w = Ok (List.length (frames w)) (mkWorld (frames w ++ [mkFrame parent []])).
Proof. reflexivity. Qed.

Definition set_sym (x : string) (v : ovalue) (fr : frame) : frame :=
  mkFrame (fparent fr) (assoc_set x v (fsyms fr)).

Lemma bind_var_eq env x v w :
  bind_var env x v w = Ok tt (mkWorld (list_update env (set_sym x v) (frames w))).
Proof. reflexivity. Qed.

(** ** well-founded scope chains *)
Lemma wf_frames_new fs parent :
  wf_frames fs -> (forall p, parent = Some p -> p < List.length fs) ->
  wf_frames (fs ++ [mkFrame parent []]).
Proof.
  intros W HP i fr p Hn Hp. destruct (Nat.lt_ge_cases i (List.length fs)) as [L|L].
  - rewrite nth_error_app1 in Hn by assumption. eapply W; eauto.
  - rewrite nth_error_app2 in Hn by assumption.
    destruct (i - List.length fs) as [|d] eqn:Ed; simpl in Hn; [|destruct d; discriminate].
    inversion Hn; subst fr. simpl in Hp. apply HP in Hp. lia.
Qed.

Lemma wf_frames_update fs env (g : frame -> frame) :
  (forall fr, fparent (g fr) = fparent fr) -> wf_frames fs -> wf_frames (list_update env g fs).
Proof.
  intros Hg W i fr p Hn Hp. rewrite nth_error_list_update in Hn.
  destruct (i =? env).
  - destruct (nth_error fs i) as [fr0|] eqn:E; simpl in Hn; [|discriminate].
    inversion Hn; subst fr. rewrite Hg in Hp. eapply W; eauto.
  - eapply W; eauto.
Qed.

Lemma wf_world_nil : wf_world (mkWorld []).
Proof. intros i fr p H. destruct i; discriminate. Qed.

(** the scope chain of a frame only contains that frame and older ones *)
Lemma chain_le fs : wf_frames fs -> forall f env i, In i (chain f fs env) -> i <= env.
Proof.
  intro W. induction f as [|f IH]; intros env i H; simpl in H; [contradiction|].
  destruct (nth_error fs env) as [fr|] eqn:E; [|contradiction].
  destruct H as [<-|H]; [lia|].
  destruct (fparent fr) as [p|] eqn:Ep; [|contradiction].
  apply IH in H. pose proof (W _ _ _ E Ep). lia.
Qed.

(** any fuel above the frame index gives the same lookup *)
Lemma lookup_fuel_enough fs x : wf_frames fs -> forall f1 f2 env,
  env < f1 -> env < f2 -> lookup_fuel f1 fs env x = lookup_fuel f2 fs env x.
Proof.
  intro W. induction f1 as [|f1 IH]; intros f2 env L1 L2; [lia|].
  destruct f2 as [|f2]; [lia|]. simpl.
  destruct (nth_error fs env) as [fr|] eqn:E; [|reflexivity].
  destruct (assoc_get x (fsyms fr)); [reflexivity|].
  destruct (fparent fr) as [p|] eqn:Ep; [|reflexivity].
  pose proof (W _ _ _ E Ep). apply IH; lia.
Qed.

Lemma lookup_fuel_out fs x f env : List.length fs <= env -> lookup_fuel f fs env x = None.
Proof.
  intro L. destruct f; [reflexivity|]. simpl.
  assert (E : nth_error fs env = None) by (now apply nth_error_None). now rewrite E.
Qed.

Lemma visible_fuel w env x f : wf_world w -> env < f -> lookup_fuel f (frames w) env x = visible w env x.
Proof.
  intros W L. unfold visible. destruct (Nat.lt_ge_cases env (List.length (frames w))) as [H|H].
  - apply lookup_fuel_enough; [assumption|lia|lia].
  - now rewrite !lookup_fuel_out.
Qed.

(** one step of lookup: the frame's own binding, else the parent's view *)
Theorem visible_step w env x fr :
  wf_world w -> nth_error (frames w) env = Some fr ->
  visible w env x = match assoc_get x (fsyms fr) with
                    | Some v => Some v
                    | None => match fparent fr with Some p => visible w p x | None => None end
                    end.
Proof.
  intros W E. unfold visible at 1. simpl. rewrite E.
  destruct (assoc_get x (fsyms fr)); [reflexivity|].
  destruct (fparent fr) as [p|] eqn:Ep; [|reflexivity].
  pose proof (W _ _ _ E Ep). assert (env < List.length (frames w)) by (apply nth_error_Some; congruence).
  apply visible_fuel; [assumption|lia].
Qed.

(** ** [new_frame] *)
Lemma lookup_fuel_app fs l x : wf_frames fs -> forall f env,
  env < List.length fs -> lookup_fuel f (fs ++ l) env x = lookup_fuel f fs env x.
Proof.
  intro W. induction f as [|f IH]; intros env L; [reflexivity|]. simpl.
  rewrite nth_error_app1 by assumption.
  destruct (nth_error fs env) as [fr|] eqn:E; [|reflexivity].
  destruct (assoc_get x (fsyms fr)); [reflexivity|].
  destruct (fparent fr) as [p|] eqn:Ep; [|reflexivity].
  pose proof (W _ _ _ E Ep). apply IH. lia.
Qed.

(** a new frame gets a fresh id, leaves every existing frame and every existing view
    unchanged, and sees exactly what its parent sees *)
Theorem lookup_var_new_frame parent w id w' :
  wf_world w -> (forall p, parent = Some p -> p < List.length (frames w)) ->
  new_frame parent w = Ok id w' ->
  id = List.length (frames w) /\
  List.length (frames w') = S id /\
  wf_world w' /\
  (forall env, env < id -> nth_error (frames w') env = nth_error (frames w) env) /\
  nth_error (frames w') id = Some (mkFrame parent []) /\
  (forall env x, env < id -> visible w' env x = visible w env x) /\
  (forall x, visible w' id x = match parent with Some p => visible w p x | None => None end).
Proof.
  intros W HP H. rewrite new_frame_eq in H. inversion H; subst id w'. clear H. simpl.
  assert (W' : wf_world (mkWorld (frames w ++ [mkFrame parent []]))) by (now apply wf_frames_new).
  assert (Hold : forall env x, env < List.length (frames w) ->
            visible (mkWorld (frames w ++ [mkFrame parent []])) env x = visible w env x).
  { intros env x L. unfold visible at 1. cbn [frames]. rewrite lookup_fuel_app by assumption.
    apply visible_fuel; [assumption|]. rewrite app_length. simpl. lia. }
  split; [reflexivity|]. split; [rewrite app_length; simpl; lia|]. split; [assumption|].
  split; [intros env L; now apply nth_error_app1|].
  assert (Hn : nth_error (frames w ++ [mkFrame parent []]) (List.length (frames w)) = Some (mkFrame parent []))
    by (rewrite nth_error_app2, Nat.sub_diag by lia; reflexivity).
  split; [assumption|]. split; [assumption|].
  intro x. rewrite (visible_step _ _ x _ W' Hn). simpl.
  destruct parent as [p|]; [|reflexivity]. apply Hold. now apply HP.
Qed.

(** ** [bind_var] *)
Lemma bind_var_frames env x v w w' :
  bind_var env x v w = Ok tt w' -> frames w' = list_update env (set_sym x v) (frames w).
Proof. rewrite bind_var_eq. intro H. now inversion H. Qed.

Lemma bind_var_wf env x v w w' : wf_world w -> bind_var env x v w = Ok tt w' -> wf_world w'.
Proof.
  intros W H. apply bind_var_frames in H. unfold wf_world. rewrite H.
  apply wf_frames_update; [reflexivity|assumption].
Qed.

Lemma bind_var_length env x v w w' :
  bind_var env x v w = Ok tt w' -> List.length (frames w') = List.length (frames w).
Proof. intro H. apply bind_var_frames in H. rewrite H. apply list_update_length. Qed.

(** after binding, the frame sees the new value *)
Theorem bind_var_lookup_same env x v w w' :
  env < List.length (frames w) -> bind_var env x v w = Ok tt w' -> visible w' env x = Some v.
Proof.
  intros L H. apply bind_var_frames in H. unfold visible. rewrite H. simpl.
  rewrite nth_error_list_update, Nat.eqb_refl.
  destruct (nth_error (frames w) env) as [fr|] eqn:E.
  - simpl. now rewrite assoc_get_set, seqb_refl.
  - apply nth_error_None in E. lia.
Qed.

(** every other name is seen as before, from every frame *)
Theorem bind_var_other_name env x v w w' e y :
  y <> x -> bind_var env x v w = Ok tt w' -> visible w' e y = visible w e y.
Proof.
  intros N H. pose proof (bind_var_length _ _ _ _ _ H) as HL. apply bind_var_frames in H.
  unfold visible. rewrite HL, H. generalize (S (List.length (frames w))). intro f. revert e.
  induction f as [|f IH]; intro e; [reflexivity|]. simpl.
  rewrite nth_error_list_update. destruct (e =? env) eqn:Ee.
  - destruct (nth_error (frames w) e) as [fr|]; simpl; [|reflexivity].
    rewrite assoc_get_set, (proj2 (seqb_neq _ _) N).
    destruct (assoc_get y (fsyms fr)); [reflexivity|]. destruct (fparent fr); [apply IH|reflexivity].
  - destruct (nth_error (frames w) e) as [fr|]; [|reflexivity].
    destruct (assoc_get y (fsyms fr)); [reflexivity|]. destruct (fparent fr); [apply IH|reflexivity].
Qed.

(** a frame whose scope chain does not contain [env] sees everything as before *)
Lemma lookup_fuel_update_avoid fs env g y : forall f e,
  ~ In env (chain f fs e) ->
  lookup_fuel f (list_update env g fs) e y = lookup_fuel f fs e y.
Proof.
  induction f as [|f IH]; intros e NI; [reflexivity|]. simpl in *.
  rewrite nth_error_list_update.
  destruct (nth_error fs e) as [fr|] eqn:E.
  - destruct (e =? env) eqn:Ee.
    + apply Nat.eqb_eq in Ee. exfalso. apply NI. now left.
    + destruct (assoc_get y (fsyms fr)); [reflexivity|].
      destruct (fparent fr) as [p|]; [|reflexivity]. apply IH. intro I. apply NI. now right.
  - now destruct (e =? env).
Qed.

Theorem bind_var_other_chain env x v w w' e y :
  ~ In env (chain (S (List.length (frames w))) (frames w) e) ->
  bind_var env x v w = Ok tt w' -> visible w' e y = visible w e y.
Proof.
  intros NI H. pose proof (bind_var_length _ _ _ _ _ H) as HL. apply bind_var_frames in H.
  unfold visible. rewrite HL, H. now apply lookup_fuel_update_avoid.
Qed.

(** in particular a binding made in a frame is invisible from every older frame: a child
    never alters what its parent (or any enclosing scope) sees *)
Theorem bind_var_other_frame env x v w w' e y :
  wf_world w -> e < env -> bind_var env x v w = Ok tt w' -> visible w' e y = visible w e y.
Proof.
  intros W L H. eapply bind_var_other_chain; [|exact H].
  intro I. apply (chain_le _ W) in I. lia.
Qed.

(** only frame [env] changes *)
Theorem bind_var_frames_other env x v w w' e :
  e <> env -> bind_var env x v w = Ok tt w' -> nth_error (frames w') e = nth_error (frames w) e.
Proof.
  intros N H. apply bind_var_frames in H. rewrite H, nth_error_list_update.
  apply Nat.eqb_neq in N. now rewrite N.
Qed.

(** shadowing: a child frame binding x sees its own x and, for every other name, what the
    parent sees; the parent's view is untouched *)
Theorem lookup_shadow env x v w c w1 w2 :
  wf_world w -> env < List.length (frames w) ->
  new_frame (Some env) w = Ok c w1 -> bind_var c x v w1 = Ok tt w2 ->
  wf_world w2 /\
  visible w2 c x = Some v /\
  (forall y, y <> x -> visible w2 c y = visible w env y) /\
  (forall e y, e < c -> visible w2 e y = visible w e y).
Proof.
  intros W L Hn Hb.
  destruct (lookup_var_new_frame (Some env) w c w1 W) as (Hc & Hlen & W1 & _ & _ & Hold & Hnew); auto.
  { intros p E. inversion E. now subst. }
  split; [eapply bind_var_wf; eauto|]. split.
  - eapply bind_var_lookup_same; [|exact Hb]. lia.
  - split.
    + intros y N. rewrite (bind_var_other_name _ _ _ _ _ c y N Hb). apply Hnew.
    + intros e y Le. rewrite (bind_var_other_frame _ _ _ _ _ e y W1 Le Hb). now apply Hold.
Qed.

Print Assumptions lookup_var_new_frame.
Print Assumptions bind_var_lookup_same.
Print Assumptions bind_var_other_name.
Print Assumptions bind_var_other_frame.
Print Assumptions lookup_shadow.
(** ** [bind_params] *)
Lemma list_update_id {A} n (f : A -> A) l : (forall x, f x = x) -> list_update n f l = l.
Proof. intro H. revert n. induction l as [|a r IH]; intros [|n]; simpl; try reflexivity; now rewrite ?H, ?IH. Qed.

Definition set_params (names : list string) (vals : list ovalue) (fr : frame) : frame :=
  mkFrame (fparent fr) (set_all (param_vals names vals) (fsyms fr)).

(** the parameters are bound, in order, in frame [env] only: missing arguments to "no value",
    surplus arguments ignored *)
Theorem bind_params_spec env names : forall vals w,
  bind_params env names vals w =
  Ok tt (mkWorld (list_update env (set_params names vals) (frames w))).
Proof.
  induction names as [|x r IH]; intros vals w.
  - simpl. unfold ret. f_equal. rewrite list_update_id; [now destruct w|].
    intros [p s]. reflexivity.
  - cbn [bind_params].
    assert (E : forall v vr, bind (bind_var env x v) (fun _ => bind_params env r vr) w =
                             Ok tt (mkWorld (list_update env (set_params (x :: r) (v :: vr)) (frames w)))).
    { intros v vr. rewrite bind_unfold, bind_var_eq, IH. cbn [frames].
      rewrite list_update_twice. reflexivity. }
    destruct vals as [|v vr].
    + rewrite E. reflexivity.
    + apply E.
Qed.

Lemma param_vals_names names : forall vals, map fst (param_vals names vals) = names.
Proof. induction names as [|x r IH]; intros [|v vr]; simpl; now rewrite ?IH. Qed.

Lemma param_vals_nth names : forall vals i x,
  nth_error names i = Some x -> In (x, nth i vals None) (param_vals names vals).
Proof.
  induction names as [|y r IH]; intros vals i x H; [destruct i; discriminate|].
  destruct i as [|i]; simpl in H.
  - inversion H; subst. destruct vals; now left.
  - destruct vals as [|v vr]; simpl; right.
    + specialize (IH [] i x H). now destruct i.
    + now apply IH.
Qed.

Lemma assoc_get_set_all x bs : forall syms,
  assoc_get x (set_all bs syms) =
  match assoc_get x (rev bs) with Some v => Some v | None => assoc_get x syms end.
Proof.
  unfold set_all. induction bs as [|[k v] r IH]; intro syms; simpl; [reflexivity|].
  rewrite IH, assoc_get_app. destruct (assoc_get x (rev r)); [reflexivity|].
  simpl. rewrite assoc_get_set. destruct (seqb x k); reflexivity.
Qed.

(** after binding distinct parameter names, the i-th name sees the i-th argument ("no value"
    when the call supplied fewer) *)
Theorem bind_params_lookup env names vals w w' i x :
  NoDup names -> env < List.length (frames w) ->
  bind_params env names vals w = Ok tt w' ->
  nth_error names i = Some x ->
  visible w' env x = Some (nth i vals None).
Proof.
  intros ND L H Hn. rewrite bind_params_spec in H. inversion H; subst w'. clear H.
  unfold visible. cbn [frames]. rewrite list_update_length. simpl.
  rewrite nth_error_list_update, Nat.eqb_refl.
  destruct (nth_error (frames w) env) as [fr|] eqn:E; [|apply nth_error_None in E; lia].
  simpl. rewrite assoc_get_set_all.
  assert (G : assoc_get x (rev (param_vals names vals)) = Some (nth i vals None)).
  { apply In_assoc_get.
    - rewrite map_rev, param_vals_names. now apply NoDup_rev.
    - apply in_rev. rewrite rev_involutive. now apply param_vals_nth. }
  now rewrite G.
Qed.

(** names that are not parameters, and all other frames, are untouched *)
Theorem bind_params_other env names vals w w' :
  bind_params env names vals w = Ok tt w' ->
  List.length (frames w') = List.length (frames w) /\
  (forall e, e <> env -> nth_error (frames w') e = nth_error (frames w) e) /\
  (wf_world w -> wf_world w') /\
  (wf_world w -> forall e y, e < env -> visible w' e y = visible w e y).
Proof.
  intro H. rewrite bind_params_spec in H. inversion H; subst w'. clear H. cbn [frames].
  split; [apply list_update_length|]. split.
  - intros e N. rewrite nth_error_list_update. apply Nat.eqb_neq in N. now rewrite N.
  - split.
    + intro W. apply wf_frames_update; [reflexivity|assumption].
    + intros W e y L. unfold visible. cbn [frames]. rewrite list_update_length.
      apply lookup_fuel_update_avoid. intro I. apply (chain_le _ W) in I. lia.
Qed.

Example bind_params_example :
  param_vals ["a"; "b"; "c"] [Some VNull; Some (VBool true)] = [("a", Some VNull); ("b", Some (VBool true)); ("c", None)] /\
  param_vals ["a"] [Some VNull; Some (VBool true)] = [("a", Some VNull)].
Proof. split; reflexivity. Qed.

Print Assumptions bind_params_spec.
Print Assumptions bind_params_lookup.
(* ================================================================================== *)
(** * 4. The evaluator cases: blocks, assignment, variables, lambdas, calls, chaining *)

Definition is_call_node (n : node) : bool := match n with NCall _ _ => true | _ => false end.
Definition is_fun (v : ovalue) : bool := match v with Some (VFun _) => true | _ => false end.

Section EvalEquations.
  Variable fmt_num : f64 -> string.
  Variable regex_find : string -> string -> option (list (list (Z * Z))).
  Variable pow_fn : f64 -> f64 -> option f64.
  Variable xlib : string -> list carg -> option (lres ovalue).

  Notation eval' := (eval fmt_num regex_find pow_fn xlib).
  Notation eval_call' := (eval_call fmt_num regex_find pow_fn xlib).
  Notation call' := (call fmt_num regex_find pow_fn xlib).

  (** ** equations (each is the corresponding case of the evaluator, by computation) *)
  Lemma eval_block_eq f exprs input env :
    eval' (S f) (NBlock exprs) input env =
    (env' <- new_frame (Some env) ;; foldM (fun _ e => eval' f e input env') None exprs).
  Proof. reflexivity. Qed.

  Lemma eval_assignment_eq f x vn input env :
    eval' (S f) (NAssignment x vn) input env =
    (v <- eval' f vn input env ;; _ <- bind_var env x v ;; ret v).
  Proof. reflexivity. Qed.

  Lemma eval_variable_eq f x input env :
    eval' (S f) (NVariable x) input env =
    if seqb x "" then ret input
    else r <- lookup_var env x ;;
         ret (match r with
              | Some v => v
              | None => match builtin_sig x with Some _ => Some (VFun (CBuiltin x)) | None => None end
              end).
  Proof. reflexivity. Qed.

  (** a lambda captures the frame and the context item of its definition site *)
  Lemma eval_lambda_eq f ps body sh input env :
    eval' (S f) (NLambda ps body sh) input env = ret (Some (VFun (CLambda ps None body env input))).
  Proof. reflexivity. Qed.

  Lemma eval_typed_lambda_eq f ps body sh sg input env :
    eval' (S f) (NTypedLambda ps body sh sg) input env =
    ret (Some (VFun (CLambda ps (Some sg) body env input))).
  Proof. reflexivity. Qed.

  (** so does a partial application *)
  Lemma eval_partial_eq f fnode args input env :
    eval' (S f) (NPartial fnode args) input env =
    (v <- eval' f fnode input env ;;
     match v with
     | Some (VFun c) => ret (Some (VFun (CPartial (callable_name c ++ "_partial")%string c args env input)))
     | _ => fail (EEval ErrNonCallablePartial)
     end).
  Proof. reflexivity. Qed.

  Lemma eval_call_node_eq f fnode args input env :
    eval' (S f) (NCall fnode args) input env = eval_call' f fnode args input env.
  Proof. reflexivity. Qed.

  Lemma eval_call_eq f fnode args input env :
    eval_call' (S f) fnode args input env =
    (v <- eval' f fnode input env ;;
     match v with
     | Some (VFun c) =>
         argv <- mapM (fun a => eval' f a input env) args ;;
         call' f c (match fnode with NVariable name => Some name | _ => None end) input argv
     | _ => fail (EEval ErrNonCallable)
     end).
  Proof. reflexivity. Qed.

  (** ** C12_chain *)

  (** v ~> f(a) IS f(v, a) *)
  Theorem C12_chain_call f lhs fn args input env :
    eval' (S f) (NApply lhs (NCall fn args)) input env = eval_call' f fn (lhs :: args) input env.
  Proof. reflexivity. Qed.

  Corollary C12_chain_call_node f lhs fn args input env :
    eval' (S f) (NApply lhs (NCall fn args)) input env = eval' (S f) (NCall fn (lhs :: args)) input env.
  Proof. reflexivity. Qed.

  (** the other right-hand sides *)
  Lemma eval_apply_eq f lhs rhs input env :
    is_call_node rhs = false ->
    eval' (S f) (NApply lhs rhs) input env =
    (a <- eval' f lhs input env ;;
     b <- eval' f rhs input env ;;
     match b with
     | Some (VFun f2) =>
         match a with
         | Some (VFun f1) => ret (Some (VFun (CChain f1 f2)))
         | _ => call' f f2 None None [a]
         end
     | _ => fail (EEval ErrNonCallableApply)
     end).
  Proof. intro H. destruct rhs; try reflexivity. discriminate. Qed.

  (** f ~> g is the composition value *)
  Theorem C12_chain_compose f lhs rhs input env w f1 w1 f2 w2 :
    is_call_node rhs = false ->
    eval' f lhs input env w = Ok (Some (VFun f1)) w1 ->
    eval' f rhs input env w1 = Ok (Some (VFun f2)) w2 ->
    eval' (S f) (NApply lhs rhs) input env w = Ok (Some (VFun (CChain f1 f2))) w2.
  Proof.
    intros H E1 E2. rewrite eval_apply_eq by assumption.
    rewrite bind_unfold, E1, bind_unfold, E2. reflexivity.
  Qed.

  (** v ~> g for a non-function v is g(v) *)
  Theorem C12_chain_value f lhs rhs input env w a w1 f2 w2 :
    is_call_node rhs = false ->
    eval' f lhs input env w = Ok a w1 -> is_fun a = false ->
    eval' f rhs input env w1 = Ok (Some (VFun f2)) w2 ->
    eval' (S f) (NApply lhs rhs) input env w = call' f f2 None None [a] w2.
  Proof.
    intros H E1 Na E2. rewrite eval_apply_eq by assumption.
    rewrite bind_unfold, E1, bind_unfold, E2.
    destruct a as [[| | | | | |c]|]; try reflexivity. discriminate.
  Qed.

  (** a right-hand side that is not a function *)
  Theorem C12_chain_noncallable f lhs rhs input env w a w1 b w2 :
    is_call_node rhs = false ->
    eval' f lhs input env w = Ok a w1 ->
    eval' f rhs input env w1 = Ok b w2 -> is_fun b = false ->
    eval' (S f) (NApply lhs rhs) input env w = Err (EEval ErrNonCallableApply).
  Proof.
    intros H E1 E2 Nb. rewrite eval_apply_eq by assumption.
    rewrite bind_unfold, E1, bind_unfold, E2.
    destruct b as [[| | | | | |c]|]; try reflexivity. discriminate.
  Qed.

  (** (f ~> g)(x) = g(f(x)) *)
  Theorem C12_chain_apply f f1 f2 nm ctx argv :
    call' (S f) (CChain f1 f2) nm ctx argv =
    (r <- call' f f1 None None [match argv with x :: _ => x | [] => None end] ;;
     call' f f2 None None [r]).
  Proof. reflexivity. Qed.

  Corollary C12_chain_apply_one f f1 f2 nm ctx x w r w1 :
    call' f f1 None None [x] w = Ok r w1 ->
    call' (S f) (CChain f1 f2) nm ctx [x] w = call' f f2 None None [r] w1.
  Proof.
    intro E.
    change (call' (S f) (CChain f1 f2) nm ctx [x] w)
      with (bind (call' f f1 None None [x]) (fun r => call' f f2 None None [r]) w).
    rewrite bind_unfold, E. reflexivity.
  Qed.

  (** calling a non-function *)
  Theorem C12_noncallable f fnode args input env w v w1 :
    eval' f fnode input env w = Ok v w1 -> is_fun v = false ->
    eval_call' (S f) fnode args input env w = Err (EEval ErrNonCallable) /\
    eval' (S (S f)) (NCall fnode args) input env w = Err (EEval ErrNonCallable).
  Proof.
    intros E N. rewrite eval_call_node_eq, eval_call_eq, bind_unfold, E.
    destruct v as [[| | | | | |c]|]; try (split; reflexivity). discriminate.
  Qed.

  (** ** C12_closure *)

  (** the body of a lambda runs with the DEFINITION-site context item [lctx] (the call-site
      context [ctx] is not used) in a fresh child of the DEFINITION-site frame [lenv], the
      parameters bound there *)
  Theorem C12_closure f ps body lenv lctx nm ctx argv :
    call' (S f) (CLambda ps None body lenv lctx) nm ctx argv =
    (env' <- new_frame (Some lenv) ;;
     _ <- bind_params env' ps argv ;;
     eval' f body lctx env').
  Proof. reflexivity. Qed.

  Theorem C12_closure_typed f ps sg body lenv lctx nm ctx argv :
    call' (S f) (CLambda ps (Some sg) body lenv lctx) nm ctx argv =
    (argv' <- lift_pure (lambda_args (S (S f)) sg lctx (match nm with Some x => x | None => "lambda" end) argv) ;;
     env' <- new_frame (Some lenv) ;;
     _ <- bind_params env' ps argv' ;;
     eval' f body lctx env').
  Proof. reflexivity. Qed.

  (** the call-site context and the caller's name for the function are irrelevant to an untyped lambda *)
  Corollary C12_closure_ctx_irrelevant f ps body lenv lctx nm1 ctx1 nm2 ctx2 argv :
    call' (S f) (CLambda ps None body lenv lctx) nm1 ctx1 argv =
    call' (S f) (CLambda ps None body lenv lctx) nm2 ctx2 argv.
  Proof. reflexivity. Qed.

  (** a declared signature: the call proceeds exactly when the arguments fit, on the fitted
      argument list; otherwise it fails with the signature error *)
  Theorem C12_closure_fits f ps sg body lenv lctx nm ctx argv out w :
    fuel_ok (S (S f)) sg -> fits sg lctx argv out ->
    call' (S f) (CLambda ps (Some sg) body lenv lctx) nm ctx argv w =
    (env' <- new_frame (Some lenv) ;; _ <- bind_params env' ps out ;; eval' f body lctx env') w.
  Proof.
    intros F H. rewrite C12_closure_typed, bind_unfold.
    apply (C12_signature _ _ _ (match nm with Some x => x | None => "lambda" end) _ F) in H.
    rewrite H. reflexivity.
  Qed.

  Theorem C12_closure_count_misfit f ps sg body lenv lctx nm ctx argv w :
    fuel_ok (S (S f)) sg -> count_misfit sg lctx argv ->
    call' (S f) (CLambda ps (Some sg) body lenv lctx) nm ctx argv w =
    Err (EArgCount (match nm with Some x => x | None => "lambda" end)).
  Proof.
    intros F H. rewrite C12_closure_typed, bind_unfold.
    assert (E : lambda_args (S (S f)) sg lctx (match nm with Some x => x | None => "lambda" end) argv =
                inr (EArgCount (match nm with Some x => x | None => "lambda" end)))
      by (apply C12_signature_count; auto).
    rewrite E. reflexivity.
  Qed.

  Theorem C12_closure_type_misfit f ps sg body lenv lctx nm ctx argv i w :
    fuel_ok (S (S f)) sg -> type_misfit sg lctx argv i ->
    call' (S f) (CLambda ps (Some sg) body lenv lctx) nm ctx argv w =
    Err (EArgType (match nm with Some x => x | None => "lambda" end) i).
  Proof.
    intros F H. rewrite C12_closure_typed, bind_unfold.
    assert (E : lambda_args (S (S f)) sg lctx (match nm with Some x => x | None => "lambda" end) argv =
                inr (EArgType (match nm with Some x => x | None => "lambda" end) i))
      by (apply C12_signature_type; auto).
    rewrite E. reflexivity.
  Qed.

  (** the frame the body runs in: parameters bound (missing = no value, surplus ignored), every
      other name seen as from the definition frame, all older frames untouched *)
  Theorem C12_closure_frame f ps body lenv lctx nm ctx argv w :
    wf_world w -> lenv < List.length (frames w) ->
    let c := List.length (frames w) in
    exists w2,
      call' (S f) (CLambda ps None body lenv lctx) nm ctx argv w = eval' f body lctx c w2 /\
      wf_world w2 /\ List.length (frames w2) = S c /\
      (NoDup ps -> forall i x, nth_error ps i = Some x -> visible w2 c x = Some (nth i argv None)) /\
      (forall y, ~ In y ps -> visible w2 c y = visible w lenv y) /\
      (forall e y, e < c -> visible w2 e y = visible w e y).
  Proof.
    intros W L c.
    assert (HP : forall p, Some lenv = Some p -> p < List.length (frames w))
      by (intros p E; inversion E; now subst).
    destruct (lookup_var_new_frame (Some lenv) w c _ W HP (new_frame_eq (Some lenv) w))
      as (_ & Hlen & W1 & Hfr & Hnew & Hold & Hsee).
    set (w1 := mkWorld (frames w ++ [mkFrame (Some lenv) []])) in *.
    set (w2 := mkWorld (list_update c (set_params ps argv) (frames w1))).
    assert (Hb : bind_params c ps argv w1 = Ok tt w2) by apply bind_params_spec.
    destruct (bind_params_other _ _ _ _ _ Hb) as (Hlen2 & Hfr2 & W2 & Hold2).
    exists w2. split.
    - rewrite C12_closure, bind_unfold, new_frame_eq. fold c. fold w1.
      rewrite bind_unfold, Hb. reflexivity.
    - split; [now apply W2|]. split; [congruence|]. split; [|split].
      + intros ND i x Hn. eapply bind_params_lookup; eauto. lia.
      + intros y NI.
        assert (Hn2 : nth_error (frames w2) c = Some (set_params ps argv (mkFrame (Some lenv) []))).
        { unfold w2. cbn [frames]. rewrite nth_error_list_update, Nat.eqb_refl, Hnew. reflexivity. }
        rewrite (visible_step w2 c y _ (W2 W1) Hn2). cbn [set_params fsyms fparent].
        rewrite assoc_get_set_all.
        assert (G : assoc_get y (rev (param_vals ps argv)) = None).
        { apply assoc_get_None. rewrite map_rev, param_vals_names. intro I. apply NI. now apply in_rev. }
        rewrite G. simpl. rewrite (Hold2 W1 lenv y) by lia. now apply Hold.
      + intros e y Le. rewrite (Hold2 W1 e y) by lia. now apply Hold.
  Qed.

  (** ** partial application *)
  Theorem C12_partial_call f nme fn pargs penv pctx nm ctx argv :
    call' (S f) (CPartial nme fn pargs penv pctx) nm ctx argv =
    (args <- partial_args (fun a => eval' f a pctx penv) pargs argv ;;
     call' f fn None None args).
  Proof. reflexivity. Qed.

  (** with pure fixed arguments, calling f(..?..) with [argv] is calling f with the placeholders
      filled left to right *)
  Theorem C12_partial_call_pure f nme fn pargs penv pctx nm ctx argv ev w :
    pure_ev (fun a => eval' f a pctx penv) ev ->
    call' (S f) (CPartial nme fn pargs penv pctx) nm ctx argv w =
    call' f fn None None (fill ev pargs argv) w.
  Proof.
    intro P. rewrite C12_partial_call, bind_unfold, (C12_partial _ ev _ _ _ P). reflexivity.
  Qed.

  (** ** C12_block_scope *)

  (** a block evaluates its expressions in a fresh child frame of the current one, which sees
      everything the current frame sees; no existing frame is altered by entering the block *)
  Theorem C12_block_scope f exprs input env w :
    wf_world w -> env < List.length (frames w) ->
    let c := List.length (frames w) in
    exists w1,
      eval' (S f) (NBlock exprs) input env w = foldM (fun _ e => eval' f e input c) None exprs w1 /\
      wf_world w1 /\ List.length (frames w1) = S c /\
      (forall y, visible w1 c y = visible w env y) /\
      (forall e y, e < c -> visible w1 e y = visible w e y).
  Proof.
    intros W L c.
    assert (HP : forall p, Some env = Some p -> p < List.length (frames w))
      by (intros p E; inversion E; now subst).
    destruct (lookup_var_new_frame (Some env) w c _ W HP (new_frame_eq (Some env) w))
      as (_ & Hlen & W1 & Hfr & Hnew & Hold & Hsee).
    eexists. split; [rewrite eval_block_eq, bind_unfold, new_frame_eq; reflexivity|].
    repeat split; assumption.
  Qed.

  (** an assignment binds in the current frame only; a later variable reference in that frame (or
      in a descendant that does not shadow it) sees the value; older frames see nothing of it *)
  Theorem C12_assignment f x vn input env w v w1 :
    eval' f vn input env w = Ok v w1 ->
    env < List.length (frames w1) ->
    exists w2,
      eval' (S f) (NAssignment x vn) input env w = Ok v w2 /\
      visible w2 env x = Some v /\
      (forall e y, y <> x -> visible w2 e y = visible w1 e y) /\
      (wf_world w1 -> wf_world w2 /\ forall e y, e < env -> visible w2 e y = visible w1 e y).
  Proof.
    intros E L. eexists. split.
    - rewrite eval_assignment_eq, bind_unfold, E, bind_unfold, bind_var_eq. reflexivity.
    - pose proof (bind_var_eq env x v w1) as Hb. split; [|split].
      + eapply bind_var_lookup_same; eauto.
      + intros e y N. eapply bind_var_other_name; eauto.
      + intro W. split; [eapply bind_var_wf; eauto|].
        intros e y Le. eapply bind_var_other_frame; eauto.
  Qed.

  Theorem C12_variable f x input env w :
    seqb x "" = false ->
    eval' (S f) (NVariable x) input env w =
    Ok (match visible w env x with
        | Some v => v
        | None => match builtin_sig x with Some _ => Some (VFun (CBuiltin x)) | None => None end
        end) w.
  Proof. intro N. rewrite eval_variable_eq, N. reflexivity. Qed.
End EvalEquations.

Print Assumptions C12_chain_call.
Print Assumptions C12_chain_compose.
Print Assumptions C12_chain_apply.
Print Assumptions C12_chain_noncallable.
Print Assumptions C12_noncallable.
Print Assumptions C12_closure.
Print Assumptions C12_closure_fits.
Print Assumptions C12_closure_frame.
Print Assumptions C12_partial_call_pure.
Print Assumptions C12_block_scope.
Print Assumptions C12_assignment.
(* ================================================================================== *)
(** * 5. Examples *)
Module C12Examples.
  Definition n (z : Z) : value := VNum (f_of_Z z).
  Definition s (x : string) : value := VStr x.

  (** *** signatures *)
  (** <s-n?> : context-substituted string, optional number *)
  Definition sig1 : list param := [Param PT_string OptContextable None; Param PT_number OptOptional None].
  (** <a<n>s+> : array of numbers (a bare number is wrapped), then one or more strings *)
  Definition sig2 : list param :=
    [Param PT_array OptNone (Some [Param PT_number OptNone None]); Param PT_string OptVariadic None].
  (** <(ns)b> : number-or-string, boolean *)
  Definition sig3 : list param := [Param (PT_number + PT_string) OptNone None; Param PT_bool OptNone None].

  Lemma fuel5 sg : (forall p, In p sg -> param_depth p < 5) -> fuel_ok 5 sg.
  Proof. exact (fun H => H). Qed.

  Ltac fuel_tac := apply fuel5; intros p Hp; simpl in Hp;
                   repeat (destruct Hp as [<-|Hp]; [simpl; lia|]); contradiction.

  Example sig1_ctx : fits sig1 (Some (s "ctx")) [] [Some (s "ctx"); None].
  Proof. apply (C12_signature 5 sig1 _ "f"); [fuel_tac|reflexivity]. Qed.

  Example sig1_both : fits sig1 (Some (s "ctx")) [Some (s "a"); Some (n 1)] [Some (s "a"); Some (n 1)].
  Proof. apply (C12_signature 5 sig1 _ "f"); [fuel_tac|reflexivity]. Qed.

  Example sig2_variadic :
    fits sig2 None [Some (n 7); Some (s "a"); Some (s "b")]
         [Some (VArr [n 7]); Some (VArr [s "a"; s "b"])].
  Proof. apply (C12_signature 5 sig2 _ "f"); [fuel_tac|vm_compute; reflexivity]. Qed.

  Example sig2_subtype_error : type_misfit sig2 None [Some (VArr [n 1; s "x"]); Some (s "a")] 1.
  Proof.
    apply (C12_signature_type 5 sig2 None "f" _ ltac:(fuel_tac) "f" 1). vm_compute. reflexivity.
  Qed.

  Example sig3_union : fits sig3 None [Some (s "x"); Some (VBool true)] [Some (s "x"); Some (VBool true)].
  Proof. apply (C12_signature 5 sig3 _ "f"); [fuel_tac|reflexivity]. Qed.

  Example sig3_count : count_misfit sig3 None [Some (n 1)].
  Proof. apply (C12_signature_count 5 sig3 None "f" _ ltac:(fuel_tac) "f"). reflexivity. Qed.

  Example sig3_type : type_misfit sig3 None [Some (n 1); Some (n 2)] 2.
  Proof. apply (C12_signature_type 5 sig3 None "f" _ ltac:(fuel_tac) "f" 2). reflexivity. Qed.

  (** *** whole programs, run through the evaluator (oracles are not consulted) *)
  Definition o_fmt : f64 -> string := fun _ => "".
  Definition o_re : string -> string -> option (list (list (Z * Z))) := fun _ _ => None.
  Definition o_pow : f64 -> f64 -> option f64 := fun _ _ => None.
  Definition o_lib : string -> list carg -> option (lres ovalue) := fun _ _ => None.
  Definition run (prog : node) (input : ovalue) : res ovalue :=
    eval o_fmt o_re o_pow o_lib 60 prog input 0 (mkWorld [mkFrame None []]).
  Definition result (r : res ovalue) : option (ovalue + err) :=
    match r with Ok v _ => Some (inl v) | Err e => Some (inr e) | _ => None end.

  Definition v (x : string) : node := NVariable x.
  Definition num (z : Z) : node := NNumber (f_of_Z z).
  Definition lam (ps : list string) (b : node) : node := NLambda ps b false.

  (** ( $x := 1; ( $x := 2; $x ); $x ) : the inner block shadows, the outer binding survives *)
  Example block_shadow :
    result (run (NBlock [NAssignment "x" (num 1);
                         NBlock [NAssignment "x" (num 2); v "x"];
                         v "x"]) None) = Some (inl (Some (n 1))).
  Proof. vm_compute. reflexivity. Qed.

  (** a block's binding is invisible after the block *)
  Example block_invisible :
    result (run (NBlock [NBlock [NAssignment "y" (num 2)]; v "y"]) None) = Some (inl None).
  Proof. vm_compute. reflexivity. Qed.

  (** ( $f := function($n){ $n = 0 ? "done" : $f($n - 1) }; $f(3) ) : self reference through the
      variable the function is bound to *)
  Example recursion :
    result (run (NBlock [NAssignment "f"
                           (lam ["n"] (NConditional (NComparison CmpEq (v "n") (num 0)) (NString "done")
                                         (Some (NCall (v "f") [NNumeric NumSub (v "n") (num 1)]))));
                         NCall (v "f") [num 3]]) None) = Some (inl (Some (s "done"))).
  Proof. vm_compute. reflexivity. Qed.

  (** a closure keeps the bindings of its definition site:
      ( $k := 10; $add := function($a){ $a + $k }; ( $k := 20; $add(1) ) ) = 11 *)
  Example closure_bindings :
    result (run (NBlock [NAssignment "k" (num 10);
                         NAssignment "add" (lam ["a"] (NNumeric NumAdd (v "a") (v "k")));
                         NBlock [NAssignment "k" (num 20); NCall (v "add") [num 1]]]) None)
    = Some (inl (Some (n 11))).
  Proof. vm_compute. reflexivity. Qed.

  (** ... and the context item of its definition site: ( $g := function(){ $ }; "inner".$g() ) on "outer" *)
  Example closure_context :
    result (run (NBlock [NAssignment "g" (lam [] (v ""));
                         NPath [NString "inner"; NCall (v "g") []] false]) (Some (s "outer")))
    = Some (inl (Some (s "outer"))).
  Proof. vm_compute. reflexivity. Qed.

  (** missing arguments are "no value", surplus ones ignored *)
  Example missing_surplus :
    let f := lam ["a"; "b"] (NArray [v "a"; v "b"]) in
    result (run (NBlock [NAssignment "f" f; NCall (v "f") [num 1]]) None) = Some (inl (Some (VArr [n 1]))) /\
    result (run (NBlock [NAssignment "f" f; NCall (v "f") [num 1; num 2; num 3]]) None)
    = Some (inl (Some (VArr [n 1; n 2]))).
  Proof. split; vm_compute; reflexivity. Qed.

  Definition sub2 : node := lam ["a"; "b"] (NNumeric NumSub (v "a") (v "b")).

  (** 5 ~> $sub(2) = $sub(5, 2) *)
  Example chain_call :
    result (run (NBlock [NAssignment "sub" sub2; NApply (num 5) (NCall (v "sub") [num 2])]) None)
    = Some (inl (Some (n 3))) /\
    result (run (NBlock [NAssignment "sub" sub2; NCall (v "sub") [num 5; num 2]]) None)
    = Some (inl (Some (n 3))).
  Proof. split; vm_compute; reflexivity. Qed.

  (** ($inc ~> $dbl)(3) = $dbl($inc(3)) = 8 *)
  Example chain_compose :
    result (run (NBlock [NAssignment "inc" (lam ["a"] (NNumeric NumAdd (v "a") (num 1)));
                         NAssignment "dbl" (lam ["a"] (NNumeric NumMul (v "a") (num 2)));
                         NCall (NApply (v "inc") (v "dbl")) [num 3]]) None)
    = Some (inl (Some (n 8))).
  Proof. vm_compute. reflexivity. Qed.

  (** $sub(?, 1)(5) = 4 and $sub(9, ?)(5) = 4 *)
  Example partial_application :
    result (run (NBlock [NAssignment "sub" sub2;
                         NArray [NCall (NPartial (v "sub") [NPlaceholder; num 1]) [num 5];
                                 NCall (NPartial (v "sub") [num 9; NPlaceholder]) [num 5]]]) None)
    = Some (inl (Some (VArr [n 4; n 4]))).
  Proof. vm_compute. reflexivity. Qed.

  Example call_non_function : result (run (NCall (num 3) [num 1]) None) = Some (inr (EEval ErrNonCallable)).
  Proof. vm_compute. reflexivity. Qed.

  Example apply_non_function : result (run (NApply (num 1) (num 2)) None) = Some (inr (EEval ErrNonCallableApply)).
  Proof. vm_compute. reflexivity. Qed.

  (** function($a)<n:n>{$a}("x") : argument 1 has the wrong type *)
  Example typed_lambda_error :
    result (run (NCall (NTypedLambda ["a"] (v "a") false [Param PT_number OptNone None]) [NString "x"]) None)
    = Some (inr (EArgType "lambda" 1)).
  Proof. vm_compute. reflexivity. Qed.

  (** frames: a concrete world, a child frame, shadowing *)
  Example frames_example :
    let w := mkWorld [mkFrame None [("x", Some (n 1)); ("y", Some (n 5))]] in
    exists c w1 w2, new_frame (Some 0) w = Ok c w1 /\ bind_var c "x" (Some (n 2)) w1 = Ok tt w2 /\
                    visible w2 c "x" = Some (Some (n 2)) /\ visible w2 c "y" = Some (Some (n 5)) /\
                    visible w2 0 "x" = Some (Some (n 1)) /\ wf_world w2.
  Proof.
    do 3 eexists. split; [reflexivity|]. split; [reflexivity|].
    split; [reflexivity|]. split; [reflexivity|]. split; [reflexivity|].
    intros i fr p Hn Hp. destruct i as [|[|i]]; simpl in Hn.
    - inversion Hn; subst. discriminate.
    - inversion Hn; subst. simpl in Hp. inversion Hp. lia.
    - destruct i; discriminate.
  Qed.
End C12Examples.
