(* Proofs/SortFacts.v — generic facts about stable sorting under a strict weak order
   (Spec/C13.v vocabulary): the insertion sort [stable_sort] that stands for Go's
   sort.SliceStable in the model, uniqueness of the stable sorted permutation, Go's
   merge/mergeSort as relations, and constructions of strict weak orders (flip, absent-last,
   projection, lexicographic product).  Axiom-free. *)
From Coq Require Import List Bool Arith Lia Sorting.Permutation Sorting.Sorted.
From JV Require Import Model.Value Model.LibCore Spec.C13.
Import ListNotations.
Local Open Scope nat_scope.
Local Open Scope list_scope.

Lemma filter_none {A} (f : A -> bool) l : (forall b, In b l -> f b = false) -> filter f l = [].
Proof.
  induction l as [|x r IH]; simpl; intro H; [reflexivity|].
  rewrite (H x (or_introl eq_refl)). apply IH. intros b Hb. apply H. now right.
Qed.

Lemma filter_cons_eq {A} (f : A -> bool) x l :
  filter f (x :: l) = if f x then x :: filter f l else filter f l.
Proof. reflexivity. Qed.

Lemma Forall_firstn_skipn {A} (P : A -> Prop) n l :
  Forall P l -> Forall P (firstn n l) /\ Forall P (skipn n l).
Proof. intro H. rewrite <- (firstn_skipn n l) in H. now apply Forall_app in H. Qed.

Section Facts.
  Context {A : Type}.
  Variable lt : A -> A -> bool.

  (* ---------------------------------------------------------------------------------- *)
  (* permutation: for ANY comparison function                                           *)
  (* ---------------------------------------------------------------------------------- *)
  Lemma insert_by_perm x l : Permutation (insert_by lt x l) (x :: l).
  Proof.
    induction l as [|y r IH]; simpl; [apply Permutation_refl|].
    destruct (lt y x) eqn:E; [|apply Permutation_refl].
    eapply perm_trans; [apply perm_skip, IH | apply perm_swap].
  Qed.

  Theorem stable_sort_perm l : Permutation (stable_sort lt l) l.
  Proof.
    unfold stable_sort. induction l as [|x r IH]; simpl; [constructor|].
    eapply perm_trans; [apply insert_by_perm | now apply perm_skip].
  Qed.

  Lemma stable_sort_in x l : In x (stable_sort lt l) <-> In x l.
  Proof.
    split; apply Permutation_in; [|apply Permutation_sym]; apply stable_sort_perm.
  Qed.

  Lemma equiv_sym a b : equiv lt a b = equiv lt b a.
  Proof. unfold equiv. apply andb_comm. Qed.

  Lemma equiv_true a b : equiv lt a b = true <-> lt a b = false /\ lt b a = false.
  Proof.
    unfold equiv. rewrite andb_true_iff, !negb_true_iff. tauto.
  Qed.

  (* ---------------------------------------------------------------------------------- *)
  (* consequences of the strict-weak-order laws                                         *)
  (* ---------------------------------------------------------------------------------- *)
  Section SWO.
    Variable P : A -> Prop.
    Hypothesis O : swo_on lt P.

    Lemma equiv_refl a : P a -> equiv lt a a = true.
    Proof. intro Pa. apply equiv_true. now rewrite (swo_irrefl _ _ O a Pa). Qed.

    Lemma lt_asym a b : P a -> P b -> lt a b = true -> lt b a = false.
    Proof.
      intros Pa Pb H. destruct (lt b a) eqn:E; [|reflexivity].
      rewrite <- (swo_irrefl _ _ O a Pa). symmetry. exact (swo_trans _ _ O a b a Pa Pb Pa H E).
    Qed.

    (* "not below" is transitive:  a <= b (lt b a = false), b <= c  ==>  a <= c *)
    Lemma le_trans a b c : P a -> P b -> P c ->
      lt b a = false -> lt c b = false -> lt c a = false.
    Proof.
      intros Pa Pb Pc Hba Hcb. destruct (lt c a) eqn:Hca; [|reflexivity]. exfalso.
      assert (Hab : lt a b = false).
      { destruct (lt a b) eqn:E; [|reflexivity].
        rewrite (swo_trans _ _ O c a b Pc Pa Pb Hca E) in Hcb. discriminate. }
      assert (Hbc : lt b c = false).
      { destruct (lt b c) eqn:E; [|reflexivity].
        rewrite (swo_trans _ _ O b c a Pb Pc Pa E Hca) in Hba. discriminate. }
      assert (E : equiv lt a c = true).
      { apply (swo_equiv_trans _ _ O a b c Pa Pb Pc); apply equiv_true; auto. }
      apply equiv_true in E as [_ E]. congruence.
    Qed.

    Lemma lt_le_trans a b c : P a -> P b -> P c ->
      lt a b = true -> lt c b = false -> lt a c = true.
    Proof.
      intros Pa Pb Pc Hab Hcb. destruct (lt a c) eqn:Hac; [reflexivity|].
      rewrite (le_trans b c a Pb Pc Pa Hcb Hac) in Hab. discriminate.
    Qed.

    Lemma le_lt_trans a b c : P a -> P b -> P c ->
      lt b a = false -> lt b c = true -> lt a c = true.
    Proof.
      intros Pa Pb Pc Hba Hbc. destruct (lt a c) eqn:Hac; [reflexivity|].
      rewrite (le_trans c a b Pc Pa Pb Hac Hba) in Hbc. discriminate.
    Qed.

    (* two members of one class cannot be strictly ordered *)
    Lemma class_not_lt c a b : P c -> P a -> P b ->
      equiv lt c a = true -> equiv lt c b = true -> lt a b = false.
    Proof.
      intros Pc Pa Pb Ea Eb. rewrite equiv_sym in Ea.
      pose proof (swo_equiv_trans _ _ O a c b Pa Pc Pb Ea Eb) as E.
      now apply equiv_true in E.
    Qed.

    (* -------------------------------------------------------------------------------- *)
    (* insertion sort: sorted and stable                                                *)
    (* -------------------------------------------------------------------------------- *)
    Lemma insert_by_sorted x l :
      P x -> Forall P l -> sorted_by lt l -> sorted_by lt (insert_by lt x l).
    Proof.
      intros Px Pl S. induction S as [|y r Sr IH Hy]; simpl.
      - constructor; constructor.
      - apply Forall_cons_iff in Pl as [Py Pr].
        destruct (lt y x) eqn:E.
        + constructor; [now apply IH|].
          apply (Permutation_Forall (Permutation_sym (insert_by_perm x r))).
          constructor; [now apply lt_asym | exact Hy].
        + constructor; [now constructor|].
          constructor; [exact E|].
          rewrite Forall_forall in *. intros b Hb.
          apply (le_trans x y b Px Py (Pr b Hb) E (Hy b Hb)).
    Qed.

    Lemma insert_by_stable x l c :
      P c -> P x -> Forall P l ->
      filter (equiv lt c) (insert_by lt x l) = filter (equiv lt c) (x :: l).
    Proof.
      intros Pc Px Pl. induction l as [|y r IH]; [reflexivity|].
      apply Forall_cons_iff in Pl as [Py Pr].
      cbn [insert_by]. destruct (lt y x) eqn:E; [|reflexivity].
      cbn [filter] in *. rewrite (IH Pr).
      destruct (equiv lt c y) eqn:Ey, (equiv lt c x) eqn:Ex; try reflexivity.
      rewrite (class_not_lt c y x Pc Py Px Ey Ex) in E. discriminate.
    Qed.

    Lemma stable_sort_Forall l : Forall P l -> Forall P (stable_sort lt l).
    Proof. apply Permutation_Forall, Permutation_sym, stable_sort_perm. Qed.

    Theorem stable_sort_sorted l : Forall P l -> sorted_by lt (stable_sort lt l).
    Proof.
      induction l as [|x r IH]; intro Pl; [constructor|].
      apply Forall_cons_iff in Pl as [Px Pr].
      change (stable_sort lt (x :: r)) with (insert_by lt x (stable_sort lt r)).
      apply insert_by_sorted; auto using stable_sort_Forall.
    Qed.

    (* stability, for every class representative of the domain *)
    Theorem stable_sort_stable_on l c :
      Forall P l -> P c -> filter (equiv lt c) (stable_sort lt l) = filter (equiv lt c) l.
    Proof.
      intros Pl Pc. induction l as [|x r IH]; [reflexivity|].
      apply Forall_cons_iff in Pl as [Px Pr].
      change (stable_sort lt (x :: r)) with (insert_by lt x (stable_sort lt r)).
      rewrite insert_by_stable by auto using stable_sort_Forall.
      cbn [filter]. now rewrite (IH Pr).
    Qed.

    Theorem stable_sort_stable l : Forall P l -> stable_wrt lt l (stable_sort lt l).
    Proof.
      intros Pl c Hc. apply stable_sort_stable_on; [exact Pl|].
      rewrite Forall_forall in Pl. now apply Pl.
    Qed.

    Theorem stable_sort_spec l : Forall P l -> stable_sorted_perm lt l (stable_sort lt l).
    Proof.
      intro Pl. split; [apply stable_sort_perm|].
      split; [now apply stable_sort_sorted | now apply stable_sort_stable].
    Qed.
  End SWO.

  (* ---------------------------------------------------------------------------------- *)
  (* uniqueness: sorted + per-class order + permutation determine the list.  Only       *)
  (* irreflexivity on the members is needed here.                                       *)
  (* ---------------------------------------------------------------------------------- *)
  Lemma sorted_stable_unique l1 : forall l2,
    (forall a, In a l1 -> lt a a = false) ->
    Permutation l1 l2 -> sorted_by lt l1 -> sorted_by lt l2 ->
    (forall c, In c l1 -> filter (equiv lt c) l1 = filter (equiv lt c) l2) ->
    l1 = l2.
  Proof.
    induction l1 as [|a t1 IH]; intros l2 Irr Hp S1 S2 Hst.
    - apply Permutation_nil in Hp. now subst.
    - destruct l2 as [|b t2].
      { apply Permutation_sym, Permutation_nil in Hp. discriminate. }
      inversion S1 as [|? ? S1t F1]; subst. inversion S2 as [|? ? S2t F2]; subst.
      assert (Iaa : lt a a = false) by (apply Irr; now left).
      assert (Hba : lt b a = false).
      { assert (Hb : In b (a :: t1)).
        { apply (Permutation_in b (Permutation_sym Hp)). now left. }
        destruct Hb as [<-|Hb]; [exact Iaa|].
        rewrite Forall_forall in F1. now apply F1. }
      assert (Hab : lt a b = false).
      { assert (Ha : In a (b :: t2)).
        { apply (Permutation_in a Hp). now left. }
        destruct Ha as [->|Ha]; [exact Iaa|].
        rewrite Forall_forall in F2. now apply F2. }
      pose proof (Hst a (or_introl eq_refl)) as Ha. cbn [filter] in Ha.
      assert (Eaa : equiv lt a a = true) by (apply equiv_true; auto).
      assert (Eab : equiv lt a b = true) by (apply equiv_true; auto).
      rewrite Eaa, Eab in Ha. injection Ha as Hab' _. subst b.
      f_equal. apply IH.
      + intros x Hx. apply Irr. now right.
      + exact (Permutation_cons_inv Hp).
      + exact S1t.
      + exact S2t.
      + intros c Hc. pose proof (Hst c (or_intror Hc)) as H. cbn [filter] in H.
        destruct (equiv lt c a); [now injection H | exact H].
  Qed.

  (* for a strict weak order there is exactly one stable sorted permutation of the input:
     every stable sort — sort.SliceStable included — returns [stable_sort lt l] *)
  Theorem stable_sort_unique (P : A -> Prop) l :
    swo_on lt P -> Forall P l ->
    stable_sorted_perm lt l (stable_sort lt l) /\
    forall r, stable_sorted_perm lt l r -> r = stable_sort lt l.
  Proof.
    intros O Pl. split; [now apply (stable_sort_spec P)|].
    intros r (Hp & Hs & Hst).
    destruct (stable_sort_spec P O l Pl) as (Hp' & Hs' & Hst').
    apply sorted_stable_unique; auto.
    - intros a Ha. apply (swo_irrefl _ _ O).
      rewrite Forall_forall in Pl. apply Pl. now apply (Permutation_in a Hp).
    - eapply perm_trans; [exact Hp | now apply Permutation_sym].
    - intros c Hc. assert (In c l) by now apply (Permutation_in c Hp).
      now rewrite Hst, Hst'.
  Qed.

  Corollary stable_sorted_perm_unique (P : A -> Prop) l r1 r2 :
    swo_on lt P -> Forall P l ->
    stable_sorted_perm lt l r1 -> stable_sorted_perm lt l r2 -> r1 = r2.
  Proof.
    intros O Pl H1 H2. destruct (stable_sort_unique P l O Pl) as [_ U].
    now rewrite (U r1 H1), (U r2 H2).
  Qed.

  (* ---------------------------------------------------------------------------------- *)
  (* Go's merge / mergeSort (relations of Spec/C13.v)                                   *)
  (* ---------------------------------------------------------------------------------- *)
  Section Merge.
    Variable sw : A -> A -> bool.

    (* permutation for EVERY comparator, even an inconsistent one *)
    Lemma merged_perm l r t : merged sw l r t -> Permutation t (l ++ r).
    Proof.
      induction 1 as [l|r|x l y r t E H IH|x l y r t E H IH].
      - rewrite app_nil_r. apply Permutation_refl.
      - apply Permutation_refl.
      - eapply perm_trans; [apply perm_skip, IH|]. apply (Permutation_middle (x :: l) r y).
      - simpl. now apply perm_skip.
    Qed.

    Theorem merge_sorted_perm l t : merge_sorted sw l t -> Permutation t l.
    Proof.
      induction 1 as [l Hl|l a b t Hl Ha IHa Hb IHb Hm]; [apply Permutation_refl|].
      eapply perm_trans; [exact (merged_perm _ _ _ Hm)|].
      apply perm_trans with (firstn (Nat.div (List.length l) 2) l ++ skipn (Nat.div (List.length l) 2) l).
      + now apply Permutation_app.
      + rewrite firstn_skipn. apply Permutation_refl.
    Qed.

    (* with  sw x y = lt y x  ("x goes after y") for a strict weak order *)
    Variable P : A -> Prop.
    Hypothesis O : swo_on lt P.
    Hypothesis SW : forall x y, sw x y = lt y x.

    Lemma merged_sorted_stable l r t :
      merged sw l r t -> Forall P l -> Forall P r -> sorted_by lt l -> sorted_by lt r ->
      sorted_by lt t /\
      forall c, P c -> filter (equiv lt c) t = filter (equiv lt c) l ++ filter (equiv lt c) r.
    Proof.
      induction 1 as [l|r|x l y r t E H IH|x l y r t E H IH]; intros Pl Pr Sl Sr.
      - split; [exact Sl|]. intros c _. cbn [filter]. now rewrite app_nil_r.
      - split; [exact Sr|]. reflexivity.
      - rewrite SW in E.
        pose proof Pl as Pl'. apply Forall_cons_iff in Pl' as [Px Pl0].
        pose proof Pr as Pr'. apply Forall_cons_iff in Pr' as [Py Pr0].
        inversion Sr as [|? ? Sr0 Fr]; subst. inversion Sl as [|? ? Sl0 Fl]; subst.
        destruct (IH Pl Pr0 Sl Sr0) as [St Hf].
        (* every member of x :: l is strictly above y *)
        assert (Above : forall b, In b (x :: l) -> lt y b = true).
        { intros b [<-|Hb]; [exact E|].
          rewrite Forall_forall in Fl, Pl0.
          exact (lt_le_trans P O y x b Py Px (Pl0 b Hb) E (Fl b Hb)). }
        split.
        + constructor; [exact St|].
          apply (Permutation_Forall (Permutation_sym (merged_perm _ _ _ H))).
          apply Forall_app. split; [|exact Fr].
          rewrite Forall_forall. intros b Hb.
          rewrite Forall_forall in Pl.
          exact (lt_asym P O y b Py (Pl b Hb) (Above b Hb)).
        + intros c Pc. rewrite (filter_cons_eq _ y t), (filter_cons_eq _ y r), (Hf c Pc).
          destruct (equiv lt c y) eqn:Ey; [|reflexivity].
          replace (filter (equiv lt c) (x :: l)) with (@nil A); [reflexivity|].
          symmetry. apply filter_none. intros b Hb.
          destruct (equiv lt c b) eqn:Eb; [|reflexivity].
          rewrite Forall_forall in Pl.
          specialize (Above b Hb).
          rewrite (class_not_lt P O c y b Pc Py (Pl b Hb) Ey Eb) in Above. discriminate.
      - rewrite SW in E.
        pose proof Pl as Pl'. apply Forall_cons_iff in Pl' as [Px Pl0].
        pose proof Pr as Pr'. apply Forall_cons_iff in Pr' as [Py Pr0].
        inversion Sr as [|? ? Sr0 Fr]; subst. inversion Sl as [|? ? Sl0 Fl]; subst.
        destruct (IH Pl0 Pr Sl0 Sr) as [St Hf].
        split.
        + constructor; [exact St|].
          apply (Permutation_Forall (Permutation_sym (merged_perm _ _ _ H))).
          apply Forall_app. split; [exact Fl|].
          constructor; [exact E|].
          rewrite Forall_forall in *. intros b Hb.
          exact (le_trans P O x y b Px Py (Pr0 b Hb) E (Fr b Hb)).
        + intros c Pc. rewrite (filter_cons_eq _ x t), (filter_cons_eq _ x l), (Hf c Pc).
          destruct (equiv lt c x); reflexivity.
    Qed.

    Lemma merge_sorted_Forall l t : merge_sorted sw l t -> Forall P l -> Forall P t.
    Proof.
      intros H. apply Permutation_Forall, Permutation_sym. exact (merge_sorted_perm _ _ H).
    Qed.

    Lemma merge_sorted_sorted_stable l t :
      merge_sorted sw l t -> Forall P l ->
      sorted_by lt t /\ forall c, P c -> filter (equiv lt c) t = filter (equiv lt c) l.
    Proof.
      induction 1 as [l Hl|l a b t Hl Ha IHa Hb IHb Hm]; intro Pl.
      - split; [|reflexivity].
        destruct l as [|x [|y r]]; simpl in Hl; try lia; repeat constructor.
      - destruct (Forall_firstn_skipn P (Nat.div (List.length l) 2) l Pl) as [P1 P2].
        destruct (IHa P1) as [Sa Fa]. destruct (IHb P2) as [Sb Fb].
        destruct (merged_sorted_stable a b t Hm) as [St Ft]; auto.
        { exact (merge_sorted_Forall _ _ Ha P1). }
        { exact (merge_sorted_Forall _ _ Hb P2). }
        split; [exact St|]. intros c Pc.
        rewrite (Ft c Pc), (Fa c Pc), (Fb c Pc), <- filter_app.
        now rewrite firstn_skipn.
    Qed.

    (* mergeSort with a strict-weak-order comparator is THE stable sort *)
    Theorem merge_sorted_stable_sorted l t :
      merge_sorted sw l t -> Forall P l ->
      stable_sorted_perm lt l t /\ t = stable_sort lt l.
    Proof.
      intros H Pl.
      assert (S : stable_sorted_perm lt l t).
      { split; [exact (merge_sorted_perm _ _ H)|].
        destruct (merge_sorted_sorted_stable l t H Pl) as [St Ft].
        split; [exact St|]. intros c Hc. apply Ft.
        rewrite Forall_forall in Pl. now apply Pl. }
      split; [exact S|]. now apply (stable_sort_unique P l O Pl).
    Qed.
  End Merge.
End Facts.

(* the sort only looks at the comparison on the members of its input *)
Lemma insert_by_ext {A} (lt lt' : A -> A -> bool) x l :
  (forall y, In y l -> lt y x = lt' y x) -> insert_by lt x l = insert_by lt' x l.
Proof.
  induction l as [|y r IH]; intro H; [reflexivity|]. cbn [insert_by].
  rewrite <- (H y (or_introl eq_refl)). rewrite IH; [reflexivity|].
  intros z Hz. apply H. now right.
Qed.

Lemma stable_sort_ext {A} (lt lt' : A -> A -> bool) l :
  (forall a b, In a l -> In b l -> lt a b = lt' a b) -> stable_sort lt l = stable_sort lt' l.
Proof.
  induction l as [|x r IH]; intro H; [reflexivity|].
  change (insert_by lt x (stable_sort lt r) = insert_by lt' x (stable_sort lt' r)).
  rewrite <- IH.
  - apply insert_by_ext. intros y Hy. apply stable_sort_in in Hy.
    apply H; [now right | now left].
  - intros a b Ha Hb. apply H; now right.
Qed.

(* ------------------------------------------------------------------------------------ *)
(* constructions of strict weak orders                                                  *)
(* ------------------------------------------------------------------------------------ *)
Section Constructions.
  Context {A : Type}.

  Lemma swo_ext (lt lt' : A -> A -> bool) (P : A -> Prop) :
    (forall a b, P a -> P b -> lt a b = lt' a b) -> swo_on lt P -> swo_on lt' P.
  Proof.
    intros E O.
    assert (EE : forall a b, P a -> P b -> equiv lt' a b = equiv lt a b).
    { intros a b Pa Pb. unfold equiv. now rewrite !E. }
    split.
    - intros a Pa. rewrite <- E by auto. now apply (swo_irrefl _ _ O).
    - intros a b c Pa Pb Pc. rewrite <- !E by auto. now apply (swo_trans _ _ O).
    - intros a b c Pa Pb Pc. rewrite !EE by auto. now apply (swo_equiv_trans _ _ O).
  Qed.

  Lemma swo_weaken (lt : A -> A -> bool) (P Q : A -> Prop) :
    (forall a, Q a -> P a) -> swo_on lt P -> swo_on lt Q.
  Proof.
    intros I O. split.
    - intros a Qa. apply (swo_irrefl _ _ O); auto.
    - intros a b c Qa Qb Qc. apply (swo_trans _ _ O); auto.
    - intros a b c Qa Qb Qc. apply (swo_equiv_trans _ _ O); auto.
  Qed.

  Lemma swo_flip (lt : A -> A -> bool) P : swo_on lt P -> swo_on (flip_lt lt) P.
  Proof.
    intro O. unfold flip_lt. split.
    - intros a Pa. now apply (swo_irrefl _ _ O).
    - intros a b c Pa Pb Pc H1 H2. exact (swo_trans _ _ O c b a Pc Pb Pa H2 H1).
    - intros a b c Pa Pb Pc H1 H2.
      change (equiv lt c a = true). change (equiv lt b a = true) in H1.
      change (equiv lt c b = true) in H2.
      exact (swo_equiv_trans _ _ O c b a Pc Pb Pa H2 H1).
  Qed.

  Definition opt_dom (P : A -> Prop) (o : option A) : Prop :=
    match o with Some a => P a | None => True end.

  Lemma swo_opt_last (lt : A -> A -> bool) P : swo_on lt P -> swo_on (opt_last lt) (opt_dom P).
  Proof.
    intro O. split.
    - intros [a|] Pa; simpl; [now apply (swo_irrefl _ _ O) | reflexivity].
    - intros [a|] [b|] [c|] Pa Pb Pc; simpl; try congruence.
      now apply (swo_trans _ _ O).
    - intros [a|] [b|] [c|] Pa Pb Pc; unfold equiv; simpl; try congruence.
      now apply (swo_equiv_trans _ _ O).
  Qed.

  Lemma swo_on_key {B} (key : A -> B) (lt : B -> B -> bool) (P : B -> Prop) :
    swo_on lt P -> swo_on (on_key key lt) (fun a => P (key a)).
  Proof.
    intro O. unfold on_key. split.
    - intros a Pa. now apply (swo_irrefl _ _ O).
    - intros a b c Pa Pb Pc. now apply (swo_trans _ _ O).
    - intros a b c Pa Pb Pc. now apply (swo_equiv_trans _ _ O (key a) (key b) (key c)).
  Qed.
End Constructions.

(* lexicographic product: the first component decides unless it is a tie *)
Definition lex_pair {A B} (lt1 : A -> A -> bool) (lt2 : B -> B -> bool) (a b : A * B) : bool :=
  lt1 (fst a) (fst b) || (negb (lt1 (fst b) (fst a)) && lt2 (snd a) (snd b)).

Lemma lex_pair_equiv {A B} (lt1 : A -> A -> bool) (lt2 : B -> B -> bool) a b :
  equiv (lex_pair lt1 lt2) a b = equiv lt1 (fst a) (fst b) && equiv lt2 (snd a) (snd b).
Proof.
  unfold equiv, lex_pair.
  destruct (lt1 (fst a) (fst b)), (lt1 (fst b) (fst a)), (lt2 (snd a) (snd b)),
    (lt2 (snd b) (snd a)); reflexivity.
Qed.

Lemma swo_lex_pair {A B} (lt1 : A -> A -> bool) (lt2 : B -> B -> bool) P1 P2 :
  swo_on lt1 P1 -> swo_on lt2 P2 ->
  swo_on (lex_pair lt1 lt2) (fun p => P1 (fst p) /\ P2 (snd p)).
Proof.
  intros O1 O2. split.
  - intros [a1 a2] [Pa1 Pa2]. unfold lex_pair; simpl.
    now rewrite (swo_irrefl _ _ O1 a1 Pa1), (swo_irrefl _ _ O2 a2 Pa2).
  - intros [a1 a2] [b1 b2] [c1 c2] [Pa1 Pa2] [Pb1 Pb2] [Pc1 Pc2]. unfold lex_pair; simpl in *.
    intros H1 H2.
    apply orb_true_iff in H1 as [H1|H1]; apply orb_true_iff in H2 as [H2|H2].
    + now rewrite (swo_trans _ _ O1 a1 b1 c1).
    + apply andb_true_iff in H2 as [H2 _]. apply negb_true_iff in H2.
      now rewrite (lt_le_trans lt1 P1 O1 a1 b1 c1).
    + apply andb_true_iff in H1 as [H1 _]. apply negb_true_iff in H1.
      now rewrite (le_lt_trans lt1 P1 O1 a1 b1 c1).
    + apply andb_true_iff in H1 as [H1 H1']. apply negb_true_iff in H1.
      apply andb_true_iff in H2 as [H2 H2']. apply negb_true_iff in H2.
      rewrite (le_trans lt1 P1 O1 a1 b1 c1), (swo_trans _ _ O2 a2 b2 c2) by auto.
      simpl. apply orb_true_r.
  - intros a b c [Pa1 Pa2] [Pb1 Pb2] [Pc1 Pc2]. rewrite !lex_pair_equiv, !andb_true_iff.
    intros [H1 H1'] [H2 H2']. split.
    + exact (swo_equiv_trans _ _ O1 _ _ _ Pa1 Pb1 Pc1 H1 H2).
    + exact (swo_equiv_trans _ _ O2 _ _ _ Pa2 Pb2 Pc2 H1' H2').
Qed.

Print Assumptions stable_sort_perm.
Print Assumptions stable_sort_unique.
Print Assumptions merge_sorted_perm.
Print Assumptions merge_sorted_stable_sorted.
Print Assumptions swo_lex_pair.

(* ---- the hypotheses are satisfiable: Nat.ltb on pairs compared by first component ---- *)
Definition nat_key_lt : nat * nat -> nat * nat -> bool := on_key fst Nat.ltb.

Lemma nat_ltb_swo : swo_on Nat.ltb (fun _ => True).
Proof.
  split.
  - intros a _. apply Nat.ltb_irrefl.
  - intros a b c _ _ _. rewrite !Nat.ltb_lt. lia.
  - intros a b c _ _ _. rewrite !equiv_true, !Nat.ltb_ge. lia.
Qed.

Example stable_sort_example :
  stable_sort nat_key_lt [(2,0); (1,1); (2,2); (0,3); (1,4); (2,5)]
  = [(0,3); (1,1); (1,4); (2,0); (2,2); (2,5)].
Proof. reflexivity. Qed.

Example stable_sort_example_unique r :
  stable_sorted_perm nat_key_lt [(2,0); (1,1); (2,2); (0,3); (1,4); (2,5)] r ->
  r = [(0,3); (1,1); (1,4); (2,0); (2,2); (2,5)].
Proof.
  intro H. rewrite <- stable_sort_example.
  apply (stable_sort_unique nat_key_lt (fun _ => True)); auto.
  - apply (swo_on_key fst Nat.ltb (fun _ => True)), nat_ltb_swo.
  - rewrite Forall_forall. auto.
Qed.
