(* Proofs/LibFormatNumberProofs.v — theorems about Model/LibFormatNumber.v
   (jlib/jxpath/formatnumber.go).

   2. Termination of the exponent scaling loops of FormatNumber
        scale_loops_terminate        both loops stop within 701 iterations for every finite
                                     double > 0 (Flocq: Bmult_correct / Bdiv_correct)
        format_number_terminates     FormatNumber <> LFuel with fuel >= 701 (general form)
        format_number_terminates_all ... for every double (zero, negative, positive, NaN, Inf)
        scale_up_stuck_zero/_neg     HISTORICAL: on the original tree the first loop ran on the
                                     signed value and made no progress for value <= 0 (Go hung
                                     on $formatNumber(0, "0.0e0")); repaired in /repo f28523c:
                                     the loops now scale |value| and are skipped for zero
   3. Panic freedom of the picture analyser and formatter (see the second half of the file).

   Uses Flocq (proof file only).  Print Assumptions shows the four axioms of the Coq standard
   library's classical real numbers (sig_not_dec, sig_forall_dec,
   functional_extensionality_dep, classic) for the theorems that go through Flocq's real-number
   semantics, and nothing else. *)
From Coq Require Import ZArith Bool List Ascii String Lia ZifyBool Reals Lra.
From Flocq Require Import Core IEEE754.BinarySingleNaN.
From JV.Base Require Import Bytes Utf8 F64 Res.
From JV.Model Require Import LibNumber LibFormatNumber.
Open Scope Z_scope.

(* ---- bridge SpecFloat <-> Flocq (binary64) ---- *)
#[global] Instance Hprec53 : Prec_gt_0 53 := eq_refl.
#[global] Instance Hmax1024 : Prec_lt_emax 53 1024 := eq_refl.
Notation b64 := (binary_float 53 1024).
Notation fexp64 := (SpecFloat.fexp 53 1024).
Notation rnd64 := (Generic_fmt.round radix2 fexp64 (round_mode mode_NE)).

Lemma round_nearest_even_equiv s m l :
  round_nearest_even m l = choice_mode mode_NE s m l.
Proof.
  case l; [reflexivity|intro c].
  case c; [ | reflexivity..].
  now simpl; unfold Round.cond_incr; case Z.even.
Qed.

Lemma binary_round_aux_equiv sx mx ex lx :
  SpecFloat.binary_round_aux 53 1024 sx mx ex lx
  = BinarySingleNaN.binary_round_aux 53 1024 mode_NE sx mx ex lx.
Proof.
  unfold SpecFloat.binary_round_aux, BinarySingleNaN.binary_round_aux.
  set (mrse' := shr_fexp _ _ _ _ _).
  case mrse'; intros mrs' e'; simpl.
  now rewrite (round_nearest_even_equiv sx).
Qed.

Lemma fmul_B2SF (x y : b64) : fmul (B2SF x) (B2SF y) = B2SF (Bmult mode_NE x y).
Proof.
  unfold fmul.
  destruct x as [sx|sx| |sx mx ex Bx]; destruct y as [sy|sy| |sy my ey By]; try reflexivity.
  simpl. rewrite B2SF_SF2B. apply binary_round_aux_equiv.
Qed.

Lemma fdiv_B2SF (x y : b64) : fdiv (B2SF x) (B2SF y) = B2SF (Bdiv mode_NE x y).
Proof.
  unfold fdiv.
  destruct x as [sx|sx| |sx mx ex Bx]; destruct y as [sy|sy| |sy my ey By]; try reflexivity.
  simpl. rewrite B2SF_SF2B.
  set (melz := SFdiv_core_binary _ _ _ _ _ _).
  case melz as [[mz ez] lz].
  apply binary_round_aux_equiv.
Qed.

(* ---- positive finite doubles and their real value ---- *)
Definition posfin (x : f64) : Prop :=
  exists m e, x = S754_finite false m e /\ SpecFloat.bounded 53 1024 m e = true.
Definition R_of (x : f64) : R := SF2R radix2 x.

Definition Hten : SpecFloat.bounded 53 1024 5629499534213120 (-49) = true := eq_refl.
Definition Bten : b64 := B754_finite false 5629499534213120 (-49) Hten.
Definition B100 : b64 := @B754_finite 53 1024 false 7036874417766400 (-46) eq_refl.
Definition B1000 : b64 := @B754_finite 53 1024 false 8796093022208000 (-43) eq_refl.
Lemma Bten_ok : B2SF Bten = f_ten. Proof. reflexivity. Qed.
Lemma B100_ok : B2SF B100 = f_100. Proof. reflexivity. Qed.
Lemma B1000_ok : B2SF B1000 = f_1000. Proof. reflexivity. Qed.

Lemma B2R_Bten : B2R Bten = 10%R.
Proof. unfold Bten, B2R, F2R; simpl. lra. Qed.

Lemma fexp64_le k : -1074 <= k -> fexp64 (k + 1) <= k.
Proof. unfold SpecFloat.fexp, SpecFloat.emin. lia. Qed.

Lemma gen_bpow k : -1074 <= k -> generic_format radix2 fexp64 (bpow radix2 k).
Proof. intros H. apply generic_format_bpow. now apply fexp64_le. Qed.

Lemma mul_step (m : positive) (e : Z) (H : SpecFloat.bounded 53 1024 m e = true)
      (mc : positive) (ec : Z) (Hc : SpecFloat.bounded 53 1024 mc ec = true) (k : Z) :
  let X := B754_finite false m e H in
  let C := B754_finite false mc ec Hc in
  (8 <= B2R C)%R -> (bpow radix2 k <= B2R X)%R -> -1077 <= k ->
  let Z := Bmult mode_NE X C in
  B2SF Z = S754_infinity false \/
  (exists m' e' H', Z = B754_finite false m' e' H' /\ (bpow radix2 (k + 3) <= B2R Z)%R).
Proof.
  intros X C HC HX Hk Z.
  pose proof (Bmult_correct 53 1024 Hprec53 Hmax1024 mode_NE X C) as HM. fold Z in HM.
  destruct (Rlt_bool _ _).
  - right. destruct HM as (HR & Hfin & Hsign).
    assert (Hge : (bpow radix2 (k + 3) <= B2R Z)%R).
    { rewrite HR. apply round_ge_generic; [typeclasses eauto|typeclasses eauto| |].
      - apply gen_bpow. lia.
      - rewrite bpow_plus. change (bpow radix2 3) with 8%R.
        assert (0 < bpow radix2 k)%R by apply bpow_gt_0. nra. }
    assert (Hpos : (0 < bpow radix2 (k + 3))%R) by apply bpow_gt_0.
    destruct Z as [s|s| |s m' e' H'] eqn:EZ; simpl in Hfin; try discriminate.
    + simpl in Hge. lra.
    + exists m', e', H'. split; [|exact Hge].
      specialize (Hsign eq_refl). simpl in Hsign. now subst s.
  - left. rewrite HM. reflexivity.
Qed.

Lemma B2R_posfin_pos (m : positive) (e : Z) (H : SpecFloat.bounded 53 1024 m e = true) :
  (0 < B2R (B754_finite false m e H))%R.
Proof. simpl. apply F2R_gt_0. reflexivity. Qed.

(* the quotient by ten never overflows *)
Lemma div10_no_overflow (X : b64) :
  (0 <= B2R X)%R ->
  (Rabs (rnd64 (B2R X / B2R Bten)) < bpow radix2 1024)%R.
Proof.
  intros Hpos. rewrite B2R_Bten.
  assert (H0 : (0 <= rnd64 (B2R X / 10))%R).
  { apply round_ge_generic; [typeclasses eauto|typeclasses eauto|apply generic_format_0|lra]. }
  assert (H1 : (rnd64 (B2R X / 10) <= B2R X)%R).
  { apply round_le_generic; [typeclasses eauto|typeclasses eauto| |lra].
    apply generic_format_B2R. }
  rewrite Rabs_pos_eq by exact H0.
  pose proof (abs_B2R_lt_emax 53 1024 X) as H2. rewrite Rabs_pos_eq in H2 by exact Hpos. lra.
Qed.

Lemma div_step (m : positive) (e : Z) (H : SpecFloat.bounded 53 1024 m e = true) (k : Z) :
  let X := B754_finite false m e H in
  (B2R X <= bpow radix2 k)%R -> -1071 <= k ->
  let Z := Bdiv mode_NE X Bten in
  B2SF Z = S754_zero false \/
  (exists m' e' H', Z = B754_finite false m' e' H' /\ (B2R Z <= bpow radix2 (k - 3))%R).
Proof.
  intros X HX Hk Z.
  assert (Hne : B2R Bten <> 0%R) by (rewrite B2R_Bten; lra).
  pose proof (Bdiv_correct 53 1024 Hprec53 Hmax1024 mode_NE X Bten Hne) as HD. fold Z in HD.
  pose proof (B2R_posfin_pos m e H) as Hpos. fold X in Hpos.
  rewrite Rlt_bool_true in HD by (apply div10_no_overflow; lra).
  destruct HD as (HR & Hfin & Hsign).
  assert (Hle : (B2R Z <= bpow radix2 (k - 3))%R).
  { rewrite HR. apply round_le_generic; [typeclasses eauto|typeclasses eauto| |].
    - apply gen_bpow. lia.
    - rewrite B2R_Bten. unfold Zminus. rewrite bpow_plus. change (bpow radix2 (- (3))) with (/ 8)%R.
      assert (0 < bpow radix2 k)%R by apply bpow_gt_0. lra. }
  destruct Z as [s|s| |s m' e' H'] eqn:EZ; simpl in Hfin; try discriminate.
  - left. specialize (Hsign eq_refl). simpl in Hsign. now subst s.
  - right. exists m', e', H'. split; [|exact Hle].
    specialize (Hsign eq_refl). simpl in Hsign. now subst s.
Qed.

Lemma div_small (m : positive) (e : Z) (H : SpecFloat.bounded 53 1024 m e = true) :
  let X := B754_finite false m e H in
  (B2R X <= bpow radix2 (-1072))%R ->
  B2SF (Bdiv mode_NE X Bten) = S754_zero false.
Proof.
  intros X HX. set (Z := Bdiv mode_NE X Bten).
  assert (Hne : B2R Bten <> 0%R) by (rewrite B2R_Bten; lra).
  pose proof (Bdiv_correct 53 1024 Hprec53 Hmax1024 mode_NE X Bten Hne) as HD. fold Z in HD.
  pose proof (B2R_posfin_pos m e H) as Hpos. fold X in Hpos.
  rewrite Rlt_bool_true in HD by (apply div10_no_overflow; lra).
  destruct HD as (HR & Hfin & Hsign).
  assert (Hz : B2R Z = 0%R).
  { rewrite HR, B2R_Bten. set (y := (B2R X / 10)%R).
    assert (Hy : (0 < y)%R) by (unfold y; lra).
    assert (Hylt : (y < bpow radix2 (-1075))%R).
    { unfold y. change (-1075) with (-1072 + -3). rewrite bpow_plus.
      change (bpow radix2 (-3)) with (/ 8)%R.
      assert (0 < bpow radix2 (-1072))%R by apply bpow_gt_0. lra. }
    destruct (mag radix2 y) as [ex Hex]. specialize (Hex ltac:(lra)).
    rewrite Rabs_pos_eq in Hex by lra.
    apply (round_N_small_pos radix2 fexp64 _ y ex Hex).
    assert (ex - 1 < -1075).
    { apply (lt_bpow radix2). destruct Hex. lra. }
    unfold SpecFloat.fexp, SpecFloat.emin. lia. }
  destruct Z as [s|s| |s m' e' H'] eqn:EZ; simpl in Hfin; try discriminate.
  - specialize (Hsign eq_refl). simpl in Hsign. now subst s.
  - exfalso. simpl in Hz. apply eq_0_F2R in Hz. destruct s; discriminate.
Qed.

(* ---- the same facts on f64 ---- *)
Lemma posfin_B x : posfin x -> exists m e H, x = B2SF (@B754_finite 53 1024 false m e H).
Proof. intros (m & e & -> & H). now exists m, e, H. Qed.

Lemma R_of_B2SF (b : b64) : R_of (B2SF b) = B2R b.
Proof. apply SF2R_B2SF. Qed.

Lemma posfin_B2SF m e H : posfin (B2SF (@B754_finite 53 1024 false m e H)).
Proof. now exists m, e. Qed.

Lemma posfin_lower x : posfin x -> (bpow radix2 (-1074) <= R_of x)%R.
Proof.
  intros (m & e & -> & H). unfold R_of. simpl.
  apply (bounded_ge_emin 53 1024 m e H).
Qed.

Lemma posfin_upper x : posfin x -> (R_of x < bpow radix2 1024)%R.
Proof.
  intros (m & e & -> & H). unfold R_of. simpl.
  apply (bounded_lt_emax 53 1024 m e H).
Qed.

Lemma B2R_B100 : B2R B100 = 100%R. Proof. unfold B100, B2R, F2R; simpl. lra. Qed.
Lemma B2R_B1000 : B2R B1000 = 1000%R. Proof. unfold B1000, B2R, F2R; simpl. lra. Qed.

Lemma f_mul10_step x k :
  posfin x -> (bpow radix2 k <= R_of x)%R -> -1077 <= k ->
  fmul x f_ten = f_inf \/
  (posfin (fmul x f_ten) /\ (bpow radix2 (k + 3) <= R_of (fmul x f_ten))%R).
Proof.
  intros Hx Hk Hk0. destruct (posfin_B x Hx) as (m & e & H & ->).
  rewrite <- Bten_ok, fmul_B2SF. rewrite R_of_B2SF in Hk.
  assert (HC : (8 <= B2R (B754_finite false 5629499534213120 (-49) Hten))%R).
  { change (B2R (B754_finite false 5629499534213120 (-49) Hten)) with (B2R Bten).
    rewrite B2R_Bten. lra. }
  destruct (mul_step m e H 5629499534213120 (-49) Hten k HC Hk Hk0)
    as [Hinf|(m' & e' & H' & HZ & Hge)].
  - left. exact Hinf.
  - right. fold Bten in HZ, Hge. rewrite HZ. split; [apply posfin_B2SF|].
    rewrite R_of_B2SF. now rewrite <- HZ.
Qed.

Lemma f_div10_step x k :
  posfin x -> (R_of x <= bpow radix2 k)%R -> -1071 <= k ->
  fdiv x f_ten = S754_zero false \/
  (posfin (fdiv x f_ten) /\ (R_of (fdiv x f_ten) <= bpow radix2 (k - 3))%R).
Proof.
  intros Hx Hk Hk0. destruct (posfin_B x Hx) as (m & e & H & ->).
  rewrite <- Bten_ok, fdiv_B2SF. rewrite R_of_B2SF in Hk.
  destruct (div_step m e H k Hk Hk0) as [Hz|(m' & e' & H' & HZ & Hle)].
  - now left.
  - right. rewrite HZ. split; [apply posfin_B2SF|]. rewrite R_of_B2SF. now rewrite <- HZ.
Qed.

Lemma f_div10_small x :
  posfin x -> (R_of x <= bpow radix2 (-1072))%R -> fdiv x f_ten = S754_zero false.
Proof.
  intros Hx Hk. destruct (posfin_B x Hx) as (m & e & H & ->).
  rewrite <- Bten_ok, fdiv_B2SF. rewrite R_of_B2SF in Hk. now apply div_small.
Qed.

(* ---- the loops ---- *)
Lemma scale_up_inf fuel minM e : scale_up fuel f_inf minM e = Some (f_inf, e).
Proof. destruct fuel; simpl; now destruct minM as [[]|[]| |[] ? ?]. Qed.

Lemma scale_down_zero fuel maxM e :
  fltb maxM (S754_zero false) = false ->
  scale_down fuel (S754_zero false) maxM e = Some (S754_zero false, e).
Proof. intros H. destruct fuel; simpl; now rewrite H. Qed.

Lemma scale_up_spec minM :
  forall fuel j v e, 0 <= j -> posfin v ->
    (bpow radix2 (-1074 + 3 * j) <= R_of v)%R -> 700 <= j + Z.of_nat fuel ->
    exists v' e', scale_up fuel v minM e = Some (v', e') /\ fltb v' minM = false /\
      (posfin v' \/
       (v' = f_inf /\ exists u, posfin u /\ fltb u minM = true /\ fmul u f_ten = f_inf)).
Proof.
  induction fuel as [|f IH]; intros j v e Hj Hv Hlow Hfuel.
  - exfalso. pose proof (posfin_upper v Hv) as Hup.
    assert (bpow radix2 1024 <= bpow radix2 (-1074 + 3 * j))%R by (apply bpow_le; lia). lra.
  - cbn [scale_up]. destruct (fltb v minM) eqn:Hlt.
    + destruct (f_mul10_step v (-1074 + 3 * j) Hv Hlow ltac:(lia)) as [Hinf|[Hv2 Hlow2]].
      * rewrite Hinf, scale_up_inf. exists f_inf, (e - 1). split; [reflexivity|].
        split; [now destruct minM as [[]|[]| |[] ? ?]|]. right. split; [reflexivity|].
        exists v. auto.
      * apply (IH (j + 1) _ (e - 1)); try lia; auto.
        replace (-1074 + 3 * (j + 1)) with (-1074 + 3 * j + 3) by lia. exact Hlow2.
    + exists v, e. auto.
Qed.

Lemma scale_down_spec maxM :
  fltb maxM (S754_zero false) = false ->
  forall fuel j v e, 0 <= j <= 699 -> posfin v ->
    (R_of v <= bpow radix2 (1024 - 3 * j))%R -> 701 <= j + Z.of_nat fuel ->
    exists r, scale_down fuel v maxM e = Some r.
Proof.
  intros H1. induction fuel as [|f IH]; intros j v e Hj Hv Hup Hfuel.
  - lia.
  - cbn [scale_down]. destruct (fltb maxM v) eqn:Hlt; [|eauto].
    destruct (Z.eq_dec j 699) as [->|Hne].
    + rewrite (f_div10_small v Hv).
      * rewrite scale_down_zero by exact H1. eauto.
      * eapply Rle_trans; [exact Hup|]. apply bpow_le. lia.
    + destruct (f_div10_step v (1024 - 3 * j) Hv Hup ltac:(lia)) as [Hz|[Hv2 Hup2]].
      * rewrite Hz, scale_down_zero by exact H1. eauto.
      * apply (IH (j + 1) _ (e + 1)); try lia; auto.
        replace (1024 - 3 * (j + 1)) with (1024 - 3 * j - 3) by lia. exact Hup2.
Qed.

(* a product with ten that overflows comes from a factor of at least 2^1020 *)
Lemma mul_overflow_lower u :
  posfin u -> fmul u f_ten = f_inf -> (bpow radix2 1020 <= R_of u)%R.
Proof.
  intros Hu Hinf. destruct (Rle_or_lt (bpow radix2 1020) (R_of u)) as [|Hlt]; [assumption|].
  exfalso. destruct (posfin_B u Hu) as (m & e & H & ->).
  rewrite <- Bten_ok, fmul_B2SF in Hinf. rewrite R_of_B2SF in Hlt.
  set (X := B754_finite false m e H) in *.
  pose proof (B2R_posfin_pos m e H) as Hpos. fold X in Hpos.
  pose proof (Bmult_correct 53 1024 Hprec53 Hmax1024 mode_NE X Bten) as HM.
  set (y := F2R (Float radix2 5 1021)).
  assert (Hy : generic_format radix2 fexp64 y).
  { apply generic_format_F2R. intros _. unfold cexp.
    rewrite mag_F2R_Zdigits by discriminate. change (Zdigits radix2 5) with 3.
    unfold SpecFloat.fexp, SpecFloat.emin. lia. }
  assert (Hy1 : (y < bpow radix2 1024)%R).
  { unfold y, F2R; simpl Fnum; simpl Fexp. change 1024 with (3 + 1021). rewrite bpow_plus.
    change (bpow radix2 3) with 8%R. assert (0 < bpow radix2 1021)%R by apply bpow_gt_0.
    change (IZR 5) with 5%R. lra. }
  assert (Hxy : (B2R X * B2R Bten <= y)%R).
  { rewrite B2R_Bten. unfold y, F2R; simpl Fnum; simpl Fexp. change 1021 with (1 + 1020).
    rewrite bpow_plus. change (bpow radix2 1) with 2%R. change (IZR 5) with 5%R. lra. }
  assert (H0 : (0 <= rnd64 (B2R X * B2R Bten))%R).
  { apply round_ge_generic; [typeclasses eauto|typeclasses eauto|apply generic_format_0|].
    rewrite B2R_Bten. lra. }
  assert (H1 : (rnd64 (B2R X * B2R Bten) <= y)%R).
  { apply round_le_generic; [typeclasses eauto|typeclasses eauto|exact Hy|exact Hxy]. }
  rewrite Rlt_bool_true in HM by (rewrite Rabs_pos_eq by exact H0; lra).
  destruct HM as (_ & Hfin & _).
  destruct (Bmult mode_NE X Bten); simpl in Hinf, Hfin; discriminate.
Qed.

Definition c1020 : f64 := S754_finite false 4503599627370496 968.
Definition Hc1020 : SpecFloat.bounded 53 1024 4503599627370496 968 = true := eq_refl.
Definition B1020 : b64 := B754_finite false 4503599627370496 968 Hc1020.
Lemma B2R_B1020 : B2R B1020 = bpow radix2 1020.
Proof.
  unfold B1020, B2R, F2R; simpl Fnum; simpl Fexp. simpl cond_Zopp.
  replace (IZR 4503599627370496) with (bpow radix2 52).
  - rewrite <- bpow_plus. reflexivity.
  - rewrite <- IZR_Zpower by lia. reflexivity.
Qed.

(* decidable side condition on minMantissa / maxMantissa = math.Pow(10, sf-1) / math.Pow(10, sf) *)
Definition pow_okb (minM maxM : f64) : bool :=
  SpecFloat.valid_binary 53 1024 minM &&
  negb (fltb maxM (S754_zero false)) &&
  (negb (fltb c1020 minM) || negb (fltb maxM f_inf)).

(* THE LOOPS TERMINATE: for every finite value > 0 each of the two scaling loops stops within
   701 iterations *)
Theorem scale_loops_terminate minM maxM v fuel :
  pow_okb minM maxM = true -> posfin v -> (701 <= fuel)%nat ->
  exists v1 e1 r, scale_up fuel v minM 0 = Some (v1, e1) /\
                  scale_down fuel v1 maxM e1 = Some r.
Proof.
  intros Hok Hv Hfuel. unfold pow_okb in Hok.
  apply andb_true_iff in Hok as [Hok H2]. apply andb_true_iff in Hok as [Hvalid H1].
  apply negb_true_iff in H1.
  destruct (scale_up_spec minM fuel 0 v 0 ltac:(lia) Hv) as (v1 & e1 & Hup & Hnlt & Hv1).
  { simpl. now apply posfin_lower. }
  { lia. }
  exists v1, e1. rewrite Hup.
  destruct Hv1 as [Hv1|(-> & u & Hu & Hult & Huinf)].
  - destruct (scale_down_spec maxM H1 fuel 0 v1 e1 ltac:(lia) Hv1) as (r & Hr).
    { simpl. left. now apply posfin_upper. }
    { lia. }
    eauto.
  - (* the first loop overflowed to +Inf: then maxMantissa is +Inf too *)
    assert (Hmax : fltb maxM f_inf = false).
    { apply orb_true_iff in H2 as [H2|H2]; [|now apply negb_true_iff in H2].
      exfalso. apply negb_true_iff in H2.
      pose proof (mul_overflow_lower u Hu Huinf) as Hlow.
      destruct (posfin_B u Hu) as (m & e & H & ->). rewrite R_of_B2SF in Hlow.
      set (U := B754_finite false m e H) in *.
      destruct minM as [s|s| |s mm em];
        [destruct s; discriminate Hult
        |destruct s; [discriminate Hult|vm_compute in H2; discriminate H2]
        |discriminate Hult| ].
      simpl in Hvalid. set (M := B754_finite s mm em Hvalid).
      change (S754_finite s mm em) with (B2SF M) in *.
      change (fltb (B2SF U) (B2SF M)) with (Bltb U M) in Hult.
      change (fltb c1020 (B2SF M)) with (Bltb B1020 M) in H2.
      rewrite Bltb_correct in Hult, H2 by reflexivity.
      rewrite B2R_B1020 in H2.
      destruct (Rlt_bool_spec (bpow radix2 1020) (B2R M)) as [|Hge]; [discriminate H2|].
      destruct (Rlt_bool_spec (B2R U) (B2R M)) as [Hlt|]; [lra|discriminate Hult]. }
    exists (f_inf, e1). destruct fuel; simpl; now rewrite Hmax.
Qed.
Print Assumptions scale_loops_terminate.

(* ---- HISTORICAL: no progress of the first loop on a signed value <= 0.  On the original
   tree FormatNumber ran [scale_up] on the value itself, so these two lemmas were the proof
   that $formatNumber(x, picture-with-exponent) never returned for x <= 0 (for every fuel);
   since /repo f28523c the loops run on |value| and are skipped for zero. ---- *)
Lemma scale_up_stuck_zero s minM :
  fltb (S754_zero s) minM = true ->
  forall fuel e, scale_up fuel (S754_zero s) minM e = None.
Proof.
  intros H. induction fuel as [|f IH]; intros e; cbn [scale_up]; rewrite H; [reflexivity|].
  replace (fmul (S754_zero s) f_ten) with (S754_zero s) by (now destruct s). apply IH.
Qed.

Lemma bra_opp s m e l :
  SFopp (SpecFloat.binary_round_aux 53 1024 s m e l) =
  SpecFloat.binary_round_aux 53 1024 (negb s) m e l.
Proof.
  unfold SpecFloat.binary_round_aux.
  destruct (shr_fexp 53 1024 m e l) as [mrs' e'].
  destruct (shr_fexp 53 1024 _ e' loc_Exact) as [mrs'' e''].
  destruct (shr_m mrs''); try reflexivity.
  destruct (e'' <=? 1024 - 53); reflexivity.
Qed.

Lemma fmul_neg m e :
  fmul (S754_finite true m e) f_ten = fopp (fmul (S754_finite false m e) f_ten).
Proof. unfold fmul, fopp, f_ten, SFmul. rewrite bra_opp. reflexivity. Qed.

Definition negfin_or_ninf (v : f64) : Prop :=
  v = f_ninf \/ exists m e, v = S754_finite true m e /\ SpecFloat.bounded 53 1024 m e = true.

Lemma neg_step v : negfin_or_ninf v -> negfin_or_ninf (fmul v f_ten).
Proof.
  intros [->|(m & e & -> & H)]; [now left|].
  rewrite fmul_neg.
  assert (Hp : posfin (S754_finite false m e)) by now exists m, e.
  destruct (f_mul10_step _ (-1074) Hp (posfin_lower _ Hp) ltac:(lia)) as [->|[(m' & e' & -> & H') _]].
  - now left.
  - right. now exists m', e'.
Qed.

Lemma neg_lt_pos v minM :
  negfin_or_ninf v -> fltb fzero minM = true -> fltb v minM = true.
Proof.
  intros [->|(m & e & -> & _)] H; destruct minM as [[]|[]| |[] ? ?]; try discriminate; reflexivity.
Qed.

Lemma scale_up_stuck_neg minM :
  fltb fzero minM = true ->
  forall fuel v e, negfin_or_ninf v -> scale_up fuel v minM e = None.
Proof.
  intros Hm. induction fuel as [|f IH]; intros v e Hv; cbn [scale_up];
    rewrite (neg_lt_pos v minM Hv Hm); [reflexivity|].
  apply IH. now apply neg_step.
Qed.

(* ---- only the scaling loops consume fuel ---- *)
Lemma lbind_nf {A B} (x : lres A) (f : A -> lres B) :
  x <> LFuel -> (forall a, f a <> LFuel) -> lbind x f <> LFuel.
Proof. destruct x; simpl; auto; discriminate. Qed.

Ltac nf_step :=
  match goal with
  | |- lbind _ _ <> LFuel => apply lbind_nf; [|intros]
  | |- LOk _ <> LFuel => discriminate
  | |- LErr _ <> LFuel => discriminate
  | |- LPanic _ <> LFuel => discriminate
  | |- (let '(_, _) := ?p in _) <> LFuel => destruct p
  | |- (if ?c then _ else _) <> LFuel => destruct c
  | |- (match ?x with _ => _ end) <> LFuel => destruct x
  end.
Ltac nf := cbv beta zeta; repeat (nf_step; cbv beta zeta).

Lemma go_slice_from_nf s i : go_slice_from s i <> LFuel.
Proof. unfold go_slice_from. nf. Qed.
#[local] Hint Resolve go_slice_from_nf : nfdb.

Lemma split_string_at_rune_nf s r : split_string_at_rune s r <> LFuel.
Proof. unfold split_string_at_rune. nf; auto with nfdb. Qed.

Lemma extract_nf sub fmt : extract_subpicture_parts sub fmt <> LFuel.
Proof. unfold extract_subpicture_parts. nf; auto with nfdb. Qed.

Lemma validate_nf parts fmt : validate_subpicture_parts parts fmt <> LFuel.
Proof. unfold validate_subpicture_parts. nf; auto with nfdb. Qed.

Lemma ggp_aux_nf fuel : forall s sep fn ll acc,
  get_group_positions_aux fuel s sep fn ll acc <> LFuel.
Proof.
  induction fuel as [|f IH]; intros; cbn [get_group_positions_aux]; [discriminate|].
  nf; auto with nfdb.
Qed.

Lemma analyse_nf parts fmt : analyse_subpicture_parts parts fmt <> LFuel.
Proof.
  unfold analyse_subpicture_parts, get_group_positions.
  cbv zeta. apply lbind_nf; [apply ggp_aux_nf|intros].
  apply lbind_nf; [apply ggp_aux_nf|intros]. nf.
Qed.

Lemma process_subpicture_nf sub fmt : process_subpicture sub fmt <> LFuel.
Proof.
  unfold process_subpicture.
  apply lbind_nf; [apply extract_nf|intros].
  apply lbind_nf; [apply validate_nf|intros]. apply analyse_nf.
Qed.

Lemma process_picture_nf pic fmt neg : process_picture pic fmt neg <> LFuel.
Proof.
  unfold process_picture.
  apply lbind_nf; [apply split_string_at_rune_nf|intros [pic1 pic2]].
  destruct (seqb pic1 ""); [discriminate|].
  apply lbind_nf; [apply process_subpicture_nf|intros].
  apply lbind_nf; [destruct (seqb pic2 ""); [discriminate|apply process_subpicture_nf]|intros].
  nf.
Qed.

Lemma ise_loop_nf n : forall s en interval acc, ise_loop n s en interval acc <> LFuel.
Proof.
  induction n as [|n IH]; intros; cbn [ise_loop]; [discriminate|]. nf. apply IH.
Qed.

Lemma format_integer_part_nf integer vars fmt : format_integer_part integer vars fmt <> LFuel.
Proof.
  unfold format_integer_part, insert_separators_every. nf. apply ise_loop_nf.
Qed.

(* ---- FormatNumber ---- *)
Definition scaled (value : f64) (vars : subpicture_variables) : f64 :=
  if sv_number_type vars =? 1 then fmul value f_100
  else if sv_number_type vars =? 2 then fmul value f_1000 else value.

Local Open Scope string_scope.
Local Open Scope Z_scope.
Section Terminates.
  Variable fmt_fixed : f64 -> Z -> string.

  Ltac tail_nf :=
    cbv beta zeta;
    match goal with
    | |- context [split_string_at_byte ?s 46] =>
        destruct (split_string_at_byte s 46) as [sint sfrac]
    end;
    apply lbind_nf;
    [ match goal with |- (if ?c then _ else _) <> _ => destruct c end;
      [apply format_integer_part_nf|discriminate]
    | intros; discriminate ].

  (* THEOREM 2 (general form).  FormatNumber runs out of fuel only in the scaling loops, and
     with fuel >= 701 not even there provided that, whenever the picture has an exponent part
     and the (percent-scaled) value is not zero, its magnitude is a finite double > 0 and the
     two mantissa bounds math.Pow(10, sf-1), math.Pow(10, sf) satisfy the decidable condition
     [pow_okb]. *)
  Theorem format_number_terminates fuel value picture fmt :
    (701 <= fuel)%nat ->
    (forall vars, process_picture picture fmt (fltb value fzero) = LOk vars ->
       sv_min_exponent_size vars <> 0 ->
       is_nan (scaled value vars) = false -> is_inf (scaled value vars) = false ->
       feqb (scaled value vars) fzero = false ->
       posfin (fabs (scaled value vars)) /\
       pow_okb (go_pow10 (sv_scaling_factor vars - 1)) (go_pow10 (sv_scaling_factor vars)) = true) ->
    format_number fmt_fixed fuel value picture fmt <> LFuel.
  Proof.
    intros Hfuel Hvars. unfold format_number.
    destruct (seqb picture ""); [discriminate|].
    destruct (process_picture picture fmt (fltb value fzero)) as [vars|t| |w|] eqn:Hpp;
      try (simpl; discriminate).
    2:{ exfalso. eapply process_picture_nf; eauto. }
    specialize (Hvars vars eq_refl). simpl lbind. cbv zeta. fold (scaled value vars).
    destruct (is_nan (scaled value vars)) eqn:Hnan; [discriminate|].
    destruct (is_inf (scaled value vars)) eqn:Hinf; [discriminate|].
    destruct (negb (sv_min_exponent_size vars =? 0)) eqn:Hexp;
      destruct (feqb (scaled value vars) fzero) eqn:Hz; cbn [negb andb].
    - simpl lbind. tail_nf.
    - destruct (Hvars ltac:(lia) eq_refl eq_refl eq_refl) as [Hpos Hok].
      destruct (scale_loops_terminate _ _ _ fuel Hok Hpos Hfuel) as (v1 & e1 & r & Hup & Hdown).
      cbv zeta. rewrite Hup, Hdown. destruct r as [v2 e2]. simpl lbind. tail_nf.
    - simpl lbind. tail_nf.
    - simpl lbind. tail_nf.
  Qed.
End Terminates.
Print Assumptions format_number_terminates.

(* the side condition on the powers of ten, checked exhaustively for scaling factors up to
   4200 (a picture needs 4200 mandatory integer digits to exceed it) *)
Fixpoint all_upto (P : Z -> bool) (k : nat) : bool :=
  match k with O => true | S k' => P (Z.of_nat k') && all_upto P k' end.
Lemma all_upto_spec P k :
  all_upto P k = true -> forall n, 0 <= n < Z.of_nat k -> P n = true.
Proof.
  induction k as [|k IH]; intros H n Hn; [lia|].
  cbn [all_upto] in H. apply andb_true_iff in H as [H1 H2].
  destruct (Z.eq_dec n (Z.of_nat k)) as [->|Hne]; [exact H1|]. apply IH; [exact H2|lia].
Qed.

Definition pow_ok_at (n : Z) : bool := pow_okb (go_pow10 (n - 1)) (go_pow10 n).
Definition pow_ok_bound : nat := Z.to_nat 4201.
Lemma pow_ok_check : all_upto pow_ok_at pow_ok_bound = true.
Proof. vm_compute. reflexivity. Qed.

Lemma pow_ok_small n : 0 <= n <= 4200 -> pow_okb (go_pow10 (n - 1)) (go_pow10 n) = true.
Proof.
  intros Hn. apply (all_upto_spec pow_ok_at pow_ok_bound pow_ok_check n).
  unfold pow_ok_bound. rewrite Z2Nat.id by lia. lia.
Qed.

Lemma fabs_posfin v :
  SpecFloat.valid_binary 53 1024 v = true -> is_nan v = false -> is_inf v = false ->
  feqb v fzero = false -> posfin (fabs v).
Proof.
  destruct v as [s|s| |s m e]; simpl; intros Hv Hn Hi Hz; try discriminate.
  now exists m, e.
Qed.

Section Corollaries.
  Variable fmt_fixed : f64 -> Z -> string.

  (* THEOREM 2 for every double: zero, negative, positive, NaN, infinite -- provided the
     exponent sub-pictures (if any) have no percent/per-mille sign and at most 4200 mandatory
     integer digits (both discharged for good formats and pictures of <= 4200 bytes below) *)
  Corollary format_number_terminates_all fuel value picture fmt :
    (701 <= fuel)%nat -> SpecFloat.valid_binary 53 1024 value = true ->
    (forall vars, process_picture picture fmt (fltb value fzero) = LOk vars ->
       sv_min_exponent_size vars <> 0 ->
       sv_number_type vars = 0 /\ 0 <= sv_scaling_factor vars <= 4200) ->
    format_number fmt_fixed fuel value picture fmt <> LFuel.
  Proof.
    intros Hfuel Hv Hvars. apply format_number_terminates; [exact Hfuel|].
    intros vars Hpp Hexp Hnan Hinf.
    destruct (Hvars vars Hpp Hexp) as [Hty Hsf]. unfold scaled in Hnan, Hinf |- *.
    rewrite Hty in Hnan, Hinf |- *. simpl in Hnan, Hinf |- *.
    intros Hz. split; [now apply fabs_posfin|now apply pow_ok_small].
  Qed.
End Corollaries.
Print Assumptions format_number_terminates_all.

(* $formatNumber(x, "0.0e0") with the default format terminates for every double with fuel 701 *)
Example terminates_0_0e0 fmt_fixed value :
  SpecFloat.valid_binary 53 1024 value = true ->
  format_number fmt_fixed 701 value "0.0e0" default_decimal_format <> LFuel.
Proof.
  intros Hv. apply format_number_terminates_all; [lia|exact Hv|].
  intros vars Hpp _. destruct (fltb value fzero); vm_compute in Hpp; injection Hpp as <-;
    simpl; lia.
Qed.

(* ==================================================================================== *)
(* 3. Panic freedom                                                                      *)
(*      process_picture_no_panic   the picture analyser never panics for a good_format    *)
(*      picture_total              FormatNumber never panics for a good_format with ASCII *)
(*                                 digits (any value, picture, fuel)                      *)
(*      new_decimal_format_good    formats built by jlib.newDecimalFormat are good         *)
(*      picture_total_refuted_for_mixed_width_digits : a panic for zero-digit U+007F       *)
(* ==================================================================================== *)

(* ---- basic string facts ---- *)
Lemma slen_stake_le n s : (slen (stake n s) <= slen s)%nat.
Proof. revert s; induction n; intros [|c s]; simpl; auto; try lia. specialize (IHn s). lia. Qed.
Lemma slen_stake_le_n n s : (slen (stake n s) <= n)%nat.
Proof. revert s; induction n; intros [|c s]; simpl; auto; try lia. specialize (IHn s). lia. Qed.
Lemma slen_sdrop_le n s : (slen (sdrop n s) <= slen s)%nat.
Proof. rewrite slen_sdrop. lia. Qed.

Lemma sprefix_len p s : sprefix p s = true -> (slen p <= slen s)%nat.
Proof.
  revert s; induction p as [|x p IH]; intros [|y s]; simpl; intros H; try lia; try discriminate.
  apply andb_true_iff in H as [_ H]. specialize (IH s H). lia.
Qed.

Lemma sindex_from_bound sub s off i :
  sindex_from sub s off = Some i -> (off <= i /\ i - off + slen sub <= slen s)%nat.
Proof.
  revert off; induction s as [|c s IH]; intros off; simpl.
  - destruct (sprefix sub "") eqn:E; [|discriminate]. intros [= <-].
    apply sprefix_len in E. simpl in E. lia.
  - destruct (sprefix sub (String c s)) eqn:E.
    + intros [= <-]. apply sprefix_len in E. simpl in E. lia.
    + intros H. apply IH in H. lia.
Qed.

Lemma sindex_bound sub s i : sindex sub s = Some i -> (i + slen sub <= slen s)%nat.
Proof. intros H. apply sindex_from_bound in H. lia. Qed.

(* ---- runes ---- *)
Definition good_rune (r : rune) : Prop := valid_rune r = true /\ r <> RuneError.

Lemma slen_string_of_bytes l : slen (string_of_bytes l) = List.length l.
Proof. unfold string_of_bytes. induction l; simpl; auto. Qed.

Lemma rune_len_encode r : good_rune r -> rune_len r = Z.of_nat (slen (encode_rune r)).
Proof.
  intros [Hv _]. unfold encode_rune, rune_len. rewrite Hv.
  unfold valid_rune, is_surrogate, MaxRune in *.
  destruct (r <? 0) eqn:E0; [lia|].
  destruct (r <? 128) eqn:E1; [now rewrite slen_string_of_bytes|].
  destruct (r <? 2048) eqn:E2; [now rewrite slen_string_of_bytes|].
  replace ((55296 <=? r) && (r <=? 57343)) with false by lia.
  destruct (r <? 65536) eqn:E3; [now rewrite slen_string_of_bytes|].
  replace (r <=? 1114111) with true by lia. now rewrite slen_string_of_bytes.
Qed.

Lemma index_func_in_bound l f truth i :
  index_func_in l f truth = Some i -> In i (map fst l).
Proof.
  induction l as [|[j r] l IH]; simpl; [discriminate|].
  destruct (Bool.eqb (f r) truth); [intros [= <-]; auto|auto].
Qed.

Lemma runes_pos_fuel_bound fuel : forall s off i,
  In i (map fst (runes_pos_fuel fuel s off)) -> (off <= i < off + slen s)%nat.
Proof.
  induction fuel as [|f IH]; intros s off i; simpl; [tauto|].
  destruct s as [|c s']; [simpl; tauto|].
  destruct (decode_rune (String c s')) as [r w] eqn:E.
  pose proof (decode_rune_width (String c s') ltac:(discriminate)) as Hw. rewrite E in Hw.
  simpl in Hw. simpl. intros [<-|H]; [lia|].
  apply IH in H. rewrite slen_sdrop in H. unfold slen in *. cbn [String.length] in *. lia.
Qed.

Lemma index_func_lt s f i : index_func s f = Some i -> (i < slen s)%nat.
Proof.
  unfold index_func, runes_pos. intros H. apply index_func_in_bound in H.
  apply runes_pos_fuel_bound in H. lia.
Qed.

(* IndexRune hit: the slice s[pos+RuneLen(r):] is in range *)
Lemma index_rune_slice_ok s r pos :
  good_rune r -> index_rune s r = Some pos ->
  exists s2, go_slice_from s (Z.of_nat pos + rune_len r) = LOk s2 /\
             (slen s2 < slen s)%nat /\ s2 = sdrop (pos + slen (encode_rune r)) s.
Proof.
  intros Hg H. pose proof (rune_len_encode r Hg) as Hl. destruct Hg as [Hv Hne].
  unfold index_rune in H.
  assert (Hb : (pos + slen (encode_rune r) <= slen s)%nat /\ (1 <= slen (encode_rune r))%nat).
  { destruct ((0 <=? r) && (r <? 128)) eqn:E.
    - apply sindex_bound in H. rewrite slen_string_of_bytes in H. simpl in H.
      unfold encode_rune. rewrite Hv. replace (r <? 128) with true by lia.
      rewrite slen_string_of_bytes. simpl. lia.
    - replace (r =? RuneError) with false in H by lia. rewrite Hv in H. simpl in H.
      apply sindex_bound in H. split; [lia|].
      unfold rune_len, valid_rune, is_surrogate, MaxRune in *. 
      destruct (r <? 0); [lia|]. destruct (r <? 128); [lia|]. destruct (r <? 2048); [lia|].
      destruct ((55296 <=? r) && (r <=? 57343)); [lia|]. destruct (r <? 65536); [lia|].
      destruct (r <=? 1114111); lia. }
  destruct Hb as [Hb1 Hb2]. unfold go_slice_from, zlen.
  replace ((0 <=? Z.of_nat pos + rune_len r) && (Z.of_nat pos + rune_len r <=? Z.of_nat (slen s)))
    with true by lia.
  eexists. split; [reflexivity|]. rewrite Hl, <- Nat2Z.inj_add, Nat2Z.id.
  split; [rewrite slen_sdrop; lia|reflexivity].
Qed.

(* ---- UTF-8 decoding facts ---- *)
Lemma lead_info_bounds b0 sz lo hi :
  lead_info b0 = Some (sz, lo, hi) ->
  194 <= b0 /\ 128 <= lo /\ hi <= 191 /\ (sz = 2 \/ sz = 3 \/ sz = 4)%nat.
Proof.
  unfold lead_info.
  repeat match goal with |- context [if ?c then _ else _] => destruct c eqn:? end;
    intros [= <- <- <-]; lia.
Qed.

Lemma is_cont_range b lo hi :
  128 <= lo -> hi <= 191 -> (lo <=? b) && (b <=? hi) = true -> is_cont b = true.
Proof. unfold is_cont. lia. Qed.

(* continuation bytes inside a decoded rune *)
Lemma decode_cont t r w :
  decode_rune t = (r, w) ->
  forall k, (1 <= k < w)%nat -> exists c, String.get k t = Some c /\ is_cont (byte_of c) = true.
Proof.
  intros H k Hk. unfold decode_rune in H.
  destruct t as [|c0 r0]; [injection H as _ <-; lia|].
  destruct (byte_of c0 <? 128); [injection H as _ <-; lia|].
  destruct (lead_info (byte_of c0)) as [[[sz lo] hi]|] eqn:Hl; [|injection H as _ <-; lia].
  apply lead_info_bounds in Hl as (Hb0 & Hlo & Hhi & Hsz).
  destruct r0 as [|c1 r1]; [injection H as _ <-; lia|].
  destruct (negb ((lo <=? byte_of c1) && (byte_of c1 <=? hi))) eqn:E1; [injection H as _ <-; lia|].
  apply negb_false_iff in E1. pose proof (is_cont_range _ _ _ Hlo Hhi E1) as Hc1.
  destruct (sz =? 2)%nat.
  { injection H as _ <-. assert (k = 1%nat) by lia. subst k. exists c1. auto. }
  destruct r1 as [|c2 r2]; [injection H as _ <-; lia|].
  destruct (negb (is_cont (byte_of c2))) eqn:E2; [injection H as _ <-; lia|].
  apply negb_false_iff in E2.
  destruct (sz =? 3)%nat.
  { injection H as _ <-. assert (k = 1 \/ k = 2)%nat as [->| ->] by lia;
      [exists c1|exists c2]; auto. }
  destruct r2 as [|c3 r3]; [injection H as _ <-; lia|].
  destruct (negb (is_cont (byte_of c3))) eqn:E3; [injection H as _ <-; lia|].
  apply negb_false_iff in E3.
  injection H as _ <-. assert (k = 1 \/ k = 2 \/ k = 3)%nat as [->|[->| ->]] by lia;
    [exists c1|exists c2|exists c3]; auto.
Qed.

(* a rune other than U+FFFD starts with a non-continuation byte *)
Lemma decode_start t r w :
  decode_rune t = (r, w) -> r <> RuneError ->
  exists c0 t', t = String c0 t' /\ is_cont (byte_of c0) = false.
Proof.
  intros H Hne. unfold decode_rune in H.
  destruct t as [|c0 r0]; [injection H as <- _; congruence|].
  exists c0, r0. split; [reflexivity|].
  destruct (byte_of c0 <? 128) eqn:E0; [unfold is_cont; lia|].
  destruct (lead_info (byte_of c0)) as [[[sz lo] hi]|] eqn:Hl; [|injection H as <- _; congruence].
  apply lead_info_bounds in Hl. unfold is_cont. lia.
Qed.

(* decoding a complete rune does not depend on what follows *)
Lemma decode_app t u r w :
  decode_rune t = (r, w) -> r <> RuneError -> decode_rune (t ++ u) = (r, w).
Proof.
  intros H Hne. unfold decode_rune in *.
  destruct t as [|c0 r0]; [injection H as <- _; congruence|]. cbn [append].
  destruct (byte_of c0 <? 128); [exact H|].
  destruct (lead_info (byte_of c0)) as [[[sz lo] hi]|]; [|exact H].
  destruct r0 as [|c1 r1]; [injection H as <- _; congruence|]. cbn [append].
  destruct (negb ((lo <=? byte_of c1) && (byte_of c1 <=? hi))); [exact H|].
  destruct (sz =? 2)%nat; [exact H|].
  destruct r1 as [|c2 r2]; [injection H as <- _; congruence|]. cbn [append].
  destruct (negb (is_cont (byte_of c2))); [exact H|].
  destruct (sz =? 3)%nat; [exact H|].
  destruct r2 as [|c3 r3]; [injection H as <- _; congruence|]. cbn [append].
  exact H.
Qed.

Lemma get_sdrop w t k : String.get k (sdrop w t) = String.get (w + k) t.
Proof. revert t; induction w as [|w IH]; intros [|c t]; simpl; auto. Qed.

Lemma sdrop_app_le l a b : (l <= slen a)%nat -> sdrop l (a ++ b) = sdrop l a ++ b.
Proof.
  revert a; induction l as [|l IH]; intros [|c a]; simpl; intros H; auto; try lia.
  apply IH. lia.
Qed.

Lemma sdrop_stake_app l i s :
  (l <= i <= slen s)%nat -> sdrop l s = sdrop l (stake i s) ++ sdrop i s.
Proof.
  intros H. rewrite <- (stake_sdrop i s) at 1. apply sdrop_app_le. rewrite slen_stake; lia.
Qed.

(* forward rune boundaries *)
Inductive reach : string -> nat -> Prop :=
| reach0 t : reach t 0
| reachS t l : t <> "" -> (snd (decode_rune t) <= l)%nat ->
               reach (sdrop (snd (decode_rune t)) t) (l - snd (decode_rune t)) -> reach t l.

Lemma nojump n : forall t l, (slen t <= n)%nat -> (l < slen t)%nat ->
  (exists c, String.get l t = Some c /\ is_cont (byte_of c) = false) -> reach t l.
Proof.
  induction n as [|n IH]; intros t l Hn Hl (c & Hget & Hc); [lia|].
  destruct l as [|l']; [constructor|].
  assert (Hne : t <> "") by (destruct t; simpl in *; [lia|discriminate]).
  pose proof (decode_rune_width t Hne) as Hw.
  destruct (decode_rune t) as [r w] eqn:E. simpl in Hw.
  assert (Hwl : (w <= S l')%nat).
  { destruct (le_lt_dec w (S l')) as [|Hlt]; [assumption|exfalso].
    destruct (decode_cont t r w E (S l') ltac:(lia)) as (c' & Hget' & Hc').
    rewrite Hget in Hget'. injection Hget' as <-. congruence. }
  apply reachS; [exact Hne|rewrite E; cbn [snd]; exact Hwl|rewrite E; cbn [snd]].
  apply IH.
  - rewrite slen_sdrop. unfold slen in *. lia.
  - rewrite slen_sdrop. unfold slen in *. lia.
  - exists c. rewrite get_sdrop. replace (w + (S l' - w))%nat with (S l') by lia. auto.
Qed.

Lemma index_func_reach f : forall fuel t off l,
  (slen t <= fuel)%nat -> reach t l -> (l < slen t)%nat ->
  f (fst (decode_rune (sdrop l t))) = true ->
  exists i, index_func_in (runes_pos_fuel fuel t off) f true = Some i /\ (i <= off + l)%nat.
Proof.
  induction fuel as [|fu IH]; intros t off l Hfu Hr Hl Hf; [lia|].
  destruct t as [|c t']; [simpl in Hl; lia|].
  cbn [runes_pos_fuel]. destruct (decode_rune (String c t')) as [r w] eqn:E.
  cbn [index_func_in].
  destruct (Bool.eqb (f r) true) eqn:Efr; [exists off; split; [reflexivity|lia]|].
  inversion Hr as [|t0 l0 Hne Hwl Hr']; subst.
  - cbn [sdrop] in Hf. rewrite E in Hf. cbn [fst] in Hf. rewrite Hf in Efr. discriminate.
  - rewrite E in *. cbn [snd] in Hwl, Hr'.
    pose proof (decode_rune_width (String c t') ltac:(discriminate)) as Hw. rewrite E in Hw.
    simpl snd in Hw.
    destruct (IH (sdrop w (String c t')) (off + w)%nat (l - w)%nat) as (i & Hi & Hle).
    + rewrite slen_sdrop. lia.
    + exact Hr'.
    + rewrite slen_sdrop. lia.
    + assert (Hdd : sdrop (l - w) (sdrop w (String c t')) = sdrop l (String c t')).
      { clear -Hwl. revert l Hwl. generalize (String c t') as s.
        induction w as [|w IHw]; intros s l Hwl.
        - simpl. now rewrite Nat.sub_0_r.
        - destruct l as [|l]; [lia|]. destruct s as [|x s]; simpl.
          + now destruct (l - w)%nat.
          + apply IHw. lia. }
      rewrite Hdd. exact Hf.
    + exists i. split; [exact Hi|lia].
Qed.

(* ---- backwards decoding ---- *)
Lemma last_char t : t <> "" ->
  exists c, sdrop (slen t - 1) t = String c "" /\ String.get (slen t - 1) t = Some c.
Proof.
  induction t as [|c t IH]; [congruence|intros _].
  destruct t as [|c' t'].
  - exists c. simpl. auto.
  - destruct (IH ltac:(discriminate)) as (x & H1 & H2). exists x.
    replace (slen (String c (String c' t')) - 1)%nat with (S (slen (String c' t') - 1))
      by (simpl; lia).
    simpl sdrop. cbn [String.get]. auto.
Qed.

Lemma decode_last_rune_inv t r size :
  decode_last_rune t = (r, size) -> r <> RuneError ->
  (1 <= size <= slen t)%nat /\ decode_rune (sdrop (slen t - size) t) = (r, size).
Proof.
  unfold decode_last_rune, zlen. intros H Hne.
  destruct (Z.of_nat (slen t) =? 0) eqn:E0; [injection H as <- _; congruence|].
  assert (Htne : t <> "") by (destruct t; [simpl in E0; lia|discriminate]).
  destruct (byte_at t (Z.of_nat (slen t) - 1) <? 128) eqn:Eb.
  - injection H as <- <-. destruct (last_char t Htne) as (c & Hd & Hg).
    split; [lia|]. rewrite Hd. unfold byte_at in *.
    replace (Z.to_nat (Z.of_nat (slen t) - 1)) with (slen t - 1)%nat in * by lia.
    rewrite Hg in *. unfold decode_rune. now rewrite Eb.
  - set (start0 := scan_back 5 t (Z.of_nat (slen t) - 2) (Z.max (Z.of_nat (slen t) - 4) 0)) in H.
    set (start := if start0 <? 0 then 0 else start0) in H.
    destruct (decode_rune (sdrop (Z.to_nat start) t)) as [r' size'] eqn:Ed.
    destruct (start + Z.of_nat size' =? Z.of_nat (slen t)) eqn:Ee;
      [|injection H as <- _; congruence].
    injection H as <- <-.
    assert (0 <= start) by (unfold start; destruct (start0 <? 0) eqn:?; lia).
    assert (Hs : Z.to_nat start = (slen t - size')%nat) by lia.
    rewrite Hs in Ed.
    assert (sdrop (slen t - size') t <> "").
    { intros Hc. rewrite Hc in Ed. simpl in Ed. injection Ed as <- _. congruence. }
    pose proof (decode_rune_width _ H0) as Hw. rewrite Ed in Hw. simpl in Hw.
    rewrite slen_sdrop in Hw. split; [lia|exact Ed].
Qed.

Lemma last_index_func_aux_inv f truth s : forall fuel i l,
  (i <= slen s)%nat ->
  last_index_func_aux fuel s i f truth = Some l ->
  exists j r size, (j <= slen s)%nat /\ decode_last_rune (stake j s) = (r, size) /\
                   l = (j - size)%nat /\ Bool.eqb (f r) truth = true /\ (0 < j)%nat.
Proof.
  induction fuel as [|fu IH]; intros i l Hi; cbn [last_index_func_aux]; [discriminate|].
  destruct (i =? 0)%nat eqn:Ei; [discriminate|].
  destruct (decode_last_rune (stake i s)) as [r size] eqn:Ed.
  destruct (Bool.eqb (f r) truth) eqn:Ef.
  - intros [= <-]. exists i, r, size. repeat split; auto. lia.
  - intros H. apply IH in H; [exact H|lia].
Qed.

(* the forward scan finds an active rune no later than the backward scan *)
Lemma first_le_last s f l :
  f RuneError = false ->
  last_index_func s f true = Some l ->
  exists first', index_func s f = Some first' /\
    (first' <= l + snd (decode_rune (sdrop l s)) <= slen s)%nat.
Proof.
  intros HfE Hl. unfold last_index_func in Hl.
  apply last_index_func_aux_inv in Hl; [|lia].
  destruct Hl as (j & r & size & Hj & Hd & -> & Hf & Hj0).
  assert (Hfr : f r = true) by (destruct (f r); auto; discriminate).
  assert (Hne : r <> RuneError) by (intros ->; congruence).
  apply decode_last_rune_inv in Hd as [Hsz Hdec]; [|exact Hne].
  rewrite slen_stake in Hsz, Hdec by lia.
  (* the same rune is decoded forwards at j - size in s *)
  assert (Hfwd : decode_rune (sdrop (j - size) s) = (r, size)).
  { rewrite (sdrop_stake_app (j - size) j s) by lia. now apply decode_app. }
  rewrite Hfwd. cbn [snd].
  destruct (decode_start _ _ _ Hfwd Hne) as (c0 & t' & Ht & Hc0).
  assert (Hr : reach s (j - size)).
  { apply (nojump (slen s)); [lia|lia|].
    exists c0. split; [|exact Hc0].
    rewrite <- (Nat.add_0_r (j - size)), <- get_sdrop, Ht. reflexivity. }
  destruct (index_func_reach f (slen s) s 0 (j - size) ltac:(lia) Hr ltac:(lia)) as (i & Hi & Hle).
  { rewrite Hfwd. exact Hfr. }
  exists i. split; [exact Hi|lia].
Qed.

Lemma byte_of_range c : 0 <= byte_of c < 256.
Proof.
  unfold byte_of. pose proof (N_ascii_bounded c) as H. lia.
Qed.

Lemma lead_info_cases b0 sz lo hi :
  lead_info b0 = Some (sz, lo, hi) ->
  (sz = 2%nat /\ 194 <= b0 <= 223 /\ lo = 128 /\ hi = 191) \/
  (sz = 3%nat /\ b0 = 224 /\ lo = 160 /\ hi = 191) \/
  (sz = 3%nat /\ 225 <= b0 <= 239 /\ b0 <> 237 /\ lo = 128 /\ hi = 191) \/
  (sz = 3%nat /\ b0 = 237 /\ lo = 128 /\ hi = 159) \/
  (sz = 4%nat /\ b0 = 240 /\ lo = 144 /\ hi = 191) \/
  (sz = 4%nat /\ 241 <= b0 <= 243 /\ lo = 128 /\ hi = 191) \/
  (sz = 4%nat /\ b0 = 244 /\ lo = 128 /\ hi = 143).
Proof.
  unfold lead_info.
  repeat match goal with |- context [if ?c then _ else _] => destruct c eqn:? end;
    intros [= <- <- <-]; lia.
Qed.

Ltac next_byte H c R :=
  match type of H with context [match ?r1 with EmptyString => _ | String _ _ => _ end] =>
    let rr := fresh "rr" in
    destruct r1 as [|c rr]; [injection H as <- _; congruence|] end;
  pose proof (byte_of_range c) as R;
  let E := fresh "E" in
  destruct (negb (is_cont (byte_of c))) eqn:E; [injection H as <- _; congruence|];
  apply negb_false_iff in E; unfold is_cont in E.

Ltac three_bytes H c0 c1 Hl E1a E1b R0 R1 Hne :=
  let c2 := fresh "c2" in let R2 := fresh "R2" in
  next_byte H c2 R2;
  injection H as <- <-; unfold rune_len, is_surrogate, MaxRune;
  let v := fresh "v" in
  set (v := byte_of c0 mod 16 * 4096 + byte_of c1 mod 64 * 64 + byte_of c2 mod 64);
  assert (2048 <= v < 65536 /\ ~ (55296 <= v <= 57343)) by (unfold v; Z.to_euclidean_division_equations; lia);
  replace (v <? 0) with false by lia; replace (v <? 128) with false by lia;
  replace (v <? 2048) with false by lia;
  replace ((55296 <=? v) && (v <=? 57343)) with false by lia;
  replace (v <? 65536) with true by lia; reflexivity.

Ltac four_bytes H c0 c1 Hl E1a E1b R0 R1 Hne :=
  let c2 := fresh "c2" in let R2 := fresh "R2" in
  let c3 := fresh "c3" in let R3 := fresh "R3" in
  next_byte H c2 R2; next_byte H c3 R3;
  injection H as <- <-; unfold rune_len, is_surrogate, MaxRune;
  let v := fresh "v" in
  set (v := byte_of c0 mod 8 * 262144 + byte_of c1 mod 64 * 4096 + byte_of c2 mod 64 * 64 +
            byte_of c3 mod 64);
  assert (65536 <= v <= 1114111) by (unfold v; Z.to_euclidean_division_equations; lia);
  replace (v <? 0) with false by lia; replace (v <? 128) with false by lia;
  replace (v <? 2048) with false by lia;
  replace ((55296 <=? v) && (v <=? 57343)) with false by lia;
  replace (v <? 65536) with false by lia; replace (v <=? 1114111) with true by lia; reflexivity.

(* the width of a decoded rune is its RuneLen *)
Lemma decode_rune_len t r w :
  decode_rune t = (r, w) -> r <> RuneError -> rune_len r = Z.of_nat w.
Proof.
  intros H Hne. unfold decode_rune in H.
  destruct t as [|c0 r0]; [injection H as <- _; congruence|].
  pose proof (byte_of_range c0) as R0.
  destruct (byte_of c0 <? 128) eqn:E0.
  { injection H as <- <-. unfold rune_len. replace (byte_of c0 <? 0) with false by lia.
    now rewrite E0. }
  destruct (lead_info (byte_of c0)) as [[[sz lo] hi]|] eqn:Hl; [|injection H as <- _; congruence].
  apply lead_info_cases in Hl.
  destruct r0 as [|c1 r1]; [injection H as <- _; congruence|].
  pose proof (byte_of_range c1) as R1.
  destruct (negb ((lo <=? byte_of c1) && (byte_of c1 <=? hi))) eqn:E1;
    [injection H as <- _; congruence|].
  apply negb_false_iff in E1. apply andb_true_iff in E1 as [E1a E1b].
  apply Z.leb_le in E1a, E1b.
  destruct Hl as [Hl|[Hl|[Hl|[Hl|[Hl|[Hl|Hl]]]]]]; destruct Hl as (-> & Hl);
    cbn [Nat.eqb] in H.
  - (* 2 bytes *)
    injection H as <- <-. unfold rune_len, is_surrogate, MaxRune.
    set (v := byte_of c0 mod 32 * 64 + byte_of c1 mod 64).
    assert (128 <= v < 2048) by (unfold v; Z.to_euclidean_division_equations; lia).
    replace (v <? 0) with false by lia. replace (v <? 128) with false by lia.
    replace (v <? 2048) with true by lia. reflexivity.
  - three_bytes H c0 c1 Hl E1a E1b R0 R1 Hne.
  - three_bytes H c0 c1 Hl E1a E1b R0 R1 Hne.
  - three_bytes H c0 c1 Hl E1a E1b R0 R1 Hne.
  - four_bytes H c0 c1 Hl E1a E1b R0 R1 Hne.
  - four_bytes H c0 c1 Hl E1a E1b R0 R1 Hne.
  - four_bytes H c0 c1 Hl E1a E1b R0 R1 Hne.
Qed.

Lemma rune_len_mono a b : 1 <= rune_len a -> 1 <= rune_len b -> a <= b -> rune_len a <= rune_len b.
Proof.
  unfold rune_len, is_surrogate, MaxRune.
  repeat match goal with |- context [if ?c then _ else _] => destruct c eqn:? end; lia.
Qed.

Lemma sdrop_sdrop a b s : sdrop a (sdrop b s) = sdrop (b + a) s.
Proof.
  revert s; induction b as [|b IH]; intros s; simpl; auto.
  destruct s as [|c s]; simpl; [now destruct a|apply IH].
Qed.

(* what IndexFunc found *)
Lemma index_func_in_hit f truth : forall fuel t off i,
  index_func_in (runes_pos_fuel fuel t off) f truth = Some i ->
  (off <= i)%nat /\
  Bool.eqb (f (fst (decode_rune (sdrop (i - off) t)))) truth = true /\
  (i - off + snd (decode_rune (sdrop (i - off) t)) <= slen t)%nat /\
  sdrop (i - off) t <> "".
Proof.
  induction fuel as [|fu IH]; intros t off i; cbn [runes_pos_fuel index_func_in]; [discriminate|].
  destruct t as [|c t']; [discriminate|].
  destruct (decode_rune (String c t')) as [r w] eqn:E. cbn [index_func_in].
  pose proof (decode_rune_width (String c t') ltac:(discriminate)) as Hw. rewrite E in Hw.
  cbn [snd] in Hw.
  destruct (Bool.eqb (f r) truth) eqn:Ef.
  - intros [= <-]. rewrite Nat.sub_diag. cbn [sdrop]. rewrite E. cbn [fst snd].
    repeat split; auto; try lia. discriminate.
  - intros H. apply IH in H as (H1 & H2 & H3 & H4).
    rewrite sdrop_sdrop in H2, H3, H4. rewrite slen_sdrop in H3.
    replace (w + (i - (off + w)))%nat with (i - off)%nat in * by lia.
    repeat split; auto; lia.
Qed.

Lemma index_func_hit s f i :
  index_func s f = Some i ->
  f (fst (decode_rune (sdrop i s))) = true /\
  (i + snd (decode_rune (sdrop i s)) <= slen s)%nat /\ sdrop i s <> "".
Proof.
  unfold index_func, runes_pos. intros H. apply index_func_in_hit in H as (_ & H2 & H3 & H4).
  rewrite Nat.sub_0_r in *. split; [|split; assumption].
  destruct (f _); auto; discriminate.
Qed.

(* ---- no panic in the picture analyser ---- *)
Definition np {A} (r : lres A) : Prop := forall w, r <> LPanic w.

Lemma lbind_np {A B} (x : lres A) (f : A -> lres B) :
  np x -> (forall a, x = LOk a -> np (f a)) -> np (lbind x f).
Proof.
  unfold np. destruct x as [a|t| |why|]; simpl; intros Hx Hf w; try discriminate.
  - now apply Hf.
  - intros E. now apply (Hx why).
Qed.

Record good_format (fmt : decimal_format) : Prop := {
  gf_dec : good_rune (df_decimal_separator fmt);
  gf_grp : good_rune (df_group_separator fmt);
  gf_exp : good_rune (df_exponent_separator fmt);
  gf_pat : good_rune (df_pattern_separator fmt);
  gf_opt : good_rune (df_optional_digit fmt);
  gf_zero : good_rune (df_zero_digit fmt);
  gf_err : is_decimal_digit fmt RuneError = false
}.

Lemma np_ok {A} (a : A) : np (LOk a). Proof. intros w; discriminate. Qed.
Lemma np_err {A} t : np (@LErr A t). Proof. intros w; discriminate. Qed.
#[local] Hint Resolve np_ok np_err : npdb.

Lemma split_string_at_rune_np s r : good_rune r -> np (split_string_at_rune s r).
Proof.
  intros Hg. unfold split_string_at_rune.
  destruct (index_rune s r) as [pos|] eqn:E; [|auto with npdb].
  destruct (index_rune_slice_ok s r pos Hg E) as (s2 & -> & _). simpl.
  destruct (negb (contains_rune s2 r)); auto with npdb.
Qed.

Lemma is_active_RuneError fmt : good_format fmt -> is_active fmt RuneError = false.
Proof.
  intros [[_ H1] [_ H2] [_ H3] [_ H4] [_ H5] _ H7]. unfold is_active.
  replace (RuneError =? df_decimal_separator fmt) with false by lia.
  replace (RuneError =? df_exponent_separator fmt) with false by lia.
  replace (RuneError =? df_group_separator fmt) with false by lia.
  replace (RuneError =? df_pattern_separator fmt) with false by lia.
  replace (RuneError =? df_optional_digit fmt) with false by lia. exact H7.
Qed.

Lemma extract_np sub fmt : good_format fmt -> np (extract_subpicture_parts sub fmt).
Proof.
  intros Hg. unfold extract_subpicture_parts. cbv zeta.
  set (isA := fun r : Z => negb (r =? df_exponent_separator fmt) && is_active fmt r).
  assert (HisA : isA RuneError = false).
  { unfold isA. rewrite (is_active_RuneError fmt Hg). apply andb_false_r. }
  set (first := match index_func sub isA with Some i => i | None => 0%nat end).
  set (last := match last_index_func sub isA true with
               | None => slen sub
               | Some l => let '(_, w) := decode_rune (sdrop l sub) in (l + w)%nat end).
  assert (Hfl : (first <= last)%nat).
  { unfold first, last. destruct (last_index_func sub isA true) as [l|] eqn:El.
    - destruct (first_le_last sub isA l HisA El) as (f' & Hf' & Hle).
      rewrite Hf'. destruct (decode_rune (sdrop l sub)) as [r w]. simpl in Hle. lia.
    - destruct (index_func sub isA) as [i|] eqn:Ei; [|lia]. apply index_func_lt in Ei. lia. }
  replace (last <? first)%nat with false by lia.
  apply lbind_np.
  - destruct (index_rune (sslice first last sub) (df_exponent_separator fmt)) as [pos|] eqn:E;
      [|auto with npdb].
    destruct (index_rune_slice_ok _ _ pos (gf_exp fmt Hg) E) as (s2 & -> & _). simpl.
    auto with npdb.
  - intros [mantissaPart exponentPart] _. apply lbind_np.
    + destruct (index_rune mantissaPart (df_decimal_separator fmt)) as [pos|] eqn:E;
        [|auto with npdb].
      destruct (index_rune_slice_ok _ _ pos (gf_dec fmt Hg) E) as (s2 & -> & _). simpl.
      auto with npdb.
    + intros [integerPart fractionalPart] _. auto with npdb.
Qed.

Lemma wrap32_small z : - 2 ^ 31 <= z < 2 ^ 31 -> wrap32 z = z.
Proof. intros H. unfold wrap32. rewrite Z.mod_small by lia. lia. Qed.

Lemma rune_len_range r : 1 <= rune_len r -> 0 <= r <= 1114111.
Proof.
  unfold rune_len, is_surrogate, MaxRune.
  repeat match goal with |- context [if ?c then _ else _] => destruct c eqn:? end; lia.
Qed.

Lemma good_rune_len r : good_rune r -> 1 <= rune_len r /\ 0 <= r <= 1114111.
Proof.
  intros [Hv _]. unfold valid_rune, rune_len, is_surrogate, MaxRune in *.
  repeat match goal with |- context [if ?c then _ else _] => destruct c eqn:? end; lia.
Qed.

(* the slice after the first mandatory digit of the integer part *)
Lemma digit_slice_ok fmt s pos :
  good_format fmt -> index_func s (is_decimal_digit fmt) = Some pos ->
  exists rest, go_slice_from s (Z.of_nat pos + rune_len (df_zero_digit fmt)) = LOk rest.
Proof.
  intros Hg H. apply index_func_hit in H as (Hd & Hle & Hne).
  destruct (decode_rune (sdrop pos s)) as [r w] eqn:E. cbn [fst snd] in *.
  assert (Hr : r <> RuneError) by (intros ->; rewrite (gf_err fmt Hg) in Hd; discriminate).
  pose proof (decode_rune_len _ _ _ E Hr) as Hlen.
  pose proof (decode_rune_width _ Hne) as Hw. rewrite E in Hw. cbn [snd] in Hw.
  destruct (good_rune_len _ (gf_zero fmt Hg)) as [Hz1 Hz2].
  pose proof (rune_len_range r ltac:(lia)) as Hrr.
  unfold is_decimal_digit in Hd. rewrite wrap32_small in Hd by lia.
  assert (Hmono : rune_len (df_zero_digit fmt) <= rune_len r)
    by (apply rune_len_mono; lia).
  unfold go_slice_from, zlen.
  replace ((0 <=? Z.of_nat pos + rune_len (df_zero_digit fmt)) &&
           (Z.of_nat pos + rune_len (df_zero_digit fmt) <=? Z.of_nat (slen s))) with true by lia.
  eauto.
Qed.

Ltac np_ifs :=
  repeat match goal with
         | |- np (if ?c then _ else _) => destruct c
         | |- np (match index_func ?s ?f with Some _ => _ | None => _ end) =>
             destruct (index_func s f)
         | |- np (LOk _) => apply np_ok
         | |- np (LErr _) => apply np_err
         end.

Lemma validate_np parts fmt : good_format fmt -> np (validate_subpicture_parts parts fmt).
Proof.
  intros Hg. unfold validate_subpicture_parts. cbv zeta. np_ifs.
  apply lbind_np.
  { destruct (index_func (sp_integer parts) (is_decimal_digit fmt)) as [pos|] eqn:E;
      [|auto with npdb].
    destruct (digit_slice_ok fmt _ pos Hg E) as (rest & ->). simpl. np_ifs. }
  intros _ _. apply lbind_np.
  { destruct (index_rune (sp_fractional parts) (df_optional_digit fmt)) as [pos|] eqn:E;
      [|auto with npdb].
    destruct (index_rune_slice_ok _ _ pos (gf_opt fmt Hg) E) as (rest & -> & _). simpl. np_ifs. }
  intros _ _. np_ifs.
Qed.

Lemma ggp_aux_np sep fn ll : good_rune sep ->
  forall fuel s acc, np (get_group_positions_aux fuel s sep fn ll acc).
Proof.
  intros Hg. induction fuel as [|f IH]; intros s acc; cbn [get_group_positions_aux];
    [auto with npdb|].
  destruct (index_rune s sep) as [pos|] eqn:E; [|auto with npdb].
  destruct (index_rune_slice_ok s sep pos Hg E) as (s2 & -> & _). simpl. apply IH.
Qed.

Lemma analyse_np parts fmt : good_format fmt -> np (analyse_subpicture_parts parts fmt).
Proof.
  intros Hg. unfold analyse_subpicture_parts, get_group_positions. cbv zeta.
  apply lbind_np; [apply ggp_aux_np, (gf_grp fmt Hg)|intros igp _].
  apply lbind_np; [apply ggp_aux_np, (gf_grp fmt Hg)|intros fgp _].
  repeat match goal with
         | |- np (let '(_, _) := ?p in _) => destruct p
         end.
  auto with npdb.
Qed.

Lemma process_subpicture_np sub fmt : good_format fmt -> np (process_subpicture sub fmt).
Proof.
  intros Hg. unfold process_subpicture.
  apply lbind_np; [now apply extract_np|intros parts _].
  apply lbind_np; [now apply validate_np|intros _ _]. now apply analyse_np.
Qed.

(* THEOREM 3a: the picture analyser never panics for a format whose separators and digits are
   valid runes other than U+FFFD *)
Theorem process_picture_no_panic picture fmt neg :
  good_format fmt -> np (process_picture picture fmt neg).
Proof.
  intros Hg. unfold process_picture.
  apply lbind_np; [apply split_string_at_rune_np, (gf_pat fmt Hg)|intros [pic1 pic2] _].
  destruct (seqb pic1 ""); [auto with npdb|].
  apply lbind_np; [now apply process_subpicture_np|intros vars1 _].
  apply lbind_np.
  - destruct (seqb pic2 ""); [auto with npdb|now apply process_subpicture_np].
  - intros vars2 _. destruct neg; [destruct (negb _)|]; auto with npdb.
Qed.
Print Assumptions process_picture_no_panic.

(* ---- no panic in the formatter for formats with ASCII digits ---- *)
Fixpoint all_ascii (s : string) : bool :=
  match s with EmptyString => true | String c r => (byte_of c <? 128) && all_ascii r end.

Lemma all_ascii_app a b : all_ascii (a ++ b) = all_ascii a && all_ascii b.
Proof. induction a as [|c a IH]; simpl; auto. rewrite IH. now rewrite andb_assoc. Qed.

Lemma all_ascii_sdrop n s : all_ascii s = true -> all_ascii (sdrop n s) = true.
Proof.
  revert s; induction n as [|n IH]; intros [|c s]; simpl; auto.
  intros H. apply andb_true_iff in H as [_ H]. auto.
Qed.

Lemma all_ascii_stake n s : all_ascii s = true -> all_ascii (stake n s) = true.
Proof.
  revert s; induction n as [|n IH]; intros [|c s]; simpl; auto.
  intros H. apply andb_true_iff in H as [H1 H]. rewrite H1. simpl. auto.
Qed.

Lemma all_ascii_srepeat s n : all_ascii s = true -> all_ascii (srepeat s n) = true.
Proof. intros H. induction n; simpl; auto. rewrite all_ascii_app, H. auto. Qed.

Lemma runes_fuel_ascii fuel : forall s, (slen s <= fuel)%nat -> all_ascii s = true ->
  runes_fuel fuel s = map byte_of (list_of_string s).
Proof.
  induction fuel as [|f IH]; intros [|c s] Hf Ha; simpl in *; auto; try lia.
  apply andb_true_iff in Ha as [Hc Ha]. rewrite Hc. simpl. f_equal. apply IH; [lia|exact Ha].
Qed.

Lemma runes_ascii s : all_ascii s = true -> runes s = map byte_of (list_of_string s).
Proof. intros H. unfold runes. now apply runes_fuel_ascii. Qed.

Lemma length_list_of_string s : List.length (list_of_string s) = slen s.
Proof. induction s; simpl; auto. Qed.

Lemma rune_count_ascii s : all_ascii s = true -> rune_count s = slen s.
Proof.
  intros H. unfold rune_count. rewrite runes_ascii by exact H.
  now rewrite map_length, length_list_of_string.
Qed.

Lemma byte_of_ascii_of_Z z : 0 <= z < 256 -> byte_of (ascii_of_Z z) = z.
Proof.
  intros H. unfold byte_of, ascii_of_Z. rewrite Z.mod_small by lia.
  rewrite N_ascii_embedding; [lia|].
  apply N2Z.inj_lt. rewrite Z2N.id by lia. simpl. lia.
Qed.

Lemma encode_rune_ascii r : 0 <= r < 128 -> all_ascii (encode_rune r) = true.
Proof.
  intros H. unfold encode_rune, valid_rune. replace ((0 <=? r) && (r <? 55296)) with true by lia.
  simpl. replace (r <? 128) with true by lia. unfold string_of_bytes. simpl.
  rewrite byte_of_ascii_of_Z by lia. replace (r <? 128) with true by lia. reflexivity.
Qed.

Lemma map_runes_ascii f s :
  all_ascii s = true -> (forall r, 0 <= r < 128 -> 0 <= f r < 128) ->
  all_ascii (map_runes f s) = true.
Proof.
  intros Ha Hf. unfold map_runes. rewrite runes_ascii by exact Ha.
  induction s as [|c s IH]; simpl; auto.
  simpl in Ha. apply andb_true_iff in Ha as [Hc Ha].
  pose proof (byte_of_range c) as Hr. specialize (Hf (byte_of c) ltac:(lia)).
  replace (0 <=? f (byte_of c)) with true by lia.
  rewrite all_ascii_app, encode_rune_ascii by lia. simpl. auto.
Qed.

Lemma decode_last_rune_ascii t :
  t <> "" -> all_ascii t = true -> snd (decode_last_rune t) = 1%nat.
Proof.
  intros Hne Ha. unfold decode_last_rune, zlen.
  destruct (Z.of_nat (slen t) =? 0) eqn:E0; [destruct t; [congruence|simpl in E0; lia]|].
  destruct (last_char t Hne) as (c & Hd & Hg).
  unfold byte_at. replace (Z.to_nat (Z.of_nat (slen t) - 1)) with (slen t - 1)%nat by lia.
  rewrite Hg.
  assert (Hc : byte_of c <? 128 = true).
  { pose proof (all_ascii_sdrop (slen t - 1) t Ha) as H. rewrite Hd in H. simpl in H.
    now apply andb_true_iff in H as [H _]. }
  now rewrite Hc.
Qed.

Lemma ise_loop_np_ascii s interval : all_ascii s = true -> 0 < interval ->
  forall n en acc, Z.of_nat n * interval <= en <= zlen s ->
    np (ise_loop n s en interval acc).
Proof.
  intros Ha Hi. induction n as [|n IH]; intros en acc Hen; cbn [ise_loop]; [apply np_ok|].
  destruct (decode_last_rune (stake (Z.to_nat en) s)) as [r w] eqn:E.
  assert (Hw : w = 1%nat).
  { replace w with (snd (decode_last_rune (stake (Z.to_nat en) s))) by now rewrite E.
    apply decode_last_rune_ascii; [|now apply all_ascii_stake].
    intros Hc. assert (Hl : slen (stake (Z.to_nat en) s) = Z.to_nat en)
      by (apply slen_stake; unfold zlen in Hen; lia).
    rewrite Hc in Hl. simpl in Hl. lia. }
  subst w. replace (en - interval * Z.of_nat 1 <? 0) with false by lia.
  apply IH. lia.
Qed.

Lemma insert_separators_every_np_ascii s sep interval :
  all_ascii s = true -> np (insert_separators_every s sep interval).
Proof.
  intros Ha. unfold insert_separators_every.
  destruct ((interval <=? 0) || (Z.of_nat (rune_count s) <=? interval)) eqn:E; [apply np_ok|].
  apply lbind_np; [|intros; apply np_ok].
  apply ise_loop_np_ascii; [exact Ha|lia|].
  rewrite rune_count_ascii in * by exact Ha. unfold zlen.
  assert (0 <= (Z.of_nat (slen s) - 1) / interval) by (apply Z.div_pos; lia).
  rewrite Z2Nat.id by lia.
  pose proof (Z.mul_div_le (Z.of_nat (slen s) - 1) interval ltac:(lia)). lia.
Qed.

Definition ascii_digits (fmt : decimal_format) : Prop :=
  0 <= df_zero_digit fmt /\ df_zero_digit fmt + 9 < 128.

Lemma trim_left_func_ascii s f : all_ascii s = true -> all_ascii (trim_left_func s f) = true.
Proof.
  intros H. unfold trim_left_func. destruct (index_func_in _ _ _); [|reflexivity].
  now apply all_ascii_sdrop.
Qed.

Lemma format_integer_part_np_ascii integer vars fmt :
  ascii_digits fmt -> all_ascii integer = true -> np (format_integer_part integer vars fmt).
Proof.
  intros [Hz0 Hz9] Ha. unfold format_integer_part. cbv zeta.
  set (t := trim_left_func integer (is_zero_digit fmt)).
  assert (Ht : all_ascii t = true) by now apply trim_left_func_ascii.
  assert (Hzd : all_ascii (encode_rune (df_zero_digit fmt)) = true)
    by (apply encode_rune_ascii; lia).
  set (padded := if _ =? 1 then _ else _).
  assert (Hp : all_ascii padded = true).
  { unfold padded. destruct (_ =? 1); [now rewrite all_ascii_app, Hzd, Ht|].
    destruct (1 <? _); [|exact Ht].
    rewrite all_ascii_app, Ht, all_ascii_srepeat by exact Hzd. reflexivity. }
  destruct (0 <? sv_group_size vars); [now apply insert_separators_every_np_ascii|].
  destruct (sv_integer_group_positions vars); apply np_ok.
Qed.

Lemma split_string_at_byte_ascii s b :
  all_ascii s = true -> all_ascii (fst (split_string_at_byte s b)) = true.
Proof.
  intros H. unfold split_string_at_byte. destruct (sindex _ s) as [pos|]; [|exact H].
  destruct (sindex _ (sdrop (pos + 1) s)); [reflexivity|]. simpl. now apply all_ascii_stake.
Qed.

Section NoPanic.
  Variable fmt_fixed : f64 -> Z -> string.
  Hypothesis fmt_fixed_ascii : forall x dp, all_ascii (fmt_fixed x dp) = true.

  Lemma make_number_string_ascii value dp fmt :
    ascii_digits fmt -> all_ascii (make_number_string fmt_fixed value dp fmt) = true.
  Proof.
    intros [Hz0 Hz9]. unfold make_number_string. destruct (negb _); [|apply fmt_fixed_ascii].
    apply map_runes_ascii; [apply fmt_fixed_ascii|].
    intros r Hr. destruct ((r - 48 <? 0) || (9 <? r - 48)) eqn:E; [lia|].
    rewrite wrap32_small by lia. lia.
  Qed.

  (* THEOREM 3 (picture_total): FormatNumber never panics, for any value, picture and fuel,
     when the format's separators are valid runes other than U+FFFD and its ten digits are
     ASCII characters *)
  Theorem picture_total fuel value picture fmt :
    good_format fmt -> ascii_digits fmt ->
    np (format_number fmt_fixed fuel value picture fmt).
  Proof.
    intros Hg Hd. unfold format_number.
    destruct (seqb picture ""); [apply np_err|].
    apply lbind_np; [now apply process_picture_no_panic|intros vars _].
    cbv zeta. destruct (is_nan _); [apply np_ok|]. destruct (is_inf _); [apply np_ok|].
    apply lbind_np.
    - destruct (negb _ && negb _); [|apply np_ok].
      destruct (scale_up _ _ _ _) as [[v e]|]; [|intros w; discriminate].
      destruct (scale_down _ _ _ _); [apply np_ok|intros w; discriminate].
    - intros [v e] _.
      destruct (split_string_at_byte _ 46) as [sint sfrac] eqn:Es.
      apply lbind_np; [|intros; apply np_ok].
      destruct (negb (seqb sint "")); [|apply np_ok].
      apply format_integer_part_np_ascii; [exact Hd|].
      replace sint with (fst (split_string_at_byte
        (make_number_string fmt_fixed (xround v (sv_max_fractional_size vars))
           (sv_max_fractional_size vars) fmt) 46)) by now rewrite Es.
      apply split_string_at_byte_ascii. now apply make_number_string_ascii.
  Qed.
End NoPanic.
Print Assumptions picture_total.

(* ---- formats built by newDecimalFormat ---- *)
Record good_runes (f : decimal_format) : Prop := {
  gr_dec : good_rune (df_decimal_separator f);
  gr_grp : good_rune (df_group_separator f);
  gr_exp : good_rune (df_exponent_separator f);
  gr_pat : good_rune (df_pattern_separator f);
  gr_opt : good_rune (df_optional_digit f);
  gr_zero : good_rune (df_zero_digit f)
}.

Lemma rune_len_valid r : 1 <= rune_len r -> valid_rune r = true.
Proof.
  unfold rune_len, valid_rune, is_surrogate, MaxRune.
  repeat match goal with |- context [if ?c then _ else _] => destruct c eqn:? end; lia.
Qed.

Lemma good_runes_default : good_runes default_decimal_format.
Proof. split; split; try reflexivity; discriminate. Qed.

Lemma update_decimal_format_good f k v f' :
  good_runes f -> update_decimal_format f k v = LOk f' -> good_runes f'.
Proof.
  intros [H1 H2 H3 H4 H5 H6]. unfold update_decimal_format.
  destruct f as [ds gs es ms inf nan pc pm zd od ps]. simpl in *.
  destruct (seqb k "infinity"); [intros [= <-]; split; assumption|].
  destruct (seqb k "NaN"); [intros [= <-]; split; assumption|].
  destruct (seqb k "percent"); [intros [= <-]; split; assumption|].
  destruct (seqb k "per-mille"); [intros [= <-]; split; assumption|].
  destruct (decode_rune v) as [r w] eqn:E.
  destruct ((r =? RuneError) || negb (w =? slen v)%nat) eqn:Eb; [discriminate|].
  assert (Hr : good_rune r).
  { assert (Hne : r <> RuneError) by lia. split; [|exact Hne].
    apply rune_len_valid. rewrite (decode_rune_len v r w E Hne).
    assert (v <> "") by (intros ->; simpl in E; injection E as <- _; congruence).
    pose proof (decode_rune_width v H) as Hw. rewrite E in Hw. simpl in Hw. lia. }
  unfold set_rune_field.
  repeat match goal with
         | |- context [if seqb k ?s then _ else _] => destruct (seqb k s)
         end; try discriminate; intros [= <-]; split; assumption.
Qed.

Lemma new_decimal_format_from_good opts : forall f f',
  good_runes f -> new_decimal_format_from f opts = LOk f' -> good_runes f'.
Proof.
  induction opts as [|[k v] opts IH]; intros f f' Hf; simpl.
  - now intros [= <-].
  - destruct (update_decimal_format f k v) as [f1| | | |] eqn:E; simpl; try discriminate.
    intros H. eapply IH; [|exact H]. eapply update_decimal_format_good; eauto.
Qed.

Lemma ascii_digits_good f : good_runes f -> ascii_digits f -> good_format f.
Proof.
  intros [H1 H2 H3 H4 H5 H6] [Hz0 Hz9]. split; auto.
  unfold is_decimal_digit, RuneError. rewrite wrap32_small by lia. lia.
Qed.

(* every format that jlib.newDecimalFormat builds from an options object is good as soon as
   its zero-digit is an ASCII character with nine successors *)
Theorem new_decimal_format_good opts f :
  new_decimal_format opts = LOk f -> ascii_digits f -> good_format f.
Proof.
  intros H Hd. apply ascii_digits_good; [|exact Hd].
  eapply new_decimal_format_from_good; [apply good_runes_default|exact H].
Qed.

(* jlib.FormatNumber (default format or options object) never panics when the zero digit is
   ASCII -- in particular with the default format *)
Corollary lib_format_number_no_panic fmt_fixed fuel value picture options :
  (forall x dp, all_ascii (fmt_fixed x dp) = true) ->
  (forall opts f, options = Some opts -> new_decimal_format opts = LOk f -> ascii_digits f) ->
  np (lib_format_number fmt_fixed fuel value picture options).
Proof.
  intros Hfx Hopt. unfold lib_format_number. destruct options as [opts|].
  - apply lbind_np.
    + intros w. clear Hopt. unfold new_decimal_format. generalize default_decimal_format.
      induction opts as [|[k v] opts IH]; intros f; simpl; [discriminate|].
      destruct (update_decimal_format f k v) as [f1|t| |w'|] eqn:E; simpl; try discriminate.
      * apply IH.
      * exfalso. unfold update_decimal_format in E. destruct f.
        repeat match type of E with
               | context [if ?c then _ else _] => destruct c; try discriminate
               | context [let '(_, _) := ?p in _] => destruct p
               | context [match ?x with Some _ => _ | None => _ end] => destruct x; try discriminate
               end.
    + intros f Hf. apply picture_total; auto.
      apply (new_decimal_format_good opts f Hf). eauto. eapply Hopt; eauto.
  - apply picture_total; auto.
    + apply ascii_digits_good; [apply good_runes_default|]. split; simpl; lia.
    + split; simpl; lia.
Qed.
Print Assumptions lib_format_number_no_panic.

(* ---- closed instances (JV.Base.Decimal for strconv) ---- *)
From JV.Base Require Import Decimal.
From JV.Model Require Import LibNumberInst.

Lemma digit_char_ascii d : 0 <= d < 36 -> byte_of (digit_char d) <? 128 = true.
Proof.
  intros H. unfold digit_char. destruct (d <? 10); rewrite byte_of_ascii_of_Z; lia.
Qed.

Lemma int_digits_ascii base : 2 <= base <= 36 -> forall fuel z acc,
  0 <= z -> all_ascii acc = true -> all_ascii (int_digits fuel z base acc) = true.
Proof.
  intros Hb. induction fuel as [|f IH]; intros z acc Hz Ha; cbn [int_digits]; [exact Ha|].
  assert (Hm : 0 <= z mod base < base) by (apply Z.mod_pos_bound; lia).
  assert (Hacc : all_ascii (String (digit_char (z mod base)) acc) = true)
    by (simpl; rewrite digit_char_ascii by lia; exact Ha).
  destruct (z <? base); [exact Hacc|]. apply IH; [apply Z.div_pos; lia|exact Hacc].
Qed.

Lemma zeros_ascii n : all_ascii (zeros n) = true.
Proof. unfold zeros. now apply all_ascii_srepeat. Qed.

Lemma fmtF_ascii neg ds dp prec : all_ascii ds = true -> all_ascii (fmtF neg ds dp prec) = true.
Proof.
  intros H. unfold fmtF. cbv zeta.
  repeat rewrite all_ascii_app.
  repeat match goal with
         | |- context [if ?c then _ else _] => destruct c
         end;
    repeat rewrite all_ascii_app;
    rewrite ?zeros_ascii, ?all_ascii_stake, ?all_ascii_sdrop; auto;
    try (apply all_ascii_stake; apply all_ascii_sdrop; exact H);
    try (apply all_ascii_sdrop; exact H).
Qed.

Lemma digits_of_Z_ascii z : all_ascii (digits_of_Z z) = true.
Proof.
  unfold digits_of_Z. destruct (z <=? 0) eqn:E; [reflexivity|].
  apply int_digits_ascii; auto; lia.
Qed.

Lemma format_float_fixed_ascii x p : all_ascii (format_float_fixed x p) = true.
Proof.
  unfold format_float_fixed. destruct x as [s|s| |s m e].
  - now apply fmtF_ascii.
  - destruct s; reflexivity.
  - reflexivity.
  - cbv zeta. destruct (_ =? 0); apply fmtF_ascii; [reflexivity|apply digits_of_Z_ascii].
Qed.

(* THEOREM 3, closed: the instantiated model of jxpath.FormatNumber never panics for formats
   with valid separators and ASCII digits *)
Theorem go_format_number_no_panic fuel value picture fmt :
  good_format fmt -> ascii_digits fmt -> np (go_format_number fuel value picture fmt).
Proof. apply picture_total. exact format_float_fixed_ascii. Qed.
Print Assumptions go_format_number_no_panic.

Example good_default : good_format default_decimal_format /\ ascii_digits default_decimal_format.
Proof.
  split; [apply ascii_digits_good; [apply good_runes_default|]|]; split; simpl; lia.
Qed.

(* ... and the restriction to uniform digit widths is necessary: with zero-digit U+007F the
   digits 0 and 1..9 are one and two bytes wide, insertSeparatorsEvery steps back by
   interval * (width of the LAST rune) bytes and slices s[-1:5]
   (Go: "slice bounds out of range [-1:]") *)
Definition fmt_del_digits : decimal_format :=
  mk_decimal_format 46 44 101 45 "Infinity" "NaN" "%" (encode_rune 8240) 127 35 59.
Example picture_total_refuted_for_mixed_width_digits :
  good_format fmt_del_digits /\
  exists w, go_format_number 10 (f_of_Z 1)
              (String (ascii_of_Z 127) ("," ++ String (ascii_of_Z 127) (String (ascii_of_Z 127)
                 (String (ascii_of_Z 127) ""))))
              fmt_del_digits = LPanic w.
Proof.
  split.
  - split; try (split; [reflexivity|discriminate]). reflexivity.
  - eexists. vm_compute. reflexivity.
Qed.

(* ==================================================================================== *)
(* 2'. Closed forms of Theorem 2 for good formats                                        *)
(*      exp_excludes_percent           an accepted exponent picture has no percent sign   *)
(*      scaling_factor_bounds          0 <= ScalingFactor <= length of the sub-picture    *)
(*      format_number_terminates_good  every double, picture of <= 4200 bytes: never LFuel *)
(* ==================================================================================== *)

(* ---- inversion of the analyser ---- *)
Lemma lbind_ok_inv {A B} (x : lres A) (f : A -> lres B) b :
  lbind x f = LOk b -> exists a, x = LOk a /\ f a = LOk b.
Proof. destruct x; simpl; try discriminate. eauto. Qed.

Lemma go_slice_from_ok s i r : go_slice_from s i = LOk r -> r = sdrop (Z.to_nat i) s.
Proof. unfold go_slice_from. destruct (_ && _); [now intros [= <-]|discriminate]. Qed.

Lemma split_len s r a b :
  split_string_at_rune s r = LOk (a, b) -> (slen a <= slen s /\ slen b <= slen s)%nat.
Proof.
  unfold split_string_at_rune. destruct (index_rune s r) as [pos|].
  - intros H. apply lbind_ok_inv in H as (s2 & Hs & H). apply go_slice_from_ok in Hs. subst s2.
    destruct (negb _); injection H as <- <-; simpl.
    + split; [apply slen_stake_le|apply slen_sdrop_le].
    + lia.
  - intros [= <- <-]. simpl. lia.
Qed.

Lemma filter_len_le {A} (f : A -> bool) (l : list A) : (List.length (filter f l) <= List.length l)%nat.
Proof. induction l as [|a l IH]; simpl; [lia|]. destruct (f a); simpl; lia. Qed.

Lemma rune_count_func_bounds s f : 0 <= rune_count_func s f <= Z.of_nat (slen s).
Proof.
  unfold rune_count_func. split; [lia|]. apply inj_le.
  eapply Nat.le_trans; [apply filter_len_le|].
  unfold runes. generalize (slen s) at 1 as fuel. intros fuel. revert s.
  induction fuel as [|fu IH]; intros s; simpl; [lia|].
  destruct s as [|c s']; [simpl; lia|].
  destruct (decode_rune (String c s')) as [r w] eqn:E. simpl.
  pose proof (decode_rune_width (String c s') ltac:(discriminate)) as Hw. rewrite E in Hw.
  simpl in Hw. specialize (IH (sdrop w (String c s'))). rewrite slen_sdrop in IH.
  unfold slen in *. simpl String.length in *. lia.
Qed.

Lemma rune_count_func_nil f : rune_count_func "" f = 0.
Proof. reflexivity. Qed.

(* what the variables of an accepted sub-picture are made of *)
Lemma analyse_inv parts fmt v :
  analyse_subpicture_parts parts fmt = LOk v ->
  sv_scaling_factor v = rune_count_func (sp_integer parts) (is_decimal_digit fmt) /\
  sv_min_exponent_size v = rune_count_func (sp_exponent parts) (is_decimal_digit fmt) /\
  sv_number_type v = (if scontains (df_percent fmt) (sp_picture parts) then 1
                      else if scontains (df_per_mille fmt) (sp_picture parts) then 2 else 0).
Proof.
  unfold analyse_subpicture_parts. cbv zeta. intros H.
  apply lbind_ok_inv in H as (igp & _ & H). apply lbind_ok_inv in H as (fgp & _ & H).
  repeat match type of H with
         | context [let '(_, _) := ?p in _] => destruct p
         end.
  injection H as <-. simpl. auto.
Qed.

Lemma extract_inv sub fmt parts :
  extract_subpicture_parts sub fmt = LOk parts ->
  sp_picture parts = sub /\
  (slen (sp_integer parts) <= slen sub)%nat /\
  (exists a b, sp_active parts = sslice a b sub) /\
  (sp_exponent parts <> "" ->
   exists pos, index_rune (sp_active parts) (df_exponent_separator fmt) = Some pos).
Proof.
  unfold extract_subpicture_parts. cbv zeta.
  set (first := match index_func sub _ with Some i => i | None => 0%nat end).
  set (last := match last_index_func sub _ true with
               | None => slen sub
               | Some l => let '(_, w) := decode_rune (sdrop l sub) in (l + w)%nat end).
  destruct (last <? first)%nat; [discriminate|]. intros H.
  apply lbind_ok_inv in H as ([mant ex] & Hme & H).
  apply lbind_ok_inv in H as ([ip fp] & Hif & H). injection H as <-. simpl.
  assert (Hact : (slen (sslice first last sub) <= slen sub)%nat).
  { unfold sslice. eapply Nat.le_trans; [apply slen_stake_le|apply slen_sdrop_le]. }
  assert (Hmant : (slen mant <= slen (sslice first last sub))%nat /\
                  (ex <> "" -> exists pos, index_rune (sslice first last sub)
                                                       (df_exponent_separator fmt) = Some pos)).
  { destruct (index_rune (sslice first last sub) (df_exponent_separator fmt)) as [pos|].
    - apply lbind_ok_inv in Hme as (e' & _ & Hme). injection Hme as <- <-.
      split; [apply slen_stake_le|eauto].
    - injection Hme as <- <-. split; [lia|congruence]. }
  destruct Hmant as [Hmant Hex].
  assert (Hip : (slen ip <= slen mant)%nat).
  { destruct (index_rune mant (df_decimal_separator fmt)) as [pos|].
    - apply lbind_ok_inv in Hif as (f' & _ & Hif). injection Hif as <- <-. apply slen_stake_le.
    - injection Hif as <- <-. lia. }
  repeat split; auto; try lia. eauto.
Qed.

Lemma process_subpicture_inv sub fmt v :
  process_subpicture sub fmt = LOk v ->
  exists parts, extract_subpicture_parts sub fmt = LOk parts /\
                validate_subpicture_parts parts fmt = LOk tt /\
                analyse_subpicture_parts parts fmt = LOk v.
Proof.
  unfold process_subpicture. intros H.
  apply lbind_ok_inv in H as (parts & He & H). apply lbind_ok_inv in H as ([] & Hv & H). eauto.
Qed.

Lemma process_picture_inv pic fmt neg vars :
  process_picture pic fmt neg = LOk vars ->
  exists sub v0, (slen sub <= slen pic)%nat /\ process_subpicture sub fmt = LOk v0 /\
    sv_number_type vars = sv_number_type v0 /\
    sv_min_exponent_size vars = sv_min_exponent_size v0 /\
    sv_scaling_factor vars = sv_scaling_factor v0.
Proof.
  unfold process_picture. intros H.
  apply lbind_ok_inv in H as ([pic1 pic2] & Hs & H). apply split_len in Hs as [Hl1 Hl2].
  destruct (seqb pic1 ""); [discriminate|].
  apply lbind_ok_inv in H as (v1 & H1 & H). apply lbind_ok_inv in H as (v2 & H2 & H).
  destruct neg.
  - destruct (negb (seqb pic2 "")) eqn:E.
    + injection H as <-. apply negb_true_iff in E. rewrite E in H2. exists pic2, v2. auto.
    + injection H as <-. exists pic1, v1. simpl. auto.
  - injection H as <-. exists pic1, v1. auto.
Qed.

Ltac vstep H :=
  match type of H with
  | (if ?c then _ else _) = LOk _ =>
      let E := fresh "E" in
      destruct c eqn:E;
      try discriminate H; try (destruct (contains_rune _ _); discriminate H)
  | (match index_func ?s ?f with Some _ => _ | None => _ end) = LOk _ =>
      destruct (index_func s f); try discriminate H
  | lbind _ _ = LOk _ => apply lbind_ok_inv in H as (? & _ & H)
  end.

(* an accepted sub-picture does not have both an exponent separator and a percent or
   per-mille sign *)
Lemma validate_exclusive parts fmt :
  validate_subpicture_parts parts fmt = LOk tt ->
  (0 <? scount (sp_picture parts) (encode_rune (df_exponent_separator fmt))) &&
  ((0 <? scount (sp_picture parts) (df_percent fmt)) ||
   (0 <? scount (sp_picture parts) (df_per_mille fmt))) = false.
Proof.
  unfold validate_subpicture_parts. cbv zeta. intros H.
  repeat vstep H. reflexivity.
Qed.

(* ---- substring facts ---- *)
Lemma sindex_from_exists sub : forall s off i,
  (i <= slen s)%nat -> sprefix sub (sdrop i s) = true ->
  exists j, sindex_from sub s off = Some j.
Proof.
  induction s as [|c s IH]; intros off i Hi Hp.
  - simpl in Hi. assert (i = 0%nat) by lia. subst i. simpl in *. rewrite Hp. eauto.
  - cbn [sindex_from]. destruct (sprefix sub (String c s)) eqn:E; [eauto|].
    destruct i as [|i]; [simpl in Hp; congruence|].
    simpl in Hp, Hi. apply (IH (S off) i); [lia|exact Hp].
Qed.

Lemma sindex_from_prefix sub : forall s off j,
  sindex_from sub s off = Some j ->
  (off <= j)%nat /\ (j - off <= slen s)%nat /\ sprefix sub (sdrop (j - off) s) = true.
Proof.
  induction s as [|c s IH]; intros off j; cbn [sindex_from].
  - destruct (sprefix sub "") eqn:E; [|discriminate]. intros [= <-].
    rewrite Nat.sub_diag. simpl. auto with arith.
  - destruct (sprefix sub (String c s)) eqn:E.
    + intros [= <-]. rewrite Nat.sub_diag. simpl. split; [lia|split; [lia|exact E]].
    + intros H. apply IH in H as (H1 & H2 & H3).
      replace (j - off)%nat with (S (j - S off)) by lia. simpl. split; [lia|split; [lia|exact H3]].
Qed.

Lemma sprefix_stake p : forall n t, sprefix p (stake n t) = true -> sprefix p t = true.
Proof.
  induction p as [|x p IH]; intros n t; [reflexivity|].
  destruct n as [|n]; destruct t as [|y t]; simpl; try discriminate.
  intros H. apply andb_true_iff in H as [H1 H2]. rewrite H1. simpl. eauto.
Qed.

Lemma sdrop_stake i : forall n t, sdrop i (stake n t) = stake (n - i) (sdrop i t).
Proof.
  induction i as [|i IH]; intros n t; simpl.
  - now rewrite Nat.sub_0_r.
  - destruct n as [|n]; destruct t as [|y t]; simpl; auto.
    now destruct (n - i)%nat.
Qed.

Lemma sindex_sslice sub a b s i :
  sindex sub (sslice a b s) = Some i -> exists j, sindex sub s = Some j.
Proof.
  unfold sindex, sslice. intros H. apply sindex_from_prefix in H as (_ & Hle & Hp).
  rewrite Nat.sub_0_r in *. rewrite sdrop_stake in Hp. apply sprefix_stake in Hp.
  rewrite sdrop_sdrop in Hp.
  destruct (le_lt_dec (a + i) (slen s)) as [Hl|Hl].
  - now apply (sindex_from_exists sub s 0 (a + i)%nat).
  - (* beyond the end: sdrop gives "", so sub = "" and it is found at 0 *)
    assert (Hd : sdrop (a + i) s = "").
    { pose proof (slen_sdrop (a + i) s) as Hs. destruct (sdrop (a + i) s); [reflexivity|].
      exfalso. unfold slen in *. cbn [String.length] in Hs. lia. }
    rewrite Hd in Hp. destruct sub as [|x sub]; [|discriminate].
    apply (sindex_from_exists "" s 0 0%nat); [lia|reflexivity].
Qed.

Lemma count_from_nonneg sub : forall fuel s, 0 <= count_from fuel sub s.
Proof.
  induction fuel as [|f IH]; intros s; cbn [count_from]; [lia|].
  destruct (sindex sub s); [specialize (IH (sdrop (n + slen sub) s))|]; lia.
Qed.

Lemma scount_pos s sub j : sindex sub s = Some j -> 1 <= scount s sub.
Proof.
  intros H. unfold scount. destruct sub as [|x sub]; [lia|].
  cbn [count_from]. rewrite H.
  pose proof (count_from_nonneg (String x sub) (slen s) (sdrop (j + slen (String x sub)) s)). lia.
Qed.

Lemma scontains_scount sub s : scontains sub s = true -> 1 <= scount s sub.
Proof.
  unfold scontains. destruct (sindex sub s) as [j|] eqn:E; [|discriminate].
  intros _. eapply scount_pos; eauto.
Qed.

Lemma index_rune_sindex s r pos :
  good_rune r -> index_rune s r = Some pos -> sindex (encode_rune r) s = Some pos.
Proof.
  intros [Hv Hne] H. unfold index_rune in H.
  destruct ((0 <=? r) && (r <? 128)) eqn:E.
  - unfold encode_rune. rewrite Hv. replace (r <? 128) with true by lia. exact H.
  - replace (r =? RuneError) with false in H by lia. rewrite Hv in H. exact H.
Qed.

(* in an accepted sub-picture an exponent part excludes percent and per-mille *)
Lemma exp_excludes_percent sub fmt v :
  good_format fmt -> process_subpicture sub fmt = LOk v ->
  sv_min_exponent_size v <> 0 -> sv_number_type v = 0.
Proof.
  intros Hg H Hexp. apply process_subpicture_inv in H as (parts & He & Hv & Ha).
  apply analyse_inv in Ha as (_ & Hmin & Hty).
  apply extract_inv in He as (Hpic & _ & (a & b & Hact) & Hex).
  apply validate_exclusive in Hv.
  assert (Hne : sp_exponent parts <> "").
  { intros Hc. rewrite Hc, rune_count_func_nil in Hmin. congruence. }
  destruct (Hex Hne) as (pos & Hpos).
  apply (index_rune_sindex _ _ _ (gf_exp fmt Hg)) in Hpos.
  rewrite Hact, <- Hpic in Hpos. apply sindex_sslice in Hpos as (j & Hj).
  apply scount_pos in Hj.
  replace (0 <? scount (sp_picture parts) (encode_rune (df_exponent_separator fmt)))
    with true in Hv by lia.
  simpl in Hv. apply orb_false_iff in Hv as [Hp Hm].
  rewrite Hty.
  destruct (scontains (df_percent fmt) (sp_picture parts)) eqn:E1;
    [apply scontains_scount in E1; lia|].
  destruct (scontains (df_per_mille fmt) (sp_picture parts)) eqn:E2;
    [apply scontains_scount in E2; lia|].
  reflexivity.
Qed.

Lemma scaling_factor_bounds sub fmt v :
  process_subpicture sub fmt = LOk v -> 0 <= sv_scaling_factor v <= Z.of_nat (slen sub).
Proof.
  intros H. apply process_subpicture_inv in H as (parts & He & _ & Ha).
  apply analyse_inv in Ha as (Hsf & _ & _).
  apply extract_inv in He as (_ & Hlen & _ & _).
  rewrite Hsf. pose proof (rune_count_func_bounds (sp_integer parts) (is_decimal_digit fmt)). lia.
Qed.

(* THEOREM 2, closed form: for a format with valid separators and digits, FormatNumber
   terminates (fuel 701 is enough) for EVERY double -- zero, negative, positive, NaN or
   infinite -- and EVERY picture of at most 4200 bytes *)
Theorem format_number_terminates_good fmt_fixed fuel value picture fmt :
  good_format fmt -> (701 <= fuel)%nat -> SpecFloat.valid_binary 53 1024 value = true ->
  (slen picture <= 4200)%nat ->
  format_number fmt_fixed fuel value picture fmt <> LFuel.
Proof.
  intros Hg Hfuel Hv Hlen. apply format_number_terminates_all; auto.
  intros vars Hpp Hexp.
  apply process_picture_inv in Hpp as (sub & v0 & Hsub & Hps & Hty & Hmin & Hsf).
  rewrite Hty, Hsf. rewrite Hmin in Hexp. split.
  - eapply exp_excludes_percent; eauto.
  - pose proof (scaling_factor_bounds sub fmt v0 Hps). lia.
Qed.
Print Assumptions format_number_terminates_good.

(* the formerly hanging calls *)
Example formerly_hanging :
  go_format_number 701 fzero "0.0e0" default_decimal_format = LOk "0.0e0" /\
  go_format_number 701 fnzero "0.0e0" default_decimal_format = LOk "0.0e0" /\
  go_format_number 701 (f_of_Z (-1234)) "0.0e0" default_decimal_format = LOk "-1.2e3".
Proof. repeat split; vm_compute; reflexivity. Qed.

(* ---- shape of the result: prefix, body, suffix; minus sign or negative sub-picture ---- *)
Theorem format_number_prefix_suffix fmt_fixed fuel value picture fmt s :
  format_number fmt_fixed fuel value picture fmt = LOk s ->
  exists vars body,
    process_picture picture fmt (fltb value fzero) = LOk vars /\
    s = sv_prefix vars ++ body ++ sv_suffix vars.
Proof.
  unfold format_number. destruct (seqb picture ""); [discriminate|]. intros H.
  apply lbind_ok_inv in H as (vars & Hpp & H). exists vars.
  cbv zeta in H.
  destruct (is_nan _); [injection H as <-; exists (df_nan fmt); split; [exact Hpp|reflexivity]|].
  destruct (is_inf _); [injection H as <-; exists (df_infinity fmt); split; [exact Hpp|reflexivity]|].
  apply lbind_ok_inv in H as ([v e] & _ & H).
  destruct (split_string_at_byte _ 46) as [sint sfrac].
  apply lbind_ok_inv in H as (ip & _ & H). injection H as <-.
  match goal with
  | |- exists body, _ /\ (_ ++ ?a ++ ?b ++ ?c ++ _ = _) => exists (a ++ b ++ c)
  end.
  split; [exact Hpp|]. f_equal. now rewrite !sapp_assoc.
Qed.

(* which sub-picture supplies the variables: a negative value uses the second sub-picture
   when there is one, otherwise the first with the minus sign in front of its prefix *)
Theorem process_picture_negative picture fmt vars :
  process_picture picture fmt true = LOk vars ->
  exists pic1 pic2 v1,
    split_string_at_rune picture (df_pattern_separator fmt) = LOk (pic1, pic2) /\
    process_subpicture pic1 fmt = LOk v1 /\
    ((pic2 <> "" /\ process_subpicture pic2 fmt = LOk vars) \/
     (pic2 = "" /\ vars = set_prefix v1 (encode_rune (df_minus_sign fmt) ++ sv_prefix v1))).
Proof.
  unfold process_picture. intros H.
  apply lbind_ok_inv in H as ([pic1 pic2] & Hs & H).
  destruct (seqb pic1 ""); [discriminate|].
  apply lbind_ok_inv in H as (v1 & H1 & H). apply lbind_ok_inv in H as (v2 & H2 & H).
  exists pic1, pic2, v1. split; [exact Hs|]. split; [exact H1|].
  destruct (seqb pic2 "") eqn:E; simpl in H; injection H as <-.
  - right. apply seqb_eq in E. auto.
  - left. split; [|exact H2]. intros ->. simpl in E. discriminate.
Qed.
Print Assumptions format_number_prefix_suffix.
Print Assumptions process_picture_negative.

(* ------------------------------------------------------------------------------------ *)
(* Formerly defective calls, now repaired (patches 0002-0005 of /tmp/numfix_patches, which  *)
(* the model follows); each was a witness of a defect on the original tree.                *)
(* ------------------------------------------------------------------------------------ *)
Definition decf (s : string) : f64 := match parse_float s with PFOk x => x | _ => S754_nan end.

(* irregular grouping: was ",,12" and ",1,234.5" (separators in front of short numbers) *)
Example repaired_leading_separators :
  go_format_number 701 (decf "12") "#,##,###" default_decimal_format = LOk "12" /\
  go_format_number 701 (decf "1234.5") "#,##,##0.0" default_decimal_format = LOk "1,234.5" /\
  go_format_number 701 (decf "1234567") "#,##,###" default_decimal_format = LOk "12,34,567".
Proof. repeat split; vm_compute; reflexivity. Qed.

(* fractional grouping: was "0.333,3333," and "0.5," (cumulative positions used as relative
   ones, cuts beyond the last digit) *)
Example repaired_fraction_grouping :
  go_format_number 701 (decf "0.3333333333333333") "0.###,###,#" default_decimal_format
    = LOk "0.333,333,3" /\
  go_format_number 701 (decf "0.5") "0.###,#" default_decimal_format = LOk "0.5" /\
  go_format_number 701 (decf "0.5") "0.0,0" default_decimal_format = LOk "0.5,0".
Proof. repeat split; vm_compute; reflexivity. Qed.

(* percent scaling that overflows: was "+Inf%" *)
Example repaired_percent_overflow :
  go_format_number 701 (decf "1e308") "0%" default_decimal_format = LOk "Infinity%" /\
  go_format_number 701 (decf "-1e308") "0%" default_decimal_format = LOk "-Infinity%".
Proof. split; vm_compute; reflexivity. Qed.

(* jxpath.round: was "450359962737049.8" and "1" (floor(intermed + 0.5)) *)
Example repaired_xround :
  go_format_number 701 (decf "450359962737049.7") "0.0" default_decimal_format
    = LOk "450359962737049.7" /\
  go_format_number 701 (decf "0.49999999999999994") "0" default_decimal_format = LOk "0".
Proof. split; vm_compute; reflexivity. Qed.

(* not changed (matches the reference implementation, reads back correctly): the mantissa of
   an exponent picture may reach 10^N *)
Example mantissa_may_reach_max :
  go_format_number 701 (decf "10") "0.0e0" default_decimal_format = LOk "10.0e0".
Proof. vm_compute. reflexivity. Qed.
