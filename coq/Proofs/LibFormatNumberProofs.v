(* Proofs/LibFormatNumberProofs.v — theorems about Model/LibFormatNumber.v
   (jlib/jxpath/formatnumber.go).

   2. Termination of the exponent scaling loops of FormatNumber
        scale_loops_terminate        both loops stop within 701 iterations for every finite
                                     double > 0 (Flocq: Bmult_correct / Bdiv_correct)
        format_number_terminates     FormatNumber <> LFuel with fuel >= 701 (general form)
        format_number_terminates_pos ... for every finite value > 0
        format_number_diverges_nonpos  for value <= 0 and an exponent picture the first loop
                                     makes no progress: LFuel for EVERY fuel (Go hangs)
   3. Panic freedom of the picture analyser and formatter (see the second half of the file).

   Uses Flocq (proof file only).  Print Assumptions shows the four axioms of the Coq standard
   library's classical real numbers (sig_not_dec, sig_forall_dec,
   functional_extensionality_dep, classic) for the theorems that go through Flocq's real-number
   semantics, and nothing else. *)
From Coq Require Import ZArith Bool List Ascii String Lia ZifyBool Reals Lra.
From Flocq Require Import Core IEEE754.BinarySingleNaN.
From JV.Base Require Import Bytes Utf8 F64 Res.
From JV.Model Require Import LibNumber LibFormatNumber.
Open Scope Z_scope.

(* ---- bridge SpecFloat <-> Flocq (binary64) ---- *)
#[global] Instance Hprec53 : Prec_gt_0 53 := eq_refl.
#[global] Instance Hmax1024 : Prec_lt_emax 53 1024 := eq_refl.
Notation b64 := (binary_float 53 1024).
Notation fexp64 := (SpecFloat.fexp 53 1024).
Notation rnd64 := (Generic_fmt.round radix2 fexp64 (round_mode mode_NE)).

Lemma round_nearest_even_equiv s m l :
  round_nearest_even m l = choice_mode mode_NE s m l.
Proof.
  case l; [reflexivity|intro c].
  case c; [ | reflexivity..].
  now simpl; unfold Round.cond_incr; case Z.even.
Qed.

Lemma binary_round_aux_equiv sx mx ex lx :
  SpecFloat.binary_round_aux 53 1024 sx mx ex lx
  = BinarySingleNaN.binary_round_aux 53 1024 mode_NE sx mx ex lx.
Proof.
  unfold SpecFloat.binary_round_aux, BinarySingleNaN.binary_round_aux.
  set (mrse' := shr_fexp _ _ _ _ _).
  case mrse'; intros mrs' e'; simpl.
  now rewrite (round_nearest_even_equiv sx).
Qed.

Lemma fmul_B2SF (x y : b64) : fmul (B2SF x) (B2SF y) = B2SF (Bmult mode_NE x y).
Proof.
  unfold fmul.
  destruct x as [sx|sx| |sx mx ex Bx]; destruct y as [sy|sy| |sy my ey By]; try reflexivity.
  simpl. rewrite B2SF_SF2B. apply binary_round_aux_equiv.
Qed.

Lemma fdiv_B2SF (x y : b64) : fdiv (B2SF x) (B2SF y) = B2SF (Bdiv mode_NE x y).
Proof.
  unfold fdiv.
  destruct x as [sx|sx| |sx mx ex Bx]; destruct y as [sy|sy| |sy my ey By]; try reflexivity.
  simpl. rewrite B2SF_SF2B.
  set (melz := SFdiv_core_binary _ _ _ _ _ _).
  case melz as [[mz ez] lz].
  apply binary_round_aux_equiv.
Qed.

(* ---- positive finite doubles and their real value ---- *)
Definition posfin (x : f64) : Prop :=
  exists m e, x = S754_finite false m e /\ SpecFloat.bounded 53 1024 m e = true.
Definition R_of (x : f64) : R := SF2R radix2 x.

Definition Hten : SpecFloat.bounded 53 1024 5629499534213120 (-49) = true := eq_refl.
Definition Bten : b64 := B754_finite false 5629499534213120 (-49) Hten.
Definition B100 : b64 := @B754_finite 53 1024 false 7036874417766400 (-46) eq_refl.
Definition B1000 : b64 := @B754_finite 53 1024 false 8796093022208000 (-43) eq_refl.
Lemma Bten_ok : B2SF Bten = f_ten. Proof. reflexivity. Qed.
Lemma B100_ok : B2SF B100 = f_100. Proof. reflexivity. Qed.
Lemma B1000_ok : B2SF B1000 = f_1000. Proof. reflexivity. Qed.

Lemma B2R_Bten : B2R Bten = 10%R.
Proof. unfold Bten, B2R, F2R; simpl. lra. Qed.

Lemma fexp64_le k : -1074 <= k -> fexp64 (k + 1) <= k.
Proof. unfold SpecFloat.fexp, SpecFloat.emin. lia. Qed.

Lemma gen_bpow k : -1074 <= k -> generic_format radix2 fexp64 (bpow radix2 k).
Proof. intros H. apply generic_format_bpow. now apply fexp64_le. Qed.

Lemma mul_step (m : positive) (e : Z) (H : SpecFloat.bounded 53 1024 m e = true)
      (mc : positive) (ec : Z) (Hc : SpecFloat.bounded 53 1024 mc ec = true) (k : Z) :
  let X := B754_finite false m e H in
  let C := B754_finite false mc ec Hc in
  (8 <= B2R C)%R -> (bpow radix2 k <= B2R X)%R -> -1077 <= k ->
  let Z := Bmult mode_NE X C in
  B2SF Z = S754_infinity false \/
  (exists m' e' H', Z = B754_finite false m' e' H' /\ (bpow radix2 (k + 3) <= B2R Z)%R).
Proof.
  intros X C HC HX Hk Z.
  pose proof (Bmult_correct 53 1024 Hprec53 Hmax1024 mode_NE X C) as HM. fold Z in HM.
  destruct (Rlt_bool _ _).
  - right. destruct HM as (HR & Hfin & Hsign).
    assert (Hge : (bpow radix2 (k + 3) <= B2R Z)%R).
    { rewrite HR. apply round_ge_generic; [typeclasses eauto|typeclasses eauto| |].
      - apply gen_bpow. lia.
      - rewrite bpow_plus. change (bpow radix2 3) with 8%R.
        assert (0 < bpow radix2 k)%R by apply bpow_gt_0. nra. }
    assert (Hpos : (0 < bpow radix2 (k + 3))%R) by apply bpow_gt_0.
    destruct Z as [s|s| |s m' e' H'] eqn:EZ; simpl in Hfin; try discriminate.
    + simpl in Hge. lra.
    + exists m', e', H'. split; [|exact Hge].
      specialize (Hsign eq_refl). simpl in Hsign. now subst s.
  - left. rewrite HM. reflexivity.
Qed.

Lemma B2R_posfin_pos (m : positive) (e : Z) (H : SpecFloat.bounded 53 1024 m e = true) :
  (0 < B2R (B754_finite false m e H))%R.
Proof. simpl. apply F2R_gt_0. reflexivity. Qed.

(* the quotient by ten never overflows *)
Lemma div10_no_overflow (X : b64) :
  (0 <= B2R X)%R ->
  (Rabs (rnd64 (B2R X / B2R Bten)) < bpow radix2 1024)%R.
Proof.
  intros Hpos. rewrite B2R_Bten.
  assert (H0 : (0 <= rnd64 (B2R X / 10))%R).
  { apply round_ge_generic; [typeclasses eauto|typeclasses eauto|apply generic_format_0|lra]. }
  assert (H1 : (rnd64 (B2R X / 10) <= B2R X)%R).
  { apply round_le_generic; [typeclasses eauto|typeclasses eauto| |lra].
    apply generic_format_B2R. }
  rewrite Rabs_pos_eq by exact H0.
  pose proof (abs_B2R_lt_emax 53 1024 X) as H2. rewrite Rabs_pos_eq in H2 by exact Hpos. lra.
Qed.

Lemma div_step (m : positive) (e : Z) (H : SpecFloat.bounded 53 1024 m e = true) (k : Z) :
  let X := B754_finite false m e H in
  (B2R X <= bpow radix2 k)%R -> -1071 <= k ->
  let Z := Bdiv mode_NE X Bten in
  B2SF Z = S754_zero false \/
  (exists m' e' H', Z = B754_finite false m' e' H' /\ (B2R Z <= bpow radix2 (k - 3))%R).
Proof.
  intros X HX Hk Z.
  assert (Hne : B2R Bten <> 0%R) by (rewrite B2R_Bten; lra).
  pose proof (Bdiv_correct 53 1024 Hprec53 Hmax1024 mode_NE X Bten Hne) as HD. fold Z in HD.
  pose proof (B2R_posfin_pos m e H) as Hpos. fold X in Hpos.
  rewrite Rlt_bool_true in HD by (apply div10_no_overflow; lra).
  destruct HD as (HR & Hfin & Hsign).
  assert (Hle : (B2R Z <= bpow radix2 (k - 3))%R).
  { rewrite HR. apply round_le_generic; [typeclasses eauto|typeclasses eauto| |].
    - apply gen_bpow. lia.
    - rewrite B2R_Bten. unfold Zminus. rewrite bpow_plus. change (bpow radix2 (- (3))) with (/ 8)%R.
      assert (0 < bpow radix2 k)%R by apply bpow_gt_0. lra. }
  destruct Z as [s|s| |s m' e' H'] eqn:EZ; simpl in Hfin; try discriminate.
  - left. specialize (Hsign eq_refl). simpl in Hsign. now subst s.
  - right. exists m', e', H'. split; [|exact Hle].
    specialize (Hsign eq_refl). simpl in Hsign. now subst s.
Qed.

Lemma div_small (m : positive) (e : Z) (H : SpecFloat.bounded 53 1024 m e = true) :
  let X := B754_finite false m e H in
  (B2R X <= bpow radix2 (-1072))%R ->
  B2SF (Bdiv mode_NE X Bten) = S754_zero false.
Proof.
  intros X HX. set (Z := Bdiv mode_NE X Bten).
  assert (Hne : B2R Bten <> 0%R) by (rewrite B2R_Bten; lra).
  pose proof (Bdiv_correct 53 1024 Hprec53 Hmax1024 mode_NE X Bten Hne) as HD. fold Z in HD.
  pose proof (B2R_posfin_pos m e H) as Hpos. fold X in Hpos.
  rewrite Rlt_bool_true in HD by (apply div10_no_overflow; lra).
  destruct HD as (HR & Hfin & Hsign).
  assert (Hz : B2R Z = 0%R).
  { rewrite HR, B2R_Bten. set (y := (B2R X / 10)%R).
    assert (Hy : (0 < y)%R) by (unfold y; lra).
    assert (Hylt : (y < bpow radix2 (-1075))%R).
    { unfold y. change (-1075) with (-1072 + -3). rewrite bpow_plus.
      change (bpow radix2 (-3)) with (/ 8)%R.
      assert (0 < bpow radix2 (-1072))%R by apply bpow_gt_0. lra. }
    destruct (mag radix2 y) as [ex Hex]. specialize (Hex ltac:(lra)).
    rewrite Rabs_pos_eq in Hex by lra.
    apply (round_N_small_pos radix2 fexp64 _ y ex Hex).
    assert (ex - 1 < -1075).
    { apply (lt_bpow radix2). destruct Hex. lra. }
    unfold SpecFloat.fexp, SpecFloat.emin. lia. }
  destruct Z as [s|s| |s m' e' H'] eqn:EZ; simpl in Hfin; try discriminate.
  - specialize (Hsign eq_refl). simpl in Hsign. now subst s.
  - exfalso. simpl in Hz. apply eq_0_F2R in Hz. destruct s; discriminate.
Qed.

(* ---- the same facts on f64 ---- *)
Lemma posfin_B x : posfin x -> exists m e H, x = B2SF (@B754_finite 53 1024 false m e H).
Proof. intros (m & e & -> & H). now exists m, e, H. Qed.

Lemma R_of_B2SF (b : b64) : R_of (B2SF b) = B2R b.
Proof. apply SF2R_B2SF. Qed.

Lemma posfin_B2SF m e H : posfin (B2SF (@B754_finite 53 1024 false m e H)).
Proof. now exists m, e. Qed.

Lemma posfin_lower x : posfin x -> (bpow radix2 (-1074) <= R_of x)%R.
Proof.
  intros (m & e & -> & H). unfold R_of. simpl.
  apply (bounded_ge_emin 53 1024 m e H).
Qed.

Lemma posfin_upper x : posfin x -> (R_of x < bpow radix2 1024)%R.
Proof.
  intros (m & e & -> & H). unfold R_of. simpl.
  apply (bounded_lt_emax 53 1024 m e H).
Qed.

Lemma B2R_B100 : B2R B100 = 100%R. Proof. unfold B100, B2R, F2R; simpl. lra. Qed.
Lemma B2R_B1000 : B2R B1000 = 1000%R. Proof. unfold B1000, B2R, F2R; simpl. lra. Qed.

Lemma f_mul10_step x k :
  posfin x -> (bpow radix2 k <= R_of x)%R -> -1077 <= k ->
  fmul x f_ten = f_inf \/
  (posfin (fmul x f_ten) /\ (bpow radix2 (k + 3) <= R_of (fmul x f_ten))%R).
Proof.
  intros Hx Hk Hk0. destruct (posfin_B x Hx) as (m & e & H & ->).
  rewrite <- Bten_ok, fmul_B2SF. rewrite R_of_B2SF in Hk.
  assert (HC : (8 <= B2R (B754_finite false 5629499534213120 (-49) Hten))%R).
  { change (B2R (B754_finite false 5629499534213120 (-49) Hten)) with (B2R Bten).
    rewrite B2R_Bten. lra. }
  destruct (mul_step m e H 5629499534213120 (-49) Hten k HC Hk Hk0)
    as [Hinf|(m' & e' & H' & HZ & Hge)].
  - left. exact Hinf.
  - right. fold Bten in HZ, Hge. rewrite HZ. split; [apply posfin_B2SF|].
    rewrite R_of_B2SF. now rewrite <- HZ.
Qed.

Lemma f_div10_step x k :
  posfin x -> (R_of x <= bpow radix2 k)%R -> -1071 <= k ->
  fdiv x f_ten = S754_zero false \/
  (posfin (fdiv x f_ten) /\ (R_of (fdiv x f_ten) <= bpow radix2 (k - 3))%R).
Proof.
  intros Hx Hk Hk0. destruct (posfin_B x Hx) as (m & e & H & ->).
  rewrite <- Bten_ok, fdiv_B2SF. rewrite R_of_B2SF in Hk.
  destruct (div_step m e H k Hk Hk0) as [Hz|(m' & e' & H' & HZ & Hle)].
  - now left.
  - right. rewrite HZ. split; [apply posfin_B2SF|]. rewrite R_of_B2SF. now rewrite <- HZ.
Qed.

Lemma f_div10_small x :
  posfin x -> (R_of x <= bpow radix2 (-1072))%R -> fdiv x f_ten = S754_zero false.
Proof.
  intros Hx Hk. destruct (posfin_B x Hx) as (m & e & H & ->).
  rewrite <- Bten_ok, fdiv_B2SF. rewrite R_of_B2SF in Hk. now apply div_small.
Qed.

(* ---- the loops ---- *)
Lemma scale_up_inf fuel minM e : scale_up fuel f_inf minM e = Some (f_inf, e).
Proof. destruct fuel; simpl; now destruct minM as [[]|[]| |[] ? ?]. Qed.

Lemma scale_down_zero fuel maxM e :
  fltb maxM (S754_zero false) = false ->
  scale_down fuel (S754_zero false) maxM e = Some (S754_zero false, e).
Proof. intros H. destruct fuel; simpl; now rewrite H. Qed.

Lemma scale_up_spec minM :
  forall fuel j v e, 0 <= j -> posfin v ->
    (bpow radix2 (-1074 + 3 * j) <= R_of v)%R -> 700 <= j + Z.of_nat fuel ->
    exists v' e', scale_up fuel v minM e = Some (v', e') /\ fltb v' minM = false /\
      (posfin v' \/
       (v' = f_inf /\ exists u, posfin u /\ fltb u minM = true /\ fmul u f_ten = f_inf)).
Proof.
  induction fuel as [|f IH]; intros j v e Hj Hv Hlow Hfuel.
  - exfalso. pose proof (posfin_upper v Hv) as Hup.
    assert (bpow radix2 1024 <= bpow radix2 (-1074 + 3 * j))%R by (apply bpow_le; lia). lra.
  - cbn [scale_up]. destruct (fltb v minM) eqn:Hlt.
    + destruct (f_mul10_step v (-1074 + 3 * j) Hv Hlow ltac:(lia)) as [Hinf|[Hv2 Hlow2]].
      * rewrite Hinf, scale_up_inf. exists f_inf, (e - 1). split; [reflexivity|].
        split; [now destruct minM as [[]|[]| |[] ? ?]|]. right. split; [reflexivity|].
        exists v. auto.
      * apply (IH (j + 1) _ (e - 1)); try lia; auto.
        replace (-1074 + 3 * (j + 1)) with (-1074 + 3 * j + 3) by lia. exact Hlow2.
    + exists v, e. auto.
Qed.

Lemma scale_down_spec maxM :
  fltb maxM (S754_zero false) = false ->
  forall fuel j v e, 0 <= j <= 699 -> posfin v ->
    (R_of v <= bpow radix2 (1024 - 3 * j))%R -> 701 <= j + Z.of_nat fuel ->
    exists r, scale_down fuel v maxM e = Some r.
Proof.
  intros H1. induction fuel as [|f IH]; intros j v e Hj Hv Hup Hfuel.
  - lia.
  - cbn [scale_down]. destruct (fltb maxM v) eqn:Hlt; [|eauto].
    destruct (Z.eq_dec j 699) as [->|Hne].
    + rewrite (f_div10_small v Hv).
      * rewrite scale_down_zero by exact H1. eauto.
      * eapply Rle_trans; [exact Hup|]. apply bpow_le. lia.
    + destruct (f_div10_step v (1024 - 3 * j) Hv Hup ltac:(lia)) as [Hz|[Hv2 Hup2]].
      * rewrite Hz, scale_down_zero by exact H1. eauto.
      * apply (IH (j + 1) _ (e + 1)); try lia; auto.
        replace (1024 - 3 * (j + 1)) with (1024 - 3 * j - 3) by lia. exact Hup2.
Qed.

(* a product with ten that overflows comes from a factor of at least 2^1020 *)
Lemma mul_overflow_lower u :
  posfin u -> fmul u f_ten = f_inf -> (bpow radix2 1020 <= R_of u)%R.
Proof.
  intros Hu Hinf. destruct (Rle_or_lt (bpow radix2 1020) (R_of u)) as [|Hlt]; [assumption|].
  exfalso. destruct (posfin_B u Hu) as (m & e & H & ->).
  rewrite <- Bten_ok, fmul_B2SF in Hinf. rewrite R_of_B2SF in Hlt.
  set (X := B754_finite false m e H) in *.
  pose proof (B2R_posfin_pos m e H) as Hpos. fold X in Hpos.
  pose proof (Bmult_correct 53 1024 Hprec53 Hmax1024 mode_NE X Bten) as HM.
  set (y := F2R (Float radix2 5 1021)).
  assert (Hy : generic_format radix2 fexp64 y).
  { apply generic_format_F2R. intros _. unfold cexp.
    rewrite mag_F2R_Zdigits by discriminate. change (Zdigits radix2 5) with 3.
    unfold SpecFloat.fexp, SpecFloat.emin. lia. }
  assert (Hy1 : (y < bpow radix2 1024)%R).
  { unfold y, F2R; simpl Fnum; simpl Fexp. change 1024 with (3 + 1021). rewrite bpow_plus.
    change (bpow radix2 3) with 8%R. assert (0 < bpow radix2 1021)%R by apply bpow_gt_0.
    change (IZR 5) with 5%R. lra. }
  assert (Hxy : (B2R X * B2R Bten <= y)%R).
  { rewrite B2R_Bten. unfold y, F2R; simpl Fnum; simpl Fexp. change 1021 with (1 + 1020).
    rewrite bpow_plus. change (bpow radix2 1) with 2%R. change (IZR 5) with 5%R. lra. }
  assert (H0 : (0 <= rnd64 (B2R X * B2R Bten))%R).
  { apply round_ge_generic; [typeclasses eauto|typeclasses eauto|apply generic_format_0|].
    rewrite B2R_Bten. lra. }
  assert (H1 : (rnd64 (B2R X * B2R Bten) <= y)%R).
  { apply round_le_generic; [typeclasses eauto|typeclasses eauto|exact Hy|exact Hxy]. }
  rewrite Rlt_bool_true in HM by (rewrite Rabs_pos_eq by exact H0; lra).
  destruct HM as (_ & Hfin & _).
  destruct (Bmult mode_NE X Bten); simpl in Hinf, Hfin; discriminate.
Qed.

Definition c1020 : f64 := S754_finite false 4503599627370496 968.
Definition Hc1020 : SpecFloat.bounded 53 1024 4503599627370496 968 = true := eq_refl.
Definition B1020 : b64 := B754_finite false 4503599627370496 968 Hc1020.
Lemma B2R_B1020 : B2R B1020 = bpow radix2 1020.
Proof.
  unfold B1020, B2R, F2R; simpl Fnum; simpl Fexp. simpl cond_Zopp.
  replace (IZR 4503599627370496) with (bpow radix2 52).
  - rewrite <- bpow_plus. reflexivity.
  - rewrite <- IZR_Zpower by lia. reflexivity.
Qed.

(* decidable side condition on minMantissa / maxMantissa = math.Pow(10, sf-1) / math.Pow(10, sf) *)
Definition pow_okb (minM maxM : f64) : bool :=
  SpecFloat.valid_binary 53 1024 minM &&
  negb (fltb maxM (S754_zero false)) &&
  (negb (fltb c1020 minM) || negb (fltb maxM f_inf)).

(* THE LOOPS TERMINATE: for every finite value > 0 each of the two scaling loops stops within
   701 iterations *)
Theorem scale_loops_terminate minM maxM v fuel :
  pow_okb minM maxM = true -> posfin v -> (701 <= fuel)%nat ->
  exists v1 e1 r, scale_up fuel v minM 0 = Some (v1, e1) /\
                  scale_down fuel v1 maxM e1 = Some r.
Proof.
  intros Hok Hv Hfuel. unfold pow_okb in Hok.
  apply andb_true_iff in Hok as [Hok H2]. apply andb_true_iff in Hok as [Hvalid H1].
  apply negb_true_iff in H1.
  destruct (scale_up_spec minM fuel 0 v 0 ltac:(lia) Hv) as (v1 & e1 & Hup & Hnlt & Hv1).
  { simpl. now apply posfin_lower. }
  { lia. }
  exists v1, e1. rewrite Hup.
  destruct Hv1 as [Hv1|(-> & u & Hu & Hult & Huinf)].
  - destruct (scale_down_spec maxM H1 fuel 0 v1 e1 ltac:(lia) Hv1) as (r & Hr).
    { simpl. left. now apply posfin_upper. }
    { lia. }
    eauto.
  - (* the first loop overflowed to +Inf: then maxMantissa is +Inf too *)
    assert (Hmax : fltb maxM f_inf = false).
    { apply orb_true_iff in H2 as [H2|H2]; [|now apply negb_true_iff in H2].
      exfalso. apply negb_true_iff in H2.
      pose proof (mul_overflow_lower u Hu Huinf) as Hlow.
      destruct (posfin_B u Hu) as (m & e & H & ->). rewrite R_of_B2SF in Hlow.
      set (U := B754_finite false m e H) in *.
      destruct minM as [s|s| |s mm em];
        [destruct s; discriminate Hult
        |destruct s; [discriminate Hult|vm_compute in H2; discriminate H2]
        |discriminate Hult| ].
      simpl in Hvalid. set (M := B754_finite s mm em Hvalid).
      change (S754_finite s mm em) with (B2SF M) in *.
      change (fltb (B2SF U) (B2SF M)) with (Bltb U M) in Hult.
      change (fltb c1020 (B2SF M)) with (Bltb B1020 M) in H2.
      rewrite Bltb_correct in Hult, H2 by reflexivity.
      rewrite B2R_B1020 in H2.
      destruct (Rlt_bool_spec (bpow radix2 1020) (B2R M)) as [|Hge]; [discriminate H2|].
      destruct (Rlt_bool_spec (B2R U) (B2R M)) as [Hlt|]; [lra|discriminate Hult]. }
    exists (f_inf, e1). destruct fuel; simpl; now rewrite Hmax.
Qed.
Print Assumptions scale_loops_terminate.

(* ---- no progress for value <= 0 ---- *)
Lemma scale_up_stuck_zero s minM :
  fltb (S754_zero s) minM = true ->
  forall fuel e, scale_up fuel (S754_zero s) minM e = None.
Proof.
  intros H. induction fuel as [|f IH]; intros e; cbn [scale_up]; rewrite H; [reflexivity|].
  replace (fmul (S754_zero s) f_ten) with (S754_zero s) by (now destruct s). apply IH.
Qed.

Lemma bra_opp s m e l :
  SFopp (SpecFloat.binary_round_aux 53 1024 s m e l) =
  SpecFloat.binary_round_aux 53 1024 (negb s) m e l.
Proof.
  unfold SpecFloat.binary_round_aux.
  destruct (shr_fexp 53 1024 m e l) as [mrs' e'].
  destruct (shr_fexp 53 1024 _ e' loc_Exact) as [mrs'' e''].
  destruct (shr_m mrs''); try reflexivity.
  destruct (e'' <=? 1024 - 53); reflexivity.
Qed.

Lemma fmul_neg m e :
  fmul (S754_finite true m e) f_ten = fopp (fmul (S754_finite false m e) f_ten).
Proof. unfold fmul, fopp, f_ten, SFmul. rewrite bra_opp. reflexivity. Qed.

Definition negfin_or_ninf (v : f64) : Prop :=
  v = f_ninf \/ exists m e, v = S754_finite true m e /\ SpecFloat.bounded 53 1024 m e = true.

Lemma neg_step v : negfin_or_ninf v -> negfin_or_ninf (fmul v f_ten).
Proof.
  intros [->|(m & e & -> & H)]; [now left|].
  rewrite fmul_neg.
  assert (Hp : posfin (S754_finite false m e)) by now exists m, e.
  destruct (f_mul10_step _ (-1074) Hp (posfin_lower _ Hp) ltac:(lia)) as [->|[(m' & e' & -> & H') _]].
  - now left.
  - right. now exists m', e'.
Qed.

Lemma neg_lt_pos v minM :
  negfin_or_ninf v -> fltb fzero minM = true -> fltb v minM = true.
Proof.
  intros [->|(m & e & -> & _)] H; destruct minM as [[]|[]| |[] ? ?]; try discriminate; reflexivity.
Qed.

Lemma scale_up_stuck_neg minM :
  fltb fzero minM = true ->
  forall fuel v e, negfin_or_ninf v -> scale_up fuel v minM e = None.
Proof.
  intros Hm. induction fuel as [|f IH]; intros v e Hv; cbn [scale_up];
    rewrite (neg_lt_pos v minM Hv Hm); [reflexivity|].
  apply IH. now apply neg_step.
Qed.

(* ---- only the scaling loops consume fuel ---- *)
Lemma lbind_nf {A B} (x : lres A) (f : A -> lres B) :
  x <> LFuel -> (forall a, f a <> LFuel) -> lbind x f <> LFuel.
Proof. destruct x; simpl; auto; discriminate. Qed.

Ltac nf_step :=
  match goal with
  | |- lbind _ _ <> LFuel => apply lbind_nf; [|intros]
  | |- LOk _ <> LFuel => discriminate
  | |- LErr _ <> LFuel => discriminate
  | |- LPanic _ <> LFuel => discriminate
  | |- (let '(_, _) := ?p in _) <> LFuel => destruct p
  | |- (if ?c then _ else _) <> LFuel => destruct c
  | |- (match ?x with _ => _ end) <> LFuel => destruct x
  end.
Ltac nf := cbv beta zeta; repeat (nf_step; cbv beta zeta).

Lemma go_slice_from_nf s i : go_slice_from s i <> LFuel.
Proof. unfold go_slice_from. nf. Qed.
#[local] Hint Resolve go_slice_from_nf : nfdb.

Lemma split_string_at_rune_nf s r : split_string_at_rune s r <> LFuel.
Proof. unfold split_string_at_rune. nf; auto with nfdb. Qed.

Lemma extract_nf sub fmt : extract_subpicture_parts sub fmt <> LFuel.
Proof. unfold extract_subpicture_parts. nf; auto with nfdb. Qed.

Lemma validate_nf parts fmt : validate_subpicture_parts parts fmt <> LFuel.
Proof. unfold validate_subpicture_parts. nf; auto with nfdb. Qed.

Lemma ggp_aux_nf fuel : forall s sep fn ll acc,
  get_group_positions_aux fuel s sep fn ll acc <> LFuel.
Proof.
  induction fuel as [|f IH]; intros; cbn [get_group_positions_aux]; [discriminate|].
  nf; auto with nfdb.
Qed.

Lemma analyse_nf parts fmt : analyse_subpicture_parts parts fmt <> LFuel.
Proof.
  unfold analyse_subpicture_parts, get_group_positions.
  cbv zeta. apply lbind_nf; [apply ggp_aux_nf|intros].
  apply lbind_nf; [apply ggp_aux_nf|intros]. nf.
Qed.

Lemma process_subpicture_nf sub fmt : process_subpicture sub fmt <> LFuel.
Proof.
  unfold process_subpicture.
  apply lbind_nf; [apply extract_nf|intros].
  apply lbind_nf; [apply validate_nf|intros]. apply analyse_nf.
Qed.

Lemma process_picture_nf pic fmt neg : process_picture pic fmt neg <> LFuel.
Proof.
  unfold process_picture.
  apply lbind_nf; [apply split_string_at_rune_nf|intros [pic1 pic2]].
  destruct (seqb pic1 ""); [discriminate|].
  apply lbind_nf; [apply process_subpicture_nf|intros].
  apply lbind_nf; [destruct (seqb pic2 ""); [discriminate|apply process_subpicture_nf]|intros].
  nf.
Qed.

Lemma ise_loop_nf n : forall s en interval acc, ise_loop n s en interval acc <> LFuel.
Proof.
  induction n as [|n IH]; intros; cbn [ise_loop]; [discriminate|]. nf. apply IH.
Qed.

Lemma format_integer_part_nf integer vars fmt : format_integer_part integer vars fmt <> LFuel.
Proof.
  unfold format_integer_part, insert_separators_every. nf. apply ise_loop_nf.
Qed.

(* ---- FormatNumber ---- *)
Definition scaled (value : f64) (vars : subpicture_variables) : f64 :=
  if sv_number_type vars =? 1 then fmul value f_100
  else if sv_number_type vars =? 2 then fmul value f_1000 else value.

Local Open Scope string_scope.
Local Open Scope Z_scope.
Section Terminates.
  Variable fmt_fixed : f64 -> Z -> string.

  Ltac tail_nf :=
    cbv beta zeta;
    match goal with
    | |- context [split_string_at_byte ?s 46] =>
        destruct (split_string_at_byte s 46) as [sint sfrac]
    end;
    apply lbind_nf;
    [ match goal with |- (if ?c then _ else _) <> _ => destruct c end;
      [apply format_integer_part_nf|discriminate]
    | intros; discriminate ].

  (* THEOREM 2 (general form).  FormatNumber runs out of fuel only in the scaling loops, and
     with fuel >= 701 not even there provided that, whenever the picture has an exponent part,
     the (percent-scaled) value is a finite double > 0 and the two mantissa bounds
     math.Pow(10, sf-1), math.Pow(10, sf) satisfy the decidable condition [pow_okb]. *)
  Theorem format_number_terminates fuel value picture fmt :
    (701 <= fuel)%nat ->
    (forall vars, process_picture picture fmt (fltb value fzero) = LOk vars ->
       sv_min_exponent_size vars <> 0 -> is_nan value = false -> is_inf value = false ->
       posfin (scaled value vars) /\
       pow_okb (go_pow10 (sv_scaling_factor vars - 1)) (go_pow10 (sv_scaling_factor vars)) = true) ->
    format_number fmt_fixed fuel value picture fmt <> LFuel.
  Proof.
    intros Hfuel Hvars. unfold format_number.
    destruct (seqb picture ""); [discriminate|].
    destruct (process_picture picture fmt (fltb value fzero)) as [vars|t| |w|] eqn:Hpp;
      try (simpl; discriminate).
    2:{ exfalso. eapply process_picture_nf; eauto. }
    specialize (Hvars vars eq_refl). simpl lbind.
    destruct (is_nan value) eqn:Hnan; [discriminate|].
    destruct (is_inf value) eqn:Hinf; [discriminate|].
    fold (scaled value vars).
    destruct (negb (sv_min_exponent_size vars =? 0)) eqn:Hexp.
    - destruct (Hvars ltac:(lia) eq_refl eq_refl) as [Hpos Hok].
      destruct (scale_loops_terminate _ _ _ fuel Hok Hpos Hfuel) as (v1 & e1 & r & Hup & Hdown).
      rewrite Hup, Hdown. destruct r as [v2 e2]. simpl lbind. tail_nf.
    - simpl lbind. tail_nf.
  Qed.
End Terminates.
Print Assumptions format_number_terminates.

(* the side condition on the powers of ten, checked exhaustively for scaling factors up to
   4200 (a picture needs 4200 mandatory integer digits to exceed it) *)
Fixpoint all_upto (P : Z -> bool) (k : nat) : bool :=
  match k with O => true | S k' => P (Z.of_nat k') && all_upto P k' end.
Lemma all_upto_spec P k :
  all_upto P k = true -> forall n, 0 <= n < Z.of_nat k -> P n = true.
Proof.
  induction k as [|k IH]; intros H n Hn; [lia|].
  cbn [all_upto] in H. apply andb_true_iff in H as [H1 H2].
  destruct (Z.eq_dec n (Z.of_nat k)) as [->|Hne]; [exact H1|]. apply IH; [exact H2|lia].
Qed.

Definition pow_ok_at (n : Z) : bool := pow_okb (go_pow10 (n - 1)) (go_pow10 n).
Definition pow_ok_bound : nat := Z.to_nat 4201.
Lemma pow_ok_check : all_upto pow_ok_at pow_ok_bound = true.
Proof. vm_compute. reflexivity. Qed.

Lemma pow_ok_small n : 0 <= n <= 4200 -> pow_okb (go_pow10 (n - 1)) (go_pow10 n) = true.
Proof.
  intros Hn. apply (all_upto_spec pow_ok_at pow_ok_bound pow_ok_check n).
  unfold pow_ok_bound. rewrite Z2Nat.id by lia. lia.
Qed.

Lemma posfin_not_neg v : posfin v -> fltb v fzero = false.
Proof. intros (m & e & -> & _). reflexivity. Qed.

Section Corollaries.
  Variable fmt_fixed : f64 -> Z -> string.

  (* THEOREM 2 for value > 0: every finite double > 0 is formatted within fuel 701 by every
     picture whose exponent sub-pictures (if any) have no percent/per-mille sign and at most
     4200 mandatory integer digits *)
  Corollary format_number_terminates_pos fuel value picture fmt :
    (701 <= fuel)%nat -> posfin value ->
    (forall vars, process_picture picture fmt false = LOk vars ->
       sv_min_exponent_size vars <> 0 ->
       sv_number_type vars = 0 /\ 0 <= sv_scaling_factor vars <= 4200) ->
    format_number fmt_fixed fuel value picture fmt <> LFuel.
  Proof.
    intros Hfuel Hv Hvars. apply format_number_terminates; [exact Hfuel|].
    rewrite (posfin_not_neg value Hv). intros vars Hpp Hexp _ _.
    destruct (Hvars vars Hpp Hexp) as [Hty Hsf]. unfold scaled. rewrite Hty. simpl.
    split; [exact Hv|now apply pow_ok_small].
  Qed.

  (* where it diverges: for value <= 0 (both zeros, every negative double) and a picture with
     an exponent part the first loop makes no progress -- 0*10 = 0 and negative*10 stays
     negative -- so the model returns LFuel for EVERY fuel (the Go code hangs) *)
  Theorem format_number_diverges_nonpos fuel value picture fmt vars :
    (exists s, value = S754_zero s) \/ negfin_or_ninf value -> is_inf value = false ->
    picture <> "" ->
    process_picture picture fmt (fltb value fzero) = LOk vars ->
    sv_min_exponent_size vars <> 0 -> sv_number_type vars = 0 ->
    fltb fzero (go_pow10 (sv_scaling_factor vars - 1)) = true ->
    format_number fmt_fixed fuel value picture fmt = LFuel.
  Proof.
    intros Hv Hinf Hne Hpp Hexp Hty Hmin. unfold format_number.
    replace (seqb picture "") with false
      by (destruct (seqb picture "") eqn:E; [apply seqb_eq in E; congruence|reflexivity]).
    rewrite Hpp. simpl lbind.
    replace (is_nan value) with false
      by (destruct Hv as [[s ->]|[->|(m & e & -> & _)]]; reflexivity).
    rewrite Hinf, Hty. simpl (0 =? 1). simpl (0 =? 2). cbv iota.
    replace (negb (sv_min_exponent_size vars =? 0)) with true by lia.
    replace (scale_up fuel value (go_pow10 (sv_scaling_factor vars - 1)) 0) with (@None (f64 * Z)).
    - reflexivity.
    - symmetry. destruct Hv as [[s ->]|Hv].
      + apply scale_up_stuck_zero.
        destruct s; destruct (go_pow10 _) as [[]|[]| |[] ? ?]; try discriminate; reflexivity.
      + now apply scale_up_stuck_neg.
  Qed.
End Corollaries.
Print Assumptions format_number_terminates_pos.
Print Assumptions format_number_diverges_nonpos.

(* $formatNumber(x, "0.0e0") with the default format: LFuel for every fuel and every finite
   x <= 0, a result for every finite x > 0 with fuel 701 *)
Example diverges_0_0e0 fmt_fixed fuel value :
  (exists s, value = S754_zero s) \/
  (exists m e, value = S754_finite true m e /\ SpecFloat.bounded 53 1024 m e = true) ->
  format_number fmt_fixed fuel value "0.0e0" default_decimal_format = LFuel.
Proof.
  intros Hv.
  assert (Hneg : fltb value fzero = false \/ fltb value fzero = true).
  { destruct (fltb value fzero); auto. }
  destruct Hneg as [Hneg|Hneg].
  - eapply format_number_diverges_nonpos with
      (vars := mk_vars 0 [] 0 1 1 [] 1 1 1 "" "").
    + destruct Hv as [Hz|Hn]; [now left|right; now right].
    + destruct Hv as [[s ->]|(m & e & -> & _)]; reflexivity.
    + discriminate.
    + rewrite Hneg. vm_compute. reflexivity.
    + discriminate.
    + reflexivity.
    + vm_compute. reflexivity.
  - eapply format_number_diverges_nonpos with
      (vars := mk_vars 0 [] 0 1 1 [] 1 1 1 "-" "").
    + destruct Hv as [Hz|Hn]; [now left|right; now right].
    + destruct Hv as [[s ->]|(m & e & -> & _)]; reflexivity.
    + discriminate.
    + rewrite Hneg. vm_compute. reflexivity.
    + discriminate.
    + reflexivity.
    + vm_compute. reflexivity.
Qed.

Example terminates_0_0e0 fmt_fixed value :
  posfin value ->
  format_number fmt_fixed 701 value "0.0e0" default_decimal_format <> LFuel.
Proof.
  intros Hv. apply format_number_terminates_pos; [lia|exact Hv|].
  intros vars Hpp _. vm_compute in Hpp. injection Hpp as <-. simpl. lia.
Qed.

(* a large fuel running out is not a proof of divergence; the theorem above is *)
Example format_number_diverges_refuted :
  forall fmt_fixed, format_number fmt_fixed (Z.to_nat 100000) fzero "0.0e0" default_decimal_format = LFuel.
Proof. intros. apply diverges_0_0e0. left. now exists false. Qed.
