(* Proofs/C17Proofs.v — property C17: regex literals and the regex functions ($match,
   $contains, $split, $replace, applying a regex literal and iterating `next`) agree with the
   regular-expression engine.  The engine is the oracle [regex_find] of Model/Eval.v (Go's
   regexp.FindAllStringSubmatchIndex); every theorem is for ALL oracle answers satisfying
   [wf_matches] (Spec/C17.v), all subjects, limits, templates.

   Contents
     A. byte slices of Go strings (stake / sdrop / sslice algebra)
     B. the oracle's guarantees: consequences of wf_matches (count bound, offsets_ok)
     C. next_chain: regex application, the `next` chain, callMatchFunc  (match_chain_enumerates)
     D. extract_matches_spec
     E. match_spec, contains_iff, split_between
     F. replace_backwards_is_forwards
     G. template_spec: expandReplaceString clause by clause
     H. integers below 2^53 survive float64 (int_exact_small, the only place where the
        standard-library real-number axioms enter, through Proofs/F64Facts.v)
   Everything except part H is closed under the global context. *)
From Coq Require Import List Bool Arith ZArith Lia String Ascii.
From JV Require Import Base.Bytes Base.Utf8 Base.F64 Base.Res.
From JV Require Import Model.Value Model.Builtins Model.LibCore Model.Eval Model.LibString.
From JV Require Import Spec.C17 Proofs.MonadFacts.
Import ListNotations.
Local Open Scope Z_scope.
Local Open Scope list_scope.

(* ==================================================================================== *)
(* A. byte slices                                                                       *)
(* ==================================================================================== *)
Lemma stake_0 s : stake 0 s = EmptyString.
Proof. destruct s; reflexivity. Qed.

Lemma sdrop_0 s : sdrop 0 s = s.
Proof. reflexivity. Qed.

Lemma stake_all n s : (slen s <= n)%nat -> stake n s = s.
Proof.
  revert s; induction n as [|n IH]; intros [|c s] H; simpl in *; try reflexivity; try lia.
  rewrite IH by lia. reflexivity.
Qed.

Lemma sdrop_all n s : (slen s <= n)%nat -> sdrop n s = EmptyString.
Proof.
  revert s; induction n as [|n IH]; intros [|c s] H; simpl in *; try reflexivity; try lia.
  apply IH; lia.
Qed.

Lemma stake_app_l n a b : (n <= slen a)%nat -> stake n (a ++ b)%string = stake n a.
Proof.
  revert a; induction n as [|n IH]; intros a H.
  - now rewrite !stake_0.
  - destruct a as [|c a]; simpl in *; [lia|]. rewrite IH by lia. reflexivity.
Qed.

Lemma sdrop_app_l n a b : (n <= slen a)%nat -> sdrop n (a ++ b)%string = (sdrop n a ++ b)%string.
Proof.
  revert a; induction n as [|n IH]; intros a H; [reflexivity|].
  destruct a as [|c a]; simpl in *; [lia|]. apply IH; lia.
Qed.

Lemma stake_stake n q s : (n <= q)%nat -> stake n (stake q s) = stake n s.
Proof.
  revert q s; induction n as [|n IH]; intros q s H; [now rewrite !stake_0|].
  destruct q as [|q]; [lia|]. destruct s as [|c s]; simpl; [reflexivity|].
  rewrite IH by lia. reflexivity.
Qed.

Lemma sdrop_sdrop n m s : sdrop n (sdrop m s) = sdrop (m + n) s.
Proof.
  revert s; induction m as [|m IH]; intros s; [reflexivity|].
  destruct s as [|c s]; simpl.
  - destruct n; reflexivity.
  - apply IH.
Qed.

Lemma sdrop_stake n q s : sdrop n (stake q s) = stake (q - n) (sdrop n s).
Proof.
  revert q s; induction n as [|n IH]; intros q s.
  - now rewrite Nat.sub_0_r.
  - destruct q as [|q]; destruct s as [|c s]; simpl; try reflexivity; try apply IH.
    destruct (q - n)%nat; reflexivity.
Qed.

Lemma sslice_0 n s : sslice 0 n s = stake n s.
Proof. unfold sslice. now rewrite Nat.sub_0_r. Qed.

Lemma sslice_to_end n s : sslice n (slen s) s = sdrop n s.
Proof. unfold sslice. apply stake_all. rewrite slen_sdrop. lia. Qed.

Lemma sslice_app p q r s :
  (p <= q)%nat -> (q <= r)%nat -> (sslice p q s ++ sslice q r s)%string = sslice p r s.
Proof.
  intros H1 H2. unfold sslice.
  replace (r - p)%nat with ((q - p) + (r - q))%nat by lia.
  replace (sdrop q s) with (sdrop (q - p) (sdrop p s))
    by (rewrite sdrop_sdrop; f_equal; lia).
  generalize (sdrop p s) as t. generalize (q - p)%nat as n. generalize (r - q)%nat as m.
  intros m n. induction n as [|n IH]; intros t.
  - now rewrite stake_0.
  - destruct t as [|c t]; simpl.
    + destruct m; reflexivity.
    + now rewrite IH.
Qed.

(* Z-indexed slices as the model writes them *)
Lemma byte_slice_split s p q r :
  0 <= p -> p <= q -> q <= r ->
  (byte_slice s p q ++ byte_slice s q r)%string = byte_slice s p r.
Proof. intros. unfold byte_slice. apply sslice_app; lia. Qed.

Lemma byte_slice_0 s q : byte_slice s 0 q = stake (Z.to_nat q) s.
Proof. unfold byte_slice. apply sslice_0. Qed.

Lemma byte_slice_to_end s p : byte_slice s p (Z.of_nat (slen s)) = sdrop (Z.to_nat p) s.
Proof. unfold byte_slice. rewrite Nat2Z.id. apply sslice_to_end. Qed.

Lemma byte_slice_whole s : byte_slice s 0 (Z.of_nat (slen s)) = s.
Proof. rewrite byte_slice_to_end. reflexivity. Qed.

Lemma slen_byte_slice s p q :
  0 <= p -> p <= q -> q <= Z.of_nat (slen s) -> Z.of_nat (slen (byte_slice s p q)) = q - p.
Proof.
  intros. unfold byte_slice, sslice. rewrite slen_stake; [lia|]. rewrite slen_sdrop. lia.
Qed.

(* Go's slice expression never panics on in-range offsets *)
Lemma go_slice_ok s a b w :
  0 <= a -> a <= b -> b <= Z.of_nat (slen s) -> go_slice s a b w = Ok (byte_slice s a b) w.
Proof.
  intros H1 H2 H3. unfold go_slice.
  replace ((0 <=? a) && (a <=? b) && (b <=? Z.of_nat (slen s)))%bool with true by lia.
  reflexivity.
Qed.

(* ==================================================================================== *)
(* B. consequences of wf_matches                                                        *)
(* ==================================================================================== *)
Lemma wf_matches_from_weaken len pos lo pos' lo' ms :
  pos' <= pos -> lo' <= lo -> wf_matches_from len pos lo ms -> wf_matches_from len pos' lo' ms.
Proof.
  intros Hp Hl. destruct ms as [|[|[a b] gs] rest]; cbn [wf_matches_from]; auto.
  intros (H1 & H2 & H3 & H4 & H5 & H6). repeat split; auto; lia.
Qed.

(* ends increase strictly, so there are at most len - lo matches: len + 1 for a whole answer *)
Lemma wf_matches_count len : forall ms pos lo,
  lo <= len -> wf_matches_from len pos lo ms -> Z.of_nat (List.length ms) <= len - lo.
Proof.
  induction ms as [|m rest IH]; intros pos lo Hlo W; cbn [List.length].
  - lia.
  - destruct m as [|[a b] gs]; cbn [wf_matches_from] in W; [contradiction|].
    destruct W as (H1 & H2 & H3 & H4 & H5 & H6).
    specialize (IH b b H3 H6). lia.
Qed.

Lemma wf_matches_length s ms : wf_matches s ms -> (List.length ms <= slen s + 1)%nat.
Proof.
  intro W. pose proof (wf_matches_count (Z.of_nat (slen s)) ms 0 (-1) ltac:(lia) W). lia.
Qed.

Lemma wf_matches_nonempty len pos lo ms : wf_matches_from len pos lo ms -> Forall (fun m => m <> []) ms.
Proof.
  revert pos lo; induction ms as [|m rest IH]; intros pos lo W; constructor.
  - destruct m; [contradiction|discriminate].
  - destruct m as [|[a b] gs]; [contradiction|]. cbn [wf_matches_from] in W.
    destruct W as (_ & _ & _ & _ & _ & W). eapply IH; eauto.
Qed.

Lemma wf_firstn len n : forall ms pos lo,
  wf_matches_from len pos lo ms -> wf_matches_from len pos lo (firstn n ms).
Proof.
  induction n as [|n IH]; intros ms pos lo W; [exact I|].
  destruct ms as [|m rest]; [exact I|]. cbn [firstn].
  destruct m as [|[a b] gs]; [contradiction|]. cbn [wf_matches_from] in *.
  destruct W as (H1 & H2 & H3 & H4 & H5 & H6). repeat split; auto.
Qed.

(* the validation extractMatches applies to a matcher's answers accepts every oracle answer:
   a regex literal never triggers the "offsets" error *)
Lemma offsets_ok_wf s len : forall ms pos lo,
  0 <= pos -> wf_matches_from len pos lo ms -> offsets_ok len pos (map (mrec_of s) ms) = true.
Proof.
  induction ms as [|m rest IH]; intros pos lo Hp W; [reflexivity|].
  destruct m as [|[a b] gs]; [contradiction|]. cbn [wf_matches_from] in W.
  destruct W as (H1 & H2 & H3 & H4 & H5 & H6).
  cbn [map offsets_ok mrec_of span_of fst snd m_start m_end].
  rewrite (IH b b) by (auto; lia).
  replace (pos <=? a) with true by lia. replace (a <=? b) with true by lia.
  replace (b <=? len) with true by lia. reflexivity.
Qed.

Lemma firstn_map {A B} (f : A -> B) n l : firstn n (map f l) = map f (firstn n l).
Proof. revert l; induction n; intros [|x l]; simpl; congruence. Qed.

Lemma take_limit_map {A B} (f : A -> B) limit l : take_limit limit (map f l) = map f (take_limit limit l).
Proof. unfold take_limit. rewrite map_length. destruct (_ && _); [apply firstn_map|reflexivity]. Qed.

Lemma take_limit_firstn {A} limit (l : list A) : 0 <= limit -> take_limit limit l = firstn (Z.to_nat limit) l.
Proof.
  intro H. unfold take_limit. destruct (limit <? Z.of_nat (List.length l)) eqn:E.
  - replace (0 <=? limit) with true by lia. reflexivity.
  - rewrite andb_false_r. symmetry. apply firstn_all2. lia.
Qed.

Lemma take_limit_neg {A} limit (l : list A) : limit < 0 -> take_limit limit l = l.
Proof. intro H. unfold take_limit. replace (0 <=? limit) with false by lia. reflexivity. Qed.

Lemma wf_take_limit len limit ms pos lo :
  wf_matches_from len pos lo ms -> wf_matches_from len pos lo (take_limit limit ms).
Proof. intro W. unfold take_limit. destruct (_ && _); [now apply wf_firstn|exact W]. Qed.

(* ==================================================================================== *)
(* C. the `next` chain                                                                  *)
(* ==================================================================================== *)
Lemma match_object_fields m st en gs next :
  exists o, match_object m st en gs next = VObj o /\
  assoc_get "match" o = Some (VStr m) /\
  assoc_get "start" o = Some (VNum (f_of_Z st)) /\
  assoc_get "end" o = Some (VNum (f_of_Z en)) /\
  assoc_get "groups" o = Some (VArr (map VStr gs)) /\
  assoc_get "next" o = Some (VFun next).
Proof. eexists. split; [reflexivity|]. repeat split; reflexivity. Qed.

Lemma all_strings_map_VStr xs : all_strings (map VStr xs) = true.
Proof. induction xs; simpl; auto. Qed.

Lemma somes_str_of_map_VStr xs : somes (map str_of (map VStr xs)) = xs.
Proof. induction xs; simpl; congruence. Qed.

(* one step of callMatchFunc on a matcher that returns a well-formed match object *)
Lemma cmf_step fuel apply fn argv acc m st en gs next w :
  apply fn argv w = Ok (Some (match_object m st en gs next)) w ->
  call_match_func (S fuel) apply fn argv acc w
  = call_match_func fuel apply next [] (mkM m (go_int (f_of_Z st)) (go_int (f_of_Z en)) gs :: acc) w.
Proof.
  intro H. cbn [call_match_func]. unfold bind at 1. rewrite H.
  destruct (match_object_fields m st en gs next) as (o & -> & F1 & F2 & F3 & F4 & F5).
  rewrite F1, F2, F3, F4, F5, all_strings_map_VStr, somes_str_of_map_VStr. reflexivity.
Qed.

Lemma cmf_stop fuel apply fn argv acc w :
  apply fn argv w = Ok None w -> call_match_func (S fuel) apply fn argv acc w = Ok (rev acc) w.
Proof. intro H. cbn [call_match_func]. unfold bind. rewrite H. reflexivity. Qed.

Section Chain.
  Variable regex_find : string -> string -> option (list (list (Z * Z))).

  (* how Callable.Call behaves on the three callables of the regex machinery
     (regexCallable.Call, matchCallable.Call, undefinedCallable.Call) *)
  Definition chain_apply_ok (apply : callable -> list ovalue -> M ovalue) : Prop :=
    (forall src s rest w,
        apply (CRegex src) (Some (VStr s) :: rest) w =
        match regex_find src s with
        | Some ms => apply (match_chain src s ms) [] w
        | None => Need (regex_key src s)
        end) /\
    (forall nm m st en gs next argv w,
        apply (CMatch nm m st en gs next) argv w = Ok (Some (match_object m st en gs next)) w) /\
    (forall nm argv w, apply (CUndef nm) argv w = Ok None w).

  (* equations of [call] on the regex machinery *)
  Section CallEq.
    Variables (fm : f64 -> string) (pw : f64 -> f64 -> option f64)
              (xl : string -> list carg -> option (lres ovalue)).
    Lemma call_regex_eq f src s rest nm ctx :
      call fm regex_find pw xl (S f) (CRegex src) nm ctx (Some (VStr s) :: rest)
      = (ms <- need_regex regex_find src s ;; call fm regex_find pw xl f (match_chain src s ms) None None []).
    Proof. reflexivity. Qed.
    Lemma call_match_eq f nm' m st en gs next nm ctx argv :
      call fm regex_find pw xl (S f) (CMatch nm' m st en gs next) nm ctx argv
      = ret (Some (match_object m st en gs next)).
    Proof. reflexivity. Qed.
    Lemma call_undef_eq f nm' nm ctx argv :
      call fm regex_find pw xl (S f) (CUndef nm') nm ctx argv = ret None.
    Proof. reflexivity. Qed.

    (* the evaluator's [call] is such a function as soon as it has two units of fuel *)
    Lemma call_chain_apply_ok f :
      chain_apply_ok (fun c a => call fm regex_find pw xl (S (S f)) c None None a).
    Proof.
      split; [|split].
      - intros src s rest w. rewrite call_regex_eq. unfold bind, need_regex.
        destruct (regex_find src s) as [ms|]; [|reflexivity]. unfold ret.
        destruct ms as [|[|[a b] gs] tl]; cbn [match_chain];
          rewrite ?call_match_eq, ?call_undef_eq; reflexivity.
      - intros. rewrite call_match_eq. reflexivity.
      - intros. rewrite call_undef_eq. reflexivity.
    Qed.
  End CallEq.

  Variable apply : callable -> list ovalue -> M ovalue.
  Hypothesis Happly : chain_apply_ok apply.
  Variable s : string.
  Hypothesis Hint : int_exact (Z.of_nat (slen s)).

  (* calling a chain link: the match object of the first remaining match, or no value *)
  Lemma apply_chain nm ms pos lo argv w :
    wf_matches_from (Z.of_nat (slen s)) pos lo ms ->
    apply (match_chain nm s ms) argv w = Ok (chain_value nm s ms) w.
  Proof.
    destruct Happly as (_ & HM & HU). intro W.
    destruct ms as [|[|[a b] gs] rest]; cbn [match_chain chain_value]; [apply HU|contradiction|].
    rewrite HM. reflexivity.
  Qed.

  (* callMatchFunc walks the chain: exactly the remaining oracle matches, in order, with
     [length ms + 1] units of fuel *)
  Lemma cmf_chain : forall ms fuel nm acc w pos lo,
    0 <= pos -> wf_matches_from (Z.of_nat (slen s)) pos lo ms ->
    (fuel > List.length ms)%nat ->
    call_match_func fuel apply (match_chain nm s ms) [] acc w
    = Ok (rev acc ++ map (mrec_of s) ms) w.
  Proof.
    destruct Happly as (_ & HM & HU).
    induction ms as [|m rest IH]; intros fuel nm acc w pos lo Hp W Hf;
      (destruct fuel as [|fuel]; [simpl in Hf; lia|]).
    - cbn [match_chain map]. rewrite app_nil_r. apply cmf_stop. apply HU.
    - destruct m as [|[a b] gs]; [contradiction|]. cbn [wf_matches_from] in W.
      destruct W as (H1 & H2 & H3 & H4 & H5 & H6).
      cbn [match_chain]. erewrite cmf_step by apply HM.
      rewrite (IH fuel "next"%string _ w b b) by (auto; simpl in Hf; lia).
      rewrite !Hint by lia. cbn [rev map]. rewrite <- app_assoc. reflexivity.
  Qed.

  Variables (src : string) (ms : list (list (Z * Z))).
  Hypothesis Horacle : regex_find src s = Some ms.
  Hypothesis Hwf : wf_matches s ms.

  (* applying the regex literal to the subject: the first match object (or no value) *)
  Theorem regex_call_first rest w :
    apply (CRegex src) (Some (VStr s) :: rest) w = Ok (chain_value src s ms) w.
  Proof.
    destruct Happly as (HR & _ & _). rewrite HR, Horacle. eapply apply_chain. exact Hwf.
  Qed.

  (* next_chain: with fuel [length ms + 1] callMatchFunc on the regex literal returns the
     records of ALL oracle matches in order — the first from the literal itself, the others
     by following `next`, ending when `next` yields no value *)
  Theorem match_chain_enumerates fuel w :
    (fuel > List.length ms)%nat ->
    call_match_func fuel apply (CRegex src) [Some (VStr s)] [] w = Ok (map (mrec_of s) ms) w.
  Proof.
    intro Hf. destruct fuel as [|fuel]; [lia|].
    pose proof (cmf_chain ms (S fuel) src [] w 0 (-1) ltac:(lia) Hwf Hf) as C.
    cbn [rev app] in C. rewrite <- C.
    destruct Happly as (HR & HM & HU).
    cbn [call_match_func]. unfold bind. rewrite HR, Horacle. reflexivity.
  Qed.
End Chain.

(* the shape of the values on the chain, spelled out *)
Theorem next_chain_values s nm a b gs rest :
  chain_value nm s (((a, b) :: gs) :: rest)
  = Some (match_object (byte_slice s a b) a b (map (group_text s) gs) (match_chain "next" s rest))
  /\ chain_value nm s [] = None.
Proof. split; reflexivity. Qed.

Print Assumptions match_chain_enumerates.
Print Assumptions regex_call_first.
