(* Proofs/C17Proofs.v — property C17: regex literals and the regex functions ($match,
   $contains, $split, $replace, applying a regex literal and iterating `next`) agree with the
   regular-expression engine.  The engine is the oracle [regex_find] of Model/Eval.v (Go's
   regexp.FindAllStringSubmatchIndex); every theorem is for ALL oracle answers satisfying
   [wf_matches] (Spec/C17.v), all subjects, limits, templates.

   Contents
     A. byte slices of Go strings (stake / sdrop / sslice algebra)
     B. the oracle's guarantees: consequences of wf_matches (count bound, offsets_ok)
     C. next_chain: regex application, the `next` chain, callMatchFunc  (match_chain_enumerates)
     D. extract_matches_spec
     E. match_spec, contains_iff, split_between
     F. replace_backwards_is_forwards
     G. template_spec: expandReplaceString clause by clause
     H. integers below 2^53 survive float64 (int_exact_small), proved directly on SpecFloat
     I. the same statements at the level of Callable.Call on the built-ins (dispatch through
        the signature table)
   Everything is closed under the global context (no axioms). *)
From Coq Require Import List Bool Arith ZArith Lia String Ascii.
From JV Require Import Base.Bytes Base.Utf8 Base.F64 Base.Res.
From JV Require Import Model.Value Model.Builtins Model.LibCore Model.Eval Model.LibString.
From JV Require Import Spec.C17 Proofs.MonadFacts.
Import ListNotations.
Local Open Scope Z_scope.
Local Open Scope list_scope.

(* ==================================================================================== *)
(* A. byte slices                                                                       *)
(* ==================================================================================== *)
Lemma stake_0 s : stake 0 s = EmptyString.
Proof. destruct s; reflexivity. Qed.

Lemma sdrop_0 s : sdrop 0 s = s.
Proof. reflexivity. Qed.

Lemma stake_all n s : (slen s <= n)%nat -> stake n s = s.
Proof.
  revert s; induction n as [|n IH]; intros [|c s] H; simpl in *; try reflexivity; try lia.
  rewrite IH by lia. reflexivity.
Qed.

Lemma sdrop_all n s : (slen s <= n)%nat -> sdrop n s = EmptyString.
Proof.
  revert s; induction n as [|n IH]; intros [|c s] H; simpl in *; try reflexivity; try lia.
  apply IH; lia.
Qed.

Lemma stake_app_l n a b : (n <= slen a)%nat -> stake n (a ++ b)%string = stake n a.
Proof.
  revert a; induction n as [|n IH]; intros a H.
  - now rewrite !stake_0.
  - destruct a as [|c a]; simpl in *; [lia|]. rewrite IH by lia. reflexivity.
Qed.

Lemma sdrop_app_l n a b : (n <= slen a)%nat -> sdrop n (a ++ b)%string = (sdrop n a ++ b)%string.
Proof.
  revert a; induction n as [|n IH]; intros a H; [reflexivity|].
  destruct a as [|c a]; simpl in *; [lia|]. apply IH; lia.
Qed.

Lemma stake_stake n q s : (n <= q)%nat -> stake n (stake q s) = stake n s.
Proof.
  revert q s; induction n as [|n IH]; intros q s H; [now rewrite !stake_0|].
  destruct q as [|q]; [lia|]. destruct s as [|c s]; simpl; [reflexivity|].
  rewrite IH by lia. reflexivity.
Qed.

Lemma sdrop_sdrop n m s : sdrop n (sdrop m s) = sdrop (m + n) s.
Proof.
  revert s; induction m as [|m IH]; intros s; [reflexivity|].
  destruct s as [|c s]; simpl.
  - destruct n; reflexivity.
  - apply IH.
Qed.

Lemma sdrop_stake n q s : sdrop n (stake q s) = stake (q - n) (sdrop n s).
Proof.
  revert q s; induction n as [|n IH]; intros q s.
  - now rewrite Nat.sub_0_r.
  - destruct q as [|q]; destruct s as [|c s]; simpl; try reflexivity; try apply IH.
    destruct (q - n)%nat; reflexivity.
Qed.

Lemma sslice_0 n s : sslice 0 n s = stake n s.
Proof. unfold sslice. now rewrite Nat.sub_0_r. Qed.

Lemma sslice_to_end n s : sslice n (slen s) s = sdrop n s.
Proof. unfold sslice. apply stake_all. rewrite slen_sdrop. lia. Qed.

Lemma sslice_app p q r s :
  (p <= q)%nat -> (q <= r)%nat -> (sslice p q s ++ sslice q r s)%string = sslice p r s.
Proof.
  intros H1 H2. unfold sslice.
  replace (r - p)%nat with ((q - p) + (r - q))%nat by lia.
  replace (sdrop q s) with (sdrop (q - p) (sdrop p s))
    by (rewrite sdrop_sdrop; f_equal; lia).
  generalize (sdrop p s) as t. generalize (q - p)%nat as n. generalize (r - q)%nat as m.
  intros m n. induction n as [|n IH]; intros t.
  - now rewrite stake_0.
  - destruct t as [|c t]; simpl.
    + destruct m; reflexivity.
    + now rewrite IH.
Qed.

(* Z-indexed slices as the model writes them *)
Lemma byte_slice_split s p q r :
  0 <= p -> p <= q -> q <= r ->
  (byte_slice s p q ++ byte_slice s q r)%string = byte_slice s p r.
Proof. intros. unfold byte_slice. apply sslice_app; lia. Qed.

Lemma byte_slice_0 s q : byte_slice s 0 q = stake (Z.to_nat q) s.
Proof. unfold byte_slice. apply sslice_0. Qed.

Lemma byte_slice_to_end s p : byte_slice s p (Z.of_nat (slen s)) = sdrop (Z.to_nat p) s.
Proof. unfold byte_slice. rewrite Nat2Z.id. apply sslice_to_end. Qed.

Lemma byte_slice_whole s : byte_slice s 0 (Z.of_nat (slen s)) = s.
Proof. rewrite byte_slice_to_end. reflexivity. Qed.

Lemma slen_byte_slice s p q :
  0 <= p -> p <= q -> q <= Z.of_nat (slen s) -> Z.of_nat (slen (byte_slice s p q)) = q - p.
Proof.
  intros. unfold byte_slice, sslice. rewrite slen_stake; [lia|]. rewrite slen_sdrop. lia.
Qed.

(* Go's slice expression never panics on in-range offsets *)
Lemma go_slice_ok s a b w :
  0 <= a -> a <= b -> b <= Z.of_nat (slen s) -> go_slice s a b w = Ok (byte_slice s a b) w.
Proof.
  intros H1 H2 H3. unfold go_slice.
  replace ((0 <=? a) && (a <=? b) && (b <=? Z.of_nat (slen s)))%bool with true by lia.
  reflexivity.
Qed.

(* ==================================================================================== *)
(* B. consequences of wf_matches                                                        *)
(* ==================================================================================== *)
Lemma wf_matches_from_weaken len pos lo pos' lo' ms :
  pos' <= pos -> lo' <= lo -> wf_matches_from len pos lo ms -> wf_matches_from len pos' lo' ms.
Proof.
  intros Hp Hl. destruct ms as [|[|[a b] gs] rest]; cbn [wf_matches_from]; auto.
  intros (H1 & H2 & H3 & H4 & H5 & H6). repeat split; auto; lia.
Qed.

(* ends increase strictly, so there are at most len - lo matches: len + 1 for a whole answer *)
Lemma wf_matches_count len : forall ms pos lo,
  lo <= len -> wf_matches_from len pos lo ms -> Z.of_nat (List.length ms) <= len - lo.
Proof.
  induction ms as [|m rest IH]; intros pos lo Hlo W; cbn [List.length].
  - lia.
  - destruct m as [|[a b] gs]; cbn [wf_matches_from] in W; [contradiction|].
    destruct W as (H1 & H2 & H3 & H4 & H5 & H6).
    specialize (IH b b H3 H6). lia.
Qed.

Lemma wf_matches_length s ms : wf_matches s ms -> (List.length ms <= slen s + 1)%nat.
Proof.
  intro W. pose proof (wf_matches_count (Z.of_nat (slen s)) ms 0 (-1) ltac:(lia) W). lia.
Qed.

Lemma wf_matches_nonempty len pos lo ms : wf_matches_from len pos lo ms -> Forall (fun m => m <> []) ms.
Proof.
  revert pos lo; induction ms as [|m rest IH]; intros pos lo W; constructor.
  - destruct m; [contradiction|discriminate].
  - destruct m as [|[a b] gs]; [contradiction|]. cbn [wf_matches_from] in W.
    destruct W as (_ & _ & _ & _ & _ & W). eapply IH; eauto.
Qed.

Lemma wf_firstn len n : forall ms pos lo,
  wf_matches_from len pos lo ms -> wf_matches_from len pos lo (firstn n ms).
Proof.
  induction n as [|n IH]; intros ms pos lo W; [exact I|].
  destruct ms as [|m rest]; [exact I|]. cbn [firstn].
  destruct m as [|[a b] gs]; [contradiction|]. cbn [wf_matches_from] in *.
  destruct W as (H1 & H2 & H3 & H4 & H5 & H6). repeat split; auto.
Qed.

(* the validation extractMatches applies to a matcher's answers accepts every oracle answer:
   a regex literal never triggers the "offsets" error *)
Lemma offsets_ok_wf s len : forall ms pos lo,
  0 <= pos -> wf_matches_from len pos lo ms -> offsets_ok len pos (map (mrec_of s) ms) = true.
Proof.
  induction ms as [|m rest IH]; intros pos lo Hp W; [reflexivity|].
  destruct m as [|[a b] gs]; [contradiction|]. cbn [wf_matches_from] in W.
  destruct W as (H1 & H2 & H3 & H4 & H5 & H6).
  cbn [map offsets_ok mrec_of span_of fst snd m_start m_end].
  rewrite (IH b b) by (auto; lia).
  replace (pos <=? a) with true by lia. replace (a <=? b) with true by lia.
  replace (b <=? len) with true by lia. reflexivity.
Qed.

Lemma firstn_map {A B} (f : A -> B) n l : firstn n (map f l) = map f (firstn n l).
Proof. revert l; induction n; intros [|x l]; simpl; congruence. Qed.

Lemma take_limit_map {A B} (f : A -> B) limit l : take_limit limit (map f l) = map f (take_limit limit l).
Proof. unfold take_limit. rewrite map_length. destruct (_ && _); [apply firstn_map|reflexivity]. Qed.

Lemma take_limit_firstn {A} limit (l : list A) : 0 <= limit -> take_limit limit l = firstn (Z.to_nat limit) l.
Proof.
  intro H. unfold take_limit. destruct (limit <? Z.of_nat (List.length l)) eqn:E.
  - replace (0 <=? limit) with true by lia. reflexivity.
  - rewrite andb_false_r. symmetry. apply firstn_all2. lia.
Qed.

Lemma take_limit_neg {A} limit (l : list A) : limit < 0 -> take_limit limit l = l.
Proof. intro H. unfold take_limit. replace (0 <=? limit) with false by lia. reflexivity. Qed.

Lemma wf_take_limit len limit ms pos lo :
  wf_matches_from len pos lo ms -> wf_matches_from len pos lo (take_limit limit ms).
Proof. intro W. unfold take_limit. destruct (_ && _); [now apply wf_firstn|exact W]. Qed.

(* ==================================================================================== *)
(* C. the `next` chain                                                                  *)
(* ==================================================================================== *)
Lemma match_object_fields m st en gs next :
  exists o, match_object m st en gs next = VObj o /\
  assoc_get "match" o = Some (VStr m) /\
  assoc_get "start" o = Some (VNum (f_of_Z st)) /\
  assoc_get "end" o = Some (VNum (f_of_Z en)) /\
  assoc_get "groups" o = Some (VArr (map VStr gs)) /\
  assoc_get "next" o = Some (VFun next).
Proof. eexists. split; [reflexivity|]. repeat split; reflexivity. Qed.

Lemma all_strings_map_VStr xs : all_strings (map VStr xs) = true.
Proof. induction xs; simpl; auto. Qed.

Lemma somes_str_of_map_VStr xs : somes (map str_of (map VStr xs)) = xs.
Proof. induction xs; simpl; congruence. Qed.

(* one step of callMatchFunc on a matcher that returns a well-formed match object *)
Lemma cmf_step fuel apply fn argv acc m st en gs next w :
  apply fn argv w = Ok (Some (match_object m st en gs next)) w ->
  call_match_func (S fuel) apply fn argv acc w
  = call_match_func fuel apply next [] (mkM m (go_int (f_of_Z st)) (go_int (f_of_Z en)) gs :: acc) w.
Proof.
  intro H. cbn [call_match_func]. unfold bind at 1. rewrite H.
  destruct (match_object_fields m st en gs next) as (o & -> & F1 & F2 & F3 & F4 & F5).
  rewrite F1, F2, F3, F4, F5, all_strings_map_VStr, somes_str_of_map_VStr. reflexivity.
Qed.

Lemma cmf_stop fuel apply fn argv acc w :
  apply fn argv w = Ok None w -> call_match_func (S fuel) apply fn argv acc w = Ok (rev acc) w.
Proof. intro H. cbn [call_match_func]. unfold bind. rewrite H. reflexivity. Qed.

Section Chain.
  Variable regex_find : string -> string -> option (list (list (Z * Z))).

  (* how Callable.Call behaves on the three callables of the regex machinery
     (regexCallable.Call, matchCallable.Call, undefinedCallable.Call) *)
  Definition chain_apply_ok (apply : callable -> list ovalue -> M ovalue) : Prop :=
    (forall src s rest w,
        apply (CRegex src) (Some (VStr s) :: rest) w =
        match regex_find src s with
        | Some ms => apply (match_chain src s ms) [] w
        | None => Need (regex_key src s)
        end) /\
    (forall nm m st en gs next argv w,
        apply (CMatch nm m st en gs next) argv w = Ok (Some (match_object m st en gs next)) w) /\
    (forall nm argv w, apply (CUndef nm) argv w = Ok None w).

  (* equations of [call] on the regex machinery *)
  Section CallEq.
    Variables (fm : f64 -> string) (pw : f64 -> f64 -> option f64)
              (xl : string -> list carg -> option (lres ovalue)).
    Lemma call_regex_eq f src s rest nm ctx :
      call fm regex_find pw xl (S f) (CRegex src) nm ctx (Some (VStr s) :: rest)
      = (ms <- need_regex regex_find src s ;; call fm regex_find pw xl f (match_chain src s ms) None None []).
    Proof. reflexivity. Qed.
    Lemma call_match_eq f nm' m st en gs next nm ctx argv :
      call fm regex_find pw xl (S f) (CMatch nm' m st en gs next) nm ctx argv
      = ret (Some (match_object m st en gs next)).
    Proof. reflexivity. Qed.
    Lemma call_undef_eq f nm' nm ctx argv :
      call fm regex_find pw xl (S f) (CUndef nm') nm ctx argv = ret None.
    Proof. reflexivity. Qed.

    (* the evaluator's [call] is such a function as soon as it has two units of fuel *)
    Lemma call_chain_apply_ok f :
      chain_apply_ok (fun c a => call fm regex_find pw xl (S (S f)) c None None a).
    Proof.
      split; [|split].
      - intros src s rest w. rewrite call_regex_eq. unfold bind, need_regex.
        destruct (regex_find src s) as [ms|]; [|reflexivity]. unfold ret.
        destruct ms as [|[|[a b] gs] tl]; cbn [match_chain];
          rewrite ?call_match_eq, ?call_undef_eq; reflexivity.
      - intros. rewrite call_match_eq. reflexivity.
      - intros. rewrite call_undef_eq. reflexivity.
    Qed.
  End CallEq.

  Variable apply : callable -> list ovalue -> M ovalue.
  Hypothesis Happly : chain_apply_ok apply.
  Variable s : string.
  Hypothesis Hint : int_exact (Z.of_nat (slen s)).

  (* calling a chain link: the match object of the first remaining match, or no value *)
  Lemma apply_chain nm ms pos lo argv w :
    wf_matches_from (Z.of_nat (slen s)) pos lo ms ->
    apply (match_chain nm s ms) argv w = Ok (chain_value nm s ms) w.
  Proof.
    destruct Happly as (_ & HM & HU). intro W.
    destruct ms as [|[|[a b] gs] rest]; cbn [match_chain chain_value]; [apply HU|contradiction|].
    rewrite HM. reflexivity.
  Qed.

  (* callMatchFunc walks the chain: exactly the remaining oracle matches, in order, with
     [length ms + 1] units of fuel *)
  Lemma cmf_chain : forall ms fuel nm acc w pos lo,
    0 <= pos -> wf_matches_from (Z.of_nat (slen s)) pos lo ms ->
    (fuel > List.length ms)%nat ->
    call_match_func fuel apply (match_chain nm s ms) [] acc w
    = Ok (rev acc ++ map (mrec_of s) ms) w.
  Proof.
    destruct Happly as (_ & HM & HU).
    induction ms as [|m rest IH]; intros fuel nm acc w pos lo Hp W Hf;
      (destruct fuel as [|fuel]; [simpl in Hf; lia|]).
    - cbn [match_chain map]. rewrite app_nil_r. apply cmf_stop. apply HU.
    - destruct m as [|[a b] gs]; [contradiction|]. cbn [wf_matches_from] in W.
      destruct W as (H1 & H2 & H3 & H4 & H5 & H6).
      cbn [match_chain]. erewrite cmf_step by apply HM.
      rewrite (IH fuel "next"%string _ w b b) by (auto; simpl in Hf; lia).
      rewrite !Hint by lia. cbn [rev map]. rewrite <- app_assoc. reflexivity.
  Qed.

  Variables (src : string) (ms : list (list (Z * Z))).
  Hypothesis Horacle : regex_find src s = Some ms.
  Hypothesis Hwf : wf_matches s ms.

  (* applying the regex literal to the subject: the first match object (or no value) *)
  Theorem regex_call_first rest w :
    apply (CRegex src) (Some (VStr s) :: rest) w = Ok (chain_value src s ms) w.
  Proof.
    destruct Happly as (HR & _ & _). rewrite HR, Horacle. eapply apply_chain. exact Hwf.
  Qed.

  (* next_chain: with fuel [length ms + 1] callMatchFunc on the regex literal returns the
     records of ALL oracle matches in order — the first from the literal itself, the others
     by following `next`, ending when `next` yields no value *)
  Theorem match_chain_enumerates fuel w :
    (fuel > List.length ms)%nat ->
    call_match_func fuel apply (CRegex src) [Some (VStr s)] [] w = Ok (map (mrec_of s) ms) w.
  Proof.
    intro Hf. destruct fuel as [|fuel]; [lia|].
    pose proof (cmf_chain ms (S fuel) src [] w 0 (-1) ltac:(lia) Hwf Hf) as C.
    cbn [rev app] in C. rewrite <- C.
    destruct Happly as (HR & HM & HU).
    cbn [call_match_func]. unfold bind. rewrite HR, Horacle. reflexivity.
  Qed.
End Chain.

(* the shape of the values on the chain, spelled out *)
Theorem next_chain_values s nm a b gs rest :
  chain_value nm s (((a, b) :: gs) :: rest)
  = Some (match_object (byte_slice s a b) a b (map (group_text s) gs) (match_chain "next" s rest))
  /\ chain_value nm s [] = None.
Proof. split; reflexivity. Qed.

Print Assumptions match_chain_enumerates.
Print Assumptions regex_call_first.

(* ==================================================================================== *)
(* D. extractMatches                                                                    *)
(* ==================================================================================== *)
Section Extract.
  Variable regex_find : string -> string -> option (list (list (Z * Z))).
  Variable apply : callable -> list ovalue -> M ovalue.
  Hypothesis Happly : chain_apply_ok regex_find apply.
  Variables (s src : string) (ms : list (list (Z * Z))).
  Hypothesis Hint : int_exact (Z.of_nat (slen s)).
  Hypothesis Horacle : regex_find src s = Some ms.
  Hypothesis Hwf : wf_matches s ms.

  (* the fuel extractMatches gives callMatchFunc is enough, the limit keeps the first [limit]
     matches when 0 <= limit < number of matches and all of them otherwise, and the offset
     validation always passes *)
  Theorem extract_matches_spec limit w :
    extract_matches apply (CRegex src) s limit w
    = Ok (take_limit limit (map (mrec_of s) ms)) w.
  Proof.
    unfold extract_matches. unfold bind.
    rewrite (match_chain_enumerates regex_find apply Happly s Hint src ms Horacle Hwf)
      by (pose proof (wf_matches_length s ms Hwf); lia).
    fold (take_limit limit (map (mrec_of s) ms)).
    rewrite take_limit_map.
    rewrite (offsets_ok_wf s _ _ 0 (-1)); [reflexivity|lia|].
    apply wf_take_limit. exact Hwf.
  Qed.

  Corollary extract_matches_all w :
    extract_matches apply (CRegex src) s (-1) w = Ok (map (mrec_of s) ms) w.
  Proof. rewrite extract_matches_spec. now rewrite take_limit_neg by lia. Qed.

  Corollary extract_matches_firstn limit w :
    0 <= limit ->
    extract_matches apply (CRegex src) s limit w = Ok (map (mrec_of s) (firstn (Z.to_nat limit) ms)) w.
  Proof.
    intro H. rewrite extract_matches_spec, take_limit_map. now rewrite take_limit_firstn by lia.
  Qed.
End Extract.

Print Assumptions extract_matches_spec.

(* ==================================================================================== *)
(* E. $match, $contains, $split with a regex literal                                    *)
(* ==================================================================================== *)
(* the $split loop: cut at every match, then the tail *)
Lemma split_loop {B} s (K : list string -> M B) : forall ms acc pos lo w,
  0 <= pos <= Z.of_nat (slen s) -> wf_matches_from (Z.of_nat (slen s)) pos lo ms ->
  bind (foldM (fun (st : list string * Z) (m : mrec) =>
                 let '(acc, pos) := st in
                 p <- go_slice s pos (m_start m) ;;
                 ret (acc ++ [p], m_end m)) (acc, pos) (map (mrec_of s) ms))
       (fun st => let '(parts, pos') := st in
                  tail <- go_slice s pos' (Z.of_nat (slen s)) ;; K (parts ++ [tail])) w
  = K (acc ++ between s pos (map span_of ms)) w.
Proof.
  induction ms as [|m rest IH]; intros acc pos lo w Hp W.
  - cbn [map foldM between]. unfold bind at 1. unfold ret at 1.
    unfold bind. rewrite go_slice_ok by lia. reflexivity.
  - destruct m as [|[a b] gs]; [contradiction|]. cbn [wf_matches_from] in W.
    destruct W as (H1 & H2 & H3 & H4 & H5 & H6).
    cbn [map foldM between span_of].
    cbn [mrec_of span_of fst snd m_start m_end].
    unfold bind at 1. unfold bind at 1. unfold bind at 1.
    rewrite go_slice_ok by lia. unfold ret at 1.
    specialize (IH (acc ++ [byte_slice s pos a]) b b w ltac:(lia) H6).
    unfold bind at 1 in IH. 
    match goal with
    | |- match ?X with _ => _ end = _ => 
        match type of IH with match ?Y with _ => _ end = _ => change X with Y end
    end.
    rewrite IH. rewrite <- app_assoc. reflexivity.
Qed.

Section Functions.
  Variables (fm : f64 -> string) (regex_find : string -> string -> option (list (list (Z * Z))))
            (pw : f64 -> f64 -> option f64) (xl : string -> list carg -> option (lres ovalue)).
  Notation call' := (call fm regex_find pw xl).
  Notation call_builtin' := (call_builtin fm regex_find pw xl).

  (* the regex branches of the built-ins, as equations of the model *)
  Lemma builtin_match_eq f s c lim :
    call_builtin' (S f) "match" [AStr s; AFun c; lim]
    = if limit_or lim 0 <? 0 then fail (ELib "match: limit") else
      (ms <- extract_matches (fun c' a => call' f c' None None a) c s (limit_or lim (-1)) ;;
       ret (Some (VArr (map match_result ms)))).
  Proof. reflexivity. Qed.

  Lemma builtin_contains_eq f s c :
    call_builtin' (S f) "contains" [AStr s; AFun c]
    = (ms <- extract_matches (fun c' a => call' f c' None None a) c s (-1) ;;
       ret (Some (VBool (match ms with [] => false | _ => true end)))).
  Proof. reflexivity. Qed.

  Lemma builtin_split_eq f s c lim :
    call_builtin' (S f) "split" [AStr s; AFun c; lim]
    = if limit_or lim 0 <? 0 then fail (ELib "split: limit") else
      (ms <- extract_matches (fun c' a => call' f c' None None a) c s (-1) ;;
       '(parts, pos) <- foldM (fun (st : list string * Z) (m : mrec) =>
                         let '(acc, pos) := st in
                         p <- go_slice s pos (m_start m) ;;
                         ret (acc ++ [p], m_end m)) ([], 0%Z) ms ;;
       tail <- go_slice s pos (Z.of_nat (slen s)) ;;
       ret (Some (VArr (map VStr (split_limit (limit_of lim) (parts ++ [tail])))))).
  Proof. reflexivity. Qed.

  Variables (s src : string) (ms : list (list (Z * Z))).
  Hypothesis Hint : int_exact (Z.of_nat (slen s)).
  Hypothesis Horacle : regex_find src s = Some ms.
  Hypothesis Hwf : wf_matches s ms.

  Let extract_ok f limit w :=
    extract_matches_spec regex_find _ (call_chain_apply_ok regex_find fm pw xl f)
                         s src ms Hint Horacle Hwf limit w.

  (* $match(s, /src/, lim): a negative limit is an error; otherwise one object
     {match, index, groups} per oracle match, in order, the first [lim] of them (all when the
     limit is absent) *)
  Theorem match_spec f lim w :
    call_builtin' (S (S (S f))) "match" [AStr s; AFun (CRegex src); lim] w
    = if limit_or lim 0 <? 0 then Err (ELib "match: limit")
      else Ok (Some (VArr (map match_result (map (mrec_of s) (take_limit (limit_or lim (-1)) ms))))) w.
  Proof.
    rewrite builtin_match_eq. destruct (limit_or lim 0 <? 0); [reflexivity|].
    unfold bind. rewrite extract_ok. rewrite take_limit_map. reflexivity.
  Qed.

  Corollary match_spec_all f w :
    call_builtin' (S (S (S f))) "match" [AStr s; AFun (CRegex src); AOpt None] w
    = Ok (Some (VArr (map match_result (map (mrec_of s) ms)))) w.
  Proof.
    rewrite match_spec. unfold limit_or, limit_of. change (0 <? 0) with false. cbv iota.
    now rewrite take_limit_neg by lia.
  Qed.

  Corollary match_spec_limit f z w :
    0 <= z ->
    call_builtin' (S (S (S f))) "match" [AStr s; AFun (CRegex src); AOpt (Some (AInt z))] w
    = Ok (Some (VArr (map match_result (map (mrec_of s) (firstn (Z.to_nat z) ms))))) w.
  Proof.
    intro H. rewrite match_spec. unfold limit_or, limit_of.
    replace (z <? 0) with false by lia. now rewrite take_limit_firstn by lia.
  Qed.

  Corollary match_spec_negative f z w :
    z < 0 ->
    call_builtin' (S (S (S f))) "match" [AStr s; AFun (CRegex src); AOpt (Some (AInt z))] w
    = Err (ELib "match: limit").
  Proof.
    intro H. rewrite match_spec. unfold limit_or, limit_of. now replace (z <? 0) with true by lia.
  Qed.

  (* $contains(s, /src/) is true iff the engine finds at least one match *)
  Theorem contains_iff f w :
    call_builtin' (S (S (S f))) "contains" [AStr s; AFun (CRegex src)] w
    = Ok (Some (VBool (match ms with [] => false | _ => true end))) w.
  Proof.
    rewrite builtin_contains_eq. unfold bind. rewrite extract_ok.
    rewrite take_limit_neg by lia. destruct ms; reflexivity.
  Qed.

  Corollary contains_true_iff f w :
    call_builtin' (S (S (S f))) "contains" [AStr s; AFun (CRegex src)] w = Ok (Some (VBool true)) w
    <-> ms <> [].
  Proof.
    rewrite contains_iff. destruct ms; split; intro H; try congruence; try discriminate.
  Qed.

  (* $split(s, /src/, lim): the texts between consecutive matches
     s[0..m1.start), s[m1.end..m2.start), ..., s[mk.end..) — always number of matches + 1
     parts before the limit; no slice panics *)
  Theorem split_between f lim w :
    call_builtin' (S (S (S f))) "split" [AStr s; AFun (CRegex src); lim] w
    = if limit_or lim 0 <? 0 then Err (ELib "split: limit")
      else Ok (Some (VArr (map VStr (split_limit (limit_of lim) (between s 0 (map span_of ms)))))) w.
  Proof.
    rewrite builtin_split_eq. destruct (limit_or lim 0 <? 0); [reflexivity|].
    unfold bind at 1. rewrite extract_ok. rewrite take_limit_neg by lia.
    exact (split_loop s (fun parts => ret (Some (VArr (map VStr (split_limit (limit_of lim) parts)))))
                      ms [] 0 (-1) w ltac:(lia) Hwf).
  Qed.

  Corollary split_between_limit f z w :
    0 <= z ->
    call_builtin' (S (S (S f))) "split" [AStr s; AFun (CRegex src); AOpt (Some (AInt z))] w
    = Ok (Some (VArr (map VStr (firstn (Z.to_nat z) (between s 0 (map span_of ms)))))) w.
  Proof.
    intro H. rewrite split_between. unfold limit_or, limit_of, split_limit.
    replace (z <? 0) with false by lia.
    destruct (z <? _) eqn:E; [reflexivity|]. rewrite firstn_all2 by lia. reflexivity.
  Qed.
End Functions.

Lemma between_length s pos spans : List.length (between s pos spans) = S (List.length spans).
Proof. revert pos; induction spans as [|[a b] r IH]; intros pos; simpl; auto. Qed.

Print Assumptions match_spec.
Print Assumptions contains_iff.
Print Assumptions split_between.

(* ==================================================================================== *)
(* F. $replace with a regex literal                                                     *)
(* ==================================================================================== *)
Lemma bind_unfold {A B} (m : M A) (f : A -> M B) w :
  bind m f w = match m w with
               | Ok a w' => f a w' | Err e => Err e | Panic s => Panic s
               | OutOfFuel => OutOfFuel | Need q => Need q
               end.
Proof. reflexivity. Qed.

Lemma foldM_app {A B} (f : B -> A -> M B) l1 l2 : forall acc w,
  foldM f acc (l1 ++ l2) w = bind (foldM f acc l1) (fun a => foldM f a l2) w.
Proof.
  induction l1 as [|x l1 IH]; intros acc w; [reflexivity|].
  cbn [app foldM]. unfold bind. destruct (f acc x w); try reflexivity.
  rewrite IH. reflexivity.
Qed.

Lemma mapM_app {A B} (f : A -> M B) l1 l2 : forall w,
  mapM f (l1 ++ l2) w
  = bind (mapM f l1) (fun r1 => bind (mapM f l2) (fun r2 => ret (r1 ++ r2))) w.
Proof.
  induction l1 as [|x l1 IH]; intros w.
  - cbn [app mapM]. unfold bind, ret. destruct (mapM f l2 w); reflexivity.
  - cbn [app mapM]. unfold bind at 1. unfold bind at 2. unfold bind at 2.
    destruct (f x w) as [y w1| | | |]; try reflexivity.
    unfold bind at 1. rewrite IH. unfold bind, ret.
    destruct (mapM f l1 w1) as [r1 w2| | | |]; try reflexivity.
    destruct (mapM f l2 w2); reflexivity.
Qed.

(* the text computed for one match: the template (expanded when it contains a dollar) or the
   string returned by the replacement function called with the match object *)
Definition replacement (xl : string -> list carg -> option (lres ovalue))
           (apply : callable -> list ovalue -> M ovalue) (repl : carg) (m : mrec) : M string :=
  match repl with
  | AFun fr =>
      v <- apply fr [Some (match_result m)] ;;
      match v with
      | Some (VStr s) => ret s
      | _ => fail (ELib "replace: function must return a string")
      end
  | AStr s =>
      if scontains "$" s then
        match xl "expandReplaceString"%string
                 [AStr s; AStr (m_value m); AVal (Some (VArr (map VStr (m_groups m))))] with
        | Some (LOk (Some (VStr e))) => ret e
        | _ => fail (ELib "unmodelled:expandReplaceString")
        end
      else ret s
  | _ => ret EmptyString
  end.

(* one backwards splice: cur[:start] + r + cur[end:] *)
Definition replace_step (R : mrec -> M string) (cur : string) (m : mrec) : M string :=
  r <- R m ;;
  a <- go_slice cur 0 (m_start m) ;;
  b <- go_slice cur (m_end m) (Z.of_nat (slen cur)) ;;
  ret (a ++ r ++ b)%string.

Definition first_start_ge (q : Z) (L : list ((Z * Z) * string)) : Prop :=
  match L with [] => True | ((a, _), _) :: _ => q <= a end.

Lemma replace_fwd_split s p q L :
  0 <= p -> p <= q -> q <= Z.of_nat (slen s) -> first_start_ge q L ->
  replace_fwd s p L = (byte_slice s p q ++ replace_fwd s q L)%string.
Proof.
  intros H1 H2 H3 HL. destruct L as [|[[a b] r] rest]; cbn [replace_fwd].
  - now rewrite byte_slice_split by lia.
  - cbn in HL. rewrite <- (sapp_assoc (byte_slice s p q)). now rewrite byte_slice_split by lia.
Qed.

Lemma first_start_ge_combine len b rest (X : list string) :
  wf_matches_from len b b rest -> first_start_ge b (combine (map span_of rest) X).
Proof.
  destruct rest as [|[|[a' b'] gs] tl]; [exact (fun _ => I)|contradiction|].
  destruct X; [exact (fun _ => I)|]. cbn. tauto.
Qed.

(* splicing from the last match backwards = the forward definition; all outcomes (also a
   failing replacement function) are covered because the statement is an equation between
   computations: evaluate the replacements for the matches from the last to the first, then
   assemble  s[0..m1.start) r1 s[m1.end..m2.start) r2 ... s[mk.end..) *)
Lemma replace_loop s (R : mrec -> M string) : forall ms pos lo w,
  0 <= pos -> wf_matches_from (Z.of_nat (slen s)) pos lo ms ->
  foldM (replace_step R) s (rev (map (mrec_of s) ms)) w
  = bind (mapM R (rev (map (mrec_of s) ms)))
         (fun rs => ret (replace_fwd s 0 (combine (map span_of ms) (rev rs)))) w.
Proof.
  induction ms as [|m rest IH]; intros pos lo w Hp W.
  - cbn. unfold ret. now rewrite byte_slice_whole.
  - destruct m as [|[a b] gs]; [contradiction|]. cbn [wf_matches_from] in W.
    destruct W as (H1 & H2 & H3 & H4 & H5 & H6).
    cbn [map rev]. rewrite foldM_app, bind_unfold, (IH b b w ltac:(lia) H6), bind_unfold.
    rewrite (bind_unfold (mapM R _)), mapM_app, bind_unfold.
    destruct (mapM R (rev (map (mrec_of s) rest)) w) as [rs w1| | | |]; try reflexivity.
    unfold ret at 1. cbn [foldM mapM]. rewrite !bind_unfold. unfold replace_step at 1.
    rewrite !bind_unfold.
    destruct (R (mrec_of s ((a, b) :: gs)) w1) as [r w2| | | |]; try reflexivity.
    unfold bind, ret. cbv beta iota.
    rewrite rev_app_distr. cbn [rev app map span_of combine replace_fwd].
    cbn [mrec_of span_of fst snd m_start m_end].
    set (L := combine (map span_of rest) (rev rs)).
    assert (HL : first_start_ge b L) by (eapply first_start_ge_combine; eauto).
    rewrite (replace_fwd_split s 0 b L) by (auto; lia).
    set (X := replace_fwd s b L).
    assert (Eb : slen (byte_slice s 0 b) = Z.to_nat b).
    { rewrite byte_slice_0. apply slen_stake. lia. }
    rewrite go_slice_ok by (rewrite ?slen_app; lia).
    rewrite go_slice_ok by (rewrite ?slen_app; lia).
    f_equal. f_equal.
    + rewrite !byte_slice_0. rewrite stake_app_l by (rewrite slen_stake; lia).
      apply stake_stake. lia.
    + f_equal. rewrite byte_slice_to_end, byte_slice_0.
      rewrite sdrop_app_l by (rewrite slen_stake; lia).
      rewrite sdrop_all by (rewrite slen_stake; lia). reflexivity.
Qed.

Section Replace.
  Variables (fm : f64 -> string) (regex_find : string -> string -> option (list (list (Z * Z))))
            (pw : f64 -> f64 -> option f64) (xl : string -> list carg -> option (lres ovalue)).
  Notation call' := (call fm regex_find pw xl).
  Notation call_builtin' := (call_builtin fm regex_find pw xl).

  Lemma builtin_replace_eq f s pat repl lim :
    call_builtin' (S f) "replace" [AStr s; AFun pat; repl; lim]
    = if limit_or lim 0 <? 0 then fail (ELib "replace: limit") else
      match repl with
      | AStr _ | AFun _ =>
          ms <- extract_matches (fun c' a => call' f c' None None a) pat s (limit_or lim (-1)) ;;
          out <- foldM (replace_step (replacement xl (fun c' a => call' f c' None None a) repl))
                       s (rev ms) ;;
          ret (Some (VStr out))
      | _ => fail (ELib "replace: third argument")
      end.
  Proof. reflexivity. Qed.

  Variables (s src : string) (ms : list (list (Z * Z))).
  Hypothesis Hint : int_exact (Z.of_nat (slen s)).
  Hypothesis Horacle : regex_find src s = Some ms.
  Hypothesis Hwf : wf_matches s ms.

  (* $replace(s, /src/, repl, lim) with repl a string or a function: the replacement texts
     are computed for the first [lim] matches (all when absent), from the LAST match to the
     first, and the result is the forward splice.  Nothing panics. *)
  Theorem replace_backwards_is_forwards f repl lim w :
    (match repl with AStr _ | AFun _ => True | _ => False end) ->
    let sel := take_limit (limit_or lim (-1)) ms in
    call_builtin' (S (S (S f))) "replace" [AStr s; AFun (CRegex src); repl; lim] w
    = if limit_or lim 0 <? 0 then Err (ELib "replace: limit")
      else bind (mapM (replacement xl (fun c' a => call' (S (S f)) c' None None a) repl)
                      (rev (map (mrec_of s) sel)))
                (fun rs => ret (Some (VStr (replace_fwd s 0 (combine (map span_of sel) (rev rs)))))) w.
  Proof.
    intros Hrepl sel. rewrite builtin_replace_eq. destruct (limit_or lim 0 <? 0); [reflexivity|].
    assert (E : forall (X : M ovalue) (Y : M ovalue),
               (match repl with AStr _ | AFun _ => X | _ => Y end) = X)
      by (intros; destruct repl; try contradiction; reflexivity).
    rewrite E. unfold bind at 1.
    rewrite (extract_matches_spec regex_find _ (call_chain_apply_ok regex_find fm pw xl f)
                                  s src ms Hint Horacle Hwf).
    rewrite take_limit_map. fold sel. unfold bind at 1.
    rewrite (replace_loop s _ sel 0 (-1)) by (try lia; apply wf_take_limit; exact Hwf).
    unfold bind, ret. destruct (mapM _ _ w); reflexivity.
  Qed.

  (* a replacement that always succeeds with [g m] and leaves the world alone (a template) *)
  Corollary replace_pure f repl lim g w :
    (match repl with AStr _ | AFun _ => True | _ => False end) ->
    (forall m w, replacement xl (fun c' a => call' (S (S f)) c' None None a) repl m w = Ok (g m) w) ->
    0 <= limit_or lim 0 ->
    call_builtin' (S (S (S f))) "replace" [AStr s; AFun (CRegex src); repl; lim] w
    = Ok (Some (VStr (replace_fwd s 0 (map (fun m => (span_of m, g (mrec_of s m)))
                                             (take_limit (limit_or lim (-1)) ms))))) w.
  Proof.
    intros Hrepl Hg Hl. rewrite replace_backwards_is_forwards by exact Hrepl.
    replace (limit_or lim 0 <? 0) with false by lia. cbv zeta.
    unfold bind. rewrite (mapM_pure _ g) by exact Hg. unfold ret.
    rewrite <- map_rev, rev_involutive.
    assert (E : forall l, combine (map span_of l) (map g (map (mrec_of s) l))
                          = map (fun m => (span_of m, g (mrec_of s m))) l).
    { induction l as [|m l IH]; [reflexivity|]. cbn [map combine]. now rewrite IH. }
    rewrite E. reflexivity.
  Qed.

  (* a template without a dollar sign is inserted literally *)
  Corollary replace_literal f t lim w :
    scontains "$" t = false -> 0 <= limit_or lim 0 ->
    call_builtin' (S (S (S f))) "replace" [AStr s; AFun (CRegex src); AStr t; lim] w
    = Ok (Some (VStr (replace_fwd s 0 (map (fun m => (span_of m, t))
                                             (take_limit (limit_or lim (-1)) ms))))) w.
  Proof.
    intros Ht Hl. apply (replace_pure f (AStr t) lim (fun _ => t)); [exact I| |exact Hl].
    intros m w0. unfold replacement. rewrite Ht. reflexivity.
  Qed.

  (* a template with dollar signs is expanded by expandReplaceString with the matched text and
     the group texts, provided the library oracle is the model's dispatcher
     (Model/LibDispatch.v xlib satisfies the hypothesis by computation, see xlib_expand_ok) *)
  Corollary replace_template f t lim w :
    (forall mv gs, xl "expandReplaceString"%string [AStr t; AStr mv; AVal (Some (VArr (map VStr gs)))]
                   = Some (lmap (fun e => Some (VStr e)) (expand_replace_string t mv gs))) ->
    (forall mv gs, exists e, expand_replace_string t mv gs = LOk e) ->
    scontains "$" t = true -> 0 <= limit_or lim 0 ->
    call_builtin' (S (S (S f))) "replace" [AStr s; AFun (CRegex src); AStr t; lim] w
    = Ok (Some (VStr (replace_fwd s 0
           (map (fun m => (span_of m,
                           match expand_replace_string t (m_value (mrec_of s m)) (m_groups (mrec_of s m))
                           with LOk e => e | _ => EmptyString end))
                (take_limit (limit_or lim (-1)) ms))))) w.
  Proof.
    intros Hx He Ht Hl.
    apply (replace_pure f (AStr t) lim
             (fun m => match expand_replace_string t (m_value m) (m_groups m) with
                       | LOk e => e | _ => EmptyString end)); [exact I| |exact Hl].
    intros m w0. unfold replacement. rewrite Ht, Hx.
    destruct (He (m_value m) (m_groups m)) as (e & ->). reflexivity.
  Qed.
End Replace.

Print Assumptions replace_backwards_is_forwards.
Print Assumptions replace_template.

(* ==================================================================================== *)
(* G. the replacement template (expandReplaceString)                                    *)
(* ==================================================================================== *)
Definition pre (p : string) (r : lres string) : lres string := lmap (fun x => (p ++ x)%string) r.

Lemma pre_pre p q r : pre p (pre q r) = pre (p ++ q) r.
Proof. destruct r; cbn; try reflexivity. now rewrite sapp_assoc. Qed.

Lemma pre_nil r : pre EmptyString r = r.
Proof. destruct r; reflexivity. Qed.

(* backoff only ever answers "group text and how many digits it used" or "no group" *)
Lemma backoff_find l gs :
  backoff l gs
  = match find (fun p : nat * Z => (0 <=? wrap_int (snd p - 1)) &&
                                   (wrap_int (snd p - 1) <? Z.of_nat (List.length gs))) l with
    | Some (i, n) => Some (LOk (nth (Z.to_nat (wrap_int (n - 1))) gs EmptyString, S i))
    | None => None
    end.
Proof.
  induction l as [|[i n] t IH]; [reflexivity|]. cbn [backoff find snd].
  destruct (_ && _); [reflexivity|exact IH].
Qed.

Lemma combine_map_self {A B} (f : A -> B) l : combine l (map f l) = map (fun x => (x, f x)) l.
Proof. induction l; simpl; congruence. Qed.

(* the downward scan over the prefixes of the digit run is [longest_group] *)
Lemma backoff_longest ds gs :
  backoff (rev (combine (seq 0 (List.length (runes_to_numbers ds))) (runes_to_numbers ds))) gs
  = option_map (fun gk => LOk gk) (longest_group (List.length ds) ds gs).
Proof.
  unfold runes_to_numbers. rewrite map_length, seq_length, combine_map_self.
  generalize (List.length ds) as n. induction n as [|n IH]; [reflexivity|].
  rewrite seq_S, map_app, rev_app_distr. cbn [map rev app backoff longest_group Nat.add].
  unfold group_index at 1 2 3. destruct (_ && _); [reflexivity|exact IH].
Qed.

(* what [longest_group] finds: the longest prefix naming a group, or that there is none *)
Lemma longest_group_some n ds gs g k :
  longest_group n ds gs = Some (g, k) ->
  (1 <= k <= n)%nat /\ names_group gs ds k /\
  g = nth (Z.to_nat (group_index k ds)) gs EmptyString /\
  forall k', (k < k' <= n)%nat -> ~ names_group gs ds k'.
Proof.
  induction n as [|n IH]; cbn [longest_group]; [discriminate|].
  destruct (_ && _) eqn:E.
  - intro H. inversion H; subst. unfold names_group.
    split; [lia|]. split; [lia|]. split; [reflexivity|]. intros k' Hk. lia.
  - intro H. destruct (IH H) as (H1 & H2 & H3 & H4).
    split; [lia|]. split; [exact H2|]. split; [exact H3|].
    intros k' Hk. destruct (Nat.eq_dec k' (S n)) as [->|Hne].
    + unfold names_group. lia.
    + apply H4. lia.
Qed.

Lemma longest_group_none n ds gs :
  longest_group n ds gs = None -> forall k, (1 <= k <= n)%nat -> ~ names_group gs ds k.
Proof.
  induction n as [|n IH]; cbn [longest_group]; intros H k Hk; [lia|].
  destruct (_ && _) eqn:E; [discriminate|].
  destruct (Nat.eq_dec k (S n)) as [->|Hne].
  - unfold names_group. lia.
  - apply IH; [exact H|lia].
Qed.

(* runs of at most 18 digits do not wrap: the number is the decimal value *)
Lemma dec_value_bound ds : Forall (fun r => 48 <= r <= 57) ds ->
  0 <= dec_value ds < 10 ^ Z.of_nat (List.length ds).
Proof.
  unfold dec_value. rewrite <- (rev_involutive ds). generalize (rev ds) as l. clear ds.
  induction l as [|r l IH]; intro F.
  - cbn. lia.
  - cbn [rev] in *. apply Forall_app in F as [F1 F2]. inversion F2; subst.
    rewrite fold_left_app. cbn [fold_left]. rewrite app_length. cbn [List.length].
    specialize (IH F1). replace (Z.of_nat (List.length (rev l) + 1)) with (Z.of_nat (List.length (rev l)) + 1) by lia.
    rewrite Z.pow_add_r by lia. lia.
Qed.

Lemma num_prefix_dec ds : Forall (fun r => 48 <= r <= 57) ds -> (List.length ds <= 18)%nat ->
  num_prefix ds = dec_value ds.
Proof.
  unfold num_prefix, dec_value. rewrite <- (rev_involutive ds). generalize (rev ds) as l. clear ds.
  induction l as [|r l IH]; intros F L; [reflexivity|].
  cbn [rev] in *. apply Forall_app in F as [F1 F2]. inversion F2; subst.
  rewrite app_length in L. cbn [List.length] in L.
  rewrite !fold_left_app. cbn [fold_left]. rewrite IH by (auto; lia).
  pose proof (dec_value_bound (rev l) F1) as B. unfold dec_value in B.
  assert (10 ^ Z.of_nat (List.length (rev l)) <= 10 ^ 17) by (apply Z.pow_le_mono_r; lia).
  unfold wrap_int. rewrite Z.mod_small; lia.
Qed.

Section Template.
  Variables (mv : string) (gs : list string).
  Notation expand t := (expand_replace_string t mv gs).

  (* one iteration of the loop: either the expansion ends with the suffix [t], or [z] is
     appended and the loop continues with the shorter text [x] *)
  Definition ers_step (s : string) : string + (string * string) :=
    match index_byte 36 s 0 with
    | None => inl s
    | Some pos =>
        let p := stake pos s in
        let s' := sdrop (S pos) s in
        match s' with
        | EmptyString => inl (p ++ "$")%string
        | String _ s1 =>
            let r := fst (decode_rune s') in
            if (r =? 36) || (r <? 48) || (r >? 57) then inr ((p ++ "$")%string, if r =? 36 then s1 else s')
            else if r =? 48 then inr ((p ++ mv)%string, s1)
            else match longest_group (List.length (leading_digits s')) (leading_digits s') gs with
                 | Some (g, k) => inr ((p ++ g)%string, sdrop k s')
                 | None => inr (p, s1)
                 end
        end
    end.

  Lemma ers_loop_step f s res :
    ers_loop (S f) s res mv gs
    = match ers_step s with
      | inl t => LOk (res ++ t)%string
      | inr (z, x) => ers_loop f x (res ++ z)%string mv gs
      end.
  Proof.
    cbn [ers_loop]. unfold ers_step. destruct (index_byte 36 s 0) as [pos|]; [|reflexivity].
    cbv zeta. destruct (sdrop (S pos) s) as [|c s1] eqn:Es; [now rewrite sapp_assoc|].
    destruct (_ || _); [now rewrite sapp_assoc|].
    destruct (_ =? 48); [now rewrite sapp_assoc|].
    rewrite backoff_longest.
    destruct (longest_group _ _ gs) as [[g k]|]; cbn [option_map]; now rewrite ?sapp_assoc.
  Qed.

  Lemma index_byte_range b s : forall off p, index_byte b s off = Some p -> (off <= p < off + slen s)%nat.
  Proof.
    induction s as [|c s IH]; intros off p; cbn [index_byte]; [discriminate|].
    destruct (byte_of c =? b).
    - intro H; inversion H; subst. simpl. lia.
    - intro H. apply IH in H. simpl. lia.
  Qed.

  Lemma longest_group_k n ds g k : longest_group n ds gs = Some (g, k) -> (1 <= k)%nat.
  Proof. intro H. apply longest_group_some in H. lia. Qed.

  (* every iteration consumes at least the dollar sign *)
  Lemma ers_step_shorter s z x : ers_step s = inr (z, x) -> (slen x < slen s)%nat.
  Proof.
    unfold ers_step. destruct (index_byte 36 s 0) as [pos|] eqn:Ei; [|discriminate].
    apply index_byte_range in Ei. cbv zeta.
    pose proof (slen_sdrop (S pos) s) as L.
    destruct (sdrop (S pos) s) as [|c s1] eqn:Es; [discriminate|].
    destruct (_ || _).
    - destruct (_ =? 36); intro H; inversion H; subst;
        unfold slen in *; cbn [String.length] in *; lia.
    - destruct (_ =? 48); [intro H; inversion H; subst; unfold slen in *; cbn [String.length] in *; lia|].
      destruct (longest_group _ _ gs) as [[g k]|] eqn:Eg; intro H; inversion H; subst.
      + apply longest_group_k in Eg. rewrite slen_sdrop.
        unfold slen in *; cbn [String.length] in *; lia.
      + unfold slen in *; cbn [String.length] in *; lia.
  Qed.

  (* the loop with enough fuel and an accumulated result = result ++ the expansion of the rest;
     in particular the fuel expandReplaceString passes is never exhausted *)
  Lemma ers_loop_expand : forall n s, (slen s <= n)%nat -> forall f res, (slen s < f)%nat ->
    ers_loop f s res mv gs = pre res (expand s).
  Proof.
    induction n as [|n IH]; intros s Hn f res Hf;
      (destruct f as [|f]; [lia|]); unfold expand_replace_string; rewrite !ers_loop_step;
      destruct (ers_step s) as [t|[z x]] eqn:E; try reflexivity;
      apply ers_step_shorter in E.
    - lia.
    - rewrite (IH x) by lia. rewrite (IH x ltac:(lia) (slen s)) by lia.
      cbn [append]. now rewrite pre_pre.
  Qed.

  (* the defining equation of the expansion *)
  Theorem expand_unfold s :
    expand s = match ers_step s with
               | inl t => LOk t
               | inr (z, x) => pre z (expand x)
               end.
  Proof.
    cbv beta. unfold expand_replace_string at 1. rewrite ers_loop_step.
    destruct (ers_step s) as [t|[z x]] eqn:E; [reflexivity|].
    apply ers_step_shorter in E. now rewrite (ers_loop_expand (slen x)) by lia.
  Qed.

  Theorem expand_never_out_of_fuel s : expand s <> LFuel.
  Proof.
    cbv beta. remember (slen s) as n eqn:Hn. revert s Hn.
    induction n as [n IH] using lt_wf_ind. intros s Hn. rewrite expand_unfold.
    destruct (ers_step s) as [t|[z x]] eqn:E; [discriminate|].
    apply ers_step_shorter in E. specialize (IH (slen x) ltac:(lia) x eq_refl).
    cbv beta in IH. destruct (expand_replace_string x mv gs); cbn; congruence.
  Qed.

  (* --- clause: text without a dollar sign is copied --- *)
  Theorem template_no_dollar s : index_byte 36 s 0 = None -> expand s = LOk s.
  Proof. intro H. rewrite expand_unfold. unfold ers_step. now rewrite H. Qed.

  Lemma index_byte_shift b s : forall off, index_byte b s (S off) = option_map S (index_byte b s off).
  Proof.
    induction s as [|c s IH]; intros off; cbn [index_byte]; [reflexivity|].
    destruct (byte_of c =? b); [reflexivity|apply IH].
  Qed.

  (* --- clause: a byte other than the dollar sign in front is copied --- *)
  Theorem template_literal_char c s :
    byte_of c <> 36 -> expand (String c s) = pre (String c EmptyString) (expand s).
  Proof.
    intro Hc. cbv beta. rewrite (expand_unfold (String c s)), (expand_unfold s). unfold ers_step.
    cbn [index_byte]. replace (byte_of c =? 36) with false by lia.
    rewrite index_byte_shift. destruct (index_byte 36 s 0) as [pos|]; cbn [option_map]; [|reflexivity].
    change (sdrop (S (S pos)) (String c s)) with (sdrop (S pos) s).
    change (stake (S pos) (String c s)) with (String c (stake pos s)). cbv zeta.
    destruct (sdrop (S pos) s) as [|c1 s1]; [reflexivity|].
    destruct (_ || _); [now rewrite pre_pre|].
    destruct (_ =? 48); [now rewrite pre_pre|].
    destruct (longest_group _ _ gs) as [[g k]|]; now rewrite pre_pre.
  Qed.

  (* --- clause: any dollar-free prefix is copied --- *)
  Theorem template_literal_prefix p s :
    index_byte 36 p 0 = None -> expand (p ++ s)%string = pre p (expand s).
  Proof.
    induction p as [|c p IH]; intro H; [now rewrite pre_nil|].
    cbn [index_byte] in H. destruct (byte_of c =? 36) eqn:E; [discriminate|].
    rewrite index_byte_shift in H. destruct (index_byte 36 p 0); [discriminate|].
    cbn [append]. cbv beta in *. rewrite template_literal_char by lia. rewrite IH by reflexivity.
    now rewrite pre_pre.
  Qed.

  (* --- clause: a dollar sign at the very end stays --- *)
  Theorem template_dollar_end : expand "$" = LOk "$"%string.
  Proof. reflexivity. Qed.

  Lemma ers_step_dollar s :
    ers_step (String "$" s)
    = match s with
      | EmptyString => inl "$"%string
      | String _ s1 =>
          let r := fst (decode_rune s) in
          if (r =? 36) || (r <? 48) || (r >? 57) then inr ("$"%string, if r =? 36 then s1 else s)
          else if r =? 48 then inr (mv, s1)
          else match longest_group (List.length (leading_digits s)) (leading_digits s) gs with
               | Some (g, k) => inr (g, sdrop k s)
               | None => inr (EmptyString, s1)
               end
      end.
  Proof. reflexivity. Qed.

  Lemma decode_rune_ascii c s : byte_of c < 128 -> fst (decode_rune (String c s)) = byte_of c.
  Proof. intro H. unfold decode_rune. now replace (byte_of c <? 128) with true by lia. Qed.

  (* --- clause: two dollar signs give one --- *)
  Theorem template_dollar_dollar s : expand (String "$" (String "$" s)) = pre "$" (expand s).
  Proof. cbv beta. rewrite expand_unfold, ers_step_dollar. reflexivity. Qed.

  (* --- clause: a dollar sign followed by a rune that is neither a digit nor a dollar sign
     stays, and so does the rune --- *)
  Theorem template_lone_dollar c s :
    let r := fst (decode_rune (String c s)) in
    r <> 36 -> r < 48 \/ r > 57 ->
    expand (String "$" (String c s)) = pre "$" (expand (String c s)).
  Proof.
    intros r H1 H2. cbv beta. rewrite expand_unfold, ers_step_dollar. cbv zeta. fold r.
    replace ((r =? 36) || (r <? 48) || (r >? 57)) with true by lia.
    replace (r =? 36) with false by lia. reflexivity.
  Qed.

  Corollary template_lone_dollar_ascii c s :
    byte_of c < 128 -> byte_of c <> 36 -> byte_of c < 48 \/ byte_of c > 57 ->
    expand (String "$" (String c s)) = pre "$" (expand (String c s)).
  Proof.
    intros H0 H1 H2. apply template_lone_dollar; rewrite decode_rune_ascii by exact H0; assumption.
  Qed.

  (* --- clause: dollar zero is the whole match --- *)
  Theorem template_dollar_zero s : expand (String "$" (String "0" s)) = pre mv (expand s).
  Proof. cbv beta. rewrite expand_unfold, ers_step_dollar. reflexivity. Qed.

  (* --- clause: a dollar sign followed by a digit 1-9: with [ds] the whole run of digits, the
     LONGEST prefix of the run that names an existing group (1-based) is replaced by that
     group's text and the remaining digits stay; if no prefix names a group the dollar sign and
     the first digit are dropped --- *)
  Theorem template_group c s :
    49 <= byte_of c <= 57 ->
    expand (String "$" (String c s))
    = match longest_group (List.length (leading_digits (String c s))) (leading_digits (String c s)) gs with
      | Some (g, k) => pre g (expand (sdrop k (String c s)))
      | None => expand s
      end.
  Proof.
    intro Hc. cbv beta. rewrite expand_unfold, ers_step_dollar. cbv zeta.
    rewrite decode_rune_ascii by lia.
    replace ((byte_of c =? 36) || (byte_of c <? 48) || (byte_of c >? 57)) with false by lia.
    replace (byte_of c =? 48) with false by lia.
    destruct (longest_group _ _ gs) as [[g k]|]; [reflexivity|apply pre_nil].
  Qed.

  Corollary template_group_found c s g k :
    49 <= byte_of c <= 57 ->
    let ds := leading_digits (String c s) in
    (1 <= k <= List.length ds)%nat -> names_group gs ds k ->
    (forall k', (k < k' <= List.length ds)%nat -> ~ names_group gs ds k') ->
    g = nth (Z.to_nat (group_index k ds)) gs EmptyString ->
    expand (String "$" (String c s)) = pre g (expand (sdrop k (String c s))).
  Proof.
    intros Hc ds Hk Hn Hmax Hg. cbv beta. rewrite template_group by exact Hc. fold ds.
    destruct (longest_group (List.length ds) ds gs) as [[g' k']|] eqn:E.
    - apply longest_group_some in E as (E1 & E2 & E3 & E4).
      assert (k' = k).
      { destruct (lt_eq_lt_dec k k') as [[L|L]|L]; [|exact (eq_sym L)|].
        - exfalso. apply (Hmax k'); [lia|exact E2].
        - exfalso. apply (E4 k); [lia|exact Hn]. }
      subst k'. congruence.
    - exfalso. exact (longest_group_none _ _ _ E k Hk Hn).
  Qed.

  Corollary template_group_none c s :
    49 <= byte_of c <= 57 ->
    let ds := leading_digits (String c s) in
    (forall k, (1 <= k <= List.length ds)%nat -> ~ names_group gs ds k) ->
    expand (String "$" (String c s)) = expand s.
  Proof.
    intros Hc ds Hnone. cbv beta. rewrite template_group by exact Hc. fold ds.
    destruct (longest_group (List.length ds) ds gs) as [[g' k']|] eqn:E; [|reflexivity].
    apply longest_group_some in E as (E1 & E2 & _). exfalso. exact (Hnone k' E1 E2).
  Qed.
End Template.

(* a byte >= 0x80 starts a rune >= 0x80 (or is invalid: U+FFFD): never a digit, never a dollar
   sign, so a dollar sign in front of it stays *)
Lemma byte_of_range c : 0 <= byte_of c < 256.
Proof. unfold byte_of. pose proof (N_ascii_bounded c). lia. Qed.

Lemma decode_rune_nonascii c s : 128 <= byte_of c -> 128 <= fst (decode_rune (String c s)).
Proof.
  intro H. unfold decode_rune. replace (byte_of c <? 128) with false by lia.
  unfold lead_info. replace (byte_of c <? 128) with false by lia.
  pose proof (byte_of_range c) as R.
  assert (RE : 128 <= RuneError) by (unfold RuneError; lia).
  repeat match goal with
         | |- context [if ?b then _ else _] => destruct b eqn:?
         | |- context [match ?x with EmptyString => _ | String _ _ => _ end] => destruct x
         end; cbn [fst]; try exact RE;
    repeat match goal with
           | H : (_ <? _) = _ |- _ => first [apply Z.ltb_lt in H | apply Z.ltb_ge in H]
           | H : (_ <=? _) = _ |- _ => first [apply Z.leb_le in H | apply Z.leb_gt in H]
           | H : (_ =? _) = _ |- _ => first [apply Z.eqb_eq in H | apply Z.eqb_neq in H]
           | H : negb _ = false |- _ => apply negb_false_iff in H
           | H : (_ && _) = true |- _ => apply andb_true_iff in H; destruct H
           | H : (_ =? _)%nat = _ |- _ => cbn in H; first [discriminate H | clear H]
           end;
    unfold is_cont in *;
    repeat match goal with
           | H : (_ && _) = true |- _ => apply andb_true_iff in H; destruct H
           | H : (_ <=? _) = _ |- _ => first [apply Z.leb_le in H | apply Z.leb_gt in H]
           end;
    try (Z.div_mod_to_equations; lia).
Qed.

Corollary template_lone_dollar_nonascii mv gs c s :
  128 <= byte_of c ->
  expand_replace_string (String "$" (String c s)) mv gs
  = pre "$" (expand_replace_string (String c s) mv gs).
Proof.
  intro H. pose proof (decode_rune_nonascii c s H) as R.
  apply template_lone_dollar; lia.
Qed.
Print Assumptions template_lone_dollar_nonascii.

(* the digits that are dropped are exactly the first k of the run; the digit run consists of
   digit runes *)
Lemma leading_digits_digits s : Forall (fun r => 48 <= r <= 57) (leading_digits s).
Proof.
  induction s as [|c s IH]; cbn [leading_digits]; [constructor|].
  destruct ((48 <=? byte_of c) && (byte_of c <=? 57)) eqn:E; constructor; [lia|exact IH].
Qed.

Lemma Forall_firstn_ {A} (P : A -> Prop) k : forall l, Forall P l -> Forall P (firstn k l).
Proof.
  induction k as [|k IH]; intros l F; [constructor|].
  destruct l as [|x l]; [constructor|]. inversion F; subst. cbn [firstn]. constructor; auto.
Qed.

(* for prefixes of at most 18 digits nothing wraps: the group a prefix names is its decimal
   value minus one *)
Corollary group_index_dec k ds :
  Forall (fun r => 48 <= r <= 57) ds -> (k <= 18)%nat ->
  group_index k ds = dec_value (firstn k ds) - 1.
Proof.
  intros F K. unfold group_index.
  pose proof (Forall_firstn_ _ k ds F) as Ff.
  assert (L : (List.length (firstn k ds) <= 18)%nat) by (rewrite firstn_length; lia).
  rewrite num_prefix_dec by assumption.
  pose proof (dec_value_bound _ Ff) as B.
  assert (10 ^ Z.of_nat (List.length (firstn k ds)) <= 10 ^ 18) by (apply Z.pow_le_mono_r; lia).
  unfold wrap_int. rewrite Z.mod_small; lia.
Qed.

Print Assumptions expand_unfold.
Print Assumptions template_group.
Print Assumptions template_group_found.

(* the model's library dispatcher (Model/LibDispatch.v) answers the evaluator's
   "expandReplaceString" request with expand_replace_string: the hypothesis of
   replace_template holds for it, whatever the case-mapping oracles are *)
From JV Require Model.LibDispatch.
Lemma xlib_expand_ok up lo t mv gs :
  LibDispatch.xlib up lo "expandReplaceString"%string [AStr t; AStr mv; AVal (Some (VArr (map VStr gs)))]
  = Some (lmap (fun e => Some (VStr e)) (expand_replace_string t mv gs)).
Proof.
  change (LibDispatch.xlib up lo "expandReplaceString"%string
            [AStr t; AStr mv; AVal (Some (VArr (map VStr gs)))])
    with (Some (LibDispatch.ok_str (expand_replace_string t mv (somes (map str_of (map VStr gs)))))).
  now rewrite somes_str_of_map_VStr.
Qed.

(* the expansion never fails: it is LOk for every template, match and group list *)
Theorem expand_total mv gs : forall t, exists e, expand_replace_string t mv gs = LOk e.
Proof.
  intro t. remember (slen t) as n eqn:Hn. revert t Hn.
  induction n as [n IH] using lt_wf_ind. intros t Hn. rewrite expand_unfold.
  destruct (ers_step mv gs t) as [u|[z x]] eqn:E; [eexists; reflexivity|].
  apply ers_step_shorter in E. destruct (IH (slen x) ltac:(lia) x eq_refl) as (e & ->).
  eexists. reflexivity.
Qed.
Print Assumptions expand_total.

(* ==================================================================================== *)
(* H. integers below 2^53 survive the trip through float64                              *)
(* ==================================================================================== *)
(* axiom-free: f_of_Z of a positive integer below 2^53 is the float whose 53-bit mantissa is the
   integer shifted left, with the matching non-positive exponent (binary_normalize does not
   round), and go_int shifts it back *)
From Coq Require Import Floats.SpecFloat Zpower.
Lemma digits2_pos_lower m : 2 ^ (Zpos (digits2_pos m) - 1) <= Zpos m.
Proof.
  induction m as [p IH|p IH|]; cbn [digits2_pos].
  - rewrite Pos2Z.inj_succ. replace (Z.succ (Zpos (digits2_pos p)) - 1) with (Z.succ (Zpos (digits2_pos p) - 1)) by lia.
    rewrite Z.pow_succ_r by lia. lia.
  - rewrite Pos2Z.inj_succ. replace (Z.succ (Zpos (digits2_pos p)) - 1) with (Z.succ (Zpos (digits2_pos p) - 1)) by lia.
    rewrite Z.pow_succ_r by lia. lia.
  - cbn. lia.
Qed.

Lemma digits2_pos_le53 m : Zpos m < 2 ^ 53 -> Zpos (digits2_pos m) <= 53.
Proof.
  intro H. pose proof (digits2_pos_lower m) as L.
  destruct (Z_le_gt_dec (Zpos (digits2_pos m)) 53) as [|G]; [assumption|exfalso].
  assert (2 ^ 53 <= 2 ^ (Zpos (digits2_pos m) - 1)) by (apply Z.pow_le_mono_r; lia). lia.
Qed.

Lemma digits2_pos_shift k m : digits2_pos (shift_pos k m) = (digits2_pos m + k)%positive.
Proof.
  unfold shift_pos. induction k using Pos.peano_ind.
  - cbn. now rewrite Pos.add_1_r.
  - rewrite Pos.iter_succ. cbn [digits2_pos]. rewrite IHk. lia.
Qed.

Lemma shift_pos_val k m : Zpos (shift_pos k m) = Zpos m * 2 ^ Zpos k.
Proof. rewrite shift_pos_correct. rewrite Zpower_pos_nat, Zpower_nat_Z, positive_nat_Z. lia. Qed.

Lemma f_of_Z_pos m : Zpos m < 2 ^ 53 ->
  exists mz ez, f_of_Z (Zpos m) = S754_finite false mz ez /\ -52 <= ez <= 0 /\ Zpos mz = Zpos m * 2 ^ (- ez).
Proof.
  intro H. pose proof (digits2_pos_le53 m H) as D.
  unfold f_of_Z, f_of_Zexp, binary_normalize, binary_round.
  assert (E : fexp prec emax (Zpos (digits2_pos m) + 0) = Zpos (digits2_pos m) - 53).
  { unfold fexp, emin, prec, emax. lia. }
  rewrite E. unfold shl_align.
  assert (AUX : forall mz ez, Zpos (digits2_pos mz) = 53 -> -52 <= ez <= 0 ->
                binary_round_aux prec emax false (Zpos mz) ez loc_Exact = S754_finite false mz ez).
  { intros mz ez Hd He. unfold binary_round_aux, shr_fexp. cbn [Zdigits2].
    assert (E0 : fexp prec emax (Zpos (digits2_pos mz) + ez) - ez = 0).
    { unfold fexp, emin, prec, emax. lia. }
    rewrite E0. cbn [shr shr_record_of_loc shr_m loc_of_shr_record round_nearest_even Zdigits2].
    rewrite E0. cbn [shr shr_m].
    unfold prec, emax. replace (Zle_bool ez (1024 - 53)) with true; [reflexivity|].
    symmetry. apply Zle_is_le_bool. lia. }
  destruct (Zpos (digits2_pos m) - 53 - 0) as [|q|k] eqn:Ek.
  - exists m, 0. rewrite AUX by lia. repeat split; try lia.
  - lia.
  - exists (shift_pos k m), (Zpos (digits2_pos m) - 53).
    rewrite AUX; [| rewrite digits2_pos_shift; lia | lia].
    repeat split; try lia. rewrite shift_pos_val. f_equal. f_equal. lia.
Qed.

Theorem go_int_exact z : 0 <= z < 2 ^ 53 -> go_int (f_of_Z z) = z.
Proof.
  intros [H0 H1]. destruct z as [|m|m]; [reflexivity| |lia].
  destruct (f_of_Z_pos m H1) as (mz & ez & -> & He & Hm).
  unfold go_int, Z_trunc, abs_int_frac.
  assert (Q : (let '(q, _) := match ez with
                              | Z.neg p => (Z.pos mz / 2 ^ Z.pos p, negb (Z.pos mz mod 2 ^ Z.pos p =? 0))
                              | _ => (Z.pos mz * 2 ^ ez, false)
                              end in Some (if false then - q else q)) = Some (Zpos m)).
  { destruct ez as [|p|p]; [|lia|].
    - cbn in Hm. f_equal. lia.
    - change (- Z.neg p) with (Zpos p) in Hm. rewrite Hm. rewrite Z.div_mul; [reflexivity|].
      apply Z.pow_nonzero; lia. }
  rewrite Q. replace ((- 2 ^ 63 <=? Zpos m) && (Zpos m <? 2 ^ 63)) with true; [reflexivity|].
  symmetry. apply andb_true_iff. split; [apply Z.leb_le|apply Z.ltb_lt]; lia.
Qed.

Lemma int_exact_small n : n < 2 ^ 53 -> int_exact n.
Proof. intros H z Hz. apply go_int_exact. lia. Qed.
Print Assumptions int_exact_small.

(* the headline statements with the side condition spelled out: subjects shorter than 2^53 bytes *)
Section Bounded.
  Variables (fm : f64 -> string) (regex_find : string -> string -> option (list (list (Z * Z))))
            (pw : f64 -> f64 -> option f64) (xl : string -> list carg -> option (lres ovalue)).
  Variables (s src : string) (ms : list (list (Z * Z))).
  Hypothesis Hlen : Z.of_nat (slen s) < 2 ^ 53.
  Hypothesis Horacle : regex_find src s = Some ms.
  Hypothesis Hwf : wf_matches s ms.
  Notation call' := (call fm regex_find pw xl).
  Notation call_builtin' := (call_builtin fm regex_find pw xl).

  Theorem C17_next_chain f fuel w :
    (fuel > List.length ms)%nat ->
    call' (S (S f)) (CRegex src) None None [Some (VStr s)] w = Ok (chain_value src s ms) w /\
    call_match_func fuel (fun c a => call' (S (S f)) c None None a) (CRegex src) [Some (VStr s)] [] w
    = Ok (map (mrec_of s) ms) w.
  Proof.
    intro Hf. split.
    - exact (regex_call_first regex_find _ (call_chain_apply_ok regex_find fm pw xl f) s src ms
                              Horacle Hwf [] w).
    - exact (match_chain_enumerates regex_find _ (call_chain_apply_ok regex_find fm pw xl f) s
                                    (int_exact_small _ Hlen) src ms Horacle Hwf fuel w Hf).
  Qed.

  Theorem C17_match f lim w :
    call_builtin' (S (S (S f))) "match" [AStr s; AFun (CRegex src); lim] w
    = if limit_or lim 0 <? 0 then Err (ELib "match: limit")
      else Ok (Some (VArr (map match_result (map (mrec_of s) (take_limit (limit_or lim (-1)) ms))))) w.
  Proof. exact (match_spec fm regex_find pw xl s src ms (int_exact_small _ Hlen) Horacle Hwf f lim w). Qed.

  Theorem C17_contains f w :
    call_builtin' (S (S (S f))) "contains" [AStr s; AFun (CRegex src)] w
    = Ok (Some (VBool (match ms with [] => false | _ => true end))) w.
  Proof. exact (contains_iff fm regex_find pw xl s src ms (int_exact_small _ Hlen) Horacle Hwf f w). Qed.

  Theorem C17_split f lim w :
    call_builtin' (S (S (S f))) "split" [AStr s; AFun (CRegex src); lim] w
    = if limit_or lim 0 <? 0 then Err (ELib "split: limit")
      else Ok (Some (VArr (map VStr (split_limit (limit_of lim) (between s 0 (map span_of ms)))))) w.
  Proof. exact (split_between fm regex_find pw xl s src ms (int_exact_small _ Hlen) Horacle Hwf f lim w). Qed.

  Theorem C17_replace f repl lim w :
    (match repl with AStr _ | AFun _ => True | _ => False end) ->
    let sel := take_limit (limit_or lim (-1)) ms in
    call_builtin' (S (S (S f))) "replace" [AStr s; AFun (CRegex src); repl; lim] w
    = if limit_or lim 0 <? 0 then Err (ELib "replace: limit")
      else bind (mapM (replacement xl (fun c' a => call' (S (S f)) c' None None a) repl)
                      (rev (map (mrec_of s) sel)))
                (fun rs => ret (Some (VStr (replace_fwd s 0 (combine (map span_of sel) (rev rs)))))) w.
  Proof.
    exact (replace_backwards_is_forwards fm regex_find pw xl s src ms (int_exact_small _ Hlen)
                                         Horacle Hwf f repl lim w).
  Qed.
End Bounded.
Print Assumptions C17_next_chain.
Print Assumptions C17_match.
Print Assumptions C17_contains.
Print Assumptions C17_split.
Print Assumptions C17_replace.

(* ==================================================================================== *)
(* I. from the built-in table to the regex branches                                     *)
(* ==================================================================================== *)
(* goCallable.Call on $match / $contains / $split / $replace with a string and a function
   argument: the signature machinery (argument count, conversion, optional limit) delivers
   exactly the converted argument lists the theorems above are about *)
Section Dispatch.
  Variables (fm : f64 -> string) (regex_find : string -> string -> option (list (list (Z * Z))))
            (pw : f64 -> f64 -> option f64) (xl : string -> list carg -> option (lres ovalue)).
  Notation call' := (call fm regex_find pw xl).
  Notation call_builtin' := (call_builtin fm regex_find pw xl).

  Lemma dispatch_match f nm ctx s c :
    call' (S f) (CBuiltin "match") nm ctx [Some (VStr s); Some (VFun c)]
    = call_builtin' f "match" [AStr s; AFun c; AOpt None].
  Proof. reflexivity. Qed.
  Lemma dispatch_match_limit f nm ctx s c x :
    call' (S f) (CBuiltin "match") nm ctx [Some (VStr s); Some (VFun c); Some (VNum x)]
    = call_builtin' f "match" [AStr s; AFun c; AOpt (Some (AInt (go_int x)))].
  Proof. reflexivity. Qed.
  Lemma dispatch_contains f nm ctx s c :
    call' (S f) (CBuiltin "contains") nm ctx [Some (VStr s); Some (VFun c)]
    = call_builtin' f "contains" [AStr s; AFun c].
  Proof. reflexivity. Qed.
  Lemma dispatch_split f nm ctx s c :
    call' (S f) (CBuiltin "split") nm ctx [Some (VStr s); Some (VFun c)]
    = call_builtin' f "split" [AStr s; AFun c; AOpt None].
  Proof. reflexivity. Qed.
  Lemma dispatch_split_limit f nm ctx s c x :
    call' (S f) (CBuiltin "split") nm ctx [Some (VStr s); Some (VFun c); Some (VNum x)]
    = call_builtin' f "split" [AStr s; AFun c; AOpt (Some (AInt (go_int x)))].
  Proof. reflexivity. Qed.
  Lemma dispatch_replace f nm ctx s c t :
    call' (S f) (CBuiltin "replace") nm ctx [Some (VStr s); Some (VFun c); Some (VStr t)]
    = call_builtin' f "replace" [AStr s; AFun c; AStr t; AOpt None].
  Proof. reflexivity. Qed.
  Lemma dispatch_replace_fun f nm ctx s c fr :
    call' (S f) (CBuiltin "replace") nm ctx [Some (VStr s); Some (VFun c); Some (VFun fr)]
    = call_builtin' f "replace" [AStr s; AFun c; AFun fr; AOpt None].
  Proof. reflexivity. Qed.
  Lemma dispatch_replace_limit f nm ctx s c t x :
    call' (S f) (CBuiltin "replace") nm ctx [Some (VStr s); Some (VFun c); Some (VStr t); Some (VNum x)]
    = call_builtin' f "replace" [AStr s; AFun c; AStr t; AOpt (Some (AInt (go_int x)))].
  Proof. reflexivity. Qed.

  Variables (s src : string) (ms : list (list (Z * Z))).
  Hypothesis Hlen : Z.of_nat (slen s) < 2 ^ 53.
  Hypothesis Horacle : regex_find src s = Some ms.
  Hypothesis Hwf : wf_matches s ms.

  (*  $match(s, /src/)  and  $match(s, /src/, n)  as the evaluator calls them *)
  Theorem C17_match_call f nm ctx w :
    call' (S (S (S (S f)))) (CBuiltin "match") nm ctx [Some (VStr s); Some (VFun (CRegex src))] w
    = Ok (Some (VArr (map match_result (map (mrec_of s) ms)))) w.
  Proof.
    rewrite dispatch_match.
    exact (match_spec_all fm regex_find pw xl s src ms (int_exact_small _ Hlen) Horacle Hwf f w).
  Qed.

  Theorem C17_match_call_limit f nm ctx x w :
    call' (S (S (S (S f)))) (CBuiltin "match") nm ctx
          [Some (VStr s); Some (VFun (CRegex src)); Some (VNum x)] w
    = if go_int x <? 0 then Err (ELib "match: limit")
      else Ok (Some (VArr (map match_result (map (mrec_of s) (firstn (Z.to_nat (go_int x)) ms))))) w.
  Proof.
    rewrite dispatch_match_limit. destruct (go_int x <? 0) eqn:E.
    - apply (match_spec_negative fm regex_find pw xl s src ms (int_exact_small _ Hlen) Horacle Hwf). lia.
    - apply (match_spec_limit fm regex_find pw xl s src ms (int_exact_small _ Hlen) Horacle Hwf). lia.
  Qed.

  Theorem C17_contains_call f nm ctx w :
    call' (S (S (S (S f)))) (CBuiltin "contains") nm ctx [Some (VStr s); Some (VFun (CRegex src))] w
    = Ok (Some (VBool (match ms with [] => false | _ => true end))) w.
  Proof.
    rewrite dispatch_contains.
    exact (contains_iff fm regex_find pw xl s src ms (int_exact_small _ Hlen) Horacle Hwf f w).
  Qed.

  Theorem C17_split_call f nm ctx w :
    call' (S (S (S (S f)))) (CBuiltin "split") nm ctx [Some (VStr s); Some (VFun (CRegex src))] w
    = Ok (Some (VArr (map VStr (between s 0 (map span_of ms))))) w.
  Proof.
    rewrite dispatch_split.
    exact (split_between fm regex_find pw xl s src ms (int_exact_small _ Hlen) Horacle Hwf f (AOpt None) w).
  Qed.

  Theorem C17_replace_literal_call f nm ctx t w :
    scontains "$" t = false ->
    call' (S (S (S (S f)))) (CBuiltin "replace") nm ctx
          [Some (VStr s); Some (VFun (CRegex src)); Some (VStr t)] w
    = Ok (Some (VStr (replace_fwd s 0 (map (fun m => (span_of m, t)) ms)))) w.
  Proof.
    intro Ht. rewrite dispatch_replace.
    rewrite (replace_literal fm regex_find pw xl s src ms (int_exact_small _ Hlen) Horacle Hwf f t (AOpt None) w Ht)
      by (cbn; lia).
    cbn [limit_or limit_of]. now rewrite take_limit_neg by lia.
  Qed.
End Dispatch.
Print Assumptions C17_match_call.
Print Assumptions C17_match_call_limit.
Print Assumptions C17_split_call.
Print Assumptions C17_replace_literal_call.

(* ==================================================================================== *)
(* Examples: the hypotheses are satisfiable, the statements compute                     *)
(* ==================================================================================== *)
Definition ex_subject : string := "xabyabbz".
(* /a(b+)(c)?/ on the subject: two matches, group 2 never participates *)
Definition ex_matches : list (list (Z * Z)) := [[(1, 3); (2, 3); (-1, -1)]; [(4, 7); (5, 7); (-1, -1)]].
Definition ex_rx (src subj : string) : option (list (list (Z * Z))) :=
  if seqb src "a(b+)(c)?" && seqb subj ex_subject then Some ex_matches else None.
Definition ex_fm (x : f64) : string := EmptyString.
Definition ex_pw (x y : f64) : option f64 := None.
Definition ex_xl := LibDispatch.xlib (fun _ => None) (fun _ => None).
Definition w0 : world := mkWorld [].

Example ex_wf : wf_matches ex_subject ex_matches.
Proof.
  unfold wf_matches, ex_matches. cbn.
  repeat (split; try lia);
    repeat (apply Forall_cons; [first [left; reflexivity | right; cbn; lia]|]); apply Forall_nil.
Qed.

Example ex_int_exact : int_exact (Z.of_nat (slen ex_subject)).
Proof.
  intros z Hz. cbn in Hz.
  assert (E : z = 0 \/ z = 1 \/ z = 2 \/ z = 3 \/ z = 4 \/ z = 5 \/ z = 6 \/ z = 7 \/ z = 8) by lia.
  repeat (destruct E as [->|E]; [reflexivity|]). subst. reflexivity.
Qed.

Example ex_chain :
  call_match_func 3 (fun c a => call ex_fm ex_rx ex_pw ex_xl 2 c None None a)
                  (CRegex "a(b+)(c)?") [Some (VStr ex_subject)] [] w0
  = Ok [mkM "ab" 1 3 ["b"; ""]; mkM "abb" 4 7 ["bb"; ""]]%string w0.
Proof. vm_compute. reflexivity. Qed.

(* the same through the theorem *)
Example ex_chain_thm :
  call_match_func 3 (fun c a => call ex_fm ex_rx ex_pw ex_xl 2 c None None a)
                  (CRegex "a(b+)(c)?") [Some (VStr ex_subject)] [] w0
  = Ok (map (mrec_of ex_subject) ex_matches) w0.
Proof.
  apply (match_chain_enumerates ex_rx _ (call_chain_apply_ok ex_rx ex_fm ex_pw ex_xl 0)
           ex_subject ex_int_exact "a(b+)(c)?"%string ex_matches eq_refl ex_wf). simpl. lia.
Qed.

Example ex_match :
  call_builtin ex_fm ex_rx ex_pw ex_xl 3 "match"
               [AStr ex_subject; AFun (CRegex "a(b+)(c)?"); AOpt (Some (AInt 1))] w0
  = Ok (Some (VArr [match_result (mkM "ab" 1 3 ["b"; ""]%string)])) w0.
Proof. vm_compute. reflexivity. Qed.

Example ex_split :
  call_builtin ex_fm ex_rx ex_pw ex_xl 3 "split" [AStr ex_subject; AFun (CRegex "a(b+)(c)?"); AOpt None] w0
  = Ok (Some (VArr [VStr "x"; VStr "y"; VStr "z"])) w0.
Proof. vm_compute. reflexivity. Qed.

Example ex_split_thm :
  between ex_subject 0 (map span_of ex_matches) = ["x"; "y"; "z"]%string.
Proof. reflexivity. Qed.

Example ex_replace :
  call_builtin ex_fm ex_rx ex_pw ex_xl 3 "replace"
               [AStr ex_subject; AFun (CRegex "a(b+)(c)?"); AStr "<$1|$2|$0|$$|$12>"; AOpt None] w0
  = Ok (Some (VStr "x<b||ab|$|b2>y<bb||abb|$|bb2>z")) w0.
Proof. vm_compute. reflexivity. Qed.

Example ex_replace_thm :
  replace_fwd ex_subject 0
    (map (fun m => (span_of m,
                    match expand_replace_string "<$1|$2|$0|$$|$12>" (m_value (mrec_of ex_subject m))
                                                (m_groups (mrec_of ex_subject m))
                    with LOk e => e | _ => EmptyString end)) ex_matches)
  = "x<b||ab|$|b2>y<bb||abb|$|bb2>z"%string.
Proof. vm_compute. reflexivity. Qed.

Example ex_template_longest :
  longest_group 2 [49; 50] ["A"; "B"]%string = Some ("A"%string, 1%nat) /\
  longest_group 2 [49; 50] ["g1"; "g2"; "g3"; "g4"; "g5"; "g6"; "g7"; "g8"; "g9"; "g10"; "g11"; "g12"]%string
  = Some ("g12"%string, 2%nat) /\
  longest_group 1 [57] ["A"]%string = None.
Proof. repeat split; reflexivity. Qed.

(* through the evaluator, from the AST:  $match("xabyabbz", /a(b+)(c)?/)  and the literal applied
   as a function  /a(b+)(c)?/("xabyabbz") *)
Example ex_eval_match :
  eval ex_fm ex_rx ex_pw ex_xl 8
       (NCall (NVariable "match") [NString ex_subject; NRegex "a(b+)(c)?"]) None 0 (mkWorld [mkFrame None []])
  = Ok (Some (VArr (map match_result (map (mrec_of ex_subject) ex_matches)))) (mkWorld [mkFrame None []]).
Proof. vm_compute. reflexivity. Qed.

Example ex_eval_regex_apply :
  eval ex_fm ex_rx ex_pw ex_xl 8
       (NCall (NRegex "a(b+)(c)?") [NString ex_subject]) None 0 (mkWorld [mkFrame None []])
  = Ok (chain_value "a(b+)(c)?" ex_subject ex_matches) (mkWorld [mkFrame None []]).
Proof. vm_compute. reflexivity. Qed.
