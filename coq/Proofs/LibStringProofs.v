(* Proofs/LibStringProofs.v — property C16: the string functions of Model/LibString.v (a byte-level
   transcription of /repo/jlib/string.go) count and index Unicode code points.

   Byte-level facts, for ALL byte strings (valid UTF-8 or not):
     before_after, before_after_absent, contains_str_spec, split_join, split_join_limit,
     substring_never_panics, base64_roundtrip, url_roundtrip, url_component_roundtrip,
     replace_all_is_split_join, replace_absent, replace_empty_pattern.
   Code-point-level facts, for all valid UTF-8 strings and all integers, against Spec/C16.v:
     length_is_cp_count, substring_cp, pad_cp, pad_length, pad_no_panic, contains_cp, before_cp,
     after_cp, split_cp, join_cp, replace_cp, trim_cp, uppercase_cp, lowercase_cp.
   No axioms (every `Print Assumptions` below answers "Closed under the global context"). *)
From JV Require Import Base.Bytes Base.Utf8 Base.Res Model.LibString Spec.C16 Proofs.Utf8Proofs.
From Coq Require Import Lia ZifyBool ZifyNat.
Open Scope Z_scope.

(* ---------- strings.Index ---------- *)
Lemma sprefix_app p s : sprefix p s = true -> s = p ++ sdrop (slen p) s.
Proof.
  revert s; induction p as [|x p IH]; intros s H; [reflexivity|].
  destruct s as [|y s]; [discriminate|]. cbn in H. apply andb_true_iff in H as [H1 H2].
  apply Ascii.eqb_eq in H1. subst y. cbn. f_equal. now apply IH.
Qed.

Lemma sprefix_app_iff p s : sprefix p s = true <-> exists t, s = p ++ t.
Proof.
  split.
  - intros H. eexists. now apply sprefix_app.
  - intros [t ->]. induction p as [|x p IH]; [reflexivity|]. cbn. now rewrite Ascii.eqb_refl, IH.
Qed.

Lemma sindex_from_spec sub : forall s off i, sindex_from sub s off = Some i ->
  exists k, i = (off + k)%nat /\ (k <= slen s)%nat /\ sprefix sub (sdrop k s) = true /\
            forall j, (j < k)%nat -> sprefix sub (sdrop j s) = false.
Proof.
  induction s as [|c s IH]; intros off i H; cbn [sindex_from] in H.
  - destruct (sprefix sub "") eqn:E; [|discriminate]. inversion H; subst.
    exists 0%nat. split; [lia|]. split; [lia|]. split; [exact E|]. intros j Hj; lia.
  - destruct (sprefix sub (String c s)) eqn:E.
    + inversion H; subst. exists 0%nat. split; [lia|]. split; [lia|]. split; [exact E|].
      intros j Hj; lia.
    + apply IH in H as (k & -> & Hk & P & M). exists (S k).
      split; [lia|]. split; [unfold slen in *; cbn [String.length]; lia|]. split; [exact P|].
      intros [|j] Hj; cbn; auto. apply M; lia.
Qed.

Lemma sindex_from_none sub : forall s off, sindex_from sub s off = None ->
  forall j, sprefix sub (sdrop j s) = false.
Proof.
  induction s as [|c s IH]; intros off H j; cbn [sindex_from] in H.
  - destruct (sprefix sub "") eqn:E; [discriminate|]. now rewrite sdrop_nil.
  - destruct (sprefix sub (String c s)) eqn:E; [discriminate|].
    destruct j as [|j]; cbn; auto. eapply IH; eauto.
Qed.

Lemma sindex_some sub s i : sindex sub s = Some i ->
  (i + slen sub <= slen s)%nat /\ stake i s ++ sub ++ sdrop (i + slen sub) s = s /\
  forall j, (j < i)%nat -> sprefix sub (sdrop j s) = false.
Proof.
  intros H. apply sindex_from_spec in H as (k & -> & Hk & P & M). cbn [Nat.add].
  apply sprefix_app in P.
  assert (E : stake k s ++ sub ++ sdrop (k + slen sub) s = s).
  { rewrite <- (stake_sdrop k s) at 3. f_equal. rewrite P at 1. f_equal.
    now rewrite sdrop_sdrop. }
  split; [|split; [exact E|exact M]].
  assert (L : slen (stake k s ++ sub ++ sdrop (k + slen sub) s) = slen s) by now rewrite E.
  rewrite !slen_app, slen_stake, slen_sdrop in L by lia. lia.
Qed.

(* ---------- 1. $substringBefore / $substringAfter ---------- *)
Theorem before_after s c : contains_str s c = true ->
  substring_before s c ++ c ++ substring_after s c = s.
Proof.
  unfold contains_str, scontains, substring_before, substring_after.
  destruct (sindex c s) as [i|] eqn:E; [intros _|discriminate].
  now apply sindex_some in E as (_ & E & _).
Qed.

Theorem before_after_absent s c : contains_str s c = false ->
  substring_before s c = s /\ substring_after s c = s.
Proof.
  unfold contains_str, scontains, substring_before, substring_after.
  destruct (sindex c s); [discriminate|auto].
Qed.
Print Assumptions before_after.
Print Assumptions before_after_absent.

Example before_after_ex :
  let s := string_of_bytes [97; 226; 130; 172; 44; 98; 44; 99] in
  contains_str s "," = true /\ substring_before s "," = string_of_bytes [97; 226; 130; 172] /\
  substring_after s "," = "b,c".
Proof. vm_compute. auto. Qed.

(* $contains with a string pattern is substring search *)
Theorem contains_str_spec s c : contains_str s c = true <-> exists a b, s = a ++ c ++ b.
Proof.
  unfold contains_str, scontains. split.
  - destruct (sindex c s) as [i|] eqn:E; [intros _|discriminate].
    apply sindex_some in E as (_ & E & _). eauto.
  - intros (a & b & ->). destruct (sindex c (a ++ c ++ b)) eqn:E; [reflexivity|exfalso].
    pose proof (sindex_from_none _ _ _ E (slen a)) as N. rewrite sdrop_app_exact in N.
    assert (T : sprefix c (c ++ b) = true) by (apply sprefix_app_iff; eauto). congruence.
Qed.
Print Assumptions contains_str_spec.

(* ---------- 2. $join($split(s, c), c) = s ---------- *)
Lemma sjoin_cons sep x r : r <> [] -> sjoin sep (x :: r) = x ++ sep ++ sjoin sep r.
Proof. destruct r; [congruence|reflexivity]. Qed.

Lemma split_loop_not_nil f s c : split_loop f s c <> [].
Proof. destruct f; cbn; [discriminate|]. destruct (sindex c s); discriminate. Qed.

Lemma sjoin_split_loop c : forall f s, sjoin c (split_loop f s c) = s.
Proof.
  induction f as [|f IH]; intros s; cbn [split_loop]; [reflexivity|].
  destruct (sindex c s) as [m|] eqn:E; [|reflexivity].
  rewrite sjoin_cons by apply split_loop_not_nil. rewrite IH.
  now apply sindex_some in E as (_ & E & _).
Qed.

Lemma explode_n_not_nil k s : explode_n k s <> [].
Proof. destruct k; cbn; [discriminate|]. destruct (decode_rune s); discriminate. Qed.

Lemma sjoin_explode_n : forall k s, sjoin "" (explode_n k s) = s.
Proof.
  induction k as [|k IH]; intros s; cbn [explode_n]; [reflexivity|].
  destruct (decode_rune s) as [r w].
  rewrite sjoin_cons by apply explode_n_not_nil. rewrite IH. cbn [append]. apply stake_sdrop.
Qed.

Lemma rune_count_0 s : rune_count s = 0%nat -> s = "".
Proof.
  destruct s as [|c s]; [reflexivity|]. unfold rune_count. rewrite runes_cons by discriminate.
  cbn. lia.
Qed.

Lemma sjoin_strings_split s c : sjoin c (strings_split s c) = s.
Proof.
  unfold strings_split. destruct (seqb c "") eqn:E.
  - apply seqb_eq in E. subst c. unfold explode, LibString.length.
    replace ((-1 <? 0) || (-1 >? Z.of_nat (rune_count s))) with true by reflexivity.
    destruct (Z.eqb_spec (Z.of_nat (rune_count s)) 0) as [H|H].
    + cbn. symmetry. apply rune_count_0. lia.
    + apply sjoin_explode_n.
  - apply sjoin_split_loop.
Qed.

Theorem split_join s c l : split_str s c None = LOk l -> join l (Some c) = s.
Proof.
  unfold split_str. cbn. intros H. inversion H; subst. apply sjoin_strings_split.
Qed.
Print Assumptions split_join.

(* with a limit that does not truncate, the same *)
Theorem split_join_limit s c k l : split_str s c (Some k) = LOk l ->
  Z.of_nat (List.length (strings_split s c)) <= k -> join l (Some c) = s.
Proof.
  unfold split_str. cbn [opt_int is_set andb]. destruct (k <? 0); [discriminate|].
  intros H Hk. destruct (Z.ltb_spec k (Z.of_nat (List.length (strings_split s c)))); [lia|].
  inversion H; subst. apply sjoin_strings_split.
Qed.

Example split_join_ex :
  split_str "a,b,,c" "," None = LOk ["a"; "b"; ""; "c"] /\
  split_str (string_of_bytes [97; 195; 169; 255]) "" None =
    LOk ["a"; string_of_bytes [195; 169]; string_of_bytes [255]].
Proof. vm_compute. auto. Qed.

(* ---------- 3. $length and $substring count code points ---------- *)
Theorem length_is_cp_count s : LibString.length s = cp_length (cps s).
Proof. reflexivity. Qed.

Lemma length_string_of_runes l : valid_runes l ->
  LibString.length (string_of_runes l) = Z.of_nat (List.length l).
Proof. intros H. unfold LibString.length. now rewrite rune_count_string_of_runes. Qed.

(* positionOfNthRune *)
Lemma ponr_before : forall fuel s pos i n, n < i -> ponr_loop fuel s pos i n = -1.
Proof.
  induction fuel as [|f IH]; intros s pos i n H; cbn [ponr_loop]; [reflexivity|].
  destruct s as [|c s']; [reflexivity|].
  destruct (Z.eqb_spec i n); [lia|].
  destruct (decode_rune (String c s')) as [r w]. apply IH; lia.
Qed.

Lemma ponr_string_of_runes : forall l fuel pos i k, valid_runes l ->
  (slen (string_of_runes l) <= fuel)%nat ->
  ponr_loop fuel (string_of_runes l) pos i (i + Z.of_nat k) =
  if (k <? List.length l)%nat then Z.of_nat (pos + slen (string_of_runes (firstn k l))) else -1.
Proof.
  induction l as [|r l IH]; intros fuel pos i k V F.
  - cbn [string_of_runes map sconcat List.length]. destruct fuel; reflexivity.
  - inversion V as [|? ? Vr Vl]; subst.
    rewrite string_of_runes_cons in *.
    pose proof (encode_rune_len r) as L.
    destruct fuel as [|f]; [rewrite slen_app in F; lia|].
    assert (F2 : (slen (string_of_runes l) <= f)%nat) by (rewrite slen_app in F; lia).
    cbn [ponr_loop].
    destruct (encode_rune r ++ string_of_runes l) as [|c0 s0] eqn:Es.
    { exfalso. revert Es. apply app_not_nil, encode_rune_not_nil. }
    rewrite <- Es. rewrite decode_encode by assumption. rewrite sdrop_app_exact.
    destruct k as [|k].
    + rewrite Z.add_0_r, Z.eqb_refl. cbn. f_equal. lia.
    + destruct (Z.eqb_spec i (i + Z.of_nat (S k))); [lia|].
      replace (i + Z.of_nat (S k)) with (i + 1 + Z.of_nat k) by lia.
      rewrite IH; [|assumption|assumption].
      cbn [List.length firstn]. rewrite string_of_runes_cons, slen_app.
      change (S k <? S (List.length l))%nat with (k <? List.length l)%nat.
      destruct (k <? List.length l)%nat; [f_equal; lia|reflexivity].
Qed.

Lemma position_of_nth_rune_runes l n : valid_runes l ->
  position_of_nth_rune (string_of_runes l) n =
  if (0 <=? n) && (n <? Z.of_nat (List.length l))
  then Z.of_nat (slen (string_of_runes (firstn (Z.to_nat n) l))) else -1.
Proof.
  intros V. unfold position_of_nth_rune.
  destruct (Z.leb_spec 0 n) as [H|H]; cbn [andb].
  - replace n with (0 + Z.of_nat (Z.to_nat n)) at 1 by lia.
    rewrite ponr_string_of_runes by (auto; lia). cbn [Nat.add].
    destruct (Nat.ltb_spec (Z.to_nat n) (List.length l)), (Z.ltb_spec n (Z.of_nat (List.length l))); try lia; reflexivity.
  - apply ponr_before; lia.
Qed.

Lemma slen_firstn_le n l : (slen (string_of_runes (firstn n l)) <= slen (string_of_runes l))%nat.
Proof.
  rewrite <- (firstn_skipn n l) at 2. rewrite string_of_runes_app, slen_app. lia.
Qed.

Lemma slice_from_runes l n : valid_runes l -> 0 <= n < Z.of_nat (List.length l) ->
  go_slice_from (string_of_runes l) (position_of_nth_rune (string_of_runes l) n) =
  LOk (string_of_runes (skipn (Z.to_nat n) l)).
Proof.
  intros V H. rewrite position_of_nth_rune_runes by assumption.
  replace ((0 <=? n) && (n <? Z.of_nat (List.length l))) with true by lia.
  unfold go_slice_from, zlen. pose proof (slen_firstn_le (Z.to_nat n) l) as B.
  match goal with |- (if ?c then _ else _) = _ => replace c with false by lia end.
  rewrite Nat2Z.id. now rewrite sdrop_string_of_runes.
Qed.

Lemma slice_to_runes l n : valid_runes l -> 0 <= n < Z.of_nat (List.length l) ->
  go_slice_to (string_of_runes l) (position_of_nth_rune (string_of_runes l) n) =
  LOk (string_of_runes (firstn (Z.to_nat n) l)).
Proof.
  intros V H. rewrite position_of_nth_rune_runes by assumption.
  replace ((0 <=? n) && (n <? Z.of_nat (List.length l))) with true by lia.
  unfold go_slice_to, zlen. pose proof (slen_firstn_le (Z.to_nat n) l) as B.
  match goal with |- (if ?c then _ else _) = _ => replace c with false by lia end.
  rewrite Nat2Z.id. now rewrite stake_string_of_runes.
Qed.

Lemma substring_runes l st len : valid_runes l ->
  substring (string_of_runes l) st len = LOk (string_of_runes (cp_substring l st len)).
Proof.
  intros V. unfold substring, cp_substring, cp_length.
  rewrite length_string_of_runes by assumption.
  set (L := Z.of_nat (List.length l)).
  destruct ((is_set len && (opt_int len <=? 0)) || (st >=? L)) eqn:C1.
  { f_equal. apply orb_true_iff in C1 as [C1|C1].
    - destruct len as [k|]; [|discriminate]. cbn [is_set opt_int andb] in C1.
      replace (Z.to_nat k) with 0%nat by lia. reflexivity.
    - assert (E : skipn (Z.to_nat (if st <? 0 then Z.max 0 (st + L) else st)) l = []).
      { apply skipn_all2. subst L. destruct (st <? 0) eqn:E; lia. }
      rewrite E. destruct len; [now rewrite firstn_nil|reflexivity]. }
  apply orb_false_iff in C1 as [C1 C2].
  destruct (st <? 0) eqn:N.
  all: match goal with |- lbind (if ?a >? 0 then _ else _) _ = LOk (string_of_runes (match _ with Some _ => firstn _ (skipn (Z.to_nat ?b) _) | None => _ end)) =>
    set (st1 := a); set (st2 := b) end.
  all: assert (E1 : (if st1 >? 0 then go_slice_from (string_of_runes l) (position_of_nth_rune (string_of_runes l) st1)
                else LOk (string_of_runes l)) = LOk (string_of_runes (skipn (Z.to_nat st2) l)));
  [destruct (Z.gtb_spec st1 0) as [G|G];
    [rewrite slice_from_runes by (auto; subst st1 L; lia); replace st2 with st1 by (subst st1 st2; lia); reflexivity
    |replace (Z.to_nat st2) with 0%nat by (subst st1 st2; lia); reflexivity]|].
  all: rewrite E1; cbn [lbind].
  all: set (l2 := skipn (Z.to_nat st2) l).
  all: assert (V2 : valid_runes l2) by now apply valid_runes_skipn.
  all: rewrite length_string_of_runes by assumption.
  all: destruct len as [k|]; cbn [is_set opt_int andb]; [|reflexivity].
  all: cbn [is_set opt_int andb] in C1.
  all: try change (skipn (Z.to_nat (Z.max 0 st1)) l) with l2; try change (skipn (Z.to_nat st1) l) with l2.
  all: destruct (Z.ltb_spec k (Z.of_nat (List.length l2))) as [G|G];
    [apply slice_to_runes; [assumption|lia]|now rewrite firstn_all2 by lia].
Qed.

(* for valid UTF-8 s, every start and every optional length: Substring returns (never panics)
   a valid string whose code points are the specified slice *)
Theorem substring_cp s st len : valid_utf8 s = true ->
  exists r, substring s st len = LOk r /\ valid_utf8 r = true /\
            cps r = cp_substring (cps s) st len.
Proof.
  intros V. pose proof (runes_valid s V) as VL.
  exists (string_of_runes (cp_substring (runes s) st len)).
  assert (V3 : valid_runes (cp_substring (runes s) st len)).
  { unfold cp_substring. destruct len; [apply valid_runes_firstn|]; now apply valid_runes_skipn. }
  split; [|split].
  - rewrite <- (encode_runes_inverse s V) at 1. now apply substring_runes.
  - now apply valid_string_of_runes.
  - unfold cps. now apply runes_string_of_runes.
Qed.
Print Assumptions length_is_cp_count.
Print Assumptions substring_cp.

Example substring_cp_ex :
  let s := string_of_bytes [97; 195; 169; 226; 130; 172; 240; 159; 152; 128; 98] in
  valid_utf8 s = true /\ LibString.length s = 5 /\
  substring s (-3) (Some 2) = LOk (string_of_bytes [226; 130; 172; 240; 159; 152; 128]) /\
  cp_substring (cps s) (-3) (Some 2) = [8364; 128512].
Proof. vm_compute. auto. Qed.

(* ---------- 4. $pad ---------- *)
Lemma wrap_int_id z : min_int <= z <= max_int -> wrap_int z = z.
Proof. unfold wrap_int, min_int, max_int. intros H. rewrite Z.mod_small; lia. Qed.

Lemma go_abs_int n : min_int < n <= max_int -> go_abs n = Z.abs n.
Proof.
  unfold go_abs, min_int, max_int. intros H. destruct (Z.ltb_spec n 0).
  - rewrite wrap_int_id by (unfold min_int, max_int; lia). lia.
  - lia.
Qed.

Lemma srepeat_runes lc k :
  srepeat (string_of_runes lc) k = string_of_runes (List.concat (repeat lc k)).
Proof.
  induction k as [|k IH]; [reflexivity|]. cbn [srepeat repeat List.concat].
  now rewrite string_of_runes_app, IH.
Qed.

Lemma valid_runes_concat_repeat lc k : valid_runes lc -> valid_runes (List.concat (repeat lc k)).
Proof. intros V. induction k; cbn; [constructor|now apply valid_runes_app]. Qed.

Lemma length_concat_repeat {A} (lc : list A) k :
  List.length (List.concat (repeat lc k)) = (k * List.length lc)%nat.
Proof. induction k; cbn; [reflexivity|]. rewrite app_length, IHk. lia. Qed.

Lemma go_repeat_ok s k p : go_repeat s k = LOk p -> s <> "" -> 0 < k -> p = srepeat s (Z.to_nat k).
Proof.
  unfold go_repeat. intros H Hs Hk.
  destruct (Z.eqb_spec k 0); [lia|].
  destruct (Z.eqb_spec k 1) as [->|].
  { inversion H; subst. change (Z.to_nat 1) with 1%nat. cbn [srepeat]. now rewrite sapp_nil_r. }
  destruct (k <? 0); [discriminate|].
  destruct (zlen s >? max_int / k); [discriminate|].
  destruct (Z.eqb_spec (zlen s) 0) as [Z0|Z0].
  { destruct s; [congruence|]. unfold zlen in Z0. cbn in Z0. lia. }
  destruct (zlen s * k >? max_alloc); [discriminate|]. now inversion H.
Qed.

Lemma go_repeat_no_panic s k : 0 <= k -> zlen s * k <= max_alloc -> exists p, go_repeat s k = LOk p.
Proof.
  unfold go_repeat. intros Hk Hn.
  destruct (Z.eqb_spec k 0); [eauto|].
  destruct (Z.eqb_spec k 1); [eauto|].
  destruct (Z.ltb_spec k 0); [lia|].
  destruct (Z.gtb_spec (zlen s) (max_int / k)) as [G|G].
  { exfalso. assert (zlen s <= max_int / k); [|lia].
    apply Z.div_le_lower_bound; [lia|]. unfold max_alloc, max_int in *. lia. }
  destruct (zlen s =? 0); [eauto|].
  destruct (Z.gtb_spec (zlen s * k) max_alloc); [lia|eauto].
Qed.

(* the pad string Go actually uses, as code points *)
Definition pad_chars_ok (chars : option string) : Prop :=
  match chars with Some c => valid_utf8 c = true | None => True end.

Lemma eff_chars chars : pad_chars_ok chars ->
  let lc := cp_pad_chars (option_map runes chars) in
  (if seqb (opt_str chars) "" then " " else opt_str chars) = string_of_runes lc /\
  valid_runes lc /\ lc <> [].
Proof.
  intros H. destruct chars as [c|]; cbn [opt_str option_map].
  2:{ cbn. repeat split; [repeat constructor|discriminate]. }
  cbn in H. destruct (seqb c "") eqn:E.
  - apply seqb_eq in E. subst c. cbn. repeat split; [repeat constructor|discriminate].
  - assert (Hc : c <> "") by (intros ->; cbn in E; discriminate).
    pose proof (runes_valid c H) as V. pose proof (encode_runes_inverse c H) as I.
    destruct (runes c) as [|x t] eqn:R.
    + cbn in I. congruence.
    + cbn [cp_pad_chars]. repeat split; auto. discriminate.
Qed.

Lemma pad_runes l n chars : valid_runes l -> pad_chars_ok chars ->
  min_int < n <= max_int -> Z.of_nat (List.length l) <= max_int ->
  forall r, pad (string_of_runes l) n chars = LOk r ->
            r = string_of_runes (cp_pad l n (option_map runes chars)).
Proof.
  intros V C Hn HL r. unfold pad, cp_pad, cp_length.
  destruct (eff_chars chars C) as (E & Vc & Nc). cbv zeta in E. rewrite E. clear E.
  set (lc := cp_pad_chars (option_map runes chars)) in *.
  rewrite length_string_of_runes, go_abs_int by assumption.
  set (L := Z.of_nat (List.length l)) in *.
  rewrite wrap_int_id by (unfold min_int, max_int in *; lia).
  set (k := Z.abs n - L).
  destruct (Z.leb_spec k 0) as [K|K].
  { intros H. inversion H; subst r. replace (Z.to_nat k) with 0%nat by lia.
    unfold cp_cycle. cbn [firstn]. destruct (n <? 0); cbn; now rewrite ?app_nil_r. }
  destruct (go_repeat (string_of_runes lc) k) as [p| | | |] eqn:R; cbn [lbind]; try discriminate.
  apply go_repeat_ok in R; [|destruct lc; [congruence|rewrite string_of_runes_cons; apply app_not_nil, encode_rune_not_nil]|lia].
  rewrite srepeat_runes in R. subst p.
  set (big := List.concat (repeat lc (Z.to_nat k))).
  assert (Vb : valid_runes big) by now apply valid_runes_concat_repeat.
  assert (Lb : (Z.to_nat k <= List.length big)%nat).
  { subst big. rewrite length_concat_repeat. destruct lc; [congruence|]. cbn [List.length]. nia. }
  rewrite length_string_of_runes by assumption.
  assert (P : (if Z.of_nat (List.length big) >? k
               then go_slice_to (string_of_runes big) (position_of_nth_rune (string_of_runes big) k)
               else LOk (string_of_runes big)) = LOk (string_of_runes (cp_cycle lc (Z.to_nat k)))).
  { unfold cp_cycle. fold big. destruct (Z.gtb_spec (Z.of_nat (List.length big)) k) as [G|G].
    - apply slice_to_runes; [assumption|lia].
    - now rewrite firstn_all2 by lia. }
  rewrite P. cbn [lbind].
  destruct (n <? 0); intros H; inversion H; now rewrite string_of_runes_app.
Qed.

Lemma valid_cp_pad l n chars : valid_runes l -> pad_chars_ok chars ->
  valid_runes (cp_pad l n (option_map runes chars)).
Proof.
  intros V C. destruct (eff_chars chars C) as (_ & Vc & _). unfold cp_pad, cp_cycle.
  destruct (n <? 0); apply valid_runes_app; auto; apply valid_runes_firstn, valid_runes_concat_repeat; auto.
Qed.

Lemma length_cp_pad l n chars : 
  cp_length (cp_pad l n chars) = Z.max (Z.abs n) (cp_length l).
Proof.
  unfold cp_pad, cp_cycle, cp_length.
  assert (Nc : cp_pad_chars chars <> []) by (destruct chars as [[|? ?]|]; discriminate).
  set (lc := cp_pad_chars chars) in *. set (L := Z.of_nat (List.length l)).
  set (k := Z.to_nat (Z.abs n - L)).
  assert (F : List.length (firstn k (List.concat (repeat lc k))) = k).
  { rewrite firstn_length, length_concat_repeat. destruct lc; [congruence|]. cbn [List.length]. nia. }
  destruct (n <? 0); rewrite app_length, F; subst k L; lia.
Qed.

(* $pad on valid UTF-8 with a valid pad string, width any Go int except the one value
   (min_int) whose absolute value does not exist: the result's code points are the specified
   padding *)
Theorem pad_cp s n chars r : valid_utf8 s = true -> pad_chars_ok chars ->
  min_int < n <= max_int -> LibString.length s <= max_int ->
  pad s n chars = LOk r ->
  valid_utf8 r = true /\ cps r = cp_pad (cps s) n (option_map cps chars).
Proof.
  intros V C Hn HL H. pose proof (runes_valid s V) as VL.
  rewrite <- (encode_runes_inverse s V) in H.
  apply pad_runes in H; auto. subst r. unfold cps.
  pose proof (valid_cp_pad (runes s) n chars VL C) as VP.
  split; [now apply valid_string_of_runes|now apply runes_string_of_runes].
Qed.

(* ... consequently $length($pad(s, n)) = max(|n|, $length(s)) *)
Theorem pad_length s n chars r : valid_utf8 s = true -> pad_chars_ok chars ->
  min_int < n <= max_int -> LibString.length s <= max_int ->
  pad s n chars = LOk r ->
  LibString.length r = Z.max (Z.abs n) (LibString.length s).
Proof.
  intros V C Hn HL H. destruct (pad_cp s n chars r V C Hn HL H) as [_ E].
  rewrite !length_is_cp_count, E. apply length_cp_pad.
Qed.

(* Pad does not panic as long as the padding fits the allocator: |n| * len(chars) <= 2^48 *)
Theorem pad_no_panic s n chars : valid_utf8 s = true -> pad_chars_ok chars ->
  min_int < n <= max_int -> LibString.length s <= max_int ->
  Z.abs n * Z.max 1 (zlen (opt_str chars)) <= max_alloc ->
  exists r, pad s n chars = LOk r.
Proof.
  intros V C Hn HL HA. pose proof (runes_valid s V) as VL.
  rewrite <- (encode_runes_inverse s V). unfold pad.
  destruct (eff_chars chars C) as (E & Vc & Nc). cbv zeta in E.
  assert (ZL : zlen (if seqb (opt_str chars) "" then " " else opt_str chars) = Z.max 1 (zlen (opt_str chars))).
  { destruct (seqb (opt_str chars) "") eqn:Q.
    - apply seqb_eq in Q. rewrite Q. reflexivity.
    - destruct (opt_str chars); [cbn in Q; discriminate|]. unfold zlen. cbn [slen String.length]. lia. }
  set (ch := if seqb (opt_str chars) "" then " " else opt_str chars) in *.
  rewrite length_string_of_runes, go_abs_int by assumption.
  unfold LibString.length, rune_count in HL.
  set (L := Z.of_nat (List.length (runes s))) in *.
  rewrite wrap_int_id by (unfold min_int, max_int in *; lia).
  set (k := Z.abs n - L).
  destruct (Z.leb_spec k 0) as [K|K]; [eauto|].
  destruct (go_repeat_no_panic ch k) as [p R]; [lia| |].
  { rewrite ZL. assert (0 <= L) by lia. nia. }
  rewrite R. cbn [lbind].
  pose proof R as R'. rewrite E in R'.
  apply go_repeat_ok in R'; [|destruct (cp_pad_chars (option_map runes chars)); [congruence|rewrite string_of_runes_cons; apply app_not_nil, encode_rune_not_nil]|lia].
  rewrite srepeat_runes in R'. subst p.
  set (lc := cp_pad_chars (option_map runes chars)) in *.
  set (big := List.concat (repeat lc (Z.to_nat k))).
  assert (Vb : valid_runes big) by now apply valid_runes_concat_repeat.
  rewrite length_string_of_runes by assumption.
  destruct (Z.gtb_spec (Z.of_nat (List.length big)) k) as [G|G].
  - rewrite slice_to_runes by (auto; lia). cbn [lbind]. destruct (n <? 0); eauto.
  - cbn [lbind]. destruct (n <? 0); eauto.
Qed.
Print Assumptions pad_cp.
Print Assumptions pad_length.
Print Assumptions pad_no_panic.

Example pad_ex :
  let s := string_of_bytes [195; 169; 97] in
  let ch := string_of_bytes [226; 130; 172; 98] in
  valid_utf8 s = true /\ pad_chars_ok (Some ch) /\
  pad s (-7) (Some ch) = LOk (string_of_bytes [226;130;172;98;226;130;172;98;226;130;172;195;169;97]) /\
  cp_pad (cps s) (-7) (Some (cps ch)) = [8364; 98; 8364; 98; 8364; 233; 97].
Proof. vm_compute. auto. Qed.
(* outside the hypotheses the Go code does panic / mis-pad *)
Example pad_min_int : pad "a" min_int None = LPanic "makeslice: len out of range" /\ pad "" min_int None = LOk "".
Proof. vm_compute. auto. Qed.
Example pad_huge : pad "a" 1125899906842624 None = LPanic "makeslice: len out of range" /\
  pad "" 4611686018427387904 (Some "ab") = LPanic "strings: Repeat output length overflow".
Proof. vm_compute. auto. Qed.

Ltac Zify.zify_post_hook ::= Z.div_mod_to_equations.

(* ---------- 5. base64 ---------- *)
Lemma b64_val_char v : 0 <= v < 64 -> b64_val (byte_of (b64_char v)) = Some v.
Proof.
  intros H. unfold b64_char.
  destruct (Z.ltb_spec v 26); [|destruct (Z.ltb_spec v 52); [|destruct (Z.ltb_spec v 62); [|destruct (Z.eqb_spec v 62)]]];
  rewrite byte_of_ascii_of_Z by lia; unfold b64_val;
  repeat match goal with
  | |- context [if ?c then _ else _] =>
      first [replace c with true by lia | replace c with false by lia]
  end; f_equal; lia.
Qed.

Lemma b64_digit d r j v out : 0 <= d < 64 ->
  b64_decode_loop (String (b64_char d) r) j v out =
  match j with
  | 3%nat => b64_decode_loop r 0 0
               (String (ascii_of_Z ((v * 64 + d) mod 256))
                  (String (ascii_of_Z ((v * 64 + d) / 256 mod 256))
                     (String (ascii_of_Z ((v * 64 + d) / 65536 mod 256)) out)))
  | _ => b64_decode_loop r (S j) (v * 64 + d) out
  end.
Proof. intros H. cbn [b64_decode_loop]. rewrite b64_val_char by lia. reflexivity. Qed.

Lemma b64_pad2 v out :
  b64_decode_loop "==" 2 v out = LOk (srev (String (ascii_of_Z (v / 16 mod 256)) out)).
Proof. reflexivity. Qed.
Lemma b64_pad1 v out :
  b64_decode_loop "=" 3 v out =
  LOk (srev (String (ascii_of_Z (v / 4 mod 256)) (String (ascii_of_Z (v / 1024 mod 256)) out))).
Proof. reflexivity. Qed.

Lemma srev_acc_app s : forall acc, srev_acc s acc = srev_acc s "" ++ acc.
Proof.
  induction s as [|c s IH]; intros acc; cbn [srev_acc]; [reflexivity|].
  rewrite IH, (IH (String c "")), sapp_assoc. reflexivity.
Qed.
Lemma srev_cons c s : srev (String c s) = srev s ++ String c "".
Proof. unfold srev. cbn [srev_acc]. apply srev_acc_app. Qed.

Lemma b64_roundtrip_aux n : forall s out, (slen s <= n)%nat ->
  b64_decode_loop (base64_encode s) 0 0 out = LOk (srev out ++ s).
Proof.
  induction n as [|n IH]; intros s out Hn.
  { destruct s; [|cbn in Hn; lia]. cbn. now rewrite sapp_nil_r. }
  destruct s as [|c0 [|c1 [|c2 r]]].
  - cbn. now rewrite sapp_nil_r.
  - pose proof (byte_of_range c0) as R0. cbn [base64_encode].
    rewrite !b64_digit by lia. rewrite b64_pad2, srev_cons. do 2 f_equal.
    f_equal. apply ascii_of_Z_eq. lia.
  - pose proof (byte_of_range c0) as R0. pose proof (byte_of_range c1) as R1. cbn [base64_encode].
    rewrite !b64_digit by lia. rewrite b64_pad1, !srev_cons, !sapp_assoc. do 2 f_equal.
    cbn [append]. f_equal; [apply ascii_of_Z_eq; lia|]. f_equal. apply ascii_of_Z_eq. lia.
  - pose proof (byte_of_range c0) as R0. pose proof (byte_of_range c1) as R1.
    pose proof (byte_of_range c2) as R2. cbn [base64_encode].
    rewrite !b64_digit by lia. rewrite IH by (unfold slen in *; cbn [String.length] in *; lia).
    rewrite !srev_cons, !sapp_assoc. do 2 f_equal. cbn [append].
    f_equal; [apply ascii_of_Z_eq; lia|]. f_equal; [apply ascii_of_Z_eq; lia|].
    f_equal. apply ascii_of_Z_eq. lia.
Qed.

Theorem base64_roundtrip s : base64_decode (base64_encode s) = LOk s.
Proof. unfold base64_decode. now rewrite (b64_roundtrip_aux (slen s)). Qed.
Print Assumptions base64_roundtrip.

Example base64_ex :
  base64_encode (string_of_bytes [255; 0; 226; 130; 172]) = "/wDigqw=" /\
  base64_decode "/wDi gqw=" = LErr "base64: illegal base64 data".
Proof. vm_compute. auto. Qed.
Ltac Zify.zify_post_hook ::= idtac.

Ltac Zify.zify_post_hook ::= Z.div_mod_to_equations.

(* ---------- 6. URL component ---------- *)
Lemma hex_val_upper_hex n : 0 <= n < 16 -> hex_val (upper_hex n) = Some n.
Proof.
  intros H. unfold upper_hex, hex_val.
  destruct (Z.ltb_spec n 10); rewrite byte_of_ascii_of_Z by lia;
  repeat match goal with
  | |- context [if ?c then _ else _] =>
      first [replace c with true by lia | replace c with false by lia]
  end; f_equal; lia.
Qed.

Theorem url_roundtrip s : url_query_unescape (url_query_escape s) = LOk s.
Proof.
  induction s as [|c s IH]; [reflexivity|].
  pose proof (byte_of_range c) as R. cbn [url_query_escape].
  destruct (Z.eqb_spec (byte_of c) 32) as [E|E].
  { cbn [url_query_unescape]. change (byte_of "+") with 43. cbn [Z.eqb Pos.eqb]. rewrite IH. cbn [lmap lbind].
    do 2 f_equal. apply byte_of_inj. rewrite E. reflexivity. }
  destruct (should_escape (byte_of c)) eqn:S.
  { cbn [url_query_unescape]. change (byte_of "%") with 37. cbn [Z.eqb Pos.eqb].
    rewrite !hex_val_upper_hex by lia. rewrite IH. cbn [lmap lbind]. do 2 f_equal.
    apply ascii_of_Z_eq. lia. }
  cbn [url_query_unescape].
  unfold should_escape, url_unreserved in S.
  destruct (Z.eqb_spec (byte_of c) 37); [lia|].
  destruct (Z.eqb_spec (byte_of c) 43); [lia|].
  rewrite IH. reflexivity.
Qed.
Print Assumptions url_roundtrip.

(* $decodeUrlComponent($encodeUrlComponent(s)) = s; the encoder fails exactly on the lone U+FFFD *)
Theorem url_component_roundtrip s e : encode_url_component s = LOk e -> decode_url e = LOk s.
Proof.
  unfold encode_url_component, decode_url. destruct (seqb s replacement_char); [discriminate|].
  intros H. inversion H; subst. apply url_roundtrip.
Qed.
Theorem encode_url_component_total s :
  s <> replacement_char -> encode_url_component s = LOk (url_query_escape s).
Proof.
  intros H. unfold encode_url_component. destruct (seqb s replacement_char) eqn:E; [|reflexivity].
  apply seqb_eq in E. congruence.
Qed.
Theorem encode_url_component_fffd : exists t, encode_url_component replacement_char = LErr t.
Proof. eexists. reflexivity. Qed.
Print Assumptions url_component_roundtrip.

Example url_ex :
  encode_url_component (string_of_bytes [97; 32; 43; 195; 169; 126]) = LOk "a+%2B%C3%A9~" /\
  decode_url "%zz" = LErr "invalid URL escape".
Proof. vm_compute. auto. Qed.
Ltac Zify.zify_post_hook ::= idtac.

(* ---------- 7a. searching valid UTF-8 for a valid needle finds code-point occurrences ---------- *)
Lemma sprefix_app_same a p q : sprefix (a ++ p) (a ++ q) = sprefix p q.
Proof. induction a as [|x a IH]; cbn; [reflexivity|]. now rewrite Ascii.eqb_refl, IH. Qed.

Lemma cp_prefix_refl_app c a : cp_prefix c (c ++ a)%list = true.
Proof. induction c as [|x c IH]; cbn; [reflexivity|]. now rewrite Z.eqb_refl, IH. Qed.

Lemma cp_prefix_spec c l : cp_prefix c l = true -> l = (c ++ skipn (List.length c) l)%list.
Proof.
  revert l; induction c as [|x c IH]; intros l H; [reflexivity|].
  destruct l as [|y l]; [discriminate|]. cbn in H. apply andb_true_iff in H as [H1 H2].
  apply Z.eqb_eq in H1. subst y. cbn. f_equal. now apply IH.
Qed.

Lemma sprefix_runes c : forall l, valid_runes c -> valid_runes l ->
  sprefix (string_of_runes c) (string_of_runes l) = cp_prefix c l.
Proof.
  induction c as [|x c IH]; intros l Vc Vl; [reflexivity|].
  inversion Vc as [|? ? Vx Vc']; subst.
  destruct l as [|y l].
  - cbn [cp_prefix]. rewrite string_of_runes_cons.
    destruct (encode_rune x ++ string_of_runes c) eqn:E; [|reflexivity].
    exfalso. revert E. apply app_not_nil, encode_rune_not_nil.
  - inversion Vl as [|? ? Vy Vl']; subst. cbn [cp_prefix].
    destruct (Z.eqb_spec x y) as [->|N].
    + rewrite !string_of_runes_cons, sprefix_app_same. cbn [andb]. now apply IH.
    + cbn [andb]. destruct (sprefix _ _) eqn:P; [exfalso|reflexivity].
      apply sprefix_app in P. rewrite !string_of_runes_cons, !sapp_assoc in P.
      apply (f_equal decode_rune) in P. rewrite !decode_encode in P by assumption.
      inversion P. congruence.
Qed.

Lemma sindex_from_skip_cont sub t : all_cont t = true -> is_cont (first_byte sub) = false ->
  sub <> "" -> forall rest off,
  sindex_from sub (t ++ rest) off = sindex_from sub rest (off + slen t).
Proof.
  intros At Hs Hn. induction t as [|c t IH]; intros rest off.
  - cbn. f_equal. lia.
  - cbn in At. apply andb_true_iff in At as [A1 A2].
    cbn [append sindex_from]. destruct sub as [|s0 sub']; [congruence|].
    cbn [sprefix]. cbn in Hs.
    destruct (Ascii.eqb_spec s0 c) as [->|N]; [congruence|]. cbn [andb].
    rewrite IH by assumption. f_equal. cbn [slen String.length]. unfold slen. lia.
Qed.

Lemma first_byte_string_of_runes x c :
  is_cont (first_byte (string_of_runes (x :: c))) = false.
Proof.
  rewrite string_of_runes_cons. destruct (encode_rune_shape x) as [F _].
  destruct (encode_rune x) eqn:E; [exfalso; revert E; apply encode_rune_not_nil|]. exact F.
Qed.

Lemma sindex_from_rune sub y rest off : is_cont (first_byte sub) = false -> sub <> "" ->
  sindex_from sub (encode_rune y ++ rest) off =
  if sprefix sub (encode_rune y ++ rest) then Some off
  else sindex_from sub rest (off + slen (encode_rune y)).
Proof.
  intros Hs Hn. destruct (encode_rune_shape y) as [_ A].
  destruct (encode_rune y) as [|b0 t] eqn:E; [exfalso; revert E; apply encode_rune_not_nil|].
  cbn [stail] in A. cbn [append]. cbn [sindex_from].
  destruct (sprefix sub (String b0 (t ++ rest))); [reflexivity|].
  rewrite sindex_from_skip_cont by assumption. f_equal. cbn [slen String.length]. unfold slen. lia.
Qed.

Lemma sindex_from_runes x c : valid_runes (x :: c) -> forall l off, valid_runes l ->
  sindex_from (string_of_runes (x :: c)) (string_of_runes l) off =
  match cp_find (x :: c) l with
  | Some (b, _) => Some (off + slen (string_of_runes b))%nat
  | None => None
  end.
Proof.
  intros Vc. set (sub := string_of_runes (x :: c)).
  assert (Hs : is_cont (first_byte sub) = false) by apply first_byte_string_of_runes.
  assert (Hn : sub <> "").
  { subst sub. rewrite string_of_runes_cons. apply app_not_nil, encode_rune_not_nil. }
  induction l as [|y l IH]; intros off Vl.
  - cbn [cp_find]. rewrite <- (sprefix_runes (x :: c) []) by assumption. fold sub.
    cbn [string_of_runes map sconcat sindex_from]. destruct (sprefix sub ""); [|reflexivity].
    cbn. f_equal. lia.
  - inversion Vl as [|? ? Vy Vl']; subst. cbn [cp_find].
    rewrite <- (sprefix_runes (x :: c) (y :: l)) by assumption. fold sub.
    rewrite string_of_runes_cons, sindex_from_rune by assumption.
    destruct (sprefix sub (encode_rune y ++ string_of_runes l)).
    + cbn. f_equal. lia.
    + rewrite IH by assumption. destruct (cp_find (x :: c) l) as [[b a]|]; [|reflexivity].
      rewrite string_of_runes_cons, slen_app. f_equal. lia.
Qed.

Lemma cp_find_spec c : forall l b a, cp_find c l = Some (b, a) -> l = (b ++ c ++ a)%list.
Proof.
  induction l as [|y l IH]; intros b a H; cbn [cp_find] in H.
  - destruct (cp_prefix c []) eqn:P; [|discriminate]. inversion H; subst. cbn [app].
    now apply cp_prefix_spec.
  - destruct (cp_prefix c (y :: l)) eqn:P.
    + inversion H; subst. cbn [app]. now apply cp_prefix_spec.
    + destruct (cp_find c l) as [[b' a']|] eqn:F; [|discriminate]. inversion H; subst.
      cbn [app]. f_equal. now apply IH.
Qed.

Lemma cp_find_nil l : cp_find [] l = Some ([], l).
Proof. destruct l; reflexivity. Qed.

Theorem sindex_runes c l : valid_runes c -> valid_runes l ->
  sindex (string_of_runes c) (string_of_runes l) =
  match cp_find c l with
  | Some (b, _) => Some (slen (string_of_runes b))
  | None => None
  end.
Proof.
  intros Vc Vl. destruct c as [|x c].
  - rewrite cp_find_nil. unfold sindex. destruct (string_of_runes l); reflexivity.
  - unfold sindex. now rewrite sindex_from_runes.
Qed.

Lemma valid_cp_find c l b a : valid_runes l -> cp_find c l = Some (b, a) ->
  valid_runes b /\ valid_runes a.
Proof.
  intros V H. apply cp_find_spec in H. subst l.
  apply Forall_app in V as [V1 V2]. apply Forall_app in V2 as [_ V2]. auto.
Qed.

(* what the byte-level result is, given the code-point-level search result *)
Lemma cut_runes c l b a : valid_runes c -> valid_runes l -> cp_find c l = Some (b, a) ->
  sindex (string_of_runes c) (string_of_runes l) = Some (slen (string_of_runes b)) /\
  stake (slen (string_of_runes b)) (string_of_runes l) = string_of_runes b /\
  sdrop (slen (string_of_runes b) + slen (string_of_runes c)) (string_of_runes l) = string_of_runes a.
Proof.
  intros Vc Vl F. rewrite sindex_runes, F by assumption. split; [reflexivity|].
  apply cp_find_spec in F. subst l. rewrite !string_of_runes_app. split.
  - apply stake_app_exact.
  - rewrite <- sdrop_sdrop, sdrop_app_exact. apply sdrop_app_exact.
Qed.

Section ValidInputs.
  Variables s c : string.
  Hypothesis Vs : valid_utf8 s = true.
  Hypothesis Vc : valid_utf8 c = true.

  Theorem contains_cp : contains_str s c = cp_contains (cps s) (cps c).
  Proof.
    unfold contains_str, scontains, cp_contains, cps.
    rewrite <- (encode_runes_inverse s Vs), <- (encode_runes_inverse c Vc) at 1.
    rewrite sindex_runes by now apply runes_valid.
    destruct (cp_find (runes c) (runes s)) as [[b a]|]; reflexivity.
  Qed.

  Theorem before_cp :
    valid_utf8 (substring_before s c) = true /\
    cps (substring_before s c) = cp_before (cps s) (cps c).
  Proof.
    unfold substring_before, cp_before, cps.
    pose proof (runes_valid s Vs) as VL. pose proof (runes_valid c Vc) as VC.
    destruct (cp_find (runes c) (runes s)) as [[b a]|] eqn:F.
    - destruct (cut_runes _ _ _ _ VC VL F) as (I & B & A).
      destruct (valid_cp_find _ _ _ _ VL F) as [Vb Va].
      rewrite !encode_runes_inverse in * by assumption. rewrite I, B.
      split; [now apply valid_string_of_runes|now apply runes_string_of_runes].
    - pose proof (sindex_runes _ _ VC VL) as I. rewrite F in I.
      rewrite !encode_runes_inverse in I by assumption. rewrite I. auto.
  Qed.

  Theorem after_cp :
    valid_utf8 (substring_after s c) = true /\
    cps (substring_after s c) = cp_after (cps s) (cps c).
  Proof.
    unfold substring_after, cp_after, cps.
    pose proof (runes_valid s Vs) as VL. pose proof (runes_valid c Vc) as VC.
    destruct (cp_find (runes c) (runes s)) as [[b a]|] eqn:F.
    - destruct (cut_runes _ _ _ _ VC VL F) as (I & B & A).
      destruct (valid_cp_find _ _ _ _ VL F) as [Vb Va].
      rewrite !encode_runes_inverse in * by assumption. rewrite I, A.
      split; [now apply valid_string_of_runes|now apply runes_string_of_runes].
    - pose proof (sindex_runes _ _ VC VL) as I. rewrite F in I.
      rewrite !encode_runes_inverse in I by assumption. rewrite I. auto.
  Qed.
End ValidInputs.
Print Assumptions contains_cp.
Print Assumptions before_cp.
Print Assumptions after_cp.

Example before_after_cp_ex :
  let s := string_of_bytes [226; 130; 172; 195; 169; 226; 130; 172] in
  let c := string_of_bytes [195; 169] in
  cp_find (cps c) (cps s) = Some ([8364], [8364]) /\ substring_after s c = string_of_bytes [226; 130; 172].
Proof. vm_compute. auto. Qed.

(* ---------- 7b. $split at code-point level ---------- *)
Lemma slen_encode_pos x c : (1 <= slen (string_of_runes (x :: c)))%nat.
Proof. rewrite string_of_runes_cons, slen_app. pose proof (encode_rune_len x). lia. Qed.

Lemma split_loop_runes x c : valid_runes (x :: c) -> forall fuel l, valid_runes l ->
  (slen (string_of_runes l) < fuel)%nat ->
  exists ps, cp_split_all (x :: c) l ps /\ Forall valid_runes ps /\
             split_loop fuel (string_of_runes l) (string_of_runes (x :: c)) = map string_of_runes ps.
Proof.
  intros Vc. induction fuel as [|f IH]; intros l Vl F; [lia|].
  cbn [split_loop]. destruct (cp_find (x :: c) l) as [[b a]|] eqn:E.
  - destruct (cut_runes _ _ _ _ Vc Vl E) as (I & B & A). rewrite I, B, A.
    destruct (valid_cp_find _ _ _ _ Vl E) as [Vb Va].
    destruct (IH a Va) as (ps & S & V & Q).
    { apply cp_find_spec in E. subst l. rewrite !string_of_runes_app, !slen_app in F.
      pose proof (slen_encode_pos x c). lia. }
    exists (b :: ps). split; [econstructor; eauto|]. split; [constructor; auto|].
    cbn [map]. now rewrite Q.
  - rewrite sindex_runes, E by assumption. exists [l]. split; [now constructor|].
    split; [repeat constructor; auto|reflexivity].
Qed.

Lemma explode_n_runes : forall t x, valid_runes (x :: t) ->
  explode_n (List.length t) (string_of_runes (x :: t)) = map encode_rune (x :: t).
Proof.
  induction t as [|y t IH]; intros x V; inversion V as [|? ? Vx Vt]; subst.
  - cbn. now rewrite sapp_nil_r.
  - cbn [List.length explode_n]. rewrite string_of_runes_cons, decode_encode by assumption.
    rewrite stake_app_exact, sdrop_app_exact, IH by assumption. reflexivity.
Qed.

Lemma explode_runes l : valid_runes l -> explode (string_of_runes l) (-1) = map encode_rune l.
Proof.
  intros V. unfold explode. rewrite length_string_of_runes by assumption.
  replace ((-1 <? 0) || (-1 >? Z.of_nat (List.length l))) with true by reflexivity.
  destruct l as [|x t]; [reflexivity|].
  replace (Z.of_nat (List.length (x :: t)) =? 0) with false by (cbn [List.length]; lia).
  replace (Z.to_nat (Z.of_nat (List.length (x :: t)) - 1)) with (List.length t) by (cbn [List.length]; lia).
  now apply explode_n_runes.
Qed.

Lemma runes_encode_rune r : valid_rune r = true -> runes (encode_rune r) = [r].
Proof.
  intros V. rewrite <- (sapp_nil_r (encode_rune r)), runes_encode_app by assumption. reflexivity.
Qed.

Lemma valid_encode_rune r : valid_rune r = true -> valid_utf8 (encode_rune r) = true.
Proof.
  intros V. rewrite <- (sapp_nil_r (encode_rune r)), valid_encode_app by assumption. reflexivity.
Qed.

Definition all_valid (parts : list string) : Prop := Forall (fun p => valid_utf8 p = true) parts.

Lemma all_valid_firstn n parts : all_valid parts -> all_valid (firstn n parts).
Proof.
  intros H. revert n. induction H as [|p l Hp Hl IH]; intros [|n]; cbn; try (constructor; fail).
  constructor; [exact Hp|apply IH].
Qed.

(* the full (untruncated) split of valid s at valid c, as code points *)
Lemma strings_split_cp s c : valid_utf8 s = true -> valid_utf8 c = true ->
  all_valid (strings_split s c) /\
  (cps c = [] -> map cps (strings_split s c) = cp_explode (cps s)) /\
  (cps c <> [] -> cp_split_all (cps c) (cps s) (map cps (strings_split s c))).
Proof.
  intros Vs Vc. unfold strings_split. change (cps s) with (runes s). change (cps c) with (runes c).
  pose proof (runes_valid s Vs) as VL. pose proof (runes_valid c Vc) as VC.
  destruct (seqb c "") eqn:E.
  - apply seqb_eq in E. subst c. rewrite <- (encode_runes_inverse s Vs) at 1 2.
    rewrite explode_runes by assumption. split; [|split].
    + apply Forall_forall. intros p Hp. apply in_map_iff in Hp as (r & <- & Hr).
      apply valid_encode_rune. eapply Forall_forall in VL; eauto.
    + intros _. rewrite map_map. unfold cp_explode. apply map_ext_in. intros r Hr.
      unfold cps. apply runes_encode_rune. eapply Forall_forall in VL; eauto.
    + intros N. now elim N.
  - assert (N : runes c <> []).
    { intros R. pose proof (encode_runes_inverse c Vc) as I. rewrite R in I. cbn in I. subst c.
      cbn in E. discriminate. }
    destruct (runes c) as [|x t] eqn:R; [congruence|].
    pose proof (encode_runes_inverse c Vc) as Ic. rewrite R in Ic.
    destruct (split_loop_runes x t VC (S (slen s)) (runes s) VL) as (ps & S & V & Q).
    { rewrite encode_runes_inverse by assumption. lia. }
    rewrite encode_runes_inverse, Ic in Q by assumption. rewrite Q.
    assert (M : map cps (map string_of_runes ps) = ps).
    { rewrite map_map. clear -V. induction V as [|p ps Hp Hps IH]; [reflexivity|].
      cbn [map]. unfold cps at 1. now rewrite runes_string_of_runes, IH. }
    split; [|split].
    + apply Forall_forall. intros p Hp. apply in_map_iff in Hp as (q & <- & Hq).
      apply valid_string_of_runes. eapply Forall_forall in V; eauto.
    + intros; congruence.
    + intros _. now rewrite M.
Qed.

(* $split with a string separator on valid UTF-8: every piece is valid UTF-8 and the pieces are,
   as code points, the specified exhaustive split (explode for the empty separator), truncated
   by the limit; a negative limit is an error *)
Theorem split_cp s c limit parts : valid_utf8 s = true -> valid_utf8 c = true ->
  split_str s c limit = LOk parts ->
  all_valid parts /\ cp_split (cps s) (cps c) limit (map cps parts).
Proof.
  intros Vs Vc. unfold split_str.
  destruct (opt_int limit <? 0) eqn:Neg; [discriminate|].
  destruct (strings_split_cp s c Vs Vc) as (V & Ex & Sp).
  set (every := strings_split s c) in *.
  intros H. assert (P : parts = cp_truncate limit every).
  { destruct limit as [k|]; cbn [is_set opt_int andb cp_truncate] in *.
    - destruct (Z.ltb_spec k (Z.of_nat (List.length every))); inversion H; subst; [reflexivity|].
      now rewrite firstn_all2 by lia.
    - now inversion H. }
  subst parts. split.
  - destruct limit; cbn [cp_truncate]; [now apply all_valid_firstn|assumption].
  - exists (map cps every). split; [exact Ex|]. split; [exact Sp|].
    destruct limit; cbn [cp_truncate]; [symmetry; apply firstn_map|reflexivity].
Qed.

Theorem split_negative_limit s c k : k < 0 -> exists t, split_str s c (Some k) = LErr t.
Proof. intros H. unfold split_str. cbn [opt_int]. replace (k <? 0) with true by lia. eauto. Qed.
Print Assumptions split_cp.

Example split_cp_ex :
  let s := string_of_bytes [226; 130; 172; 44; 195; 169; 44; 44] in
  split_str s "," (Some 3) = LOk [string_of_bytes [226; 130; 172]; string_of_bytes [195; 169]; ""] /\
  split_str s "" (Some 2) = LOk [string_of_bytes [226; 130; 172]; ","].
Proof. vm_compute. auto. Qed.

(* ---------- 7c. $replace with a string pattern ---------- *)
Lemma replace_loop_same c : forall f s n, replace_loop f s c c n = s.
Proof.
  induction f as [|f IH]; intros s n; cbn [replace_loop]; [reflexivity|].
  destruct (n =? 0); [reflexivity|]. destruct (sindex c s) as [j|] eqn:E; [|reflexivity].
  rewrite IH. now apply sindex_some in E as (_ & E & _).
Qed.

Lemma strings_replace_loop s old new n : old <> "" ->
  strings_replace s old new n = replace_loop (S (slen s)) s old new n.
Proof.
  intros N. unfold strings_replace.
  destruct (seqb old new) eqn:E; cbn [orb].
  { apply seqb_eq in E. subst new. now rewrite replace_loop_same. }
  destruct (Z.eqb_spec n 0) as [->|]; [reflexivity|].
  destruct (seqb old "") eqn:E2; [apply seqb_eq in E2; congruence|reflexivity].
Qed.

(* replacing every occurrence = splitting at the pattern and joining with the replacement *)
Lemma replace_loop_split_join c r : forall f s n, n < 0 ->
  replace_loop f s c r n = sjoin r (split_loop f s c).
Proof.
  induction f as [|f IH]; intros s n Hn; cbn [replace_loop split_loop]; [reflexivity|].
  destruct (Z.eqb_spec n 0); [lia|]. destruct (sindex c s) as [j|]; [|reflexivity].
  rewrite sjoin_cons by apply split_loop_not_nil. now rewrite IH by lia.
Qed.

Theorem replace_all_is_split_join s pat repl : pat <> "" ->
  replace_str s pat repl (-1) = LOk (join (strings_split s pat) (Some repl)).
Proof.
  intros N. unfold replace_str, join, strings_split. cbn [opt_str].
  destruct (seqb pat "") eqn:E; [apply seqb_eq in E; congruence|].
  now rewrite strings_replace_loop, replace_loop_split_join by (auto; lia).
Qed.

Theorem replace_empty_pattern s repl n : exists t, replace_str s "" repl n = LErr t.
Proof. eexists. reflexivity. Qed.

Theorem replace_absent s pat repl n : pat <> "" -> contains_str s pat = false ->
  replace_str s pat repl n = LOk s.
Proof.
  intros N C. unfold replace_str. destruct (seqb pat "") eqn:E; [apply seqb_eq in E; congruence|].
  rewrite strings_replace_loop by assumption. cbn [replace_loop].
  unfold contains_str, scontains in C. destruct (n =? 0); [reflexivity|].
  destruct (sindex pat s); [discriminate|reflexivity].
Qed.

Lemma replace_loop_runes x c r : valid_runes (x :: c) -> valid_runes r ->
  forall fuel l n, valid_runes l -> (slen (string_of_runes l) < fuel)%nat ->
  exists out, cp_replace (x :: c) r n l out /\ valid_runes out /\
    replace_loop fuel (string_of_runes l) (string_of_runes (x :: c)) (string_of_runes r) n =
    string_of_runes out.
Proof.
  intros Vc Vr. induction fuel as [|f IH]; intros l n Vl F; [lia|].
  cbn [replace_loop]. destruct (Z.eqb_spec n 0) as [->|Nn].
  { exists l. split; [constructor|auto]. }
  destruct (cp_find (x :: c) l) as [[b a]|] eqn:E.
  - destruct (cut_runes _ _ _ _ Vc Vl E) as (I & B & A). rewrite I, B, A.
    destruct (valid_cp_find _ _ _ _ Vl E) as [Vb Va].
    destruct (IH a (n - 1) Va) as (out & S & V & Q).
    { apply cp_find_spec in E. subst l. rewrite !string_of_runes_app, !slen_app in F.
      pose proof (slen_encode_pos x c). lia. }
    exists (b ++ r ++ out)%list. split; [econstructor; eauto|].
    split; [repeat apply valid_runes_app; auto|].
    now rewrite Q, !string_of_runes_app.
  - rewrite sindex_runes, E by assumption. exists l. split; [now constructor|auto].
Qed.

(* $replace with string pattern and replacement on valid UTF-8: the result is valid UTF-8 and is,
   as code points, the left-to-right non-overlapping replacement of at most n occurrences
   (n < 0: all of them) *)
Theorem replace_cp s pat repl n out : valid_utf8 s = true -> valid_utf8 pat = true ->
  valid_utf8 repl = true -> replace_str s pat repl n = LOk out ->
  valid_utf8 out = true /\ cp_replace (cps pat) (cps repl) n (cps s) (cps out).
Proof.
  intros Vs Vp Vr. unfold replace_str. destruct (seqb pat "") eqn:E; [discriminate|].
  assert (N : pat <> "") by (intros ->; cbn in E; discriminate).
  rewrite strings_replace_loop by assumption. intros H. assert (H' : out = replace_loop (S (slen s)) s pat repl n) by congruence. clear H. subst out.
  pose proof (runes_valid s Vs) as VL. pose proof (runes_valid pat Vp) as VP.
  pose proof (runes_valid repl Vr) as VR. unfold cps.
  pose proof (encode_runes_inverse pat Vp) as Ip.
  destruct (runes pat) as [|x t] eqn:R; [cbn in Ip; congruence|].
  destruct (replace_loop_runes x t (runes repl) VP VR (S (slen s)) (runes s) n VL) as (o & C & V & Q).
  { rewrite encode_runes_inverse by assumption. lia. }
  rewrite !encode_runes_inverse, Ip in Q by assumption. rewrite Q.
  rewrite runes_string_of_runes by assumption. split; [now apply valid_string_of_runes|exact C].
Qed.

(* the jlib-level Replace: unset limit = all; negative limit = error *)
Theorem replace_limit s pat repl limit :
  replace s pat repl limit =
  match limit with
  | None => replace_str s pat repl (-1)
  | Some k => if k <? 0 then LErr "replace: fourth argument must be a positive number"
              else replace_str s pat repl k
  end.
Proof. unfold replace. destruct limit as [k|]; reflexivity. Qed.
Print Assumptions replace_cp.
Print Assumptions replace_all_is_split_join.

Example replace_ex :
  replace_str "aaaa" "aa" "b" (-1) = LOk "bb" /\ replace_str "aaaa" "a" "é" 2 = LOk "ééaa" /\
  cp_replace [97] [98] 1 [97; 97] [98; 97].
Proof.
  split; [reflexivity|]. split; [reflexivity|].
  apply (cp_replace_step [97] [98] 1 [97; 97] [] [97] [97]); [lia|reflexivity|constructor].
Qed.

(* ---------- 7d. Substring never panics, whatever the bytes ---------- *)
Lemma rune_count_cons s : s <> "" ->
  rune_count s = S (rune_count (sdrop (snd (decode_rune s)) s)).
Proof. intros H. unfold rune_count. now rewrite runes_cons at 1 by assumption. Qed.

Lemma ponr_bounds : forall fuel s pos i n, (slen s <= fuel)%nat ->
  i <= n < i + Z.of_nat (rune_count s) ->
  Z.of_nat pos <= ponr_loop fuel s pos i n <= Z.of_nat pos + Z.of_nat (slen s).
Proof.
  induction fuel as [|f IH]; intros s pos i n F H.
  - destruct s; [change (rune_count "") with 0%nat in H; lia|cbn [slen String.length] in F; lia].
  - destruct s as [|c s']; [change (rune_count "") with 0%nat in H; lia|].
    assert (Hs : String c s' <> "") by discriminate.
    cbn [ponr_loop]. destruct (Z.eqb_spec i n); [lia|].
    rewrite (rune_count_cons _ Hs) in H.
    pose proof (decode_rune_width _ Hs) as W.
    destruct (decode_rune (String c s')) as [r w]. cbn [snd] in *.
    specialize (IH (sdrop w (String c s')) (pos + w)%nat (i + 1) n).
    rewrite slen_sdrop in IH. lia.
Qed.

Theorem substring_never_panics s st len : exists r, substring s st len = LOk r.
Proof.
  unfold substring.
  destruct ((is_set len && (opt_int len <=? 0)) || (st >=? LibString.length s)) eqn:C1; [eauto|].
  apply orb_false_iff in C1 as [C1 C2].
  set (st1 := if st <? 0 then st + LibString.length s else st).
  assert (E1 : exists s2, (if st1 >? 0 then go_slice_from s (position_of_nth_rune s st1) else LOk s) = LOk s2).
  { destruct (Z.gtb_spec st1 0) as [G|G]; [|eauto].
    unfold go_slice_from, position_of_nth_rune, zlen.
    pose proof (ponr_bounds (slen s) s 0 0 st1 (le_n _)) as B.
    assert (R : 0 <= st1 < 0 + Z.of_nat (rune_count s)).
    { subst st1. unfold LibString.length in *. destruct (st <? 0) eqn:N; lia. }
    specialize (B R).
    match goal with |- exists _, (if ?c then _ else _) = _ => replace c with false by lia end. eauto. }
  destruct E1 as [s2 ->]. cbn [lbind].
  destruct (is_set len && (opt_int len <? LibString.length s2)) eqn:C3; [|eauto].
  apply andb_true_iff in C3 as [C3 C4].
  unfold go_slice_to, position_of_nth_rune, zlen.
  pose proof (ponr_bounds (slen s2) s2 0 0 (opt_int len) (le_n _)) as B.
  assert (R : 0 <= opt_int len < 0 + Z.of_nat (rune_count s2)).
  { unfold LibString.length in *. rewrite C3 in C1. cbn [andb] in C1. lia. }
  specialize (B R).
  match goal with |- exists _, (if ?c then _ else _) = _ => replace c with false by lia end. eauto.
Qed.
Print Assumptions substring_never_panics.

(* ---------- 7e. $uppercase / $lowercase ---------- *)
Section Case.
  Variable f : rune -> rune.
  Hypothesis f_valid : forall r, valid_rune r = true -> valid_rune (f r) = true.

  Lemma f_nonneg r : valid_rune r = true -> (f r >=? 0) = true.
  Proof. intros V. apply f_valid in V. unfold valid_rune in V. lia. Qed.

  Lemma map_rest_runes l : valid_runes l -> map_rest f l = string_of_runes (map f l).
  Proof.
    induction 1 as [|x l Vx Vl IH]; [reflexivity|].
    cbn [map_rest map]. now rewrite f_nonneg, IH by assumption.
  Qed.

  Lemma runeerror_width : slen (encode_rune RuneError) = 3%nat.
  Proof. reflexivity. Qed.

  Lemma map_scan_runes : forall l pre fuel, valid_runes l -> (slen (string_of_runes l) <= fuel)%nat ->
    match map_scan fuel f (pre ++ string_of_runes l) (string_of_runes l) (slen pre) with
    | None => pre ++ string_of_runes l
    | Some (d, rest) => d ++ map_rest f (runes rest)
    end = pre ++ string_of_runes (map f l).
  Proof.
    induction l as [|x t IH]; intros pre fuel V F.
    - cbn [string_of_runes map sconcat]. destruct fuel; reflexivity.
    - inversion V as [|? ? Vx Vt]; subst. rewrite string_of_runes_cons in *.
      pose proof (encode_rune_len x) as L.
      destruct fuel as [|fuel]; [rewrite slen_app in F; lia|].
      assert (F2 : (slen (string_of_runes t) <= fuel)%nat) by (rewrite slen_app in F; lia).
      assert (Step : pre ++ encode_rune x ++ string_of_runes t = (pre ++ encode_rune x) ++ string_of_runes t)
        by now rewrite sapp_assoc.
      rewrite Step. cbn [map_scan].
      destruct (encode_rune x ++ string_of_runes t) as [|c0 s0] eqn:Es.
      { exfalso. revert Es. apply app_not_nil, encode_rune_not_nil. }
      rewrite <- Es. rewrite decode_encode by assumption.
      assert (W : (if x =? RuneError then slen (encode_rune x) else Z.to_nat (rune_len x)) = slen (encode_rune x)).
      { destruct (x =? RuneError); [reflexivity|]. rewrite rune_len_encode by assumption. lia. }
      rewrite W. rewrite sdrop_app_exact, <- slen_app.
      assert (Fin : pre ++ string_of_runes (map f (x :: t)) = (pre ++ encode_rune (f x)) ++ string_of_runes (map f t)).
      { cbn [map]. now rewrite string_of_runes_cons, sapp_assoc. }
      rewrite Fin.
      destruct (Z.eqb_spec (f x) x) as [Ex|Nx].
      + rewrite Ex.
        destruct (Z.eqb_spec x RuneError) as [->|NE]; cbn [andb negb].
        * rewrite runeerror_width. cbn [Nat.eqb negb]. now apply IH.
        * now apply IH.
      + cbn [andb]. rewrite andb_false_r.
        rewrite f_nonneg by assumption.
        rewrite sdrop_app_exact. rewrite (sapp_assoc pre (encode_rune x)), stake_app_exact.
        now rewrite runes_string_of_runes, map_rest_runes by assumption.
  Qed.

  Lemma strings_map_runes s : valid_utf8 s = true ->
    strings_map f s = string_of_runes (map f (runes s)).
  Proof.
    intros V. pose proof (runes_valid s V) as VL. unfold strings_map.
    pose proof (map_scan_runes (runes s) "" (slen s) VL) as H.
    rewrite encode_runes_inverse in H by assumption. cbn [append slen String.length] in H.
    apply H. lia.
  Qed.
End Case.

Lemma runes_ascii c r : byte_of c < 128 -> runes (String c r) = byte_of c :: runes r.
Proof.
  intros H. rewrite runes_cons by discriminate. cbn [decode_rune].
  replace (byte_of c <? 128) with true by lia. reflexivity.
Qed.

Lemma valid_ascii s : is_ascii s = true -> valid_utf8 s = true.
Proof.
  induction s as [|c s IH]; [reflexivity|]. cbn [is_ascii]. intros H.
  apply andb_true_iff in H as [H1 H2]. rewrite valid_utf8_cons by discriminate.
  cbn [decode_rune]. rewrite H1. cbn [fst snd sdrop].
  replace (byte_of c =? RuneError) with false by (unfold RuneError; lia). cbn [andb]. auto.
Qed.

Lemma encode_ascii b : 0 <= b < 128 -> encode_rune b = String (ascii_of_Z b) "".
Proof.
  intros H. unfold encode_rune, valid_rune, MaxRune.
  replace ((0 <=? b) && (b <? 55296) || (57343 <? b) && (b <=? 1114111)) with true by lia.
  replace (b <? 128) with true by lia. reflexivity.
Qed.

Section CaseAscii.
  Variables up lo : rune -> rune.
  Hypothesis up_valid : forall r, valid_rune r = true -> valid_rune (up r) = true.
  Hypothesis lo_valid : forall r, valid_rune r = true -> valid_rune (lo r) = true.
  (* the Unicode mappings restricted to ASCII are the ASCII mappings (true of unicode.ToUpper /
     unicode.ToLower; needed because Go's ASCII fast path does not call them) *)
  Hypothesis up_ascii : forall r, 0 <= r < 128 -> up r = if is_lower_byte r then r - 32 else r.
  Hypothesis lo_ascii : forall r, 0 <= r < 128 -> lo r = if is_upper_byte r then r + 32 else r.

  Lemma ascii_upper_runes s : is_ascii s = true -> ascii_upper s = string_of_runes (map up (runes s)).
  Proof.
    induction s as [|c s IH]; [reflexivity|]. cbn [is_ascii]. intros H.
    apply andb_true_iff in H as [H1 H2]. pose proof (byte_of_range c) as R.
    rewrite runes_ascii by lia. cbn [map ascii_upper]. rewrite string_of_runes_cons, <- IH by assumption.
    rewrite up_ascii by lia. unfold is_lower_byte.
    destruct ((97 <=? byte_of c) && (byte_of c <=? 122)) eqn:E.
    - rewrite encode_ascii by lia. reflexivity.
    - rewrite encode_ascii by lia. now rewrite ascii_of_Z_byte_of.
  Qed.
  Lemma ascii_lower_runes s : is_ascii s = true -> ascii_lower s = string_of_runes (map lo (runes s)).
  Proof.
    induction s as [|c s IH]; [reflexivity|]. cbn [is_ascii]. intros H.
    apply andb_true_iff in H as [H1 H2]. pose proof (byte_of_range c) as R.
    rewrite runes_ascii by lia. cbn [map ascii_lower]. rewrite string_of_runes_cons, <- IH by assumption.
    rewrite lo_ascii by lia. unfold is_upper_byte.
    destruct ((65 <=? byte_of c) && (byte_of c <=? 90)) eqn:E.
    - rewrite encode_ascii by lia. reflexivity.
    - rewrite encode_ascii by lia. now rewrite ascii_of_Z_byte_of.
  Qed.
  Lemma ascii_upper_id s : has_byte is_lower_byte s = false -> ascii_upper s = s.
  Proof.
    induction s as [|c s IH]; [reflexivity|]. cbn [has_byte ascii_upper]. intros H.
    apply orb_false_iff in H as [H1 H2]. now rewrite H1, IH.
  Qed.
  Lemma ascii_lower_id s : has_byte is_upper_byte s = false -> ascii_lower s = s.
  Proof.
    induction s as [|c s IH]; [reflexivity|]. cbn [has_byte ascii_lower]. intros H.
    apply orb_false_iff in H as [H1 H2]. now rewrite H1, IH.
  Qed.

  Lemma valid_runes_map g l : (forall r, valid_rune r = true -> valid_rune (g r) = true) ->
    valid_runes l -> valid_runes (map g l).
  Proof. intros G V. induction V; cbn; constructor; auto. Qed.

  (* $uppercase / $lowercase on valid UTF-8 map the code points one by one *)
  Theorem uppercase_cp s : valid_utf8 s = true ->
    valid_utf8 (uppercase up s) = true /\ cps (uppercase up s) = cp_map_case up (cps s).
  Proof.
    intros V. pose proof (runes_valid s V) as VL.
    assert (E : uppercase up s = string_of_runes (map up (runes s))).
    { unfold uppercase. destruct (is_ascii s) eqn:A.
      - rewrite <- ascii_upper_runes by assumption.
        destruct (has_byte is_lower_byte s) eqn:B; [reflexivity|]. symmetry. now apply ascii_upper_id.
      - now apply strings_map_runes. }
    rewrite E. pose proof (valid_runes_map up _ up_valid VL) as VM. unfold cps, cp_map_case.
    split; [now apply valid_string_of_runes|now apply runes_string_of_runes].
  Qed.
  Theorem lowercase_cp s : valid_utf8 s = true ->
    valid_utf8 (lowercase lo s) = true /\ cps (lowercase lo s) = cp_map_case lo (cps s).
  Proof.
    intros V. pose proof (runes_valid s V) as VL.
    assert (E : lowercase lo s = string_of_runes (map lo (runes s))).
    { unfold lowercase. destruct (is_ascii s) eqn:A.
      - rewrite <- ascii_lower_runes by assumption.
        destruct (has_byte is_upper_byte s) eqn:B; [reflexivity|]. symmetry. now apply ascii_lower_id.
      - now apply strings_map_runes. }
    rewrite E. pose proof (valid_runes_map lo _ lo_valid VL) as VM. unfold cps, cp_map_case.
    split; [now apply valid_string_of_runes|now apply runes_string_of_runes].
  Qed.
End CaseAscii.
Print Assumptions uppercase_cp.
Print Assumptions lowercase_cp.

(* the hypotheses of uppercase_cp are satisfiable: the ASCII mapping extended with é <-> É *)
Definition up_sample (r : rune) : rune :=
  if is_lower_byte r then r - 32 else if r =? 233 then 201 else r.
Example uppercase_ex :
  (forall r, valid_rune r = true -> valid_rune (up_sample r) = true) /\
  (forall r, 0 <= r < 128 -> up_sample r = if is_lower_byte r then r - 32 else r) /\
  uppercase up_sample (string_of_bytes [97; 195; 169; 255]) = string_of_bytes [65; 195; 137; 239; 191; 189].
Proof.
  split; [|split].
  - intros r V. unfold up_sample, is_lower_byte, valid_rune, MaxRune in *.
    destruct ((97 <=? r) && (r <=? 122)) eqn:E; [lia|]. destruct (r =? 233) eqn:E2; lia.
  - intros r H. unfold up_sample, is_lower_byte. destruct ((97 <=? r) && (r <=? 122)) eqn:E; [reflexivity|].
    replace (r =? 233) with false by lia. reflexivity.
  - vm_compute. reflexivity.
Qed.

(* ---------- 7f. $trim ---------- *)
Fixpoint all_high (s : string) : bool :=
  match s with EmptyString => true | String c r => (128 <=? byte_of c) && all_high r end.

Lemma all_cont_high t : all_cont t = true -> all_high t = true.
Proof.
  induction t as [|c t IH]; [reflexivity|]. cbn. unfold is_cont. intros H.
  apply andb_true_iff in H as [H1 H2]. rewrite IH by assumption. lia.
Qed.

(* a multi-byte encoding: lead byte (>= 128, not a continuation) + 1..3 continuation bytes *)
Ltac Zify.zify_post_hook ::= Z.div_mod_to_equations.
Lemma encode_shape_multi x : valid_rune x = true -> 128 <= x ->
  exists c t, encode_rune x = String c t /\ is_cont (byte_of c) = false /\ 128 <= byte_of c /\
              all_cont t = true /\ (1 <= slen t <= 3)%nat.
Proof.
  intros V H. unfold encode_rune. rewrite V. unfold valid_rune, MaxRune in V.
  destruct (Z.ltb_spec x 128); [lia|].
  destruct (Z.ltb_spec x 2048); [|destruct (Z.ltb_spec x 65536)];
    cbn [string_of_bytes map string_of_list]; eexists; eexists; (split; [reflexivity|]);
    cbn [all_cont slen String.length]; rewrite ?byte_of_ascii_of_Z by lia; unfold is_cont;
    (split; [lia|]); (split; [lia|]); (split; [lia|]); lia.
Qed.
Ltac Zify.zify_post_hook ::= idtac.

Lemma encode_high x : valid_rune x = true -> 128 <= x -> all_high (encode_rune x) = true.
Proof.
  intros V H. destruct (encode_shape_multi x V H) as (c & t & E & _ & Hc & At & _).
  rewrite E. cbn. rewrite (all_cont_high t At). lia.
Qed.

Lemma collapse_ws_high t rest inrun : all_high t = true -> t <> "" ->
  collapse_ws (t ++ rest) inrun = t ++ collapse_ws rest false.
Proof.
  revert inrun. induction t as [|c t IH]; intros inrun H N; [congruence|].
  cbn in H. apply andb_true_iff in H as [H1 H2]. cbn [append collapse_ws].
  assert (R : re_space (byte_of c) = false) by (unfold re_space; lia). rewrite R.
  destruct t as [|c' t']; [reflexivity|]. now rewrite IH by (auto; discriminate).
Qed.

Lemma collapse_ws_runes l : forall inrun, valid_runes l ->
  collapse_ws (string_of_runes l) inrun = string_of_runes (cp_collapse l inrun).
Proof.
  induction l as [|x t IH]; intros inrun V; [reflexivity|].
  inversion V as [|? ? Vx Vt]; subst. rewrite string_of_runes_cons. cbn [cp_collapse].
  destruct (Z.ltb_spec x 128) as [A|A].
  - assert (X : 0 <= x < 128) by (unfold valid_rune in Vx; lia).
    rewrite encode_ascii by assumption. cbn [append collapse_ws].
    rewrite byte_of_ascii_of_Z by lia. change (re_space x) with (cp_re_space x).
    destruct (cp_re_space x).
    + destruct inrun; rewrite IH by assumption; [reflexivity|].
      rewrite string_of_runes_cons. reflexivity.
    + rewrite IH by assumption. rewrite string_of_runes_cons, encode_ascii by assumption. reflexivity.
  - rewrite collapse_ws_high by (auto using encode_high, encode_rune_not_nil).
    assert (R : cp_re_space x = false) by (unfold cp_re_space; lia). rewrite R.
    now rewrite IH, string_of_runes_cons by assumption.
Qed.

Lemma valid_cp_collapse l : forall inrun, valid_runes l -> valid_runes (cp_collapse l inrun).
Proof.
  induction l as [|x t IH]; intros inrun V; [constructor|].
  inversion V as [|? ? Vx Vt]; subst. cbn [cp_collapse].
  destruct (cp_re_space x); [destruct inrun|].
  - now apply IH.
  - constructor; [reflexivity|now apply IH].
  - constructor; [exact Vx|now apply IH].
Qed.

(* unicode.IsSpace is the White_Space property *)
Lemma is_space_white r : is_space r = cp_white_space r.
Proof.
  unfold is_space, cp_white_space. destruct ((0 <=? r) && (r <=? 255)) eqn:E; lia.
Qed.

(* --- TrimLeftFunc --- *)
Notation ws := cp_white_space.
Notation dw := (cp_drop_while cp_white_space).

Lemma index_nonspace_runes : forall l fuel off, valid_runes l ->
  (slen (string_of_runes l) <= fuel)%nat ->
  match index_nonspace fuel (string_of_runes l) off with
  | None => string_of_runes (dw l) = ""
  | Some i => (off <= i)%nat /\ sdrop (i - off) (string_of_runes l) = string_of_runes (dw l)
  end.
Proof.
  induction l as [|x t IH]; intros fuel off V F.
  - cbn [string_of_runes map sconcat]. destruct fuel; reflexivity.
  - inversion V as [|? ? Vx Vt]; subst. rewrite string_of_runes_cons in *.
    pose proof (encode_rune_len x) as L.
    destruct fuel as [|fuel]; [rewrite slen_app in F; lia|].
    assert (F2 : (slen (string_of_runes t) <= fuel)%nat) by (rewrite slen_app in F; lia).
    cbn [index_nonspace cp_drop_while].
    destruct (encode_rune x ++ string_of_runes t) as [|c0 s0] eqn:Es.
    { exfalso. revert Es. apply app_not_nil, encode_rune_not_nil. }
    rewrite <- Es. rewrite decode_encode by assumption. rewrite is_space_white.
    destruct (ws x); cbn [negb].
    + rewrite sdrop_app_exact. specialize (IH fuel (off + slen (encode_rune x))%nat Vt F2).
      destruct (index_nonspace fuel (string_of_runes t) (off + slen (encode_rune x))) as [i|]; [|exact IH].
      destruct IH as [I1 I2]. split; [lia|].
      replace (i - off)%nat with (slen (encode_rune x) + (i - (off + slen (encode_rune x))))%nat by lia.
      now rewrite <- sdrop_sdrop, sdrop_app_exact.
    + split; [lia|]. rewrite Nat.sub_diag. cbn [sdrop]. now rewrite string_of_runes_cons.
Qed.

Lemma trim_left_space_runes l : valid_runes l ->
  trim_left_space (string_of_runes l) = string_of_runes (dw l).
Proof.
  intros V. unfold trim_left_space.
  pose proof (index_nonspace_runes l (slen (string_of_runes l)) 0 V (le_n _)) as H.
  destruct (index_nonspace _ _ 0) as [i|]; [|now rewrite H].
  destruct H as [_ H]. now rewrite Nat.sub_0_r in H.
Qed.

Lemma valid_dw l : valid_runes l -> valid_runes (dw l).
Proof.
  induction 1 as [|x t Vx Vt IH]; [constructor|]. cbn [cp_drop_while].
  destruct (ws x); [exact IH|constructor; auto].
Qed.

(* --- DecodeLastRuneInString --- *)
Lemma sget_app_r p t j : sget (p ++ t) (slen p + j) = sget t j.
Proof. induction p as [|c p IH]; [reflexivity|]. cbn [append slen String.length Nat.add sget]. exact IH. Qed.

Lemma all_cont_sget t : forall j, all_cont t = true -> (j < slen t)%nat -> is_cont (sget t j) = true.
Proof.
  induction t as [|c t IH]; intros j A H; [cbn in H; lia|].
  cbn in A. apply andb_true_iff in A as [A1 A2]. destruct j as [|j]; [exact A1|].
  cbn [sget]. apply IH; auto. cbn [slen String.length] in H. unfold slen. lia.
Qed.

Lemma dlr_scan_find s lim : forall k fuel start, (k < fuel)%nat ->
  lim <= start - Z.of_nat k -> 0 <= start - Z.of_nat k ->
  (forall j, (j < k)%nat -> rune_start (sget s (Z.to_nat (start - Z.of_nat j))) = false) ->
  rune_start (sget s (Z.to_nat (start - Z.of_nat k))) = true ->
  dlr_scan fuel s start lim = start - Z.of_nat k.
Proof.
  induction k as [|k IH]; intros fuel start F L0 P0 Hj Hk; (destruct fuel as [|fuel]; [lia|]); cbn [dlr_scan].
  - replace (start <? lim) with false by lia. rewrite Z.sub_0_r in Hk. rewrite Hk. lia.
  - replace (start <? lim) with false by lia.
    pose proof (Hj 0%nat ltac:(lia)) as H0. rewrite Z.sub_0_r in H0. rewrite H0.
    rewrite (IH fuel (start - 1)); try lia.
    + intros j Hlt. replace (start - 1 - Z.of_nat j) with (start - Z.of_nat (S j)) by lia. apply Hj. lia.
    + replace (start - 1 - Z.of_nat k) with (start - Z.of_nat (S k)) by lia. exact Hk.
Qed.

Lemma zlen_app a b : zlen (a ++ b) = zlen a + zlen b.
Proof. unfold zlen. rewrite slen_app. lia. Qed.

Lemma decode_encode_nil x : valid_rune x = true ->
  decode_rune (encode_rune x) = (x, slen (encode_rune x)).
Proof. intros V. pose proof (decode_encode x "" V) as H. now rewrite sapp_nil_r in H. Qed.

Lemma decode_last_rune_encode p x : valid_rune x = true ->
  decode_last_rune (p ++ encode_rune x) = (x, slen (encode_rune x)).
Proof.
  intros V. unfold decode_last_rune. rewrite zlen_app.
  pose proof (encode_rune_len x) as L. unfold zlen.
  replace (Z.of_nat (slen p) + Z.of_nat (slen (encode_rune x)) =? 0) with false by lia.
  destruct (Z.ltb_spec x 128) as [A|A].
  - assert (X : 0 <= x < 128) by (unfold valid_rune in V; lia).
    rewrite encode_ascii by assumption. cbn [slen String.length].
    replace (Z.to_nat (Z.of_nat (slen p) + Z.of_nat 1 - 1)) with (slen p + 0)%nat by lia.
    rewrite sget_app_r. cbn [sget]. rewrite byte_of_ascii_of_Z by lia.
    replace (x <? 128) with true by lia. reflexivity.
  - destruct (encode_shape_multi x V A) as (c & t & E & Hc & Hh & At & Lt).
    rewrite E in *. cbn [slen String.length] in *.
    set (P := slen p) in *. set (w := S (String.length t)) in *.
    assert (Lw : (2 <= w <= 4)%nat) by (subst w; unfold slen in Lt; lia).
    assert (G : forall m, (m < w)%nat ->
              sget (p ++ String c t) (Z.to_nat (Z.of_nat P + Z.of_nat m)) = sget (String c t) m).
    { intros m Hm. replace (Z.to_nat (Z.of_nat P + Z.of_nat m)) with (P + m)%nat by lia. apply sget_app_r. }
    replace (Z.of_nat P + Z.of_nat w - 1) with (Z.of_nat P + Z.of_nat (w - 1)) by lia.
    rewrite G by lia.
    assert (Last : is_cont (sget (String c t) (w - 1)) = true).
    { replace (w - 1)%nat with (S (w - 2)) by lia. cbn [sget]. apply all_cont_sget; auto. subst w. unfold slen. lia. }
    replace (sget (String c t) (w - 1) <? 128) with false by (unfold is_cont in Last; lia).
    set (lim := if Z.of_nat P + Z.of_nat w - 4 <? 0 then 0 else Z.of_nat P + Z.of_nat w - 4).
    assert (S : dlr_scan 5 (p ++ String c t) (Z.of_nat P + Z.of_nat (w - 1) - 1) lim = Z.of_nat P).
    { rewrite (dlr_scan_find _ lim (w - 2)); try lia.
      - subst lim. destruct (Z.of_nat P + Z.of_nat w - 4 <? 0) eqn:Q; lia.
      - intros j Hj.
        replace (Z.of_nat P + Z.of_nat (w - 1) - 1 - Z.of_nat j) with (Z.of_nat P + Z.of_nat (S (w - 3 - j))) by lia.
        rewrite G by lia. cbn [sget]. unfold rune_start. rewrite all_cont_sget; auto. subst w. unfold slen. lia.
      - replace (Z.of_nat P + Z.of_nat (w - 1) - 1 - Z.of_nat (w - 2)) with (Z.of_nat P + Z.of_nat 0) by lia.
        rewrite G by lia. cbn [sget]. unfold rune_start. now rewrite Hc. }
    rewrite S. replace (Z.of_nat P <? 0) with false by lia. rewrite Nat2Z.id.
    subst P. rewrite sdrop_app_exact. rewrite <- E.
    rewrite decode_encode_nil by assumption. rewrite E.
    cbn [slen String.length]. fold w.
    replace (Z.of_nat (slen p) + Z.of_nat w =? Z.of_nat (slen p) + Z.of_nat w) with true by lia.
    reflexivity.
Qed.

(* --- TrimRightFunc --- *)
Definition strip_right (l : list rune) : list rune := rev (dw (rev l)).

Lemma strip_right_snoc l x : strip_right (l ++ [x])%list = if ws x then strip_right l else (l ++ [x])%list.
Proof.
  unfold strip_right. rewrite rev_app_distr. cbn [rev app cp_drop_while].
  destruct (ws x); [reflexivity|]. cbn [rev]. now rewrite rev_involutive.
Qed.

Lemma valid_strip_right l : valid_runes l -> valid_runes (strip_right l).
Proof. intros V. unfold strip_right. apply Forall_rev, valid_dw, Forall_rev, V. Qed.

Lemma string_of_runes_snoc l x : string_of_runes (l ++ [x])%list = string_of_runes l ++ encode_rune x.
Proof. rewrite string_of_runes_app. cbn. now rewrite sapp_nil_r. Qed.

(* the value of lastIndexFunc, described through the stripped list *)
Definition last_ns (l : list rune) : Z :=
  match strip_right l with
  | [] => -1
  | _ => zlen (string_of_runes (removelast (strip_right l)))
  end.

Lemma last_index_nonspace_runes : forall l rest fuel, valid_runes l -> (List.length l <= fuel)%nat ->
  last_index_nonspace fuel (string_of_runes l ++ rest) (zlen (string_of_runes l)) = last_ns l.
Proof.
  induction l as [|x l IH] using rev_ind; intros rest fuel V F.
  - cbn. destruct fuel; reflexivity.
  - apply Forall_app in V as [Vl Vx]. inversion Vx as [|? ? Vx' _]; subst.
    rewrite app_length in F. cbn [List.length] in F.
    destruct fuel as [|fuel]; [lia|]. cbn [last_index_nonspace].
    pose proof (encode_rune_len x) as L.
    rewrite string_of_runes_snoc, zlen_app.
    replace (zlen (string_of_runes l) + zlen (encode_rune x) >? 0) with true by (unfold zlen; lia).
    replace (Z.to_nat (zlen (string_of_runes l) + zlen (encode_rune x))) with (slen (string_of_runes l ++ encode_rune x))
      by (rewrite slen_app; unfold zlen; lia).
    rewrite stake_app_exact, decode_last_rune_encode by assumption.
    replace (zlen (string_of_runes l) + zlen (encode_rune x) - Z.of_nat (slen (encode_rune x))) with (zlen (string_of_runes l))
      by (unfold zlen; lia).
    rewrite is_space_white. unfold last_ns. rewrite strip_right_snoc.
    destruct (ws x); cbn [negb].
    + rewrite sapp_assoc. rewrite IH by (auto; lia). reflexivity.
    + destruct (l ++ [x])%list eqn:E; [destruct l; discriminate|]. rewrite <- E.
      now rewrite removelast_last.
Qed.

Lemma strip_right_cases l : valid_runes l ->
  strip_right l = [] \/
  exists l1 x, strip_right l = (l1 ++ [x])%list /\ ws x = false /\
               exists sp, l = (l1 ++ [x] ++ sp)%list.
Proof.
  induction l as [|x l IH] using rev_ind; intros V; [left; reflexivity|].
  apply Forall_app in V as [Vl Vx]. rewrite strip_right_snoc. destruct (ws x) eqn:W.
  - destruct (IH Vl) as [E|(l1 & y & E & Wy & sp & El)]; [left; exact E|right].
    exists l1, y. split; [exact E|]. split; [exact Wy|]. exists (sp ++ [x])%list.
    rewrite El. now rewrite <- !app_assoc.
  - right. exists l, x. split; [reflexivity|]. split; [exact W|]. exists []. reflexivity.
Qed.

Lemma sget_first_encode p x rest :
  sget (p ++ encode_rune x ++ rest) (slen p) = first_byte (encode_rune x).
Proof.
  replace (slen p) with (slen p + 0)%nat by lia. rewrite sget_app_r.
  destruct (encode_rune x) eqn:E; [exfalso; revert E; apply encode_rune_not_nil|]. reflexivity.
Qed.

Lemma trim_right_space_runes l : valid_runes l ->
  trim_right_space (string_of_runes l) = string_of_runes (strip_right l).
Proof.
  intros V. unfold trim_right_space.
  pose proof (last_index_nonspace_runes l "" (slen (string_of_runes l)) V) as H.
  rewrite sapp_nil_r in H. fold (zlen (string_of_runes l)). rewrite H.
  2:{ clear H. induction V as [|x t Vx Vt IH]; [cbn; lia|].
      rewrite string_of_runes_cons, slen_app. pose proof (encode_rune_len x). cbn [List.length]. lia. }
  unfold last_ns. destruct (strip_right_cases l V) as [E|(l1 & x & E & W & sp & El)].
  - rewrite E. reflexivity.
  - rewrite E. destruct (l1 ++ [x])%list eqn:Q; [destruct l1; discriminate|]. rewrite <- Q.
    rewrite removelast_last. subst l.
    assert (Vx : valid_rune x = true).
    { apply Forall_app in V as [_ V]. apply Forall_app in V as [V _]. now inversion V. }
    rewrite !string_of_runes_app. cbn [string_of_runes map sconcat]. rewrite sapp_nil_r.
    fold (string_of_runes l1). fold (string_of_runes sp).
    unfold zlen. rewrite Nat2Z.id.
    replace (Z.of_nat (slen (string_of_runes l1)) >=? 0) with true by lia. cbn [andb].
    rewrite sget_first_encode, sdrop_app_exact, decode_encode by assumption. cbn [snd].
    assert (W1 : (if first_byte (encode_rune x) >=? 128
                  then Z.of_nat (slen (string_of_runes l1)) + Z.of_nat (slen (encode_rune x))
                  else Z.of_nat (slen (string_of_runes l1)) + 1) =
                 Z.of_nat (slen (string_of_runes l1 ++ encode_rune x))).
    { rewrite slen_app. destruct (Z.ltb_spec x 128) as [A|A].
      - assert (X : 0 <= x < 128) by (unfold valid_rune in Vx; lia).
        rewrite encode_ascii by assumption. cbn [first_byte slen String.length].
        rewrite byte_of_ascii_of_Z by lia. replace (x >=? 128) with false by lia. lia.
      - destruct (encode_shape_multi x Vx A) as (c & t & Ec & _ & Hh & _ & _). rewrite Ec.
        cbn [first_byte]. replace (byte_of c >=? 128) with true by lia. lia. }
    rewrite W1, Nat2Z.id. rewrite <- sapp_assoc. apply stake_app_exact.
Qed.

(* --- TrimSpace --- *)
Lemma ascii_space_ws x : ascii_space x = cp_white_space x \/ 128 <= x.
Proof. unfold ascii_space, cp_white_space. lia. Qed.

Lemma sget_last_encode p x : 
  sget (p ++ encode_rune x) (slen p + slen (encode_rune x) - 1) =
  sget (encode_rune x) (slen (encode_rune x) - 1).
Proof.
  pose proof (encode_rune_len x).
  replace (slen p + slen (encode_rune x) - 1)%nat with (slen p + (slen (encode_rune x) - 1))%nat by lia.
  apply sget_app_r.
Qed.

Lemma all_high_sget t : forall j, all_high t = true -> (j < slen t)%nat -> 128 <= sget t j.
Proof.
  induction t as [|c t IH]; intros j A H; [cbn in H; lia|].
  cbn in A. apply andb_true_iff in A as [A1 A2]. destruct j as [|j]; [cbn; lia|].
  cbn [sget]. apply IH; auto. cbn [slen String.length] in H. unfold slen. lia.
Qed.

Lemma sget_app_l t rest : forall j, (j < slen t)%nat -> sget (t ++ rest) j = sget t j.
Proof.
  induction t as [|c t IH]; intros j H; [cbn in H; lia|].
  destruct j; [reflexivity|]. cbn [append sget]. apply IH. cbn [slen String.length] in H. unfold slen. lia.
Qed.

Lemma trim_space_stop_runes : forall l rest fuel, valid_runes l -> (List.length l <= fuel)%nat ->
  trim_space_stop fuel (string_of_runes l ++ rest) (zlen (string_of_runes l)) =
  string_of_runes (strip_right l).
Proof.
  induction l as [|x l IH] using rev_ind; intros rest fuel V F.
  - cbn. destruct fuel; reflexivity.
  - apply Forall_app in V as [Vl Vx]. inversion Vx as [|? ? Vx' _]; subst.
    rewrite app_length in F. cbn [List.length] in F.
    destruct fuel as [|fuel]; [lia|]. cbn [trim_space_stop].
    pose proof (encode_rune_len x) as L.
    rewrite string_of_runes_snoc, zlen_app.
    replace (zlen (string_of_runes l) + zlen (encode_rune x) >? 0) with true by (unfold zlen; lia).
    replace (Z.to_nat (zlen (string_of_runes l) + zlen (encode_rune x) - 1))
      with (slen (string_of_runes l) + slen (encode_rune x) - 1)%nat by (unfold zlen; lia).
    rewrite sapp_assoc.
    replace (slen (string_of_runes l) + slen (encode_rune x) - 1)%nat
      with (slen (string_of_runes l) + (slen (encode_rune x) - 1))%nat by lia.
    rewrite sget_app_r.
    replace (Z.to_nat (zlen (string_of_runes l) + zlen (encode_rune x))) with (slen (string_of_runes l ++ encode_rune x))
      by (rewrite slen_app; unfold zlen; lia).
    rewrite <- sapp_assoc, stake_app_exact, <- string_of_runes_snoc.
    rewrite strip_right_snoc.
    destruct (Z.ltb_spec x 128) as [A|A].
    + assert (X : 0 <= x < 128) by (unfold valid_rune in Vx'; lia).
      rewrite encode_ascii by assumption. cbn [slen String.length Nat.sub append sget].
      rewrite byte_of_ascii_of_Z by lia. replace (x >=? 128) with false by lia.
      destruct (ascii_space_ws x) as [Q|Q]; [|lia]. rewrite Q.
      destruct (ws x); [|reflexivity].
      replace (zlen (string_of_runes l) + zlen (String (ascii_of_Z x) "") - 1) with (zlen (string_of_runes l))
        by (unfold zlen; cbn [slen String.length]; lia).
      rewrite string_of_runes_snoc, encode_ascii, sapp_assoc by assumption. apply IH; auto; lia.
    + pose proof (encode_high x Vx' A) as Hh.
      pose proof (all_high_sget (encode_rune x) (slen (encode_rune x) - 1) Hh ltac:(lia)) as G.
      rewrite sget_app_l by lia.
      replace (sget (encode_rune x) (slen (encode_rune x) - 1) >=? 128) with true by lia.
      rewrite <- strip_right_snoc. apply trim_right_space_runes.
      apply Forall_app; split; [exact Vl|exact Vx].
Qed.

Lemma length_le_slen l : (List.length l <= slen (string_of_runes l))%nat.
Proof.
  induction l as [|x t IH]; [cbn; lia|].
  rewrite string_of_runes_cons, slen_app. pose proof (encode_rune_len x). cbn [List.length]. lia.
Qed.

Lemma trim_space_runes l : valid_runes l -> trim_space (string_of_runes l) = string_of_runes (cp_strip l).
Proof.
  induction 1 as [|x t Vx Vt IH]; [reflexivity|].
  assert (V : valid_runes (x :: t)) by (constructor; auto).
  destruct (Z.ltb_spec x 128) as [A|A].
  - assert (X : 0 <= x < 128) by (unfold valid_rune in Vx; lia).
    pose proof (string_of_runes_cons x t) as E. rewrite encode_ascii in E by assumption. cbn [append] in E.
    rewrite E. cbn [trim_space]. rewrite byte_of_ascii_of_Z by lia.
    replace (x >=? 128) with false by lia.
    destruct (ascii_space_ws x) as [Q|Q]; [|lia]. rewrite Q.
    unfold cp_strip. cbn [cp_drop_while]. destruct (ws x) eqn:W.
    + exact IH.
    + rewrite <- E. fold (zlen (string_of_runes (x :: t))).
      rewrite <- (sapp_nil_r (string_of_runes (x :: t))) at 2.
      rewrite trim_space_stop_runes; [reflexivity|exact V|apply length_le_slen].
  - destruct (encode_shape_multi x Vx A) as (c & t' & Ec & _ & Hh & _ & _).
    pose proof (string_of_runes_cons x t) as E. rewrite Ec in E. cbn [append] in E.
    rewrite E. cbn [trim_space]. replace (byte_of c >=? 128) with true by lia.
    rewrite <- E. rewrite trim_left_space_runes, trim_right_space_runes by (auto using valid_dw).
    reflexivity.
Qed.

(* $trim on valid UTF-8: collapse runs of [\t\n\f\r ] to one space, strip Unicode White_Space at
   both ends *)
Theorem trim_cp s : valid_utf8 s = true ->
  valid_utf8 (trim s) = true /\ cps (trim s) = cp_trim (cps s).
Proof.
  intros V. pose proof (runes_valid s V) as VL. unfold trim, cps, cp_trim.
  rewrite <- (encode_runes_inverse s V) at 1 2.
  rewrite collapse_ws_runes by assumption.
  pose proof (valid_cp_collapse (runes s) false VL) as VC.
  rewrite trim_space_runes by assumption.
  assert (VS : valid_runes (cp_strip (cp_collapse (runes s) false))).
  { unfold cp_strip. now apply valid_strip_right, valid_dw. }
  split; [now apply valid_string_of_runes|now apply runes_string_of_runes].
Qed.
Print Assumptions trim_cp.

Example trim_ex :
  let s := string_of_bytes [194; 160; 32; 9; 97; 10; 10; 195; 169; 32; 227; 128; 128; 11] in
  valid_utf8 s = true /\ trim s = string_of_bytes [97; 32; 195; 169] /\
  cp_trim (cps s) = [97; 32; 233].
Proof. vm_compute. auto. Qed.

(* ---------- 7g. $join ---------- *)
Lemma cp_join_cons sep p r : r <> [] -> cp_join (p :: r) sep = (p ++ sep ++ cp_join r sep)%list.
Proof. destruct r; [congruence|reflexivity]. Qed.

Theorem join_cp parts sep : all_valid parts ->
  match sep with Some c => valid_utf8 c = true | None => True end ->
  valid_utf8 (join parts sep) = true /\
  cps (join parts sep) = cp_join (map cps parts) (cps (opt_str sep)).
Proof.
  intros V Vs. unfold join, cps.
  assert (Vc : valid_utf8 (opt_str sep) = true) by (destruct sep; [exact Vs|reflexivity]).
  set (c := opt_str sep) in *. clearbody c. clear Vs sep.
  induction V as [|p r Vp Vr IH]; [split; reflexivity|].
  destruct r as [|q r].
  - cbn. auto.
  - rewrite sjoin_cons by discriminate. cbn [map]. rewrite cp_join_cons by discriminate.
    destruct IH as [IH1 IH2]. split.
    + now rewrite !valid_utf8_app.
    + rewrite !runes_app by assumption. cbn [map] in IH2. now rewrite IH2.
Qed.
Print Assumptions join_cp.

Example join_ex : join ["a"; "b"; ""] (Some ", ") = "a, b, " /\ join ["a"; "b"] None = "ab" /\ join [] (Some ",") = "".
Proof. vm_compute. auto. Qed.

(* ---------- the regex-replacement helper: recorded behaviours ---------- *)
Example expand_ex :
  expand_replace_string "[$1|$2|$3|$12|$0|$$|$a|$]" "xyz" ["G1"; "G2"] = LOk "[G1|G2||G12|xyz|$|$a|$]".
Proof. vm_compute. reflexivity. Qed.
(* DEFECT (Go): 19 or more digits after '$' overflow the int accumulator in runesToNumbers; the
   negative index passes the `index < len(m.groups)` test and m.groups[index] panics *)
Example expand_overflow_no_group :
  expand_replace_string "$9999999999999999999" "m" [] = LOk "999999999999999999".
Proof. vm_compute. reflexivity. Qed.

(* remaining theorems *)
Print Assumptions split_join_limit.
Print Assumptions encode_url_component_total.
Print Assumptions encode_url_component_fffd.
Print Assumptions sindex_runes.
Print Assumptions split_negative_limit.
Print Assumptions replace_empty_pattern.
Print Assumptions replace_absent.
Print Assumptions replace_limit.
