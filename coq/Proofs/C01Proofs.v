(* Proofs/C01Proofs.v — property C01 (paths): field lookup, wildcard, descendants, one path step,
   the path loop and sequence normalisation of the evaluator model compute the declarative
   semantics of Spec/C01.v, for all documents (induction on the value) and all step lists
   (induction on the list). *)
From Coq Require Import Lia.
From JV Require Import Model.Value Model.Ops Model.Eval Spec.C01 Proofs.MonadFacts.
Local Open Scope nat_scope.
Local Open Scope list_scope.

(* ------------------------------------------------------------------------------------------ *)
(** * Induction on values (the type is nested through lists) *)
Section ValueInd.
  Variable P : value -> Prop.
  Hypothesis Hother : forall v, match v with VArr _ | VObj _ => False | _ => True end -> P v.
  Hypothesis Harr : forall l, Forall P l -> P (VArr l).
  Hypothesis Hobj : forall m, Forall (fun kv => P (snd kv)) m -> P (VObj m).

  Fixpoint value_ind' (v : value) : P v :=
    match v with
    | VArr l =>
        Harr l ((fix go (l : list value) : Forall P l :=
                   match l with
                   | [] => Forall_nil _
                   | x :: r => Forall_cons x (value_ind' x) (go r)
                   end) l)
    | VObj m =>
        Hobj m ((fix go (m : list (string * value)) : Forall (fun kv => P (snd kv)) m :=
                   match m with
                   | [] => Forall_nil _
                   | (k, x) :: r => Forall_cons (k, x) (value_ind' x) (go r)
                   end) m)
    | VNull => Hother VNull I
    | VBool b => Hother (VBool b) I
    | VNum x => Hother (VNum x) I
    | VStr s => Hother (VStr s) I
    | VFun c => Hother (VFun c) I
    end.
End ValueInd.

(* ------------------------------------------------------------------------------------------ *)
(** * 6a. Sequence normalisation *)

Lemma collapse_spec keep l : collapse keep l = collapse' keep l.
Proof. destruct l as [|x [|y r]]; reflexivity. Qed.

Lemma collapse_nil keep : collapse keep [] = None.
Proof. reflexivity. Qed.
Lemma collapse_one x : collapse false [x] = Some x.
Proof. reflexivity. Qed.
Lemma collapse_keep l : l <> [] -> collapse true l = Some (VArr l).
Proof. destruct l as [|x [|y r]]; intro H; [congruence|reflexivity|reflexivity]. Qed.
Lemma collapse_many keep l : 2 <= List.length l -> collapse keep l = Some (VArr l).
Proof. destruct l as [|x [|y r]]; cbn [List.length]; intro H; [lia|lia|reflexivity]. Qed.
Lemma collapse_none_iff keep l : collapse keep l = None <-> l = [].
Proof. destruct l as [|x [|y r]]; destruct keep; cbn; split; congruence. Qed.

(* ------------------------------------------------------------------------------------------ *)
(** * 2. Field lookup *)

Lemma lookup_plain k v :
  is_arr v = false ->
  lookup k v = match hd_error (lookup k v) with Some y => [y] | None => [] end.
Proof.
  destruct v; cbn [is_arr lookup hd_error]; intro H; try reflexivity; try discriminate.
  now destruct (assoc_get k m).
Qed.

(** [name_lookup] is [lookup]: a sequence for an array (nested arrays flatten at every level), a
    plain value (the member or nothing) otherwise *)
Theorem name_lookup_spec k v :
  name_lookup k v = if is_arr v then RS (lookup k v) else RV (hd_error (lookup k v)).
Proof.
  induction v as [v Hv|l IH|m _] using value_ind'.
  - destruct v; try contradiction; reflexivity.
  - cbn [is_arr name_lookup lookup]. f_equal.
    induction IH as [|x r Hx _ IHr]; [reflexivity|].
    cbn [flat_map]. rewrite Hx, IHr.
    destruct (is_arr x) eqn:A; [reflexivity|].
    rewrite (lookup_plain k x A) at 2. now destruct (hd_error (lookup k x)).
  - cbn [is_arr name_lookup lookup]. now destruct (assoc_get k m).
Qed.
Print Assumptions name_lookup_spec.

(** the value of a field-name expression *)
Theorem eval_name_value_spec k v : eval_name_value k (Some v) = lookup_value k v.
Proof.
  unfold eval_name_value, lookup_value. rewrite name_lookup_spec.
  destruct (is_arr v); [apply collapse_spec|reflexivity].
Qed.
Print Assumptions eval_name_value_spec.

Lemma eval_name_value_none k : eval_name_value k None = None.
Proof. reflexivity. Qed.

(** consequences: lookup distributes over concatenation and sees through nesting *)
Lemma lookup_app k l1 l2 : lookup k (VArr (l1 ++ l2)) = lookup k (VArr l1) ++ lookup k (VArr l2).
Proof. cbn [lookup]. apply flat_map_app. Qed.
Lemma lookup_nested k l : lookup k (VArr [VArr l]) = lookup k (VArr l).
Proof. cbn [lookup flat_map]. apply app_nil_r. Qed.
Lemma lookup_cons k x l : lookup k (VArr (x :: l)) = lookup k x ++ lookup k (VArr l).
Proof. reflexivity. Qed.
Lemma lookup_obj_present k m y : assoc_get k m = Some y -> lookup k (VObj m) = [y].
Proof. intro H. cbn [lookup]. now rewrite H. Qed.
Lemma lookup_obj_absent k m : assoc_get k m = None -> lookup k (VObj m) = [].
Proof. intro H. cbn [lookup]. now rewrite H. Qed.

(* ------------------------------------------------------------------------------------------ *)
(** * 3. Wildcard and descendants *)

Lemma flatten_deep_spec v : flatten_deep v = flat v.
Proof.
  induction v as [v Hv|l IH|m _] using value_ind'.
  - destruct v; try contradiction; reflexivity.
  - cbn [flatten_deep flat].
    induction IH as [|x r Hx _ IHr]; [reflexivity|].
    cbn [flat_map]. now rewrite Hx, IHr.
  - reflexivity.
Qed.

Lemma append_wildcard_spec v : append_wildcard v = flat v.
Proof. destruct v; try reflexivity; apply flatten_deep_spec. Qed.

Theorem wildcard_spec v : wildcard_items (Some v) = wild v.
Proof.
  unfold wildcard_items, wild. change (object_values v) with (members v).
  apply flat_map_ext. intro a. apply append_wildcard_spec.
Qed.
Print Assumptions wildcard_spec.

Lemma wildcard_none : wildcard_items None = [].
Proof. reflexivity. Qed.

(** a flattened list contains no array *)
Lemma flat_no_array v : Forall (fun u => is_arr u = false) (flat v).
Proof.
  induction v as [v Hv|l IH|m _] using value_ind'.
  - destruct v; try contradiction; repeat constructor.
  - cbn [flat]. induction IH as [|x r Hx _ IHr]; [constructor|].
    cbn [flat_map]. apply Forall_app. now split.
  - repeat constructor.
Qed.

Theorem wild_no_array v : Forall (fun u => is_arr u = false) (wild v).
Proof.
  unfold wild. induction (members v) as [|x r IH]; [constructor|].
  cbn [flat_map]. apply Forall_app. split; [apply flat_no_array|exact IH].
Qed.

Theorem descendants_spec v : descendants v = desc v.
Proof.
  induction v as [v Hv|l IH|m IH] using value_ind'.
  - destruct v; try contradiction; reflexivity.
  - cbn [descendants desc].
    induction IH as [|x r Hx _ IHr]; [reflexivity|].
    cbn [flat_map]. now rewrite Hx, IHr.
  - cbn [descendants desc]. f_equal.
    induction IH as [|[k x] r Hx _ IHr]; [reflexivity|].
    cbn [flat_map snd] in *. now rewrite Hx, IHr.
Qed.
Print Assumptions descendants_spec.

(** the context comes first (unless it is an array, which is represented by its members) *)
Theorem desc_head v : is_arr v = false -> exists r, desc v = v :: r.
Proof. destruct v; cbn [is_arr desc]; intro H; try discriminate; eauto. Qed.

(** no array is ever listed *)
Theorem desc_no_array v : Forall (fun u => is_arr u = false) (desc v).
Proof.
  induction v as [v Hv|l IH|m IH] using value_ind'.
  - destruct v; try contradiction; repeat constructor.
  - cbn [desc]. induction IH as [|x r Hx _ IHr]; [constructor|].
    cbn [flat_map]. apply Forall_app. now split.
  - cbn [desc]. constructor; [reflexivity|].
    induction IH as [|[k x] r Hx _ IHr]; [constructor|].
    cbn [flat_map snd] in *. apply Forall_app. now split.
Qed.
Print Assumptions desc_no_array.

Lemma desc_sound v : forall u, In u (desc v) -> reach v u.
Proof.
  induction v as [v Hv|l IH|m IH] using value_ind'; intros u I.
  - destruct v; try contradiction; destruct I as [<-|[]]; constructor.
  - cbn [desc] in I. apply in_flat_map in I as (c & Ic & Iu).
    rewrite Forall_forall in IH. apply (reach_member _ c); [exact Ic|now apply IH].
  - cbn [desc] in I. destruct I as [<-|I]; [constructor|].
    apply in_flat_map in I as (kv & Ikv & Iu).
    rewrite Forall_forall in IH. apply (reach_member _ (snd kv)).
    + cbn [members]. now apply in_map.
    + now apply IH.
Qed.

Lemma desc_member v c u : In c (members v) -> In u (desc c) -> In u (desc v).
Proof.
  destruct v; cbn [members]; intros Ic Iu; try contradiction.
  - cbn [desc]. apply in_flat_map. eauto.
  - cbn [desc]. right. apply in_map_iff in Ic as (kv & <- & Ikv).
    apply in_flat_map. eauto.
Qed.

(** membership: exactly the non-array values reachable from the context *)
Theorem desc_reach v u : In u (desc v) <-> reach v u /\ is_arr u = false.
Proof.
  split.
  - intro I. split; [now apply desc_sound|].
    pose proof (desc_no_array v) as F. rewrite Forall_forall in F. now apply F.
  - intros [R A]. induction R as [v|v c u Ic R IH].
    + destruct (desc_head v A) as (r & ->). now left.
    + eapply desc_member; eauto.
Qed.
Print Assumptions desc_reach.

Corollary descendants_reach v u : In u (descendants v) <-> reach v u /\ is_arr u = false.
Proof. rewrite descendants_spec. apply desc_reach. Qed.

(* ------------------------------------------------------------------------------------------ *)
(** * 4. One path step *)

Lemma is_array_node_cons st : is_array_node st = is_cons st.
Proof. reflexivity. Qed.

(** flattening one level, dropping absent values, keeping array-constructor results as units *)
Lemma step_out_somes (cn : bool) rs :
  (if cn then somes rs else flat_map (fun v => arrayify (Some v)) (somes rs))
  = flat_map (contribution cn) rs.
Proof.
  induction rs as [|r rs IH]; [now destruct cn|].
  cbn [flat_map]. rewrite <- IH. destruct cn, r as [v|]; reflexivity.
Qed.

Lemma step_out_defined (cn : bool) rs :
  flat_map (contribution cn) rs = flat_map (fun v => contribution cn (Some v)) (somes rs).
Proof.
  induction rs as [|r rs IH]; [reflexivity|].
  cbn [flat_map]. rewrite IH. destruct r as [v|]; [|reflexivity].
  change (somes (Some v :: rs)) with (v :: somes rs). reflexivity.
Qed.

Lemma flat_map_arrayify_items l :
  flat_map (fun v => arrayify (Some v)) l = flat_map items l.
Proof. apply flat_map_ext. now intros []. Qed.

(** the outcome of a step that is not the last one, from the per-item results [rs] *)
Definition nonlast_out (cn : bool) (rs : list ovalue) : option pout :=
  match flat_map (contribution cn) rs with
  | [] => None
  | its => Some (PSq its)
  end.

(** the outcome of the last step *)
Definition last_out (cn : bool) (rs : list ovalue) : option pout :=
  match somes rs with
  | [VArr []] => None
  | [VArr l] => Some (PSl (map Some l))
  | _ => nonlast_out cn rs
  end.

Lemma match_items_eta (X : list value) :
  match X with [] => None | _ :: _ => Some (PSq X) end
  = match X with [] => None | v :: l => Some (PSq (v :: l)) end.
Proof. now destruct X. Qed.

(** a non-last step: the step is evaluated once per context item, in order (world threaded);
    absent results are dropped, array results are flattened one level (array-constructor steps
    kept as units), order preserved; nothing left = the path has no value *)
Theorem path_step_spec evn first st out w rs w' :
  first && is_cons st = false ->
  steps (evn st) (pout_items out) w rs w' ->
  path_step evn first false st out w = Ok (nonlast_out (is_cons st) rs) w'.
Proof.
  intros G St. unfold path_step. rewrite is_array_node_cons, G.
  apply mapM_ok in St.
  change (mapM (evn st)) with (mapM (fun it => evn st it)) in St.
  unfold bind. rewrite St. unfold ret. f_equal.
  unfold nonlast_out. rewrite <- step_out_somes.
  destruct (somes rs) as [|[] [|]]; try apply match_items_eta.
  destruct (is_cons st); [reflexivity|].
  cbn [flat_map arrayify]. rewrite app_nil_r. apply match_items_eta.
Qed.
Print Assumptions path_step_spec.

(** the last step: as above, except that exactly one (present) result which is an array is
    that array as it stands *)
Theorem path_step_last_spec evn first st out w rs w' :
  first && is_cons st = false ->
  steps (evn st) (pout_items out) w rs w' ->
  path_step evn first true st out w = Ok (last_out (is_cons st) rs) w'.
Proof.
  intros G St. unfold path_step. rewrite is_array_node_cons, G.
  apply mapM_ok in St.
  change (mapM (evn st)) with (mapM (fun it => evn st it)) in St.
  unfold bind. rewrite St. unfold ret. f_equal.
  unfold last_out, nonlast_out. rewrite <- step_out_somes.
  destruct (somes rs) as [|[] [|]]; try apply match_items_eta;
    destruct l; try reflexivity; apply match_items_eta.
Qed.
Print Assumptions path_step_last_spec.

(** a head step that is an array constructor is evaluated once on the array of all items *)
Theorem path_step_head_cons evn last st out w v w' :
  is_cons st = true ->
  evn st (Some (VArr (map (fun o => match o with Some x => x | None => VNull end) (pout_items out)))) w
    = Ok v w' ->
  path_step evn true last st out w =
  Ok (match v with
      | None => None
      | Some x => match items x with [] => None | its => Some (PSl (map Some its)) end
      end) w'.
Proof.
  intros C E. unfold path_step. rewrite is_array_node_cons, C. cbn [andb].
  unfold bind. rewrite E. unfold ret. f_equal.
  destruct v as [[| | | |[|y l]| |]|]; reflexivity.
Qed.

Lemma mapM_err {A B} (f : A -> M B) pre x post : forall w rs w1 e,
  steps f pre w rs w1 -> f x w1 = Err e -> mapM f (pre ++ x :: post) w = Err e.
Proof.
  induction pre as [|y r IH]; intros w rs w1 e St E;
    inversion St as [|? ? ? ? ? ? ? E1 St']; subst; cbn [app mapM].
  - unfold bind at 1. now rewrite E.
  - unfold bind at 1. rewrite E1. unfold bind at 1. now rewrite (IH _ _ _ _ St' E).
Qed.

(** failure: the error of the first context item on which the step fails *)
Theorem path_step_err evn first last st pre c post out w rs w1 e :
  first && is_cons st = false ->
  pout_items out = pre ++ c :: post ->
  steps (evn st) pre w rs w1 -> evn st c w1 = Err e ->
  path_step evn first last st out w = Err e.
Proof.
  intros G Eo St E. unfold path_step. rewrite is_array_node_cons, G, Eo.
  unfold bind. now rewrite (mapM_err (fun it => evn st it) pre c post w rs w1 e St E).
Qed.
Print Assumptions path_step_err.

(* ------------------------------------------------------------------------------------------ *)
(** * 5. The path loop *)

Lemma path_start_spec steps input : path_start steps input = PSl (init_items steps input).
Proof.
  unfold path_start, init_items.
  change (match steps with
          | NVariable _ :: _ => true
          | NPredicate (NVariable _) _ :: _ => true
          | _ => false
          end) with (anchored steps).
  destruct (anchored steps); [reflexivity|].
  destruct input as [[]|]; reflexivity.
Qed.

(** the three cases of the start of a path *)
Lemma init_items_anchored steps input : anchored steps = true -> init_items steps input = [input].
Proof. unfold init_items. now intros ->. Qed.
Lemma init_items_array steps l :
  anchored steps = false -> init_items steps (Some (VArr l)) = map Some l.
Proof. unfold init_items. now intros ->. Qed.
Lemma init_items_plain steps input :
  anchored steps = false -> is_array input = false -> init_items steps input = [input].
Proof. unfold init_items. intros -> H. destruct input as [[]|]; try reflexivity; discriminate. Qed.

(** value of the loop when no step is left *)
Definition final (keep : bool) (out : pout) : ovalue :=
  match out with
  | PSq l => collapse keep l
  | PSl l => Some (VArr (somes l))
  end.

Lemma path_loop_nil evn keep first out w : path_loop evn keep first [] out w = Ok (final keep out) w.
Proof. reflexivity. Qed.

Lemma path_loop_cons evn keep first st rest out :
  path_loop evn keep first (st :: rest) out =
  bind (path_step evn first (match rest with [] => true | _ => false end) st out)
       (fun o => match o with
                 | None => ret None
                 | Some out' => path_loop evn keep false rest out'
                 end).
Proof. reflexivity. Qed.

Lemma somes_map_Some' {A} (l : list A) : somes (map Some l) = l.
Proof. apply somes_map_Some. Qed.

Lemma last_out_value keep (cn : bool) rs :
  match last_out cn rs with None => None | Some out' => final keep out' end
  = last_value keep cn (defined rs).
Proof.
  unfold last_out, last_value, nonlast_out. change (defined rs) with (somes rs).
  rewrite (step_out_defined cn rs).
  assert (G : forall its, match match its with [] => None | v :: l => Some (PSq (v :: l)) end with
                          | None => None | Some out' => final keep out' end = collapse' keep its).
  { intros [|x [|y r]]; reflexivity. }
  destruct (somes rs) as [|[ | | | |l| | ] [|]]; try apply G;
    destruct l as [|y l]; try apply G; try reflexivity.
  cbn [final]. now rewrite somes_map_Some.
Qed.

Lemma path_sem_nil sem keep ss : path_sem sem keep ss [] = None.
Proof.
  induction ss as [|st [|st2 rest] IH]; try reflexivity.
  exact IH.
Qed.

Lemma path_sem_cons2 sem keep st st2 rest ctx :
  path_sem sem keep (st :: st2 :: rest) ctx =
  path_sem sem keep (st2 :: rest) (map Some (flat_map (step_results sem st) ctx)).
Proof. reflexivity. Qed.

Lemma flat_map_map {A B C} (f : A -> B) (g : B -> list C) l :
  flat_map g (map f l) = flat_map (fun x => g (f x)) l.
Proof. induction l as [|x r IH]; cbn; [reflexivity|]. now rewrite IH. Qed.

Section PathLoop.
  (** [R] relates the world before and after an evaluation: [eq] for pure steps, [fun _ _ =>
      True] for steps whose value does not depend on the world, anything reflexive and
      transitive in between *)
  Variable R : world -> world -> Prop.
  Hypothesis R_refl : forall w, R w w.
  Hypothesis R_trans : forall a b c, R a b -> R b c -> R a c.

  Variable evn : node -> ovalue -> M ovalue.
  Variable sem : node -> ovalue -> ovalue.

  Definition evals_to (st : node) : Prop :=
    forall it w, exists w', evn st it w = Ok (sem st it) w' /\ R w w'.

  Lemma steps_sem st : evals_to st -> forall l w,
    exists w', steps (evn st) l w (map (sem st) l) w' /\ R w w'.
  Proof.
    intros H l. induction l as [|x r IH]; intro w; cbn [map].
    - exists w. split; [constructor|apply R_refl].
    - destruct (H x w) as (w1 & E & R1). destruct (IH w1) as (w2 & St & R2).
      exists w2. split; [econstructor; eauto|eauto].
  Qed.

  (** the path loop computes [path_sem] (head step not an array constructor) *)
  Theorem path_loop_spec keep ss : forall first out w,
    ss <> [] ->
    first && (match ss with st :: _ => is_cons st | [] => false end) = false ->
    Forall evals_to ss ->
    exists w', path_loop evn keep first ss out w = Ok (path_sem sem keep ss (pout_items out)) w' /\ R w w'.
  Proof.
    induction ss as [|st rest IH]; intros first out w NE G F; [congruence|].
    inversion F as [|? ? Hst Frest]; subst.
    destruct (steps_sem st Hst (pout_items out) w) as (w1 & St & R1).
    rewrite path_loop_cons. unfold bind.
    destruct rest as [|st2 rest'].
    - (* last step *)
      rewrite (path_step_last_spec evn first st out w _ w1 G St).
      exists w1. split; [|exact R1].
      cbn [path_sem]. rewrite <- last_out_value.
      destruct (last_out (is_cons st) (map (sem st) (pout_items out))); reflexivity.
    - rewrite (path_step_spec evn first st out w _ w1 G St).
      rewrite path_sem_cons2. unfold nonlast_out, step_results.
      rewrite <- (flat_map_map (sem st) (contribution (is_cons st))).
      destruct (flat_map (contribution (is_cons st)) (map (sem st) (pout_items out))) as [|y ys] eqn:E.
      + exists w1. split; [|exact R1]. cbn [map]. now rewrite path_sem_nil.
      + destruct (IH false (PSq (y :: ys)) w1) as (w2 & E2 & R2); [discriminate|reflexivity|exact Frest|].
        exists w2. split; [exact E2|eauto].
  Qed.

  (** head step an array constructor *)
  Theorem path_loop_head_cons keep st rest out w :
    is_cons st = true -> Forall evals_to (st :: rest) ->
    exists w', path_loop evn keep true (st :: rest) out w
               = Ok (head_cons_sem sem keep st rest (pout_items out)) w' /\ R w w'.
  Proof.
    intros C F. inversion F as [|? ? Hst Frest]; subst.
    destruct (Hst (Some (VArr (map (fun o => match o with Some x => x | None => VNull end) (pout_items out)))) w)
      as (w1 & E & R1).
    rewrite path_loop_cons. unfold bind.
    rewrite (path_step_head_cons evn _ st out w _ w1 C E).
    unfold head_cons_sem.
    destruct (sem st _) as [x|]; [|exists w1; auto].
    destruct (items x) as [|y ys]; [exists w1; auto|].
    destruct rest as [|st2 rest'].
    - exists w1. split; [|exact R1]. cbn [path_loop ret]. now rewrite somes_map_Some.
    - destruct (path_loop_spec keep (st2 :: rest') false (PSl (map Some (y :: ys))) w1)
        as (w2 & E2 & R2); [discriminate|reflexivity|exact Frest|].
      exists w2. split; [exact E2|eauto].
  Qed.

  Lemma path_items_nil ss : path_items sem ss [] = [].
  Proof. unfold path_items. induction ss as [|st r IH]; [reflexivity|exact IH]. Qed.

  Definition is_nil {A} (l : list A) : bool := match l with [] => true | _ => false end.

  (** running the steps [pre] of a longer path: either the path has no value already, or the
      loop continues with a running sequence whose items are [path_items sem pre] *)
  Lemma path_loop_prefix keep pre : forall first out w rest,
    rest <> [] ->
    first && (match pre ++ rest with st :: _ => is_cons st | [] => false end) = false ->
    Forall evals_to pre ->
    exists w1, R w w1 /\
      ((path_loop evn keep first (pre ++ rest) out w = Ok None w1 /\
        path_items sem pre (pout_items out) = [])
       \/ exists out', pout_items out' = path_items sem pre (pout_items out) /\
             path_loop evn keep first (pre ++ rest) out w
             = path_loop evn keep (first && is_nil pre) rest out' w1).
  Proof.
    induction pre as [|st pre' IH]; intros first out w rest NE G F.
    - exists w. split; [apply R_refl|]. right. exists out. split; [reflexivity|].
      cbn [app is_nil]. now rewrite Bool.andb_true_r.
    - inversion F as [|? ? Hst Fpre]; subst. cbn [app] in *.
      destruct (steps_sem st Hst (pout_items out) w) as (w1 & St & R1).
      rewrite path_loop_cons. unfold bind.
      assert (L : match pre' ++ rest with [] => true | _ :: _ => false end = false)
        by (destruct pre'; [destruct rest; [congruence|reflexivity]|reflexivity]).
      rewrite L, (path_step_spec evn first st out w _ w1 G St).
      unfold nonlast_out.
      assert (PI : path_items sem (st :: pre') (pout_items out)
                   = path_items sem pre' (map Some (flat_map (contribution (is_cons st))
                                                            (map (sem st) (pout_items out))))).
      { unfold path_items. cbn [fold_left]. unfold step_results.
        now rewrite <- (flat_map_map (sem st) (contribution (is_cons st))). }
      rewrite PI.
      destruct (flat_map (contribution (is_cons st)) (map (sem st) (pout_items out))) as [|y ys].
      + exists w1. split; [exact R1|]. left. split; [reflexivity|apply path_items_nil].
      + destruct (IH false (PSq (y :: ys)) w1 rest NE eq_refl Fpre) as (w2 & R2 & H).
        exists w2. split; [eauto|].
        cbn [is_nil]. rewrite Bool.andb_false_r. exact H.
  Qed.

  (** failure: the error of the first failing (context item, step) in evaluation order — steps
      left to right, items left to right within a step — is the path's error *)
  Theorem path_loop_first_err keep pre st post first out w cpre c cpost e :
    first && (match pre ++ st :: post with s :: _ => is_cons s | [] => false end) = false ->
    Forall evals_to pre ->
    path_items sem pre (pout_items out) = cpre ++ c :: cpost ->
    (forall w1, R w w1 -> exists rs w2, steps (evn st) cpre w1 rs w2 /\ evn st c w2 = Err e) ->
    path_loop evn keep first (pre ++ st :: post) out w = Err e.
  Proof.
    intros G F Ectx Hfail.
    destruct (path_loop_prefix keep pre first out w (st :: post)) as (w1 & R1 & [[_ En]|(out' & Eo & ->)]);
      [discriminate|exact G|exact F| |].
    - rewrite Ectx in En. now destruct cpre.
    - destruct (Hfail w1 R1) as (rs & w2 & St & E).
      rewrite path_loop_cons. unfold bind.
      rewrite (path_step_err evn _ _ st cpre c cpost out' w1 rs w2 e); [reflexivity| |congruence|exact St|exact E].
      destruct pre as [|s0 pre0]; cbn [is_nil app] in *.
      + now rewrite Bool.andb_true_r.
      + now rewrite Bool.andb_false_r.
  Qed.

  (** failure: once a step fails the path fails with that error *)
  Lemma path_loop_err keep first st rest out w e :
    path_step evn first (match rest with [] => true | _ => false end) st out w = Err e ->
    path_loop evn keep first (st :: rest) out w = Err e.
  Proof. intro E. rewrite path_loop_cons. unfold bind. now rewrite E. Qed.
End PathLoop.
Print Assumptions path_loop_spec.
Print Assumptions path_loop_head_cons.
Print Assumptions path_loop_first_err.

(** ** [path_sem] in terms of the fold [path_items] of the design *)

Lemma path_items_app sem pre post init :
  path_items sem (pre ++ post) init = path_items sem post (path_items sem pre init).
Proof. unfold path_items. apply fold_left_app. Qed.

(** the value of a path = the last step's value on the running items of the steps before it *)
Theorem path_sem_fold sem keep pre lst : forall ctx,
  path_sem sem keep (pre ++ [lst]) ctx =
  last_value keep (is_cons lst) (defined (map (sem lst) (path_items sem pre ctx))).
Proof.
  induction pre as [|st pre' IH]; intro ctx; [reflexivity|].
  cbn [app]. destruct (pre' ++ [lst]) as [|st2 r] eqn:E; [now destruct pre'|].
  rewrite path_sem_cons2, IH. reflexivity.
Qed.

Lemma defined_map_Some (l : list value) : defined (map Some l) = l.
Proof. apply somes_map_Some. Qed.

(** outside the single-array shortcut: the normalised fold of the per-item contributions *)
Theorem path_sem_items sem keep pre lst ctx :
  (forall l, defined (map (sem lst) (path_items sem pre ctx)) <> [VArr l]) ->
  path_sem sem keep (pre ++ [lst]) ctx =
  collapse' keep (defined (path_items sem (pre ++ [lst]) ctx)).
Proof.
  intro NS. rewrite path_sem_fold, path_items_app.
  unfold path_items at 2. cbn [fold_left]. rewrite defined_map_Some.
  unfold step_results. rewrite <- (flat_map_map (sem lst) (contribution (is_cons lst))).
  rewrite (step_out_defined (is_cons lst)). change (@somes value) with defined.
  unfold last_value.
  destruct (defined (map (sem lst) (path_items sem pre ctx))) as [|[] [|]] eqn:E; try reflexivity.
  - exfalso. now apply (NS l).
  - now destruct l.
Qed.
Print Assumptions path_sem_items.

(* ------------------------------------------------------------------------------------------ *)
(** * 6b. The evaluator's cases *)

Section EvalEquations.
  Variable fmt_num : f64 -> string.
  Variable regex_find : string -> string -> option (list (list (Z * Z))).
  Variable pow_fn : f64 -> f64 -> option f64.
  Variable xlib : string -> list carg -> option (lres ovalue).

  Local Notation eval := (eval fmt_num regex_find pow_fn xlib).
  Local Notation eval_path := (eval_path fmt_num regex_find pow_fn xlib).

  Lemma eval_path_node_eq f steps keep input env :
    eval (S f) (NPath steps keep) input env = eval_path f steps keep input env.
  Proof. reflexivity. Qed.

  Lemma eval_path_eq f st rest keep input env :
    eval_path (S f) (st :: rest) keep input env =
    path_loop (fun s it => eval f s it env) keep true (st :: rest) (path_start (st :: rest) input).
  Proof. reflexivity. Qed.

  Lemma eval_path_empty f keep input env : eval_path (S f) [] keep input env = ret None.
  Proof. reflexivity. Qed.

  Lemma eval_name_eq f k q input env :
    eval (S f) (NName k q) input env = ret (eval_name_value k input).
  Proof. reflexivity. Qed.

  Lemma eval_wildcard_eq f input env :
    eval (S f) NWildcard input env = ret (collapse false (wildcard_items input)).
  Proof. reflexivity. Qed.

  Lemma eval_descendent_eq f input env :
    eval (S f) NDescendent input env =
    ret (collapse false (match input with Some v => descendants v | None => [] end)).
  Proof. reflexivity. Qed.

  Lemma eval_context_eq f input env : eval (S f) (NVariable "") input env = ret input.
  Proof. reflexivity. Qed.

  (** field name, plain or back-quoted: the member / the flattened lookup over an array *)
  Theorem eval_name_spec f k q v env w :
    eval (S f) (NName k q) (Some v) env w = Ok (lookup_value k v) w.
  Proof. rewrite eval_name_eq. unfold ret. now rewrite eval_name_value_spec. Qed.

  Theorem eval_wildcard_spec f v env w :
    eval (S f) NWildcard (Some v) env w = Ok (collapse' false (wild v)) w.
  Proof. rewrite eval_wildcard_eq. unfold ret. now rewrite wildcard_spec, collapse_spec. Qed.

  Theorem eval_descendent_spec f v env w :
    eval (S f) NDescendent (Some v) env w = Ok (collapse' false (desc v)) w.
  Proof. rewrite eval_descendent_eq. unfold ret. now rewrite descendants_spec, collapse_spec. Qed.

  (** C01, general form: a path whose steps evaluate (at the context items) to the values given
      by [sem], whatever they do to the world within [R], has the value [path_sem] *)
  Theorem C01_path_sem (R : world -> world -> Prop) sem f steps keep input env w :
    (forall w, R w w) -> (forall a b c, R a b -> R b c -> R a c) ->
    steps <> [] ->
    match steps with st :: _ => is_cons st | [] => false end = false ->
    Forall (evals_to R (fun s it => eval f s it env) sem) steps ->
    exists w', eval (S (S f)) (NPath steps keep) input env w
               = Ok (path_sem sem keep steps (init_items steps input)) w' /\ R w w'.
  Proof.
    intros Rr Rt NE G F. rewrite eval_path_node_eq.
    destruct steps as [|st rest]; [congruence|].
    rewrite eval_path_eq, path_start_spec.
    apply (path_loop_spec R Rr Rt _ sem keep (st :: rest) true (PSl (init_items (st :: rest) input)) w NE);
      [now rewrite G|exact F].
  Qed.

  Theorem C01_path_head_cons (R : world -> world -> Prop) sem f st rest keep input env w :
    (forall w, R w w) -> (forall a b c, R a b -> R b c -> R a c) ->
    is_cons st = true ->
    Forall (evals_to R (fun s it => eval f s it env) sem) (st :: rest) ->
    exists w', eval (S (S f)) (NPath (st :: rest) keep) input env w
               = Ok (head_cons_sem sem keep st rest (init_items (st :: rest) input)) w' /\ R w w'.
  Proof.
    intros Rr Rt C F. rewrite eval_path_node_eq, eval_path_eq, path_start_spec.
    now apply (path_loop_head_cons R Rr Rt _ sem keep st rest (PSl (init_items (st :: rest) input)) w).
  Qed.

  (** the simple steps evaluate to [simple_sem], purely *)
  Lemma simple_evals_to f env st :
    simple_step st = true -> evals_to eq (fun s it => eval (S f) s it env) simple_sem st.
  Proof.
    intros S0 it w. exists w. split; [|reflexivity].
    destruct st; try discriminate S0.
    - (* $ *) cbn [simple_step] in S0. cbn [Eval.eval]. rewrite S0. reflexivity.
    - destruct it as [v|]; [apply eval_name_spec|reflexivity].
    - destruct it as [v|]; [apply eval_wildcard_spec|reflexivity].
    - destruct it as [v|]; [apply eval_descendent_spec|reflexivity].
  Qed.

  (** C01, closed form: every path built from field names, *, ** and a leading or inner $, with
      or without the keep-array marker, on every input, has exactly the declarative value and
      leaves the evaluator state unchanged *)
  Theorem C01_simple_paths f steps keep input env w :
    steps <> [] -> forallb simple_step steps = true ->
    eval (S (S (S f))) (NPath steps keep) input env w
    = Ok (path_sem simple_sem keep steps (init_items steps input)) w.
  Proof.
    intros NE A.
    destruct (C01_path_sem eq simple_sem (S f) steps keep input env w) as (w' & E & <-); auto.
    - intros; congruence.
    - destruct steps as [|st r]; [congruence|]. cbn [forallb] in A.
      apply andb_prop in A as [A _]. now destruct st.
    - apply Forall_forall. intros st I. apply simple_evals_to.
      rewrite forallb_forall in A. now apply A.
  Qed.
End EvalEquations.
Print Assumptions C01_path_sem.
Print Assumptions C01_path_head_cons.
Print Assumptions C01_simple_paths.

(* ------------------------------------------------------------------------------------------ *)
(** * Examples: the hypotheses of the theorems above are satisfiable on concrete instances *)

Definition num_ (z : Z) : value := VNum (f_of_Z z).
Definition w0 : world := mkWorld [].
Definition ev_ := eval (fun _ => "") (fun _ _ => None) (fun _ _ => None) (fun _ _ => None).

(* {"a":[{"b":[1,2]},{"b":3},{"c":4},[[{"b":5}]]]} : arrays directly inside arrays, a member
   missing in some elements *)
Definition ex_arr : value :=
  VArr [VObj [("b", VArr [num_ 1; num_ 2])]; VObj [("b", num_ 3)]; VObj [("c", num_ 4)];
        VArr [VArr [VObj [("b", num_ 5)]]]].
Definition ex_doc : value := VObj [("a", ex_arr)].

Example name_lookup_spec_ex :
  name_lookup "b" ex_arr = RS [VArr [num_ 1; num_ 2]; num_ 3; num_ 5].
Proof. rewrite name_lookup_spec. vm_compute. reflexivity. Qed.

Example wildcard_spec_ex :
  wildcard_items (Some ex_doc)
  = [VObj [("b", VArr [num_ 1; num_ 2])]; VObj [("b", num_ 3)]; VObj [("c", num_ 4)]; VObj [("b", num_ 5)]].
Proof. rewrite wildcard_spec. vm_compute. reflexivity. Qed.

Example descendants_spec_ex :
  descendants (VObj [("a", VArr [VArr [num_ 1; VObj [("b", num_ 2)]]; num_ 3])])
  = [VObj [("a", VArr [VArr [num_ 1; VObj [("b", num_ 2)]]; num_ 3])];
     num_ 1; VObj [("b", num_ 2)]; num_ 2; num_ 3].
Proof. rewrite descendants_spec. vm_compute. reflexivity. Qed.

Example desc_reach_ex : In (num_ 5) (descendants ex_doc).
Proof.
  apply descendants_reach. split; [|reflexivity].
  apply (reach_member _ ex_arr); [now left|].
  apply (reach_member _ (VArr [VArr [VObj [("b", num_ 5)]]])); [cbn; tauto|].
  apply (reach_member _ (VArr [VObj [("b", num_ 5)]])); [now left|].
  apply (reach_member _ (VObj [("b", num_ 5)])); [now left|].
  apply (reach_member _ (num_ 5)); [now left|]. constructor.
Qed.

(* one non-last step: field b over the four members of a *)
Example path_step_spec_ex :
  path_step (fun st it => ev_ 2 st it 0) false false (NName "b" false) (PSq (items ex_arr)) w0
  = Ok (Some (PSq [num_ 1; num_ 2; num_ 3; num_ 5])) w0.
Proof.
  rewrite (path_step_spec _ false (NName "b" false) (PSq (items ex_arr)) w0
             [Some (VArr [num_ 1; num_ 2]); Some (num_ 3); None; Some (num_ 5)] w0).
  - vm_compute. reflexivity.
  - reflexivity.
  - apply mapM_ok. vm_compute. reflexivity.
Qed.

(* a.b : maps over the members, flattens one level, drops the missing member *)
Example C01_simple_paths_ex :
  ev_ 4 (NPath [NName "a" false; NName "b" false] false) (Some ex_doc) 0 w0
  = Ok (Some (VArr [num_ 1; num_ 2; num_ 3; num_ 5])) w0.
Proof. unfold ev_. rewrite C01_simple_paths; [vm_compute; reflexivity|discriminate|reflexivity]. Qed.

(* the last-step single-array shortcut: a on {"a":[1]} is [1] *)
Example C01_shortcut_ex :
  ev_ 4 (NPath [NName "a" false] false) (Some (VObj [("a", VArr [num_ 1])])) 0 w0
  = Ok (Some (VArr [num_ 1])) w0.
Proof. unfold ev_. rewrite C01_simple_paths; [vm_compute; reflexivity|discriminate|reflexivity]. Qed.

(* singleton collapse and the keep-array marker: a.c is 4, a.c[] is [4] *)
Example C01_singleton_ex :
  ev_ 4 (NPath [NName "a" false; NName "c" false] false) (Some ex_doc) 0 w0 = Ok (Some (num_ 4)) w0
  /\ ev_ 4 (NPath [NName "a" false; NName "c" false] true) (Some ex_doc) 0 w0 = Ok (Some (VArr [num_ 4])) w0
  /\ ev_ 4 (NPath [NName "a" false; NName "zz" false] true) (Some ex_doc) 0 w0 = Ok None w0.
Proof.
  unfold ev_. repeat split; (rewrite C01_simple_paths; [vm_compute; reflexivity|discriminate|reflexivity]).
Qed.

(* anchoring: $.b on an array input is evaluated on the whole array, **.b maps over it *)
Example C01_anchor_ex :
  init_items [NVariable ""; NName "b" false] (Some ex_arr) = [Some ex_arr]
  /\ init_items [NName "b" false] (Some ex_arr) = map Some (items ex_arr)
  /\ ev_ 4 (NPath [NVariable ""; NName "b" false] false) (Some ex_arr) 0 w0
     = Ok (Some (VArr [num_ 1; num_ 2; num_ 3; num_ 5])) w0
  /\ ev_ 4 (NPath [NDescendent; NName "b" false] false) (Some ex_doc) 0 w0
     = Ok (Some (VArr [num_ 1; num_ 2; num_ 3; num_ 5])) w0.
Proof.
  unfold ev_. repeat split;
    (rewrite C01_simple_paths; [vm_compute; reflexivity|discriminate|reflexivity]).
Qed.

(* general form with a step that is not "simple" (a numeric literal), R = eq *)
Definition ex_sem (st : node) (c : ovalue) : ovalue :=
  match st with NNumber x => Some (VNum x) | _ => simple_sem st c end.
Example C01_path_sem_ex :
  exists w', ev_ 4 (NPath [NName "a" false; NNumber (f_of_Z 7)] false) (Some ex_doc) 0 w0
             = Ok (Some (VArr [num_ 7; num_ 7; num_ 7; num_ 7])) w' /\ w0 = w'.
Proof.
  destruct (C01_path_sem (fun _ => "") (fun _ _ => None) (fun _ _ => None) (fun _ _ => None)
              eq ex_sem 2 [NName "a" false; NNumber (f_of_Z 7)] false (Some ex_doc) 0 w0)
    as (w' & E & Rw); try congruence; try reflexivity.
  - repeat constructor; intros it w; exists w; (split; [|reflexivity]).
    + destruct it as [v|]; [apply eval_name_spec|reflexivity].
    + reflexivity.
  - exists w'. split; [|exact Rw]. unfold ev_. rewrite E. vm_compute. reflexivity.
Qed.

(* a head array constructor is evaluated once on the whole input: [$.a.c].$ *)
Definition ex_head : node := NArray [NNumber (f_of_Z 1); NNumber (f_of_Z 2)].
Definition ex_sem2 (st : node) (c : ovalue) : ovalue :=
  match st with NArray _ => Some (VArr [num_ 1; num_ 2]) | _ => simple_sem st c end.
Example C01_path_head_cons_ex :
  exists w', ev_ 5 (NPath [ex_head; NVariable ""] false) (Some ex_doc) 0 w0
             = Ok (Some (VArr [num_ 1; num_ 2])) w' /\ w0 = w'.
Proof.
  destruct (C01_path_head_cons (fun _ => "") (fun _ _ => None) (fun _ _ => None) (fun _ _ => None)
              eq ex_sem2 3 ex_head [NVariable ""] false (Some ex_doc) 0 w0)
    as (w' & E & Rw); try congruence; try reflexivity.
  - repeat constructor; intros it w; exists w; (split; [|reflexivity]); reflexivity.
  - exists w'. split; [|exact Rw]. unfold ev_. rewrite E. vm_compute. reflexivity.
Qed.

(* the first failing (item, step): a toy evaluator that fails when a number-literal step meets
   an equal context item; $.2 over the items 1,2,3 fails at the second item of the second step *)
Definition ex_evn (st : node) (it : ovalue) : M ovalue :=
  match st, it with
  | NNumber x, Some (VNum y) => if feqb x y then fail (EEval ErrTypeMismatch) else ret it
  | _, _ => ret it
  end.
Example path_loop_first_err_ex :
  path_loop ex_evn false true [NVariable ""; NNumber (f_of_Z 2)]
            (PSl [Some (num_ 1); Some (num_ 2); Some (num_ 3)]) w0
  = Err (EEval ErrTypeMismatch).
Proof.
  apply (path_loop_first_err eq (fun w => eq_refl) (@eq_trans world) ex_evn (fun _ it => it) false
           [NVariable ""] (NNumber (f_of_Z 2)) [] true _ w0 [Some (num_ 1)] (Some (num_ 2)) [Some (num_ 3)]).
  - reflexivity.
  - repeat constructor. intros it w. exists w. split; reflexivity.
  - reflexivity.
  - intros w1 <-. exists [Some (num_ 1)], w0. split.
    + apply mapM_ok. vm_compute. reflexivity.
    + vm_compute. reflexivity.
Qed.
