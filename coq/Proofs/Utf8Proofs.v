(* Proofs/Utf8Proofs.v — groundwork on Base/Utf8.v: EncodeRune / DecodeRune are mutually inverse
   on valid runes, valid UTF-8 strings are exactly the encodings of lists of valid runes, and
   [runes] / [rune_count] / [valid_utf8] are compatible with concatenation after a valid prefix.
   No axioms. *)
From JV Require Import Base.Bytes Base.Utf8.
From Coq Require Import Lia ZifyBool ZifyNat.
Open Scope Z_scope.
Ltac Zify.zify_post_hook ::= Z.div_mod_to_equations.

(* ------------------------------------------------------------------------------------------ *)
(** * bytes *)
Lemma byte_of_range c : 0 <= byte_of c < 256.
Proof. unfold byte_of. pose proof (N_ascii_bounded c) as H. lia. Qed.

Lemma byte_of_ascii_of_Z z : 0 <= z < 256 -> byte_of (ascii_of_Z z) = z.
Proof.
  intros H. unfold byte_of, ascii_of_Z. rewrite Z.mod_small by lia.
  rewrite N_ascii_embedding by lia. lia.
Qed.

Lemma ascii_of_Z_byte_of c : ascii_of_Z (byte_of c) = c.
Proof.
  unfold byte_of, ascii_of_Z. pose proof (N_ascii_bounded c) as H.
  rewrite Z.mod_small by lia. rewrite N2Z.id. apply ascii_N_embedding.
Qed.

Lemma ascii_of_Z_eq z c : z = byte_of c -> ascii_of_Z z = c.
Proof. intros ->. apply ascii_of_Z_byte_of. Qed.

Lemma byte_of_inj a b : byte_of a = byte_of b -> a = b.
Proof. intros H. rewrite <- (ascii_of_Z_byte_of a), <- (ascii_of_Z_byte_of b). now rewrite H. Qed.

(* ------------------------------------------------------------------------------------------ *)
(** * strings *)
Lemma sdrop_app_exact a b : sdrop (slen a) (a ++ b) = b.
Proof. induction a; simpl; auto. Qed.

Lemma stake_app_exact a b : stake (slen a) (a ++ b) = a.
Proof. induction a; simpl; auto. now rewrite IHa. Qed.

Lemma sdrop_nil n : sdrop n "" = "".
Proof. destruct n; reflexivity. Qed.

Lemma stake_nil n : stake n "" = "".
Proof. destruct n; reflexivity. Qed.

Lemma sdrop_sdrop a b s : sdrop a (sdrop b s) = sdrop (b + a) s.
Proof.
  revert s; induction b as [|b IH]; intros s; simpl; auto.
  destruct s; simpl; auto. apply sdrop_nil.
Qed.

Lemma sdrop_all s n : (slen s <= n)%nat -> sdrop n s = "".
Proof. revert n; induction s; intros [|n]; simpl; intros; auto; try lia. apply IHs; lia. Qed.

Lemma stake_all s n : (slen s <= n)%nat -> stake n s = s.
Proof.
  revert n; induction s; intros [|n]; simpl; intros; auto; try lia. f_equal; apply IHs; lia.
Qed.

Lemma sapp_inv_head a b c : a ++ b = a ++ c -> b = c.
Proof. induction a; simpl; intros H; auto. inversion H; auto. Qed.

Lemma sconcat_app l1 l2 : sconcat (l1 ++ l2) = sconcat l1 ++ sconcat l2.
Proof. induction l1; simpl; auto. now rewrite IHl1, sapp_assoc. Qed.

(* ------------------------------------------------------------------------------------------ *)
(** * EncodeRune then DecodeRune *)
Ltac zcases :=
  repeat match goal with
  | |- context [if ?a <? ?b then _ else _] => destruct (Z.ltb_spec a b); try lia
  | |- context [if ?a <=? ?b then _ else _] => destruct (Z.leb_spec a b); try lia
  | |- context [if ?a =? ?b then _ else _] => destruct (Z.eqb_spec a b); try lia
  end.

Ltac and_true :=
  match goal with |- context [negb (?a && ?b)] =>
    let E := fresh in assert (E : a && b = true) by lia; rewrite E end;
  cbn -[Z.add Z.mul Z.div Z.modulo].

Lemma decode_encode r rest : valid_rune r = true ->
  decode_rune (encode_rune r ++ rest) = (r, slen (encode_rune r)).
Proof.
  intros Hv. unfold encode_rune. rewrite Hv. unfold valid_rune, MaxRune in Hv.
  destruct (Z.ltb_spec r 128) as [H1|H1].
  { cbn [string_of_bytes map string_of_list append slen String.length decode_rune].
    rewrite byte_of_ascii_of_Z by lia. zcases. reflexivity. }
  destruct (Z.ltb_spec r 2048) as [H2|H2].
  { cbn [string_of_bytes map string_of_list append slen String.length decode_rune].
    rewrite !byte_of_ascii_of_Z by lia. unfold lead_info. zcases.
    cbn -[Z.add Z.mul Z.div Z.modulo]. and_true. f_equal. lia. }
  destruct (Z.ltb_spec r 65536) as [H3|H3].
  { cbn [string_of_bytes map string_of_list append slen String.length decode_rune].
    rewrite !byte_of_ascii_of_Z by lia. unfold lead_info, is_cont.
    zcases; cbn -[Z.add Z.mul Z.div Z.modulo]; and_true; and_true; f_equal; lia. }
  { cbn [string_of_bytes map string_of_list append slen String.length decode_rune].
    rewrite !byte_of_ascii_of_Z by lia. unfold lead_info, is_cont.
    zcases; cbn -[Z.add Z.mul Z.div Z.modulo]; and_true; and_true; and_true; f_equal; lia. }
Qed.

Lemma encode_rune_len r : (1 <= slen (encode_rune r) <= 4)%nat.
Proof. unfold encode_rune. zcases; cbn; lia. Qed.

Lemma encode_rune_not_nil r : encode_rune r <> "".
Proof. intros H. pose proof (encode_rune_len r) as L. rewrite H in L. cbn in L. lia. Qed.

(* utf8.RuneLen agrees with the encoder on valid runes *)
Lemma rune_len_encode r : valid_rune r = true -> rune_len r = Z.of_nat (slen (encode_rune r)).
Proof.
  intros Hv. unfold encode_rune. rewrite Hv. unfold valid_rune, MaxRune in Hv.
  unfold rune_len, is_surrogate, MaxRune. zcases; cbn; try lia.
  all: destruct ((55296 <=? r) && (r <=? 57343)) eqn:E; lia.
Qed.

(* ------------------------------------------------------------------------------------------ *)
(** * DecodeRune then EncodeRune: whenever the decoder does not report (RuneError, 1), what it
      consumed is the canonical encoding of the (valid) rune it returned *)
Definition enc_ok (s : string) (r : rune) (w : nat) : Prop :=
  valid_rune r = true /\ encode_rune r ++ sdrop w s = s /\ slen (encode_rune r) = w.

Lemma enc_ok_intro s r w :
  valid_rune r = true ->
  (valid_rune r = true -> encode_rune r ++ sdrop w s = s /\ slen (encode_rune r) = w) ->
  enc_ok s r w.
Proof. intros H1 H2. destruct (H2 H1). split; auto. Qed.

Ltac ed_fin :=
  apply enc_ok_intro;
  [unfold valid_rune, MaxRune; lia
  |let V := fresh in
   intros V; unfold encode_rune; rewrite V; zcases;
   cbn [string_of_bytes map string_of_list append slen String.length sdrop]; split; [|reflexivity];
   repeat (apply (f_equal2 String); [apply ascii_of_Z_eq; lia|])].
Ltac ed_bad := let Hc := fresh in cbv beta iota; intros Hc; vm_compute in Hc; discriminate.
Ltac ed_step r0 c1 r1 R1 :=
  destruct r0 as [|c1 r1]; [ed_bad|]; pose proof (byte_of_range c1) as R1.
Ltac ed_chk :=
  match goal with |- context [negb ?c] =>
    let E := fresh "E" in destruct c eqn:E; cbn [negb]; [|ed_bad] end.

Lemma encode_decode s : s <> EmptyString ->
  let '(r, w) := decode_rune s in
  (r =? RuneError) && (w =? 1)%nat = false -> enc_ok s r w.
Proof.
  destruct s as [|c0 r0]; [congruence|intros _].
  unfold decode_rune.
  pose proof (byte_of_range c0) as R0.
  destruct (Z.ltb_spec (byte_of c0) 128) as [H0|H0].
  { intros _. apply enc_ok_intro; [unfold valid_rune, MaxRune; lia|intros V].
    unfold encode_rune. rewrite V. zcases. cbn. rewrite ascii_of_Z_byte_of. auto. }
  unfold lead_info.
  zcases; try ed_bad.
  all: ed_step r0 c1 r1 R1; ed_chk; cbn [Nat.eqb];
    try (intros _; unfold is_cont in *; ed_fin; reflexivity).
  all: ed_step r1 c2 r2 R2; ed_chk; cbn [Nat.eqb];
    try (intros _; unfold is_cont in *; ed_fin; reflexivity).
  all: ed_step r2 c3 r3 R3; ed_chk; cbn [Nat.eqb];
    try (intros _; unfold is_cont in *; ed_fin; reflexivity).
Qed.

(* ------------------------------------------------------------------------------------------ *)
(** * unfolding equations for the fuel-driven definitions *)
Lemma runes_fuel_irrel f1 : forall f2 s, (slen s <= f1)%nat -> (slen s <= f2)%nat ->
  runes_fuel f1 s = runes_fuel f2 s.
Proof.
  induction f1 as [|f1 IH]; intros f2 s H1 H2.
  - destruct s; [|cbn in H1; lia]. destruct f2; reflexivity.
  - destruct f2 as [|f2]; [destruct s; [reflexivity|cbn in H2; lia]|].
    destruct s as [|c s']; [reflexivity|].
    cbn [runes_fuel].
    pose proof (decode_rune_width (String c s')) as W.
    destruct (decode_rune (String c s')) as [r w]. cbn [snd] in W.
    assert (Hw : (1 <= w <= slen (String c s'))%nat) by (apply W; discriminate).
    f_equal. apply IH; rewrite slen_sdrop; lia.
Qed.

Lemma runes_nil : runes "" = [].
Proof. reflexivity. Qed.

Lemma runes_cons s : s <> "" ->
  runes s = fst (decode_rune s) :: runes (sdrop (snd (decode_rune s)) s).
Proof.
  intros Hs. unfold runes at 1. destruct s as [|c s']; [congruence|].
  cbn [slen String.length runes_fuel].
  pose proof (decode_rune_width (String c s')) as W.
  destruct (decode_rune (String c s')) as [r w]. cbn [fst snd] in *.
  assert (Hw : (1 <= w <= slen (String c s'))%nat) by (apply W; discriminate).
  f_equal. unfold runes. apply runes_fuel_irrel; rewrite ?slen_sdrop; cbn [slen String.length] in *; lia.
Qed.

Lemma valid_fuel_irrel f1 : forall f2 s, (slen s <= f1)%nat -> (slen s <= f2)%nat ->
  valid_utf8_fuel f1 s = valid_utf8_fuel f2 s.
Proof.
  induction f1 as [|f1 IH]; intros f2 s H1 H2.
  - destruct s; [|cbn in H1; lia]. destruct f2; reflexivity.
  - destruct f2 as [|f2]; [destruct s; [reflexivity|cbn in H2; lia]|].
    destruct s as [|c s']; [reflexivity|].
    cbn [valid_utf8_fuel].
    pose proof (decode_rune_width (String c s')) as W.
    destruct (decode_rune (String c s')) as [r w]. cbn [snd] in W.
    assert (Hw : (1 <= w <= slen (String c s'))%nat) by (apply W; discriminate).
    destruct ((r =? RuneError) && (w =? 1)%nat); [reflexivity|].
    apply IH; rewrite slen_sdrop; lia.
Qed.

Lemma valid_utf8_nil : valid_utf8 "" = true.
Proof. reflexivity. Qed.

Lemma valid_utf8_cons s : s <> "" ->
  valid_utf8 s =
  if (fst (decode_rune s) =? RuneError) && (snd (decode_rune s) =? 1)%nat then false
  else valid_utf8 (sdrop (snd (decode_rune s)) s).
Proof.
  intros Hs. unfold valid_utf8 at 1. destruct s as [|c s']; [congruence|].
  cbn [slen String.length valid_utf8_fuel].
  pose proof (decode_rune_width (String c s')) as W.
  destruct (decode_rune (String c s')) as [r w]. cbn [fst snd] in *.
  assert (Hw : (1 <= w <= slen (String c s'))%nat) by (apply W; discriminate).
  destruct ((r =? RuneError) && (w =? 1)%nat); [reflexivity|].
  unfold valid_utf8. apply valid_fuel_irrel; rewrite ?slen_sdrop; cbn [slen String.length] in *; lia.
Qed.

(* ------------------------------------------------------------------------------------------ *)
(** * encodings of rune lists *)
Definition valid_runes (l : list rune) : Prop := Forall (fun r => valid_rune r = true) l.

Lemma string_of_runes_nil : string_of_runes [] = "".
Proof. reflexivity. Qed.
Lemma string_of_runes_cons r l : string_of_runes (r :: l) = encode_rune r ++ string_of_runes l.
Proof. reflexivity. Qed.
Lemma string_of_runes_app a b : string_of_runes (a ++ b)%list = string_of_runes a ++ string_of_runes b.
Proof. unfold string_of_runes. now rewrite map_app, sconcat_app. Qed.

Lemma app_not_nil a b : a <> "" -> a ++ b <> "".
Proof. destruct a; simpl; congruence. Qed.

Lemma runes_encode_app r rest : valid_rune r = true ->
  runes (encode_rune r ++ rest) = r :: runes rest.
Proof.
  intros Hv. rewrite runes_cons by (apply app_not_nil, encode_rune_not_nil).
  rewrite decode_encode by assumption. cbn [fst snd]. now rewrite sdrop_app_exact.
Qed.

Lemma valid_encode_app r rest : valid_rune r = true ->
  valid_utf8 (encode_rune r ++ rest) = valid_utf8 rest.
Proof.
  intros Hv. rewrite valid_utf8_cons by (apply app_not_nil, encode_rune_not_nil).
  rewrite decode_encode by assumption. cbn [fst snd]. rewrite sdrop_app_exact.
  destruct ((r =? RuneError) && (slen (encode_rune r) =? 1)%nat) eqn:E; [|reflexivity].
  exfalso. apply andb_true_iff in E as [E1 E2]. apply Z.eqb_eq in E1. subst r.
  vm_compute in E2. discriminate.
Qed.

(* [runes_string_of_runes] with an arbitrary (possibly invalid) continuation *)
Lemma runes_string_of_runes_app l rest : valid_runes l ->
  runes (string_of_runes l ++ rest) = (l ++ runes rest)%list.
Proof.
  induction 1 as [|r l Hr Hl IH]; [reflexivity|].
  rewrite string_of_runes_cons, sapp_assoc, runes_encode_app by assumption.
  now rewrite IH.
Qed.

Theorem runes_string_of_runes l : valid_runes l -> runes (string_of_runes l) = l.
Proof.
  intros H. rewrite <- (sapp_nil_r (string_of_runes l)), runes_string_of_runes_app by assumption.
  now rewrite runes_nil, app_nil_r.
Qed.

Lemma valid_string_of_runes_app l rest : valid_runes l ->
  valid_utf8 (string_of_runes l ++ rest) = valid_utf8 rest.
Proof.
  induction 1 as [|r l Hr Hl IH]; [reflexivity|].
  rewrite string_of_runes_cons, sapp_assoc, valid_encode_app by assumption. apply IH.
Qed.

Theorem valid_string_of_runes l : valid_runes l -> valid_utf8 (string_of_runes l) = true.
Proof.
  intros H. rewrite <- (sapp_nil_r (string_of_runes l)), valid_string_of_runes_app by assumption.
  reflexivity.
Qed.

(* every valid string is the encoding of its rune sequence, all of whose runes are valid *)
Lemma valid_decompose_aux n : forall s, (slen s <= n)%nat -> valid_utf8 s = true ->
  valid_runes (runes s) /\ string_of_runes (runes s) = s.
Proof.
  induction n as [|n IH]; intros s Hn Hv.
  - destruct s; [split; [constructor|reflexivity]|cbn in Hn; lia].
  - destruct s as [|c s']; [split; [constructor|reflexivity]|].
    set (s := String c s') in *.
    assert (Hs : s <> "") by discriminate.
    rewrite valid_utf8_cons in Hv by assumption.
    rewrite runes_cons by assumption.
    pose proof (encode_decode s Hs) as ED.
    pose proof (decode_rune_width s Hs) as W.
    destruct (decode_rune s) as [r w]. cbn [fst snd] in *.
    destruct ((r =? RuneError) && (w =? 1)%nat) eqn:E; [discriminate|].
    destruct (ED eq_refl) as (V & A & L).
    destruct (IH (sdrop w s)) as [IH1 IH2]; [rewrite slen_sdrop; subst s; cbn [slen String.length] in *; lia|assumption|].
    split; [constructor; assumption|].
    rewrite string_of_runes_cons, IH2. exact A.
Qed.

Theorem encode_runes_inverse s : valid_utf8 s = true -> string_of_runes (runes s) = s.
Proof. intros H. eapply valid_decompose_aux; eauto. Qed.

Theorem runes_valid s : valid_utf8 s = true -> valid_runes (runes s).
Proof. intros H. eapply valid_decompose_aux; eauto. Qed.

(* ------------------------------------------------------------------------------------------ *)
(** * concatenation *)
Theorem runes_app a b : valid_utf8 a = true -> runes (a ++ b) = (runes a ++ runes b)%list.
Proof.
  intros Ha. rewrite <- (encode_runes_inverse a Ha) at 1.
  apply runes_string_of_runes_app, runes_valid, Ha.
Qed.

Theorem rune_count_app a b : valid_utf8 a = true ->
  rune_count (a ++ b) = (rune_count a + rune_count b)%nat.
Proof. intros Ha. unfold rune_count. now rewrite runes_app, app_length by assumption. Qed.

Theorem valid_utf8_app a b : valid_utf8 a = true -> valid_utf8 (a ++ b) = valid_utf8 b.
Proof.
  intros Ha. rewrite <- (encode_runes_inverse a Ha) at 1.
  apply valid_string_of_runes_app, runes_valid, Ha.
Qed.

Lemma rune_count_string_of_runes l : valid_runes l ->
  rune_count (string_of_runes l) = List.length l.
Proof. intros H. unfold rune_count. now rewrite runes_string_of_runes. Qed.

Lemma valid_runes_app a b : valid_runes a -> valid_runes b -> valid_runes (a ++ b)%list.
Proof. intros; apply Forall_app; auto. Qed.
Lemma valid_runes_firstn n l : valid_runes l -> valid_runes (firstn n l).
Proof.
  intros H. revert n. induction H as [|x l Hx Hl IH]; intros [|n]; cbn; try (constructor; fail).
  - constructor; [exact Hx|apply IH].
Qed.
Lemma valid_runes_skipn n l : valid_runes l -> valid_runes (skipn n l).
Proof.
  intros H. revert n. induction H as [|x l Hx Hl IH]; intros [|n]; cbn.
  - constructor.
  - constructor.
  - constructor; [exact Hx|exact Hl].
  - apply IH.
Qed.

(* the rune prefix of length n of a valid string, as bytes *)
Lemma stake_string_of_runes n l :
  stake (slen (string_of_runes (firstn n l))) (string_of_runes l) = string_of_runes (firstn n l).
Proof.
  rewrite <- (firstn_skipn n l) at 2. rewrite string_of_runes_app. apply stake_app_exact.
Qed.
Lemma sdrop_string_of_runes n l :
  sdrop (slen (string_of_runes (firstn n l))) (string_of_runes l) = string_of_runes (skipn n l).
Proof.
  rewrite <- (firstn_skipn n l) at 2. rewrite string_of_runes_app. apply sdrop_app_exact.
Qed.

(* ------------------------------------------------------------------------------------------ *)
(** * self-synchronisation: the first byte of an encoding is never a continuation byte, all the
      others are *)
Definition first_byte (s : string) : Z := match s with String c _ => byte_of c | EmptyString => 0 end.
Fixpoint all_cont (s : string) : bool :=
  match s with EmptyString => true | String c r => is_cont (byte_of c) && all_cont r end.
Definition stail (s : string) : string := match s with String _ r => r | EmptyString => EmptyString end.

Lemma encode_rune_shape r :
  is_cont (first_byte (encode_rune r)) = false /\ all_cont (stail (encode_rune r)) = true.
Proof.
  unfold encode_rune. set (q := if valid_rune r then r else RuneError).
  assert (Hq : 0 <= q <= 1114111).
  { subst q. unfold valid_rune, MaxRune, RuneError. destruct ((0 <=? r) && (r <? 55296) || (57343 <? r) && (r <=? 1114111)) eqn:E; lia. }
  clearbody q. unfold is_cont.
  zcases; cbn [string_of_bytes map string_of_list first_byte stail all_cont];
    rewrite ?byte_of_ascii_of_Z by lia; unfold is_cont; split; lia.
Qed.

Print Assumptions decode_encode.
Print Assumptions encode_decode.
Print Assumptions encode_runes_inverse.
Print Assumptions runes_string_of_runes.
Print Assumptions runes_app.
Print Assumptions rune_count_app.
Print Assumptions valid_utf8_app.

(* the hypotheses are satisfiable on non-trivial instances *)
Example decode_encode_ex : decode_rune (encode_rune 128512 ++ "x") = (128512, 4%nat).
Proof. reflexivity. Qed.
Example encode_runes_inverse_ex :
  let s := string_of_bytes [97; 195; 169; 226; 130; 172; 240; 159; 152; 128] in
  valid_utf8 s = true /\ runes s = [97; 233; 8364; 128512] /\ string_of_runes (runes s) = s.
Proof. vm_compute. auto. Qed.

(* do not leak the div/mod pre-processing of [lia] to importers *)
Ltac Zify.zify_post_hook ::= idtac.
