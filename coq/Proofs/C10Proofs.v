(* Proofs/C10Proofs.v — model-level half of property C10: results are JSON-representable,
   i.e. every number inside a result is finite, so that marshalling always succeeds.

   [value_finite] (Model/Eval.v) is "every number inside the value is finite".
   1. the operator functions return only finite values: C10_numeric_finite (unconditionally),
      C10_negation_finite, C10_comparison_finite, C10_boolean_finite, C10_range_finite,
      C10_concat_finite;
   2. the aggregates: C10_sum_finite, C10_average_finite, C10_minmax_finite, C10_count_finite:
      a finite number, "no value", or an error — never a non-finite number, never a panic;
   3. C10_marshal_total: [json_of_value fmt v <> None] for every finite v (functions render as
      the empty string); C10_stringify_total and C03_concat_value (the & operator on finite
      operands is the concatenation of their string forms);
   4. C10_arrayify_finite, C10_normalize_array_finite, C10_collapse_finite, and finiteness of
      the sub-values a path step can extract (name lookup, wildcard, descendants).

   No whole-evaluator invariant is attempted here. *)
From Coq Require Import ZArith Bool List Ascii String Lia ZifyBool.
From JV.Base Require Import Bytes Utf8 F64 Res.
From JV.Model Require Import Value Ops Eval LibCore.
From JV.Spec Require Import C03.
From JV.Proofs Require Import MonadFacts C03Proofs F64Facts.
Import ListNotations.
Local Open Scope list_scope.

Definition ovalue_finite (v : ovalue) : bool :=
  match v with Some x => value_finite x | None => true end.

(* numbers in a value are valid binary64 data (canonical mantissa/exponent), as everything that
   enters through the wire format or comes out of an arithmetic operation is *)
Fixpoint value_valid (v : value) : bool :=
  let fix fl (l : list value) : bool :=
    match l with [] => true | x :: r => value_valid x && fl r end in
  let fix fm (m : list (string * value)) : bool :=
    match m with [] => true | (_, x) :: r => value_valid x && fm r end in
  match v with
  | VNum x => valid_f64 x
  | VArr l => fl l
  | VObj m => fm m
  | _ => true
  end.

Lemma value_finite_arr l : value_finite (VArr l) = forallb value_finite l.
Proof. induction l as [|x r IH]; [reflexivity|]. cbn [forallb]. rewrite <- IH. reflexivity. Qed.

Lemma value_finite_obj m : value_finite (VObj m) = forallb (fun kv => value_finite (snd kv)) m.
Proof.
  induction m as [|[k x] r IH]; [reflexivity|]. cbn [forallb snd]. rewrite <- IH. reflexivity.
Qed.

Lemma value_valid_arr l : value_valid (VArr l) = forallb value_valid l.
Proof. induction l as [|x r IH]; [reflexivity|]. cbn [forallb]. rewrite <- IH. reflexivity. Qed.

(* ------------------------------------------------------------------------------------ *)
(* 1. operators                                                                          *)
(* ------------------------------------------------------------------------------------ *)

(** arithmetic never returns a non-finite number, whatever the operands *)
Theorem C10_numeric_finite : forall o l r v,
  numeric_result o l r = inl v -> ovalue_finite v = true.
Proof.
  intros o l r v H. pose proof (C03_numeric_table o l r) as T. rewrite H in T.
  destruct (op_cell _ _ _); cbn in T; try discriminate.
  - destruct T as [(x & Fx & E)|[E|E]]; try discriminate. inversion E; subst. exact Fx.
  - inversion T. reflexivity.
  - inversion T. reflexivity.
Qed.
Print Assumptions C10_numeric_finite.

Theorem C10_negation_finite : forall v u,
  ovalue_finite v = true -> negation_result v = inl u -> ovalue_finite u = true.
Proof.
  intros [[| |x| | | |]|] u F H; cbn in H; inversion H; subst; try reflexivity.
  cbn in *. destruct x; auto.
Qed.

Theorem C10_comparison_finite : forall o a b res v,
  comparison_result o a b = Some res -> res = inl v -> ovalue_finite v = true.
Proof.
  intros o a b res v H E. destruct (C03_comparison_table o a b) as (res' & H' & T).
  rewrite H in H'. inversion H'; subst res'. subst res.
  destruct (op_cell _ _ _); cbn in T; try discriminate.
  - destruct T as [t T]. inversion T. reflexivity.
  - inversion T. reflexivity.
  - inversion T. reflexivity.
Qed.

Theorem C10_boolean_finite : forall o a b, ovalue_finite (boolean_result o a b) = true.
Proof. reflexivity. Qed.

(* ------------------------------------------------------------------------------------ *)
(* 3. marshalling                                                                        *)
(* ------------------------------------------------------------------------------------ *)

Section Marshal.
  Variable fmt : f64 -> string.

  Fixpoint json_list (l : list value) : option (list string) :=
    match l with
    | [] => Some []
    | x :: r => match json_of_value fmt x, json_list r with
                | Some a, Some b => Some (a :: b)
                | _, _ => None
                end
    end.
  Fixpoint json_members (m : list (string * value)) : option (list string) :=
    match m with
    | [] => Some []
    | (k, x) :: r => match json_of_value fmt x, json_members r with
                     | Some a, Some b => Some ((json_quote k ++ ":" ++ a)%string :: b)
                     | _, _ => None
                     end
    end.

  Lemma json_of_arr l :
    json_of_value fmt (VArr l) = option_map (fun ss => ("[" ++ sjoin "," ss ++ "]")%string) (json_list l).
  Proof. destruct l; reflexivity. Qed.
  Lemma json_of_obj m :
    json_of_value fmt (VObj m) = option_map (fun ss => ("{" ++ sjoin "," ss ++ "}")%string) (json_members m).
  Proof. destruct m as [|[k x] r]; reflexivity. Qed.

  (** json.Marshal of a finite value always succeeds *)
  Theorem C10_marshal_total : forall v, value_finite v = true -> json_of_value fmt v <> None.
  Proof.
    induction v as [| b | x | s | l IH | m IH | c] using value_ind_nested; intro F; try discriminate.
    - destruct b; discriminate.
    - cbn in *. rewrite F. discriminate.
    - rewrite json_of_arr. rewrite value_finite_arr in F.
      assert (H : json_list l <> None).
      { induction IH as [|x r Hx _ IHr]; [discriminate|]. cbn [forallb json_list] in *.
        apply andb_true_iff in F as [F1 F2].
        destruct (json_of_value fmt x); [|now elim Hx].
        destruct (json_list r); [discriminate | now elim IHr]. }
      destruct (json_list l); [discriminate | contradiction].
    - rewrite json_of_obj. rewrite value_finite_obj in F.
      assert (H : json_members m <> None).
      { induction IH as [|[k x] r Hx _ IHr]; [discriminate|]. cbn [forallb json_members snd] in *.
        apply andb_true_iff in F as [F1 F2].
        destruct (json_of_value fmt x); [|now elim Hx].
        destruct (json_members r); [discriminate | now elim IHr]. }
      destruct (json_members m); [discriminate | contradiction].
  Qed.

  (** ... and conversely a value that marshals is finite: marshalling fails exactly on values
      containing NaN or an infinity *)
  Theorem C10_marshal_iff : forall v, json_of_value fmt v <> None <-> value_finite v = true.
  Proof.
    intro v. split; [|apply C10_marshal_total].
    induction v as [| b | x | s | l IH | m IH | c] using value_ind_nested; intro F; try reflexivity.
    - cbn in *. destruct (is_finite x); congruence.
    - rewrite json_of_arr in F. rewrite value_finite_arr.
      assert (H : json_list l <> None) by (destruct (json_list l); [discriminate | now elim F]).
      clear F. induction IH as [|x r Hx _ IHr]; [reflexivity|]. cbn [forallb json_list] in *.
      destruct (json_of_value fmt x); [|now elim H].
      destruct (json_list r); [|now elim H].
      rewrite Hx, IHr by discriminate. reflexivity.
    - rewrite json_of_obj in F. rewrite value_finite_obj.
      assert (H : json_members m <> None) by (destruct (json_members m); [discriminate | now elim F]).
      clear F. induction IH as [|[k x] r Hx _ IHr]; [reflexivity|]. cbn [forallb json_members snd] in *.
      destruct (json_of_value fmt x); [|now elim H].
      destruct (json_members r); [|now elim H].
      rewrite Hx, IHr by discriminate. reflexivity.
  Qed.

  (** functions marshal as the empty JSON string *)
  Lemma C10_marshal_function c : json_of_value fmt (VFun c) = Some """"""%string.
  Proof. reflexivity. Qed.

  (** jlib.String (used by & and $string) succeeds on finite values *)
  Theorem C10_stringify_total : forall v, value_finite v = true ->
    string_of_value fmt v = LOk (string_form fmt (json_of_value fmt) (Some v)).
  Proof.
    intros v F. pose proof (C10_marshal_total v F) as J.
    destruct v; try reflexivity; unfold string_of_value, string_form.
    - destruct (json_of_value fmt (VBool b)); [reflexivity | contradiction].
    - cbn in F. rewrite F. reflexivity.
    - destruct (json_of_value fmt (VArr l)); [reflexivity | contradiction].
    - destruct (json_of_value fmt (VObj m)); [reflexivity | contradiction].
  Qed.

  (** a & b on finite operands: the concatenation of the two string forms; a missing operand
      contributes the empty string; never an error. *)
  Theorem C03_concat_value : forall a b,
    ovalue_finite a = true -> ovalue_finite b = true ->
    concat_result fmt a b =
      inl (Some (VStr (string_form fmt (json_of_value fmt) a ++ string_form fmt (json_of_value fmt) b))).
  Proof.
    intros a b Fa Fb. unfold concat_result.
    assert (H : forall v, ovalue_finite v = true ->
                ostring fmt v = LOk (string_form fmt (json_of_value fmt) v)).
    { intros [v|] F; [now apply C10_stringify_total | reflexivity]. }
    rewrite (H a Fa), (H b Fb). reflexivity.
  Qed.

  Corollary C10_concat_finite : forall a b v,
    concat_result fmt a b = inl v -> ovalue_finite v = true.
  Proof.
    intros a b v H. pose proof (C03_concat_table fmt a b) as T. rewrite H in T. cbn in T.
    destruct T as [[s E]|[t E]]; inversion E. reflexivity.
  Qed.
End Marshal.
Print Assumptions C10_marshal_total.
Print Assumptions C10_marshal_iff.
Print Assumptions C03_concat_value.

Example C10_marshal_ex :
  json_of_value (fun _ => "1"%string)
    (VObj [("a"%string, VArr [VNum fone; VFun (CBuiltin "sum"); VNull]); ("b"%string, VStr "<x>")]) =
    Some "{""a"":[1,"""",null],""b"":""\u003cx\u003e""}"%string /\
  json_of_value (fun _ => "1"%string) (VArr [VNum (fdiv fone fzero)]) = None /\
  concat_result (fun _ => "1"%string) (Some (VArr [VNum fone; VStr "a"])) None =
    inl (Some (VStr "[1,""a""]")).
Proof. vm_compute. repeat split. Qed.

(* ------------------------------------------------------------------------------------ *)
(* 4. arrays and sequences                                                               *)
(* ------------------------------------------------------------------------------------ *)

Theorem C10_arrayify_finite : forall v,
  ovalue_finite v = true -> forallb value_finite (arrayify v) = true.
Proof.
  intros [v|] F; [|reflexivity].
  destruct v; cbn in *; try reflexivity; try (now rewrite F).
  now rewrite <- value_finite_arr.
Qed.

Theorem C10_normalize_array_finite : forall l,
  forallb value_finite l = true -> value_finite (normalize_array l) = true.
Proof.
  intros [|x [|y r]] F; cbn [normalize_array]; try (now rewrite value_finite_arr).
  cbn [forallb] in F. now rewrite andb_true_r in F.
Qed.

Theorem C10_collapse_finite : forall keep items,
  forallb value_finite items = true -> ovalue_finite (collapse keep items) = true.
Proof.
  intros keep [|x [|y r]] F; try reflexivity.
  - cbn [forallb collapse] in *. rewrite andb_true_r in F.
    destruct keep; cbn [ovalue_finite]; [|exact F].
    rewrite value_finite_arr. cbn [forallb]. now rewrite F.
  - unfold collapse, ovalue_finite. now rewrite value_finite_arr.
Qed.

Lemma forallb_app' {A} (p : A -> bool) l1 l2 :
  forallb p (l1 ++ l2) = forallb p l1 && forallb p l2.
Proof. induction l1 as [|x r IH]; cbn; [reflexivity|]. now rewrite IH, andb_assoc. Qed.

(* what a path step can extract from a finite value is finite *)
Lemma assoc_get_finite k m v :
  forallb (fun kv => value_finite (snd kv)) m = true -> assoc_get k m = Some v -> value_finite v = true.
Proof.
  induction m as [|[k' x] r IH]; cbn; [discriminate|].
  intros F H. apply andb_true_iff in F as [F1 F2].
  destruct (seqb k k'); [inversion H; subst; exact F1 | auto].
Qed.

Definition rv_finite (r : rv) : bool :=
  match r with RV v => ovalue_finite v | RS items => forallb value_finite items end.

Theorem C10_name_lookup_finite : forall name v,
  value_finite v = true -> rv_finite (name_lookup name v) = true.
Proof.
  intros name. induction v as [| b | x | s | l IH | m IH | c] using value_ind_nested; intro F;
    try reflexivity.
  - cbn [name_lookup rv_finite]. rewrite value_finite_arr in F.
    induction IH as [|x r Hx _ IHr]; [reflexivity|]. cbn [forallb] in F.
    apply andb_true_iff in F as [F1 F2]. specialize (Hx F1). specialize (IHr F2).
    destruct (name_lookup name x) as [[y|]|items]; cbn in Hx |- *.
    + rewrite Hx. exact IHr.
    + exact IHr.
    + rewrite forallb_app', Hx. exact IHr.
  - cbn [name_lookup rv_finite]. rewrite value_finite_obj in F.
    destruct (assoc_get name m) eqn:E; [|reflexivity]. cbn. eapply assoc_get_finite; eauto.
Qed.

Theorem C10_eval_name_finite : forall name data,
  ovalue_finite data = true -> ovalue_finite (eval_name_value name data) = true.
Proof.
  intros name [v|] F; [|reflexivity]. cbn [eval_name_value].
  pose proof (C10_name_lookup_finite name v F) as H.
  destruct (name_lookup name v); [exact H | now apply C10_collapse_finite].
Qed.

Lemma flatten_deep_finite : forall v, value_finite v = true -> forallb value_finite (flatten_deep v) = true.
Proof.
  induction v as [| b | x | s | l IH | m IH | c] using value_ind_nested; intro F;
    try (cbn; rewrite ?andb_true_r; exact F); try reflexivity.
  - cbn [flatten_deep]. rewrite value_finite_arr in F.
    induction IH as [|x r Hx _ IHr]; [reflexivity|]. cbn [forallb] in F.
    apply andb_true_iff in F as [F1 F2]. rewrite forallb_app', Hx, IHr; auto.
Qed.

Theorem C10_wildcard_finite : forall data,
  ovalue_finite data = true -> forallb value_finite (wildcard_items data) = true.
Proof.
  intros [v|] F; [|reflexivity]. cbn [wildcard_items]. cbn [ovalue_finite] in F.
  assert (H : forallb value_finite (object_values v) = true).
  { destruct v; try reflexivity.
    - now rewrite <- value_finite_arr.
    - cbn [object_values]. rewrite value_finite_obj in F.
      clear -F. induction m as [|[k x] r IH]; [reflexivity|]. cbn [map forallb snd] in *.
      apply andb_true_iff in F as [F1 F2]. now rewrite F1, IH. }
  induction (object_values v) as [|x r IH]; [reflexivity|]. cbn [flat_map forallb] in *.
  apply andb_true_iff in H as [H1 H2]. rewrite forallb_app', IH by auto.
  rewrite andb_true_r. destruct x; try (cbn; rewrite ?andb_true_r; exact H1); try reflexivity.
  now apply flatten_deep_finite.
Qed.

Theorem C10_descendants_finite : forall v,
  value_finite v = true -> forallb value_finite (descendants v) = true.
Proof.
  induction v as [| b | x | s | l IH | m IH | c] using value_ind_nested; intro F;
    try (cbn; rewrite ?andb_true_r; exact F); try reflexivity.
  - cbn [descendants]. rewrite value_finite_arr in F.
    induction IH as [|x r Hx _ IHr]; [reflexivity|]. cbn [forallb] in F.
    apply andb_true_iff in F as [F1 F2]. rewrite forallb_app', Hx, IHr; auto.
  - cbn [descendants forallb]. rewrite F. cbn [andb]. rewrite value_finite_obj in F.
    induction IH as [|[k x] r Hx _ IHr]; [reflexivity|]. cbn [forallb snd] in F.
    apply andb_true_iff in F as [F1 F2]. cbn in Hx. rewrite forallb_app', Hx, IHr; auto.
Qed.
Print Assumptions C10_collapse_finite.
Print Assumptions C10_eval_name_finite.
Print Assumptions C10_wildcard_finite.
Print Assumptions C10_descendants_finite.

(* ------------------------------------------------------------------------------------ *)
(* 2. aggregates ($sum, $average, $max, $min, $count)                                    *)
(* ------------------------------------------------------------------------------------ *)

(* outcome of an aggregate: a finite value or "no value" in the unchanged world, or an error;
   no panic, no fuel, no oracle *)
Definition finite_or_error (m : M ovalue) (w : world) : Prop :=
  (exists r, m w = Ok r w /\ ovalue_finite r = true) \/ (exists e, m w = Err e).

Lemma numbers_of_finite l xs :
  forallb value_finite l = true -> numbers_of l = Some xs -> forallb is_finite xs = true.
Proof.
  unfold numbers_of. destruct (all_numbers l) eqn:A; [|discriminate].
  intros F H. inversion H; subst xs; clear H.
  induction l as [|x r IH]; [reflexivity|]. cbn [forallb] in F. unfold all_numbers in A. cbn [forallb] in A.
  apply andb_true_iff in F as [F1 F2]. apply andb_true_iff in A as [A1 A2].
  destruct x; try discriminate. cbn. cbn in F1. rewrite F1. now apply IH.
Qed.

(** $sum: the model of the (repaired) port checks the total; the result is finite or an error *)
Theorem C10_sum_finite : forall v w, ovalue_finite v = true -> finite_or_error (lib_sum v) w.
Proof.
  intros v w F. unfold finite_or_error, lib_sum.
  destruct v as [[| | x | | l | |]|]; try (right; eexists; reflexivity).
  - left. eexists. split; [reflexivity | exact F].
  - destruct (numbers_of l); [|right; eexists; reflexivity].
    destruct (is_finite (fold_left fadd l0 fzero)) eqn:E; [|right; eexists; reflexivity].
    left. eexists. split; [reflexivity | exact E].
Qed.

Theorem C10_average_finite : forall v w, ovalue_finite v = true -> finite_or_error (lib_average v) w.
Proof.
  intros v w F. unfold finite_or_error, lib_average.
  destruct v as [[| | x | | l | |]|]; try (right; eexists; reflexivity).
  - left. eexists. split; [reflexivity | exact F].
  - destruct l as [|y l']; [left; eexists; split; reflexivity|].
    destruct (numbers_of (y :: l')); [|right; eexists; reflexivity].
    destruct (is_finite _) eqn:E; [|right; eexists; reflexivity].
    left. eexists. split; [reflexivity | exact E].
Qed.

Lemma extremum_in better xs m : extremum better xs = Some m -> In m xs.
Proof.
  destruct xs as [|x r]; [discriminate|]. cbn [extremum]. intro H. inversion H; subst m; clear H.
  revert x. induction r as [|y r IH]; intro x; [left; reflexivity|].
  cbn [fold_left]. destruct (better y x).
  - destruct (IH y) as [E|I]; [right; left; exact E | right; right; exact I].
  - destruct (IH x) as [E|I]; [left; exact E | right; right; exact I].
Qed.

(** $max / $min return a member of the array, so a finite number *)
Theorem C10_minmax_finite : forall nm better v w,
  ovalue_finite v = true -> finite_or_error (lib_minmax nm better v) w.
Proof.
  intros nm better v w F. unfold finite_or_error, lib_minmax.
  destruct v as [[| | x | | l | |]|]; try (right; eexists; reflexivity).
  - left. eexists. split; [reflexivity | exact F].
  - destruct l as [|y l']; [left; eexists; split; reflexivity|].
    destruct (numbers_of (y :: l')) as [xs|] eqn:N; [|right; eexists; reflexivity].
    left. eexists. split; [reflexivity|].
    destruct (extremum better xs) as [m|] eqn:E; [|reflexivity].
    cbn. apply extremum_in in E. cbn [ovalue_finite] in F. rewrite value_finite_arr in F.
    pose proof (numbers_of_finite _ _ F N) as Fx.
    rewrite forallb_forall in Fx. now apply Fx.
Qed.
Print Assumptions C10_sum_finite.
Print Assumptions C10_average_finite.
Print Assumptions C10_minmax_finite.

Example C10_sum_ex :
  lib_sum (Some (VArr [VNum (f_of_Zexp 1 1023 false); VNum (f_of_Zexp 1 1023 false)])) (mkWorld []) =
    Err (ELib "sum: not finite") /\
  lib_sum (Some (VArr [VNum fone; VNum (f_of_Z 2)])) (mkWorld []) = Ok (Some (VNum (f_of_Z 3))) (mkWorld []) /\
  lib_minmax "max" (fun n m => fltb m n) (Some (VArr [VNum fone; VNum (f_of_Z 7); VNum (f_of_Z 2)])) (mkWorld []) =
    Ok (Some (VNum (f_of_Z 7))) (mkWorld []) /\
  lib_average (Some (VArr [VNum fone; VNum (f_of_Z 2)])) (mkWorld []) =
    Ok (Some (VNum (fdiv (f_of_Z 3) (f_of_Z 2)))) (mkWorld []).
Proof. vm_compute. repeat split. Qed.

(* ------------------------------------------------------------------------------------ *)
(* 1b. the range operator, and $count (these two use the Flocq connection of F64Facts,    *)
(*     hence the axioms of the real numbers in their Print Assumptions)                  *)
(* ------------------------------------------------------------------------------------ *)

Definition ovalue_valid (v : ovalue) : bool :=
  match v with Some x => value_valid x | None => true end.

(** [a..b] with a finite (and validly represented) left bound contains only finite numbers:
    the increment a+1 never overflows (F64Facts.fadd_one_finite) *)
Theorem C10_range_finite : forall l r v,
  ovalue_finite l = true -> ovalue_valid l = true ->
  range_result l r = inl v -> ovalue_finite v = true.
Proof.
  intros l r v Fl Vl H.
  destruct v as [v|]; [|reflexivity].
  assert (A : exists items, v = VArr items).
  { destruct l as [[|b1|a|s1|l1|m1|c1]|]; destruct r as [[|b2|b|s2|l2|m2|c2]|];
      unfold range_result in H; cbn in H;
      repeat match type of H with
             | context [if ?c then _ else _] => destruct c
             end; try discriminate.
    inversion H. eauto. }
  destruct A as [items ->].
  destruct (C03_range_items l r items H) as (a & b & -> & -> & _ & _ & _ & _ & _ & _ & _).
  rewrite C03_range in H.
  destruct (f_is_integer a); [|discriminate]. destruct (f_is_integer b); [|discriminate].
  cbn [negb] in H. destruct (fltb b a); [discriminate|]. destruct (_ || _); [discriminate|].
  inversion H; subst items. cbn [ovalue_finite]. rewrite value_finite_arr.
  apply range_items_finite; [exact Vl | exact Fl].
Qed.
Print Assumptions C10_range_finite.

Theorem C10_range_valid : forall l r items,
  ovalue_valid l = true -> range_result l r = inl (Some (VArr items)) ->
  forallb value_valid items = true.
Proof.
  intros l r items Vl H.
  destruct (C03_range_items l r items H) as (a & b & -> & -> & _ & _ & _ & _ & _ & _ & _).
  rewrite C03_range in H.
  destruct (f_is_integer a); [|discriminate]. destruct (f_is_integer b); [|discriminate].
  cbn [negb] in H. destruct (fltb b a); [discriminate|]. destruct (_ || _); [discriminate|].
  inversion H; subst items. cbn in Vl. clear H.
  generalize (Z.to_nat (go_int (fsub b a) + 1)). intro n. revert a Vl.
  induction n as [|n IH]; intros a Va; [reflexivity|].
  cbn [range_items forallb value_valid]. rewrite Va. cbn [andb].
  apply IH. apply valid_fadd; [exact Va | apply valid_f_of_Z].
Qed.

(** arithmetic results are validly represented *)
Theorem C10_numeric_valid : forall o l r v,
  ovalue_valid l = true -> ovalue_valid r = true ->
  numeric_result o l r = inl v -> ovalue_valid v = true.
Proof.
  intros o l r v Vl Vr H.
  destruct l as [[| |x| | | |]|]; destruct r as [[| |y| | | |]|]; try discriminate;
    try (inversion H; reflexivity).
  rewrite C03_arith_value in H. cbv zeta in H.
  destruct (F64.is_finite (num_apply o x y)); [|destruct (is_inf _); discriminate].
  inversion H; subst v. cbn in *.
  destruct o; cbn [num_apply];
    auto using valid_fadd, valid_fsub, valid_fmul, valid_fdiv, valid_fmod.
Qed.

(** $count: a finite number (for lengths below 2^53, i.e. always in practice) *)
Theorem C10_count_finite : forall v,
  (Z.of_nat (List.length (arrayify v)) < 2 ^ 53)%Z ->
  value_finite (lib_count v) = true /\
  lib_count v = VNum (f_of_Z (Z.of_nat (List.length (arrayify v)))).
Proof.
  intros v H.
  assert (E : lib_count v = VNum (f_of_Z (Z.of_nat (List.length (arrayify v))))).
  { destruct v as [[]|]; reflexivity. }
  split; [|exact E]. rewrite E. cbn [value_finite]. apply f_of_Z_finite. lia.
Qed.
Print Assumptions C10_count_finite.

Example C10_range_ex :
  range_result (Some (VNum (f_of_Zexp (2 ^ 53 - 1) 971 false))) (Some (VNum (f_of_Zexp (2 ^ 53 - 1) 971 false))) =
    inl (Some (VArr [VNum (f_of_Zexp (2 ^ 53 - 1) 971 false)])) /\
  F64.is_finite (fadd (f_of_Zexp (2 ^ 53 - 1) 971 false) fone) = true /\
  lib_count (Some (VArr [VNull; VNull; VNull])) = VNum (f_of_Z 3).
Proof. vm_compute. repeat split. Qed.
