(* Proofs/ParserProofs.v — totality of the jparse model (Model/Parser.v):
   unescape and parseParams never panic; the Pratt parser with fuel [parse_fuel src] (linear in
   the length) never panics and never runs out of fuel; parse errors are well-formed; optimize
   removes every interim node.  Headline: [parse_total] (property C08 at the model level).
   Last part: the wire format of Model/AstWire.v round-trips ([node_of_wire_to_wire]).

   Termination measure: remaining bytes of the lexer plus one if the current token is not EOF;
   [advance] from a non-EOF token strictly decreases it (LexerProofs.next_spec), every
   parseExpression call consumes at least one token, and parseExpression at fuel [S f] only
   needs fuel [f] for a strictly smaller measure (2 * measure + 2 <= fuel suffices). *)
From JV Require Import Model.Lexer Model.Parser Model.AstWire Proofs.LexerProofs.
From Coq Require Import Lia ZifyBool ZifyNat.
Open Scope Z_scope.

Definition is_ok {A} (r : res A) : Prop := match r with ROk _ => True | _ => False end.

(* ---------------------------------------------------------------- unescape *)

Lemma index_byte_from_bound b s : forall off p, index_byte_from b s off = Some p ->
  off <= p < off + Z.of_nat (slen s).
Proof.
  induction s as [|c r IH]; intros off p; simpl; [discriminate|].
  destruct (byte_of c =? b).
  - intros H; inversion H; subst. lia.
  - intros H. apply IH in H. lia.
Qed.

Lemma decode_rune_le s : (snd (decode_rune s) <= slen s)%nat.
Proof.
  destruct s as [|c r]; [simpl; lia|].
  apply decode_rune_width. discriminate.
Qed.

Lemma slice_from_ok pos s : 0 <= pos <= Z.of_nat (slen s) ->
  exists s', slice_from pos s = ROk s' /\ Z.of_nat (slen s') = Z.of_nat (slen s) - pos.
Proof.
  intros H. unfold slice_from. replace ((0 <=? pos) && (pos <=? Z.of_nat (slen s))) with true by lia.
  eexists; split; [reflexivity|]. rewrite slen_sdrop. lia.
Qed.

Lemma decodeRunesLoop_ok n s : forall pos acc, 0 <= pos <= Z.of_nat (slen s) ->
  exists hex w, decodeRunesLoop n s pos acc = ROk (hex, w) /\ pos <= w <= Z.of_nat (slen s).
Proof.
  induction n as [|n IH]; intros pos acc Hp; simpl.
  - eexists _, _; split; [reflexivity|lia].
  - destruct (slice_from_ok pos s Hp) as (rest & Hs & Hlen). rewrite Hs. simpl.
    pose proof (decode_rune_le rest) as Hw. destruct (decode_rune rest) as [r w]. simpl in Hw.
    destruct (IH (pos + Z.of_nat w) (r :: acc)) as (hex & w' & He & Hb); [lia|].
    eexists _, _; split; [exact He|lia].
Qed.

Lemma sprefix_len p s : sprefix p s = true -> (slen p <= slen s)%nat.
Proof.
  revert s; induction p as [|c p IH]; intros [|d s]; simpl; try lia; try discriminate.
  intros H. apply andb_true_iff in H as [_ H]. apply IH in H. lia.
Qed.

Theorem unescape_total_gen fuel : forall src, (slen src < fuel)%nat -> is_ok (unescape fuel src).
Proof.
  induction fuel as [|f IH]; intros src Hf; [lia|].
  cbn [unescape].
  destruct (index_byte (ch "\") src) as [pos0|] eqn:Ei; [|exact I].
  apply index_byte_from_bound in Ei.
  unfold slice_range. replace ((0 <=? 0) && (0 <=? pos0) && (pos0 <=? Z.of_nat (slen src))) with true by lia.
  cbn [rbind].
  destruct (slice_from_ok (pos0 + 1) src) as (s1 & Hs1 & Hl1); [lia|]. rewrite Hs1. cbn [rbind].
  pose proof (decode_rune_le s1) as Hw. destruct (decode_rune s1) as [esc w]. simpl in Hw.
  (* the shared continuation *)
  assert (Hfin : forall prefix repl pos, pos0 + 1 <= pos <= Z.of_nat (slen src) ->
     is_ok (rbind (slice_from pos src) (fun s2 =>
            rbind (unescape f s2) (fun '(rest, ok) =>
            if negb ok then ROk (rest, ok) else ROk (prefix ++ repl ++ rest, true))))).
  { intros prefix repl pos Hp.
    destruct (slice_from_ok pos src) as (s2 & Hs2 & Hl2); [lia|]. rewrite Hs2. cbn [rbind].
    assert (Hok : is_ok (unescape f s2)) by (apply IH; lia).
    destruct (unescape f s2) as [[rest ok]| | |]; try contradiction. cbn [rbind].
    destruct (negb ok); exact I. }
  destruct (negb (is_empty (jsonEscapes esc))).
  { apply Hfin. lia. }
  destruct (esc =? ch "u").
  2:{ exact I. }
  destruct (slice_from_ok (pos0 + 1 + Z.of_nat w) src) as (s2 & Hs2 & Hl2); [lia|]. rewrite Hs2. cbn [rbind].
  destruct (decodeRunesLoop_ok 4 s2 0 []) as (hex & w4 & Hd & Hb4); [lia|].
  unfold decodeRunes. rewrite Hd. cbn [rbind].
  destruct (valid_rune (parseRune hex)).
  { apply Hfin. lia. }
  destruct (utf16_is_surrogate (parseRune hex)); [|exact I].
  destruct (slice_from_ok (pos0 + 1 + Z.of_nat w + w4) src) as (s3 & Hs3 & Hl3); [lia|]. rewrite Hs3. cbn [rbind].
  destruct (decodeRunesLoop_ok 6 s3 0 []) as (hex2 & w6 & Hd6 & Hb6); [lia|].
  rewrite Hd6. cbn [rbind].
  destruct (sprefix "\u" hex2) eqn:Ep; [|exact I].
  apply sprefix_len in Ep. simpl in Ep.
  destruct (slice_from_ok 2 hex2) as (h2 & Hh2 & _); [lia|]. rewrite Hh2. cbn [rbind].
  destruct (negb _); [|exact I].
  apply Hfin. lia.
Qed.

(* 3a. unescape never panics and terminates with fuel = length + 1 *)
Theorem unescape_total src : exists s ok, unescape (S (slen src)) src = ROk (s, ok).
Proof.
  pose proof (unescape_total_gen (S (slen src)) src ltac:(lia)) as H.
  destruct (unescape (S (slen src)) src) as [[s ok]| | |]; try contradiction. eauto.
Qed.

(* ---------------------------------------------------------------- parseParams *)

Definition sig_err (e : perror) : Prop := (23 <= etype e <= 27)%nat /\ epos e = 0.
Definition pp_ok {A} (r : res A) : Prop :=
  match r with ROk _ => True | RErr e => sig_err e | _ => False end.

Lemma runes_pos_bound fuel : forall s off p c, In (p, c) (runes_pos_fuel fuel s off) ->
  (off <= p < off + slen s)%nat.
Proof.
  induction fuel as [|f IH]; intros s off p c; simpl; [contradiction|].
  destruct s as [|a s']; [contradiction|].
  pose proof (decode_rune_width (String a s') ltac:(discriminate)) as Hw.
  destruct (decode_rune (String a s')) as [r w]. simpl snd in Hw.
  intros [H|H].
  - inversion H; subst. lia.
  - apply IH in H. rewrite slen_sdrop in H. lia.
Qed.

Lemma slen_sslice a b s : (a <= b <= slen s)%nat -> slen (sslice a b s) = (b - a)%nat.
Proof. intros H. unfold sslice. apply slen_stake. rewrite slen_sdrop. lia. Qed.

Lemma getBracketedLoop_ok s open close : rune_len open = 1 ->
  forall l depth, (forall p c, In (p, c) l -> (p < slen s)%nat) ->
  exists part ok, getBracketedLoop l s open close depth = ROk (part, ok)
                  /\ (ok = true -> (slen part + 2 <= slen s)%nat).
Proof.
  intros Hopen. induction l as [|[pos c] rest IH]; intros depth Hin; simpl.
  - eexists _, _; split; [reflexivity|discriminate].
  - assert (Hrest : forall p c0, In (p, c0) rest -> (p < slen s)%nat) by (intros; eapply Hin; right; eauto).
    destruct (Nat.eqb pos 0 && negb (c =? open)) eqn:E0.
    { eexists _, _; split; [reflexivity|discriminate]. }
    destruct (c =? open) eqn:Eo; [apply IH; exact Hrest|].
    destruct (c =? close); [|apply IH; exact Hrest].
    destruct (depth - 1 =? 0); [|apply IH; exact Hrest].
    assert (Hpos : (1 <= pos)%nat).
    { destruct pos; [simpl in E0; discriminate E0|lia]. }
    specialize (Hin pos c (or_introl eq_refl)).
    unfold slice_range. rewrite Hopen.
    replace ((0 <=? 1) && (1 <=? Z.of_nat pos) && (Z.of_nat pos <=? Z.of_nat (slen s))) with true by lia.
    cbn [rbind]. eexists _, _; split; [reflexivity|]. intros _.
    rewrite slen_sslice; lia.
Qed.

Lemma getBracketedString_ok s open close : rune_len open = 1 ->
  exists part ok, getBracketedString s open close = ROk (part, ok)
                  /\ (ok = true -> (slen part + 2 <= slen s)%nat).
Proof.
  intros Ho. unfold getBracketedString. apply getBracketedLoop_ok; auto.
  intros p c H. apply runes_pos_bound in H. lia.
Qed.

Lemma sig_err_mk typ hint : (23 <= typ <= 27)%nat -> sig_err (sigError typ hint).
Proof. unfold sig_err, sigError; simpl; lia. Qed.

Lemma unionTypes_ok l : forall types, pp_ok (unionTypes l types).
Proof.
  induction l as [|c rest IH]; intros types; simpl; [exact I|].
  destruct (parseParamType c); [apply IH|].
  apply sig_err_mk. unfold ErrInvalidUnionType; lia.
Qed.

Theorem parseParamsLoop_total fuel : forall s params, (slen s < fuel)%nat ->
  pp_ok (parseParamsLoop fuel s params).
Proof.
  induction fuel as [|f IH]; intros s params Hf; [lia|].
  cbn [parseParamsLoop].
  destruct (is_empty s) eqn:Ee; [exact I|].
  assert (Hne : s <> "") by (destruct s; [discriminate Ee|discriminate]).
  pose proof (decode_rune_width s Hne) as Hw. destruct (decode_rune s) as [r w]. simpl snd in Hw.
  destruct (r =? ch ":"); [exact I|].
  assert (Hadv : forall ps, pp_ok (rbind (slice_from (Z.of_nat w) s) (fun s' => parseParamsLoop f s' ps))).
  { intros ps. destruct (slice_from_ok (Z.of_nat w) s) as (s' & Hs' & Hl'); [lia|].
    rewrite Hs'. cbn [rbind]. apply IH. lia. }
  destruct (parseParamType r); [apply Hadv|].
  destruct (r =? ch "(").
  { destruct (getBracketedString_ok s (ch "(") (ch ")") eq_refl) as (part & ok & Hg & Hlen).
    rewrite Hg. cbn [rbind]. destruct ok; cbv [negb].
    - specialize (Hlen eq_refl).
      pose proof (unionTypes_ok (runes part) 0%N) as Hu.
      destruct (unionTypes (runes part) 0%N) as [types|e| |]; try contradiction; [|exact Hu].
      cbn [rbind].
      destruct (slice_from_ok (Z.of_nat (slen part) + 2) s) as (s' & Hs' & Hl'); [lia|].
      rewrite Hs'. cbn [rbind]. apply IH. lia.
    - apply sig_err_mk. unfold ErrInvalidParamType; lia. }
  destruct (parseParamOpt r).
  { destruct (is_nil params); [apply sig_err_mk; unfold ErrUnmatchedOption; lia|apply Hadv]. }
  destruct (r =? ch "<"); [|apply sig_err_mk; unfold ErrInvalidParamType; lia].
  destruct (is_nil params); [apply sig_err_mk; unfold ErrUnmatchedSubtype; lia|].
  destruct (negb _ && negb _); [apply sig_err_mk; unfold ErrInvalidSubtype; lia|].
  destruct (getBracketedString_ok s (ch "<") (ch ">") eq_refl) as (part & ok & Hg & Hlen).
  rewrite Hg. cbn [rbind]. destruct ok; cbv [negb].
  - specialize (Hlen eq_refl).
    assert (Hsub : pp_ok (parseParamsLoop f part [])) by (apply IH; lia).
    destruct (parseParamsLoop f part []) as [sub|e| |]; try contradiction; [|exact Hsub].
    cbn [rbind].
    destruct (slice_from_ok (Z.of_nat (slen part) + 2) s) as (s' & Hs' & Hl'); [lia|].
    rewrite Hs'. cbn [rbind]. apply IH. lia.
  - apply sig_err_mk. unfold ErrInvalidParamType; lia.
Qed.

(* 3b. parseParams never panics and terminates with fuel = length + 1; its errors are one of
   the five signature errors with position 0 *)
Theorem parse_params_total s : pp_ok (parseParams (S (slen s)) s).
Proof. unfold parseParams. apply parseParamsLoop_total. lia. Qed.

Example parse_params_total_ex :
  parseParams (S (slen "a<n>(ns)?f<n:n>+")) "a<n>(ns)?f<n:n>+"
  = ROk [Param 16 OptNone (Some [Param 1 OptNone None]); Param 3 OptOptional None;
         Param 64 OptVariadic (Some [Param 1 OptNone None])].
Proof. vm_compute. reflexivity. Qed.
Example unescape_total_ex :
  unescape (S (slen "a😀\n")) "a😀\n" = ROk (String "a" (string_of_bytes [240; 159; 152; 128; 10]), true).
Proof. vm_compute. reflexivity. Qed.

(* ================================================================ the parser *)

(* nodes the parser builds: no PathNode and no PredicateNode (those appear only in optimize) *)
Fixpoint raw (n : node) : Prop :=
  let fix raws (l : list node) : Prop :=
    match l with [] => True | x :: r => raw x /\ raws r end in
  let fix praws (l : list (node * node)) : Prop :=
    match l with [] => True | (k, v) :: r => raw k /\ raw v /\ praws r end in
  let fix traws (l : list (sortdir * node)) : Prop :=
    match l with [] => True | (_, e) :: r => raw e /\ traws r end in
  match n with
  | NString _ | NNumber _ | NBoolean _ | NNull | NRegex _ | NVariable _ | NName _ _
  | NWildcard | NDescendent | NPlaceholder => True
  | NPath _ _ | NPredicate _ _ => False
  | NNegation r => raw r
  | NRange l r | NNumeric _ l r | NComparison _ l r | NBoolOp _ l r | NConcat l r
  | NApply l r | NDot l r | NPred l r => raw l /\ raw r
  | NArray items => raws items
  | NObject pairs => praws pairs
  | NBlock exprs => raws exprs
  | NTransform p u d => raw p /\ raw u /\ match d with Some x => raw x | None => True end
  | NLambda _ b _ | NTypedLambda _ b _ _ => raw b
  | NPartial f args | NCall f args => raw f /\ raws args
  | NGroup e pairs => raw e /\ praws pairs
  | NConditional c t e => raw c /\ raw t /\ match e with Some x => raw x | None => True end
  | NAssignment _ v => raw v
  | NSort e terms => raw e /\ traws terms
  | NSingletonArray l => raw l
  end.

Definition raws (l : list node) : Prop := Forall raw l.
Definition praws (l : list (node * node)) : Prop := Forall (fun kv => raw (fst kv) /\ raw (snd kv)) l.
Definition traws (l : list (sortdir * node)) : Prop := Forall (fun de => raw (snd de)) l.

Lemma raws_fix l :
  (fix raws (l : list node) : Prop := match l with [] => True | x :: r => raw x /\ raws r end) l
  <-> raws l.
Proof.
  unfold raws. induction l as [|x r IH]; simpl; split; auto.
  - intros [H1 H2]. constructor; tauto.
  - intros H. inversion H; subst. tauto.
Qed.
Lemma praws_fix l :
  (fix praws (l : list (node * node)) : Prop :=
     match l with [] => True | (k, v) :: r => raw k /\ raw v /\ praws r end) l
  <-> praws l.
Proof.
  unfold praws. induction l as [|[k v] r IH]; simpl; split; auto.
  - intros (H1 & H2 & H3). constructor; simpl; tauto.
  - intros H. inversion H; subst. simpl in *. tauto.
Qed.
Lemma traws_fix l :
  (fix traws (l : list (sortdir * node)) : Prop :=
     match l with [] => True | (_, e) :: r => raw e /\ traws r end) l
  <-> traws l.
Proof.
  unfold traws. induction l as [|[d e] r IH]; simpl; split; auto.
  - intros (H1 & H2). constructor; simpl; tauto.
  - intros H. inversion H; subst. simpl in *. tauto.
Qed.

Lemma Forall_snoc {A} (P : A -> Prop) l x : Forall P l -> P x -> Forall P (l ++ [x]).
Proof. intros H1 H2. apply Forall_app. split; auto. Qed.

Section Total.

Variable src : string.

Let len : Z := Z.of_nat (slen src).

Definition twf (t : token) : Prop :=
  0 <= tpos t <= len /\ (ttype t = typeBoolean -> tvalue t = "true" \/ tvalue t = "false").

Definition pinv (p : parser) : Prop :=
  linv (plexer p) /\ input (plexer p) = src /\ err (plexer p) = None
  /\ twf (ptoken p) /\ ttype (ptoken p) <> typeError.

Definition nonEOF (t : token) : Z := if tt_eqb (ttype t) typeEOF then 0 else 1.
Definition measure (p : parser) : Z := len - current (plexer p) + nonEOF (ptoken p).

Definition pspec {A} (bound : Z) (Q : A -> Prop) (r : res (A * parser)) : Prop :=
  match r with
  | ROk (a, p') => pinv p' /\ measure p' <= bound /\ Q a
  | RErr e => ewf len e
  | _ => False
  end.

Lemma pspec_bind {A B} (m : PM A) (k : A -> PM B) p b1 b2 (Q1 : A -> Prop) (Q2 : B -> Prop) :
  pspec b1 Q1 (m p) ->
  (forall a p', pinv p' -> measure p' <= b1 -> Q1 a -> pspec b2 Q2 (k a p')) ->
  pspec b2 Q2 (sbind m k p).
Proof.
  unfold sbind, pspec. destruct (m p) as [[a p']|e| |]; try contradiction; auto.
  intros (H1 & H2 & H3) Hk. apply Hk; auto.
Qed.

Lemma pspec_weaken {A} b b' (Q Q' : A -> Prop) r :
  pspec b Q r -> b <= b' -> (forall a, Q a -> Q' a) -> pspec b' Q' r.
Proof.
  unfold pspec. destruct r as [[a p']|e| |]; auto. intros (H1 & H2 & H3) Hb HQ.
  split; [auto|split; [lia|auto]].
Qed.

Lemma pspec_ret {A} (a : A) p b (Q : A -> Prop) : pinv p -> measure p <= b -> Q a -> pspec b Q (sret a p).
Proof. unfold pspec, sret. auto. Qed.

Lemma pspec_err {A} e b (Q : A -> Prop) p : ewf len e -> pspec b Q (perr e p).
Proof. unfold pspec, perr. auto. Qed.

Lemma measure_nonneg p : pinv p -> 0 <= measure p.
Proof.
  intros ((H0 & H1 & H2) & Hi & _). unfold measure, nonEOF, llength, len in *. rewrite Hi in H2.
  destruct (tt_eqb _ _); lia.
Qed.

Lemma mkError_wf typ t hint : (1 <= typ <= 27)%nat -> twf t -> ewf len (mkError typ t hint).
Proof. intros Ht [Hp _]. unfold ewf, mkError; simpl. lia. Qed.

Lemma tt_eqb_eq a b : tt_eqb a b = true <-> a = b.
Proof.
  split; [|intros ->; unfold tt_eqb; apply Nat.eqb_refl].
  unfold tt_eqb. intros H. apply Nat.eqb_eq in H.
  destruct a, b; try reflexivity; discriminate H.
Qed.
Lemma tt_eqb_neq a b : tt_eqb a b = false <-> a <> b.
Proof.
  split.
  - intros H E. apply tt_eqb_eq in E. congruence.
  - intros H. destruct (tt_eqb a b) eqn:E; auto. apply tt_eqb_eq in E. contradiction.
Qed.

(* advance: consumes the current token; the measure drops by one unless the token was EOF *)
Lemma advance_spec allowRegex p : pinv p ->
  pspec (measure p - nonEOF (ptoken p)) (fun _ => True) (advance allowRegex p).
Proof.
  intros (Hl & Hi & He & Ht & Hne). unfold advance.
  pose proof (next_spec (lex_fuel (plexer p)) allowRegex (plexer p) Hl (lex_fuel_ok _ Hl)) as H.
  destruct (next (lex_fuel (plexer p)) allowRegex (plexer p)) as [[t l']| | |]; try contradiction.
  destruct H as ((Pi & Pl & Pc & Pp & Pe & Pn & Pb) & Hprog).
  assert (HL : llength (plexer p) = len) by (unfold llength, len; now rewrite Hi).
  rewrite HL in *.
  destruct (tt_eqb (ttype t) typeError) eqn:Ee.
  - apply tt_eqb_eq in Ee. destruct (Pe Ee) as (e & Hel & Hwf). rewrite Hel. exact Hwf.
  - apply tt_eqb_neq in Ee. unfold pspec.
    split; [|split; [|exact I]].
    + unfold pinv, twf; simpl. rewrite (Pn Ee), Pi, Hi, He. tauto.
    + unfold measure; simpl. unfold nonEOF at 1.
      destruct (tt_eqb (ttype t) typeEOF) eqn:E0.
      * lia.
      * apply tt_eqb_neq in E0. specialize (Hprog He E0 Ee). lia.
Qed.

Lemma consume_spec expected allowRegex p : pinv p -> expected <> typeEOF ->
  pspec (measure p - 1) (fun _ => True) (consume expected allowRegex p).
Proof.
  intros Hp Hx. unfold consume, curToken, sbind.
  destruct (tt_eqb (ttype (ptoken p)) expected) eqn:E; cbv [negb].
  - apply tt_eqb_eq in E.
    eapply pspec_weaken; [apply advance_spec; exact Hp| |auto].
    unfold nonEOF. rewrite E. apply tt_eqb_neq in Hx. rewrite Hx. lia.
  - apply pspec_err. destruct Hp as (_ & _ & _ & Ht & _).
    apply mkError_wf; auto.
    destruct (tt_eqb _ typeEOF); unfold ErrMissingToken, ErrUnexpectedToken; lia.
Qed.

Lemma bind_curType {B} (k : tokentype -> PM B) p : sbind curType k p = k (ttype (ptoken p)) p.
Proof. reflexivity. Qed.
Lemma bind_curToken {B} (k : token -> PM B) p : sbind curToken k p = k (ptoken p) p.
Proof. reflexivity. Qed.

Variable parse_number : string -> numlit.
Variable regex_check : string -> option string.
Variable fmt_g : f64 -> string.
Variable quote : string -> string.

Section Denot.

Variable f : nat.
Variable pe : Z -> PM node.
Hypothesis Hpe : forall rbp p, pinv p -> 2 * measure p + 2 <= Z.of_nat f ->
  pspec (measure p - 1) raw (pe rbp p).

(* run [pe], continue with the new state *)
Ltac step_pe n p' Hp' Hm' Hn :=
  eapply pspec_bind; [apply Hpe; [assumption|lia]|]; intros n p' Hp' Hm' Hn; cbv beta.
Ltac step_consume p' Hp' Hm' :=
  eapply pspec_bind; [apply consume_spec; [assumption|discriminate]|];
  intros _ p' Hp' Hm' _; cbv beta.

Lemma parseString_spec t p : twf t -> pinv p -> pspec (measure p) raw (parseString t p).
Proof.
  intros Ht Hp. unfold parseString, sbind, sfail.
  destruct (unescape_total (tvalue t)) as (s & ok & Hu). rewrite Hu.
  destruct ok; cbv [negb].
  - apply pspec_ret; auto; [lia|exact I].
  - apply pspec_err. apply mkError_wf; auto.
    destruct s as [|c s']; [unfold ErrIllegalEscape; lia|].
    destruct (byte_of c =? ch "u"); unfold ErrIllegalEscape, ErrIllegalEscapeHex; lia.
Qed.

Lemma parseNumber_spec t p : twf t -> pinv p -> pspec (measure p) raw (parseNumber parse_number t p).
Proof.
  intros Ht Hp. unfold parseNumber. destruct (parse_number (tvalue t)).
  - apply pspec_ret; auto; [lia|exact I].
  - apply pspec_err, mkError_wf; auto. unfold ErrNumberRange; lia.
  - apply pspec_err, mkError_wf; auto. unfold ErrInvalidNumber; lia.
Qed.

Lemma parseBoolean_spec t p : twf t -> ttype t = typeBoolean -> pinv p ->
  pspec (measure p) raw (parseBoolean t p).
Proof.
  intros [_ Hb] Hty Hp. unfold parseBoolean. destruct (Hb Hty) as [H|H]; rewrite H; simpl.
  - split; [auto|split; [lia|exact I]].
  - split; [auto|split; [lia|exact I]].
Qed.

Lemma parseRegex_spec t p : twf t -> pinv p -> pspec (measure p) raw (parseRegex regex_check t p).
Proof.
  intros Ht Hp. unfold parseRegex. destruct (is_empty (tvalue t)).
  - apply pspec_err, mkError_wf; auto. unfold ErrEmptyRegex; lia.
  - destruct (regex_check (tvalue t)).
    + apply pspec_err, mkError_wf; auto. unfold ErrInvalidRegex; lia.
    + apply pspec_ret; auto; [lia|exact I].
Qed.

Lemma parseNegation_spec t p : pinv p -> 2 * measure p + 2 <= Z.of_nat f ->
  pspec (measure p) raw (parseNegation pe t p).
Proof.
  intros Hp Hf. unfold parseNegation.
  step_pe rhs p1 Hp1 Hm1 Hr. apply pspec_ret; auto. lia.
Qed.

Lemma parseArrayLoop_spec : forall lf items p, raws items -> pinv p ->
  measure p < Z.of_nat lf -> 2 * measure p + 2 <= Z.of_nat f ->
  pspec (measure p - 1) raws (parseArrayLoop pe lf items p).
Proof.
  induction lf as [|lf IH]; intros items p Hit Hp Hlf Hf.
  - pose proof (measure_nonneg p Hp). lia.
  - cbn [parseArrayLoop].
    step_pe item p1 Hp1 Hm1 Hr1. rewrite bind_curType.
    eapply (pspec_bind _ _ _ (measure p - 1) _ raw).
    { destruct (tt_eqb (ttype (ptoken p1)) typeRange).
      - step_consume p2 Hp2 Hm2. step_pe rhs p3 Hp3 Hm3 Hr3.
        apply pspec_ret; auto; [lia|simpl; auto].
      - apply pspec_ret; auto. }
    intros item' p2 Hp2 Hm2 Hr2. cbv beta. rewrite bind_curType.
    assert (Hits : raws (items ++ [item'])) by (apply Forall_snoc; auto).
    destruct (tt_eqb (ttype (ptoken p2)) typeComma); cbv [negb].
    + step_consume p3 Hp3 Hm3.
      eapply pspec_weaken; [apply IH; auto; lia|lia|auto].
    + apply pspec_ret; auto.
Qed.

Lemma parseArray_spec t p : pinv p -> 2 * measure p + 2 <= Z.of_nat f ->
  pspec (measure p) raw (parseArray f pe t p).
Proof.
  intros Hp Hf. unfold parseArray. rewrite bind_curType.
  eapply (pspec_bind _ _ _ (measure p) _ raws).
  { destruct (tt_eqb _ typeBracketClose); cbv [negb].
    - apply pspec_ret; auto; [lia|constructor].
    - eapply pspec_weaken; [apply parseArrayLoop_spec; auto; [constructor|lia]|lia|auto]. }
  intros items p1 Hp1 Hm1 Hit. cbv beta.
  step_consume p2 Hp2 Hm2. apply pspec_ret; auto; [lia|]. simpl. apply raws_fix. exact Hit.
Qed.

Lemma parseObjectLoop_spec : forall lf pairs p, praws pairs -> pinv p ->
  measure p < Z.of_nat lf -> 2 * measure p + 2 <= Z.of_nat f ->
  pspec (measure p - 1) praws (parseObjectLoop pe lf pairs p).
Proof.
  induction lf as [|lf IH]; intros pairs p Hpr Hp Hlf Hf.
  - pose proof (measure_nonneg p Hp). lia.
  - cbn [parseObjectLoop].
    step_pe key p1 Hp1 Hm1 Hr1. step_consume p2 Hp2 Hm2. step_pe val p3 Hp3 Hm3 Hr3.
    rewrite bind_curType.
    assert (Hprs : praws (pairs ++ [(key, val)])) by (apply Forall_snoc; simpl; auto).
    destruct (tt_eqb (ttype (ptoken p3)) typeComma); cbv [negb].
    + step_consume p4 Hp4 Hm4.
      eapply pspec_weaken; [apply IH; auto; lia|lia|auto].
    + apply pspec_ret; auto. lia.
Qed.

Lemma parseObjectPairs_spec p : pinv p -> 2 * measure p + 2 <= Z.of_nat f ->
  pspec (measure p) praws (parseObjectPairs f pe p).
Proof.
  intros Hp Hf. unfold parseObjectPairs. rewrite bind_curType.
  eapply (pspec_bind _ _ _ (measure p) _ praws).
  { destruct (tt_eqb _ typeBraceClose); cbv [negb].
    - apply pspec_ret; auto; [lia|constructor].
    - eapply pspec_weaken; [apply parseObjectLoop_spec; auto; [constructor|lia]|lia|auto]. }
  intros pairs p1 Hp1 Hm1 Hpr. cbv beta.
  step_consume p2 Hp2 Hm2. apply pspec_ret; auto. lia.
Qed.

Lemma parseObject_spec t p : pinv p -> 2 * measure p + 2 <= Z.of_nat f ->
  pspec (measure p) raw (parseObject f pe t p).
Proof.
  intros Hp Hf. unfold parseObject.
  eapply pspec_bind; [apply parseObjectPairs_spec; auto|].
  intros pairs p1 Hp1 Hm1 Hpr. cbv beta. apply pspec_ret; auto. simpl. apply praws_fix. exact Hpr.
Qed.

Lemma parseBlockLoop_spec : forall lf exprs p, raws exprs -> pinv p ->
  measure p < Z.of_nat lf -> 2 * measure p + 2 <= Z.of_nat f ->
  pspec (measure p) raws (parseBlockLoop pe lf exprs p).
Proof.
  induction lf as [|lf IH]; intros exprs p Hex Hp Hlf Hf.
  - pose proof (measure_nonneg p Hp). lia.
  - cbn [parseBlockLoop]. rewrite bind_curType.
    destruct (tt_eqb (ttype (ptoken p)) typeParenClose).
    { apply pspec_ret; auto. lia. }
    step_pe e p1 Hp1 Hm1 Hr1. rewrite bind_curType.
    assert (Hexs : raws (exprs ++ [e])) by (apply Forall_snoc; auto).
    destruct (tt_eqb (ttype (ptoken p1)) typeSemicolon); cbv [negb].
    + step_consume p2 Hp2 Hm2.
      eapply pspec_weaken; [apply IH; auto; lia|lia|auto].
    + apply pspec_ret; auto. lia.
Qed.

Lemma parseBlock_spec t p : pinv p -> 2 * measure p + 2 <= Z.of_nat f ->
  pspec (measure p) raw (parseBlock f pe t p).
Proof.
  intros Hp Hf. unfold parseBlock.
  eapply pspec_bind; [apply parseBlockLoop_spec; auto; [constructor|lia]|].
  intros exprs p1 Hp1 Hm1 Hex. cbv beta.
  step_consume p2 Hp2 Hm2. apply pspec_ret; auto; [lia|]. simpl. apply raws_fix. exact Hex.
Qed.

Lemma parseObjectTransformation_spec t p : pinv p -> 2 * measure p + 2 <= Z.of_nat f ->
  pspec (measure p) raw (parseObjectTransformation pe t p).
Proof.
  intros Hp Hf. unfold parseObjectTransformation.
  step_pe pattern p1 Hp1 Hm1 Hr1. step_consume p2 Hp2 Hm2. step_pe updates p3 Hp3 Hm3 Hr3.
  rewrite bind_curType.
  eapply (pspec_bind _ _ _ (measure p) _ (fun d => match d with Some x => raw x | None => True end)).
  { destruct (tt_eqb _ typeComma).
    - step_consume p4 Hp4 Hm4. step_pe d p5 Hp5 Hm5 Hr5. apply pspec_ret; auto. lia.
    - apply pspec_ret; auto. lia. }
  intros deletes p4 Hp4 Hm4 Hd. cbv beta.
  step_consume p5 Hp5 Hm5. apply pspec_ret; auto; [lia|]. simpl. auto.
Qed.

(* every nud, given a well-formed token of the matching type *)
Lemma lookupNud_spec t p : twf t -> pinv p -> 2 * measure p + 2 <= Z.of_nat f ->
  match lookupNud parse_number regex_check f pe (ttype t) with
  | Some nud => pspec (measure p) raw (nud t p)
  | None => True
  end.
Proof.
  intros Ht Hp Hf. unfold lookupNud.
  destruct (ttype t) eqn:Ety; cbn [nudCount tt_num Nat.leb]; try exact I.
  - apply parseString_spec; auto.
  - apply parseNumber_spec; auto.
  - apply parseBoolean_spec; auto.
  - apply pspec_ret; auto; [lia|exact I].
  - apply pspec_ret; auto; [lia|exact I].
  - apply pspec_ret; auto; [lia|exact I].
  - apply pspec_ret; auto; [lia|exact I].
  - apply parseRegex_spec; auto.
  - apply parseArray_spec; auto.
  - apply parseObject_spec; auto.
  - apply parseBlock_spec; auto.
  - apply parseNegation_spec; auto.
  - apply pspec_ret; auto; [lia|exact I].
  - apply parseObjectTransformation_spec; auto.
  - apply pspec_ret; auto; [lia|exact I].
  - apply pspec_ret; auto; [lia|exact I].
  - apply pspec_ret; auto; [lia|exact I].
  - apply pspec_ret; auto; [lia|exact I].
Qed.

Lemma pinv_twf p : pinv p -> twf (ptoken p).
Proof. intros (_ & _ & _ & H & _). exact H. Qed.

Lemma extractParamNamesLoop_spec : forall lf cur names p, twf cur -> pinv p ->
  measure p < Z.of_nat lf -> 2 * measure p + 2 <= Z.of_nat f ->
  pspec (measure p - 1) (fun _ : list string => True) (extractParamNamesLoop pe lf cur names p).
Proof.
  induction lf as [|lf IH]; intros cur names p Hcur Hp Hlf Hf.
  - pose proof (measure_nonneg p Hp). lia.
  - cbn [extractParamNamesLoop].
    step_pe arg p1 Hp1 Hm1 Hr1.
    assert (Hill : pspec (measure p - 1) (fun _ : list string => True)
                     (perr (mkError ErrIllegalParam cur "") p1)).
    { apply pspec_err, mkError_wf; auto. unfold ErrIllegalParam; lia. }
    destruct arg; try exact Hill.
    destruct (smem name names).
    { apply pspec_err, mkError_wf; auto. unfold ErrDuplicateParam; lia. }
    rewrite bind_curType.
    destruct (tt_eqb (ttype (ptoken p1)) typeComma); cbv [negb].
    + step_consume p2 Hp2 Hm2. rewrite bind_curToken.
      eapply pspec_weaken; [apply IH; auto; [apply pinv_twf; auto|lia|lia]|lia|auto].
    + apply pspec_ret; auto.
Qed.

Lemma extractParamNames_spec p : pinv p -> 2 * measure p + 2 <= Z.of_nat f ->
  pspec (measure p) (fun _ : list string => True) (extractParamNames f pe p).
Proof.
  intros Hp Hf. unfold extractParamNames. rewrite bind_curToken.
  eapply (pspec_bind _ _ _ (measure p) _ (fun _ => True)).
  { destruct (tt_eqb _ typeParenClose); cbv [negb].
    - apply pspec_ret; auto. lia.
    - eapply pspec_weaken; [apply extractParamNamesLoop_spec; auto; [apply pinv_twf; auto|lia]|lia|auto]. }
  intros names p1 Hp1 Hm1 _. cbv beta.
  step_consume p2 Hp2 Hm2. apply pspec_ret; auto. lia.
Qed.

Lemma extractSignatureLoop_spec : forall lf sig depth p, pinv p -> measure p < Z.of_nat lf ->
  pspec (measure p) (fun _ : string => True) (extractSignatureLoop lf sig depth p).
Proof.
  induction lf as [|lf IH]; intros sig depth p Hp Hlf.
  - pose proof (measure_nonneg p Hp). lia.
  - cbn [extractSignatureLoop]. rewrite bind_curType.
    destruct (tt_eqb (ttype (ptoken p)) typeBraceOpen || tt_eqb (ttype (ptoken p)) typeEOF) eqn:E.
    { apply pspec_ret; auto. lia. }
    apply orb_false_iff in E as [_ E].
    eapply pspec_bind; [apply advance_spec; exact Hp|].
    intros _ p1 Hp1 Hm1 _. cbv beta. unfold nonEOF in Hm1. rewrite E in Hm1.
    rewrite bind_curToken.
    assert (Hrec : forall s d, pspec (measure p) (fun _ : string => True) (extractSignatureLoop lf s d p1)).
    { intros s d. eapply pspec_weaken; [apply IH; auto; lia|lia|auto]. }
    destruct (tt_eqb (ttype (ptoken p1)) typeGreater).
    { destruct (depth - 1 =? 0); [apply pspec_ret; auto; lia|apply Hrec]. }
    destruct (tt_eqb (ttype (ptoken p1)) typeLess); apply Hrec.
Qed.

Lemma extractSignature_spec p : pinv p -> measure p < Z.of_nat f ->
  pspec (measure p) (fun _ : string * bool => True) (extractSignature f p).
Proof.
  intros Hp Hf. unfold extractSignature. rewrite bind_curType.
  destruct (tt_eqb _ typeLess); cbv [negb].
  - eapply pspec_bind; [apply extractSignatureLoop_spec; auto|].
    intros sig p1 Hp1 Hm1 _. cbv beta. step_consume p2 Hp2 Hm2. apply pspec_ret; auto. lia.
  - apply pspec_ret; auto. lia.
Qed.

Lemma sig_err_ewf e : sig_err e -> ewf len e.
Proof.
  intros [H1 H2]. unfold ewf. rewrite H2. unfold len. lia.
Qed.

Lemma parseLambdaDefinition_spec shorthand p : pinv p -> 2 * measure p + 2 <= Z.of_nat f ->
  pspec (measure p) raw (parseLambdaDefinition f pe shorthand p).
Proof.
  intros Hp Hf. unfold parseLambdaDefinition.
  eapply pspec_bind; [apply extractParamNames_spec; auto|].
  intros paramNames p1 Hp1 Hm1 _. cbv beta.
  eapply pspec_bind; [apply extractSignature_spec; auto; lia|].
  intros [sig isTyped] p2 Hp2 Hm2 _. cbv beta iota.
  eapply (pspec_bind _ _ _ (measure p) _ (fun _ => True)).
  { destruct isTyped.
    - unfold sbind at 1, sfail.
      pose proof (parse_params_total sig) as Hpp.
      destruct (parseParams (S (slen sig)) sig) as [params|e| |]; try contradiction.
      + destruct (negb _).
        * rewrite bind_curToken. apply pspec_err, mkError_wf; [unfold ErrParamCount; lia|apply pinv_twf; auto].
        * apply pspec_ret; auto. lia.
      + apply sig_err_ewf. exact Hpp.
    - apply pspec_ret; auto. lia. }
  intros params p3 Hp3 Hm3 _. cbv beta.
  step_consume p4 Hp4 Hm4. step_pe body p5 Hp5 Hm5 Hr5. step_consume p6 Hp6 Hm6.
  destruct (negb isTyped); apply pspec_ret; auto; lia.
Qed.

Lemma parseArgsLoop_spec : forall lf args isPartial p, raws args -> pinv p ->
  measure p < Z.of_nat lf -> 2 * measure p + 2 <= Z.of_nat f ->
  pspec (measure p - 1) (fun ap : list node * bool => raws (fst ap)) (parseArgsLoop pe lf args isPartial p).
Proof.
  induction lf as [|lf IH]; intros args isPartial p Har Hp Hlf Hf.
  - pose proof (measure_nonneg p Hp). lia.
  - cbn [parseArgsLoop]. rewrite bind_curType.
    eapply (pspec_bind _ _ _ (measure p - 1) _ (fun ap : node * bool => raw (fst ap))).
    { destruct (tt_eqb _ typePlaceholder).
      - step_consume p1 Hp1 Hm1. apply pspec_ret; auto. simpl; exact I.
      - step_pe a p1 Hp1 Hm1 Hr1. apply pspec_ret; auto. }
    intros [arg isPartial'] p1 Hp1 Hm1 Hr1. cbv beta iota. simpl in Hr1. rewrite bind_curType.
    assert (Hars : raws (args ++ [arg])) by (apply Forall_snoc; auto).
    destruct (tt_eqb (ttype (ptoken p1)) typeComma); cbv [negb].
    + step_consume p2 Hp2 Hm2.
      eapply pspec_weaken; [apply IH; auto; lia|lia|auto].
    + apply pspec_ret; auto.
Qed.

Lemma parseFunctionCall_spec t lhs p : raw lhs -> pinv p -> 2 * measure p + 2 <= Z.of_nat f ->
  pspec (measure p) raw (parseFunctionCall f pe t lhs p).
Proof.
  intros Hl Hp Hf. unfold parseFunctionCall.
  destruct (isLambdaName lhs) as [isLambda shorthand].
  destruct isLambda; [apply parseLambdaDefinition_spec; auto|].
  rewrite bind_curType.
  eapply (pspec_bind _ _ _ (measure p) _ (fun ap : list node * bool => raws (fst ap))).
  { destruct (tt_eqb _ typeParenClose); cbv [negb].
    - apply pspec_ret; auto; [lia|constructor].
    - eapply pspec_weaken; [apply parseArgsLoop_spec; auto; [constructor|lia]|lia|auto]. }
  intros [args isPartial] p1 Hp1 Hm1 Har. cbv beta iota. simpl in Har.
  step_consume p2 Hp2 Hm2.
  destruct isPartial; apply pspec_ret; auto; try lia; simpl; (split; [exact Hl|apply raws_fix; exact Har]).
Qed.

Lemma parsePredicate_spec t lhs p : raw lhs -> pinv p -> 2 * measure p + 2 <= Z.of_nat f ->
  pspec (measure p) raw (parsePredicate pe t lhs p).
Proof.
  intros Hl Hp Hf. unfold parsePredicate. rewrite bind_curType.
  destruct (tt_eqb _ typeBracketClose).
  - step_consume p1 Hp1 Hm1. apply pspec_ret; auto. lia.
  - step_pe rhs p1 Hp1 Hm1 Hr1. step_consume p2 Hp2 Hm2. apply pspec_ret; auto; [lia|simpl; auto].
Qed.

Lemma parseGroup_spec t lhs p : raw lhs -> pinv p -> 2 * measure p + 2 <= Z.of_nat f ->
  pspec (measure p) raw (parseGroup f pe t lhs p).
Proof.
  intros Hl Hp Hf. unfold parseGroup.
  eapply pspec_bind; [apply parseObjectPairs_spec; auto|].
  intros pairs p1 Hp1 Hm1 Hpr. cbv beta. apply pspec_ret; auto. simpl. split; [exact Hl|apply praws_fix; exact Hpr].
Qed.

Lemma parseConditional_spec t lhs p : raw lhs -> pinv p -> 2 * measure p + 2 <= Z.of_nat f ->
  pspec (measure p) raw (parseConditional pe t lhs p).
Proof.
  intros Hl Hp Hf. unfold parseConditional.
  step_pe rhs p1 Hp1 Hm1 Hr1. rewrite bind_curType.
  eapply (pspec_bind _ _ _ (measure p) _ (fun d => match d with Some x => raw x | None => True end)).
  { destruct (tt_eqb _ typeColon).
    - step_consume p2 Hp2 Hm2. step_pe e p3 Hp3 Hm3 Hr3. apply pspec_ret; auto. lia.
    - apply pspec_ret; auto. lia. }
  intros els p2 Hp2 Hm2 He. cbv beta. apply pspec_ret; auto. simpl; auto.
Qed.

Lemma parseAssignment_spec t lhs p : twf t -> raw lhs -> pinv p -> 2 * measure p + 2 <= Z.of_nat f ->
  pspec (measure p) raw (parseAssignment fmt_g quote pe t lhs p).
Proof.
  intros Ht Hl Hp Hf. unfold parseAssignment.
  assert (Hill : forall h, pspec (measure p) raw (perr (mkError ErrIllegalAssignment t h) p)).
  { intros h. apply pspec_err, mkError_wf; auto. unfold ErrIllegalAssignment; lia. }
  destruct lhs; try apply Hill.
  step_pe v p1 Hp1 Hm1 Hr1. apply pspec_ret; auto. lia.
Qed.

Lemma binop_spec (mk : node -> node) rbp p : (forall r, raw r -> raw (mk r)) ->
  pinv p -> 2 * measure p + 2 <= Z.of_nat f ->
  pspec (measure p) raw ((do rhs <- pe rbp; sret (mk rhs)) p).
Proof.
  intros Hmk Hp Hf. step_pe rhs p1 Hp1 Hm1 Hr1. apply pspec_ret; auto. lia.
Qed.

Lemma parseSortLoop_spec : forall lf terms p, traws terms -> pinv p ->
  measure p < Z.of_nat lf -> 2 * measure p + 2 <= Z.of_nat f ->
  pspec (measure p - 1) traws (parseSortLoop pe lf terms p).
Proof.
  induction lf as [|lf IH]; intros terms p Hte Hp Hlf Hf.
  - pose proof (measure_nonneg p Hp). lia.
  - cbn [parseSortLoop]. rewrite bind_curType.
    eapply (pspec_bind _ _ _ (measure p) _ (fun _ => True)).
    { destruct (tt_eqb _ typeLess).
      - step_consume p1 Hp1 Hm1. apply pspec_ret; auto. lia.
      - destruct (tt_eqb _ typeGreater).
        + step_consume p1 Hp1 Hm1. apply pspec_ret; auto. lia.
        + apply pspec_ret; auto. lia. }
    intros dir p1 Hp1 Hm1 _. cbv beta.
    step_pe e p2 Hp2 Hm2 Hr2. rewrite bind_curType.
    assert (Htes : traws (terms ++ [(dir, e)])) by (apply Forall_snoc; simpl; auto).
    destruct (tt_eqb (ttype (ptoken p2)) typeComma); cbv [negb].
    + step_consume p3 Hp3 Hm3.
      eapply pspec_weaken; [apply IH; auto; lia|lia|auto].
    + apply pspec_ret; auto. lia.
Qed.

Lemma parseSort_spec t lhs p : raw lhs -> pinv p -> 2 * measure p + 2 <= Z.of_nat f ->
  pspec (measure p) raw (parseSort f pe t lhs p).
Proof.
  intros Hl Hp Hf. unfold parseSort.
  step_consume p1 Hp1 Hm1.
  eapply pspec_bind; [apply parseSortLoop_spec; auto; [constructor|lia|lia]|].
  intros terms p2 Hp2 Hm2 Hte. cbv beta.
  step_consume p3 Hp3 Hm3. apply pspec_ret; auto; [lia|]. simpl. split; [exact Hl|apply traws_fix; exact Hte].
Qed.

Lemma lookupLed_spec t lhs p : twf t -> raw lhs -> pinv p -> 2 * measure p + 2 <= Z.of_nat f ->
  match lookupLed fmt_g quote f pe (ttype t) with
  | Some led => pspec (measure p) raw (led t lhs p)
  | None => True
  end.
Proof.
  intros Ht Hl Hp Hf. unfold lookupLed.
  destruct (ttype t) eqn:Ety; cbn [ledCount tt_num Nat.leb]; try exact I.
  - apply parsePredicate_spec; auto.
  - apply parseGroup_spec; auto.
  - apply parseFunctionCall_spec; auto.
  - unfold parseDot. apply binop_spec; auto. intros r Hr; simpl; auto.
  - apply parseConditional_spec; auto.
  - unfold parseNumericOperator. rewrite Ety. apply binop_spec; auto. intros r Hr; simpl; auto.
  - unfold parseNumericOperator. rewrite Ety. apply binop_spec; auto. intros r Hr; simpl; auto.
  - unfold parseNumericOperator. rewrite Ety. apply binop_spec; auto. intros r Hr; simpl; auto.
  - unfold parseNumericOperator. rewrite Ety. apply binop_spec; auto. intros r Hr; simpl; auto.
  - unfold parseNumericOperator. rewrite Ety. apply binop_spec; auto. intros r Hr; simpl; auto.
  - unfold parseComparisonOperator. rewrite Ety. apply binop_spec; auto. intros r Hr; simpl; auto.
  - unfold parseComparisonOperator. rewrite Ety. apply binop_spec; auto. intros r Hr; simpl; auto.
  - unfold parseComparisonOperator. rewrite Ety. apply binop_spec; auto. intros r Hr; simpl; auto.
  - unfold parseComparisonOperator. rewrite Ety. apply binop_spec; auto. intros r Hr; simpl; auto.
  - unfold parseComparisonOperator. rewrite Ety. apply binop_spec; auto. intros r Hr; simpl; auto.
  - unfold parseComparisonOperator. rewrite Ety. apply binop_spec; auto. intros r Hr; simpl; auto.
  - unfold parseFunctionApplication. apply binop_spec; auto. intros r Hr; simpl; auto.
  - apply parseSort_spec; auto.
  - unfold parseStringConcatenation. apply binop_spec; auto. intros r Hr; simpl; auto.
  - apply parseAssignment_spec; auto.
  - unfold parseBooleanOperator. rewrite Ety. apply binop_spec; auto. intros r Hr; simpl; auto.
  - unfold parseBooleanOperator. rewrite Ety. apply binop_spec; auto. intros r Hr; simpl; auto.
  - unfold parseComparisonOperator. rewrite Ety. apply binop_spec; auto. intros r Hr; simpl; auto.
Qed.

End Denot.

(* the Pratt loop: parseExpression strictly decreases the measure, ledLoop does not increase it *)
Lemma parse_loops_total : forall fuel,
  (forall rbp p, pinv p -> 2 * measure p + 2 <= Z.of_nat fuel ->
     pspec (measure p - 1) raw (parseExpression parse_number regex_check fmt_g quote fuel rbp p)) /\
  (forall rbp lhs p, raw lhs -> pinv p -> 2 * measure p + 1 <= Z.of_nat fuel ->
     pspec (measure p) raw (ledLoop parse_number regex_check fmt_g quote fuel rbp lhs p)).
Proof.
  induction fuel as [|f [IHpe IHll]]; split.
  - intros rbp p Hp Hf. pose proof (measure_nonneg p Hp). lia.
  - intros rbp lhs p Hl Hp Hf. pose proof (measure_nonneg p Hp). lia.
  - intros rbp p Hp Hf. cbn [parseExpression]. rewrite bind_curToken.
    pose proof (pinv_twf p Hp) as Ht.
    destruct (tt_eqb (ttype (ptoken p)) typeEOF) eqn:E0.
    { apply pspec_err, mkError_wf; auto. unfold ErrUnexpectedEOF; lia. }
    eapply pspec_bind; [apply advance_spec; exact Hp|].
    intros _ p1 Hp1 Hm1 _. cbv beta. unfold nonEOF in Hm1. rewrite E0 in Hm1.
    pose proof (lookupNud_spec f (parseExpression parse_number regex_check fmt_g quote f) IHpe
                  (ptoken p) p1 Ht Hp1 ltac:(lia)) as Hn.
    destruct (lookupNud parse_number regex_check f _ (ttype (ptoken p))) as [nud|].
    2:{ apply pspec_err, mkError_wf; auto. unfold ErrPrefix; lia. }
    eapply pspec_bind; [exact Hn|].
    intros lhs p2 Hp2 Hm2 Hr2. cbv beta.
    eapply pspec_weaken; [apply IHll; auto; lia|lia|auto].
  - intros rbp lhs p Hl Hp Hf. cbn [ledLoop]. rewrite bind_curToken.
    pose proof (pinv_twf p Hp) as Ht.
    destruct (rbp <? lookupBp (ttype (ptoken p))).
    2:{ apply pspec_ret; auto. lia. }
    eapply pspec_bind; [apply advance_spec; exact Hp|].
    intros _ p1 Hp1 Hm1 _. cbv beta.
    destruct (tt_eqb (ttype (ptoken p)) typeEOF) eqn:E0.
    { apply tt_eqb_eq in E0. rewrite E0. cbn.
      apply mkError_wf; auto. unfold ErrInfix; lia. }
    unfold nonEOF in Hm1. rewrite E0 in Hm1.
    pose proof (lookupLed_spec f (parseExpression parse_number regex_check fmt_g quote f) IHpe
                  (ptoken p) lhs p1 Ht Hl Hp1 ltac:(lia)) as Hn.
    destruct (lookupLed fmt_g quote f _ (ttype (ptoken p))) as [led|].
    2:{ apply pspec_err, mkError_wf; auto. unfold ErrInfix; lia. }
    eapply pspec_bind; [exact Hn|].
    intros lhs' p2 Hp2 Hm2 Hr2. cbv beta.
    eapply pspec_weaken; [apply IHll; auto; lia|lia|auto].
Qed.

End Total.

(* ================================================================ optimize *)

(* immediate sub-nodes, and the induction principle that comes with them *)
Definition children (n : node) : list node :=
  match n with
  | NString _ | NNumber _ | NBoolean _ | NNull | NRegex _ | NVariable _ | NName _ _
  | NWildcard | NDescendent | NPlaceholder => []
  | NPath steps _ => steps
  | NNegation r => [r]
  | NRange l r | NNumeric _ l r | NComparison _ l r | NBoolOp _ l r | NConcat l r
  | NApply l r | NDot l r | NPred l r => [l; r]
  | NArray items => items
  | NObject pairs => flat_map (fun kv => [fst kv; snd kv]) pairs
  | NBlock exprs => exprs
  | NTransform p u d => p :: u :: match d with Some x => [x] | None => [] end
  | NLambda _ b _ | NTypedLambda _ b _ _ => [b]
  | NPartial f args | NCall f args => f :: args
  | NPredicate e fs => e :: fs
  | NGroup e pairs => e :: flat_map (fun kv => [fst kv; snd kv]) pairs
  | NConditional c t e => c :: t :: match e with Some x => [x] | None => [] end
  | NAssignment _ v => [v]
  | NSort e terms => e :: map snd terms
  | NSingletonArray l => [l]
  end.

Section NodeInd.
Variable P : node -> Prop.
Hypothesis H : forall n, Forall P (children n) -> P n.

Fixpoint node_children_ind (n : node) : P n :=
  let fix go (l : list node) : Forall P l :=
    match l with [] => Forall_nil P | x :: r => Forall_cons x (node_children_ind x) (go r) end in
  let fix gop (l : list (node * node)) : Forall P (flat_map (fun kv => [fst kv; snd kv]) l) :=
    match l with
    | [] => Forall_nil P
    | (k, v) :: r => Forall_cons k (node_children_ind k) (Forall_cons v (node_children_ind v) (gop r))
    end in
  let fix got (l : list (sortdir * node)) : Forall P (map snd l) :=
    match l with
    | [] => Forall_nil P
    | (d, e) :: r => Forall_cons e (node_children_ind e) (got r)
    end in
  let goo (o : option node) : Forall P (match o with Some x => [x] | None => [] end) :=
    match o with Some x => Forall_cons x (node_children_ind x) (Forall_nil P) | None => Forall_nil P end in
  H n
    match n return Forall P (children n) with
    | NString _ | NNumber _ | NBoolean _ | NNull | NRegex _ | NVariable _ | NName _ _
    | NWildcard | NDescendent | NPlaceholder => Forall_nil P
    | NPath steps _ => go steps
    | NNegation r => Forall_cons r (node_children_ind r) (Forall_nil P)
    | NRange l r | NNumeric _ l r | NComparison _ l r | NBoolOp _ l r | NConcat l r
    | NApply l r | NDot l r | NPred l r =>
        Forall_cons l (node_children_ind l) (Forall_cons r (node_children_ind r) (Forall_nil P))
    | NArray items => go items
    | NObject pairs => gop pairs
    | NBlock exprs => go exprs
    | NTransform p u d => Forall_cons p (node_children_ind p) (Forall_cons u (node_children_ind u) (goo d))
    | NLambda _ b _ | NTypedLambda _ b _ _ => Forall_cons b (node_children_ind b) (Forall_nil P)
    | NPartial f args | NCall f args => Forall_cons f (node_children_ind f) (go args)
    | NPredicate e fs => Forall_cons e (node_children_ind e) (go fs)
    | NGroup e pairs => Forall_cons e (node_children_ind e) (gop pairs)
    | NConditional c t e => Forall_cons c (node_children_ind c) (Forall_cons t (node_children_ind t) (goo e))
    | NAssignment _ v => Forall_cons v (node_children_ind v) (Forall_nil P)
    | NSort e terms => Forall_cons e (node_children_ind e) (got terms)
    | NSingletonArray l => Forall_cons l (node_children_ind l) (Forall_nil P)
    end.
End NodeInd.

(* [Q] holds at every node of the tree *)
Fixpoint all_nodes (Q : node -> Prop) (n : node) : Prop :=
  let fix go (l : list node) : Prop :=
    match l with [] => True | x :: r => all_nodes Q x /\ go r end in
  let fix gop (l : list (node * node)) : Prop :=
    match l with [] => True | (k, v) :: r => all_nodes Q k /\ all_nodes Q v /\ gop r end in
  let fix got (l : list (sortdir * node)) : Prop :=
    match l with [] => True | (_, e) :: r => all_nodes Q e /\ got r end in
  let goo (o : option node) : Prop := match o with Some x => all_nodes Q x | None => True end in
  Q n /\
  match n with
  | NString _ | NNumber _ | NBoolean _ | NNull | NRegex _ | NVariable _ | NName _ _
  | NWildcard | NDescendent | NPlaceholder => True
  | NPath steps _ => go steps
  | NNegation r => all_nodes Q r
  | NRange l r | NNumeric _ l r | NComparison _ l r | NBoolOp _ l r | NConcat l r
  | NApply l r | NDot l r | NPred l r => all_nodes Q l /\ all_nodes Q r
  | NArray items => go items
  | NObject pairs => gop pairs
  | NBlock exprs => go exprs
  | NTransform p u d => all_nodes Q p /\ all_nodes Q u /\ goo d
  | NLambda _ b _ | NTypedLambda _ b _ _ => all_nodes Q b
  | NPartial f args | NCall f args => all_nodes Q f /\ go args
  | NPredicate e fs => all_nodes Q e /\ go fs
  | NGroup e pairs => all_nodes Q e /\ gop pairs
  | NConditional c t e => all_nodes Q c /\ all_nodes Q t /\ goo e
  | NAssignment _ v => all_nodes Q v
  | NSort e terms => all_nodes Q e /\ got terms
  | NSingletonArray l => all_nodes Q l
  end.

Lemma all_go Q l :
  (fix go (l : list node) : Prop := match l with [] => True | x :: r => all_nodes Q x /\ go r end) l
  <-> Forall (all_nodes Q) l.
Proof.
  induction l as [|x r IH]; simpl; split; auto.
  - intros [H1 H2]. constructor; tauto.
  - intros H. inversion H; subst. tauto.
Qed.
Lemma all_gop Q l :
  (fix gop (l : list (node * node)) : Prop :=
     match l with [] => True | (k, v) :: r => all_nodes Q k /\ all_nodes Q v /\ gop r end) l
  <-> Forall (all_nodes Q) (flat_map (fun kv => [fst kv; snd kv]) l).
Proof.
  induction l as [|[k v] r IH]; simpl; split; auto.
  - intros (H1 & H2 & H3). constructor; [tauto|constructor; tauto].
  - intros H. inversion H as [|? ? H1 H2]; subst. inversion H2; subst. tauto.
Qed.
Lemma all_got Q l :
  (fix got (l : list (sortdir * node)) : Prop :=
     match l with [] => True | (_, e) :: r => all_nodes Q e /\ got r end) l
  <-> Forall (all_nodes Q) (map snd l).
Proof.
  induction l as [|[d e] r IH]; simpl; split; auto.
  - intros (H1 & H2). constructor; tauto.
  - intros H. inversion H; subst. tauto.
Qed.

Lemma all_nodes_children Q n : all_nodes Q n <-> Q n /\ Forall (all_nodes Q) (children n).
Proof.
  destruct n; cbn [all_nodes children];
    rewrite ?all_go, ?all_gop, ?all_got;
    repeat match goal with d : option node |- _ => destruct d end;
    split; intros H; repeat match goal with H : _ /\ _ |- _ => destruct H end;
    repeat match goal with H : Forall _ (_ :: _) |- _ => inversion H; clear H; subst end;
    repeat split; auto.
Qed.

Lemma praws_flat l : praws l -> Forall raw (flat_map (fun kv => [fst kv; snd kv]) l).
Proof. unfold praws. induction 1 as [|[k v] r [H1 H2] _ IH]; simpl; auto. Qed.
Lemma traws_map l : traws l -> Forall raw (map snd l).
Proof. unfold traws. induction 1 as [|[d e] r H1 _ IH]; simpl; auto. Qed.

Lemma raw_children n : raw n -> Forall raw (children n).
Proof.
  destruct n; cbn [raw children]; rewrite ?raws_fix, ?praws_fix, ?traws_fix; intros H;
    repeat match goal with d : option node |- _ => destruct d end;
    repeat match goal with H : _ /\ _ |- _ => destruct H end;
    try contradiction; auto using praws_flat, traws_map.
Qed.

Definition is_interim (n : node) : Prop :=
  match n with NDot _ _ | NSingletonArray _ | NPred _ _ => True | _ => False end.
Definition finalQ (n : node) : Prop :=
  ~ is_interim n /\ match n with NPath [] _ => False | _ => True end.
(* what optimize produces: no interim node anywhere, no PathNode without steps *)
Definition final : node -> Prop := all_nodes finalQ.
Definition no_interim : node -> Prop := all_nodes (fun n => ~ is_interim n).

Lemma all_nodes_impl (Q R : node -> Prop) : (forall n, Q n -> R n) -> forall n, all_nodes Q n -> all_nodes R n.
Proof.
  intros HQR. apply (node_children_ind (fun n => all_nodes Q n -> all_nodes R n)).
  intros n IH Hn. apply all_nodes_children in Hn as [Hq Hc]. apply all_nodes_children.
  split; [auto|]. rewrite Forall_forall in *. intros x Hx. apply IH; auto.
Qed.

Lemma final_no_interim n : final n -> no_interim n.
Proof. apply all_nodes_impl. intros m [H _]. exact H. Qed.

Lemma final_intro n : finalQ n -> Forall final (children n) -> final n.
Proof. intros H1 H2. apply all_nodes_children. auto. Qed.

Definition opt_err (e : perror) : Prop := (16 <= etype e <= 18)%nat /\ epos e = 0.
Definition opt_post (r : res node) : Prop :=
  match r with ROk n' => final n' | RErr e => opt_err e | _ => False end.

Section Optimize.
Variable fmt_g : f64 -> string.
Variable quote : string -> string.
Notation opt := (optimize fmt_g quote).

Lemma opt_list_post l : Forall (fun x => raw x -> opt_post (opt x)) l -> Forall raw l ->
  match (fix opt_list (l : list node) : res (list node) :=
           match l with
           | [] => ROk []
           | x :: r => rbind (opt x) (fun x' => rbind (opt_list r) (fun r' => ROk (x' :: r')))
           end) l with
  | ROk l' => Forall final l' | RErr e => opt_err e | _ => False end.
Proof.
  induction l as [|x r IH]; intros HI HR; [constructor|].
  inversion HI as [|? ? H1 H2]; subst. inversion HR as [|? ? R1 R2]; subst.
  specialize (H1 R1). specialize (IH H2 R2). unfold opt_post in H1.
  destruct (opt x) as [x'|e| |]; cbn [rbind]; try contradiction; [|exact H1].
  match goal with |- context [rbind ?t _] => destruct t as [r'|e| |] end;
    cbn [rbind]; try contradiction; [|exact IH].
  constructor; auto.
Qed.

Lemma opt_pairs_post l :
  Forall (fun x => raw x -> opt_post (opt x)) (flat_map (fun kv => [fst kv; snd kv]) l) ->
  Forall raw (flat_map (fun kv => [fst kv; snd kv]) l) ->
  match (fix opt_pairs (l : list (node * node)) : res (list (node * node)) :=
           match l with
           | [] => ROk []
           | (k, v) :: r =>
               rbind (opt k) (fun k' => rbind (opt v) (fun v' =>
               rbind (opt_pairs r) (fun r' => ROk ((k', v') :: r'))))
           end) l with
  | ROk l' => Forall final (flat_map (fun kv => [fst kv; snd kv]) l')
  | RErr e => opt_err e | _ => False end.
Proof.
  induction l as [|[k v] r IH]; intros HI HR; [constructor|].
  simpl in HI, HR.
  inversion HI as [|? ? H1 H2]; subst. inversion H2 as [|? ? H3 H4]; subst.
  inversion HR as [|? ? R1 R2]; subst. inversion R2 as [|? ? R3 R4]; subst.
  specialize (H1 R1). specialize (H3 R3). specialize (IH H4 R4). unfold opt_post in H1, H3.
  destruct (opt k) as [k'|e| |]; cbn [rbind]; try contradiction; [|exact H1].
  destruct (opt v) as [v'|e| |]; cbn [rbind]; try contradiction; [|exact H3].
  match goal with |- context [rbind ?t _] => destruct t as [r'|e| |] end;
    cbn [rbind]; try contradiction; [|exact IH].
  simpl. constructor; auto.
Qed.

Lemma opt_terms_post l :
  Forall (fun x => raw x -> opt_post (opt x)) (map snd l) -> Forall raw (map snd l) ->
  match (fix opt_terms (l : list (sortdir * node)) : res (list (sortdir * node)) :=
           match l with
           | [] => ROk []
           | (d, e) :: r =>
               rbind (opt e) (fun e' => rbind (opt_terms r) (fun r' => ROk ((d, e') :: r')))
           end) l with
  | ROk l' => Forall final (map snd l') | RErr e => opt_err e | _ => False end.
Proof.
  induction l as [|[d x] r IH]; intros HI HR; [constructor|].
  simpl in HI, HR.
  inversion HI as [|? ? H1 H2]; subst. inversion HR as [|? ? R1 R2]; subst.
  specialize (H1 R1). specialize (IH H2 R2). unfold opt_post in H1.
  destruct (opt x) as [x'|e| |]; cbn [rbind]; try contradiction; [|exact H1].
  match goal with |- context [rbind ?t _] => destruct t as [r'|e| |] end;
    cbn [rbind]; try contradiction; [|exact IH].
  simpl. constructor; auto.
Qed.

Lemma split_last_spec {A} (l : list A) :
  match split_last l with
  | None => l = []
  | Some (init, z) => l = (init ++ [z])%list
  end.
Proof.
  induction l as [|x r IH]; simpl; [reflexivity|].
  destruct (split_last r) as [[init z]|].
  - rewrite IH. reflexivity.
  - rewrite IH. reflexivity.
Qed.

Ltac inv_forall :=
  repeat match goal with
         | H : Forall _ (_ :: _) |- _ => inversion H; clear H; subst
         | H : Forall _ [] |- _ => clear H
         end.

Ltac opt_step x x' Hx' :=
  let H := fresh "H" in
  match goal with
  | IH : raw x -> opt_post (opt x), Hr : raw x |- _ => pose proof (IH Hr) as H
  end;
  unfold opt_post in H;
  destruct (opt x) as [x'|?e| |]; cbn [rbind]; [|exact H|contradiction|contradiction];
  rename H into Hx'.

Ltac fin := apply final_intro; [split; [intros []|exact I]|cbn [children]; auto].

(* 6 (and the optimize half of 4). On the trees the parser builds, optimize never panics; its
   errors are ErrGroupPredicate / ErrGroupGroup / ErrPathLiteral at position 0; and a
   successful result contains no dotNode / singletonArrayNode / predicateNode and no PathNode
   with zero steps. *)
Theorem optimize_raw : forall n, raw n -> opt_post (opt n).
Proof.
  apply (node_children_ind (fun n => raw n -> opt_post (opt n))).
  intros n IH Hraw. pose proof (raw_children n Hraw) as Hc.
  destruct n; cbn [optimize children] in *; try contradiction;
    try (fin; fail); inv_forall.
  - (* NName *) apply final_intro; [split; [intros []|exact I]|].
    cbn [children]. constructor; [|constructor]. fin.
  - (* NNegation *) opt_step n r' Hr'.
    destruct r'; try (fin; fail).
  - (* NRange *) opt_step n1 l' Hl'. opt_step n2 r' Hr'. fin.
  - (* NArray *)
    pose proof (opt_list_post items IH Hc) as H.
    match goal with |- context [rbind ?t _] => destruct t as [l'|e| |] end;
      cbn [rbind]; try contradiction; [|exact H]. fin.
  - (* NObject *)
    pose proof (opt_pairs_post pairs IH Hc) as H.
    match goal with |- context [rbind ?t _] => destruct t as [l'|e| |] end;
      cbn [rbind]; try contradiction; [|exact H]. fin.
  - (* NBlock *)
    pose proof (opt_list_post exprs IH Hc) as H.
    match goal with |- context [rbind ?t _] => destruct t as [l'|e| |] end;
      cbn [rbind]; try contradiction; [|exact H]. fin.
  - (* NTransform *)
    opt_step n1 p' Hp'. opt_step n2 u' Hu'.
    destruct deletes as [d|]; inv_forall.
    + opt_step d d' Hd'. fin.
    + cbn [rbind]. fin.
  - (* NLambda *) opt_step n b' Hb'. fin.
  - (* NTypedLambda *) opt_step n b' Hb'. fin.
  - (* NPartial *)
    opt_step n f' Hf'.
    match goal with IHa : Forall _ args, Ha : Forall raw args |- _ =>
      pose proof (opt_list_post args IHa Ha) as H end.
    match goal with |- context [rbind ?t _] => destruct t as [l'|e| |] end;
      cbn [rbind]; try contradiction; [|exact H]. fin.
  - (* NCall *)
    opt_step n f' Hf'.
    match goal with IHa : Forall _ args, Ha : Forall raw args |- _ =>
      pose proof (opt_list_post args IHa Ha) as H end.
    match goal with |- context [rbind ?t _] => destruct t as [l'|e| |] end;
      cbn [rbind]; try contradiction; [|exact H]. fin.
  - (* NGroup *)
    opt_step n e' He'.
    match goal with IHa : Forall _ (flat_map _ pairs), Ha : Forall raw (flat_map _ pairs) |- _ =>
      pose proof (opt_pairs_post pairs IHa Ha) as H end.
    assert (Hgrp : opt_post (RErr (optError ErrGroupGroup ""))).
    { unfold opt_post, opt_err, optError, ErrGroupGroup; simpl; lia. }
    destruct e'; try exact Hgrp;
    (match goal with |- context [rbind ?t _] => destruct t as [l'|e| |] end;
      cbn [rbind]; try contradiction; [|exact H]; fin).
  - (* NConditional *)
    opt_step n1 c' Hc'. opt_step n2 t' Ht'.
    destruct els as [d|]; inv_forall.
    + opt_step d d' Hd'. fin.
    + cbn [rbind]. fin.
  - (* NAssignment *) opt_step n v' Hv'. fin.
  - (* NNumeric *) opt_step n1 l' Hl'. opt_step n2 r' Hr'. fin.
  - (* NComparison *) opt_step n1 l' Hl'. opt_step n2 r' Hr'. fin.
  - (* NBoolOp *) opt_step n1 l' Hl'. opt_step n2 r' Hr'. fin.
  - (* NConcat *) opt_step n1 l' Hl'. opt_step n2 r' Hr'. fin.
  - (* NSort *)
    opt_step n e' He'.
    match goal with IHa : Forall _ (map snd terms), Ha : Forall raw (map snd terms) |- _ =>
      pose proof (opt_terms_post terms IHa Ha) as H end.
    match goal with |- context [rbind ?t _] => destruct t as [l'|e| |] end;
      cbn [rbind]; try contradiction; [|exact H]. fin.
  - (* NApply *) opt_step n1 l' Hl'. opt_step n2 r' Hr'. fin.
  - (* NDot *)
    opt_step n1 l' Hl'.
    assert (Hlit : forall h, opt_post (RErr (optError ErrPathLiteral h))).
    { intros h. unfold opt_post, opt_err, optError, ErrPathLiteral; simpl; lia. }
    destruct (is_literal l') eqn:El; cbn [rbind]; [apply Hlit|].
    (* steps of the left side: non-empty, all final *)
    assert (Hsteps : exists steps keep,
              (match l' with NPath s k => ROk (s, k) | _ => ROk ([l'], false) end
               = ROk (steps, keep) :> res (list node * bool))
              /\ steps <> [] /\ Forall final steps).
    { destruct l'; try (eexists _, _; split; [reflexivity|split; [discriminate|constructor; auto]]).
      apply all_nodes_children in Hl' as [[_ Hne] Hst]. cbn [children] in Hst.
      eexists _, _; split; [reflexivity|]. split; [|exact Hst].
      destruct steps; [contradiction|discriminate]. }
    destruct Hsteps as (steps & keep & Heq & Hne & Hfin). rewrite Heq. cbn [rbind].
    opt_step n2 r' Hr'.
    destruct (is_literal r') eqn:Er; [apply Hlit|].
    assert (Hres : forall s2 k2, Forall final s2 -> final (NPath (steps ++ s2)%list k2)).
    { intros s2 k2 Hs2. apply final_intro.
      - split; [intros []|]. destruct steps; [contradiction|exact I].
      - cbn [children]. apply Forall_app; auto. }
    destruct r'; try (apply Hres; constructor; auto; fail).
    apply all_nodes_children in Hr' as [_ Hst]. cbn [children] in Hst. apply Hres. exact Hst.
  - (* NSingletonArray *)
    opt_step n l' Hl'.
    destruct l'; try (apply final_intro; [split; [intros []|exact I]|cbn [children]; auto]; fail).
    apply all_nodes_children in Hl' as [[_ Hne] Hst]. cbn [children] in Hst.
    apply final_intro; [split; [intros []|exact Hne]|exact Hst].
  - (* NPred *)
    opt_step n1 l' Hl'. opt_step n2 r' Hr'.
    assert (Hgrp : opt_post (RErr (optError ErrGroupPredicate ""))).
    { unfold opt_post, opt_err, optError, ErrGroupPredicate; simpl; lia. }
    destruct l'; try exact Hgrp;
      try (apply final_intro; [split; [intros []|exact I]|cbn [children]; auto]; fail).
    (* NPath *)
    apply all_nodes_children in Hl' as [[_ Hne] Hst]. cbn [children] in Hst.
    pose proof (split_last_spec steps) as Hsl.
    destruct (split_last steps) as [[init lst]|]; [|subst steps; contradiction].
    subst steps. apply Forall_app in Hst as [Hinit Hlst]. inv_forall.
    assert (Hres : forall x, final x -> final (NPath (init ++ [x])%list keep)).
    { intros x Hx. apply final_intro.
      - split; [intros []|]. destruct init; exact I.
      - cbn [children]. apply Forall_app; auto. }
    destruct lst; try (apply Hres; apply final_intro; [split; [intros []|exact I]|cbn [children]; auto]; fail).
    (* last step already a PredicateNode: append the filter *)
    match goal with Hl : all_nodes finalQ (NPredicate _ _) |- _ =>
      apply all_nodes_children in Hl as [_ Hch]; cbn [children] in Hch end.
    inv_forall. apply Hres. apply final_intro; [split; [intros []|exact I]|].
    cbn [children]. constructor; auto. apply Forall_app; auto.
Qed.

Theorem optimize_no_interim_raw n n' : raw n -> opt n = ROk n' -> no_interim n'.
Proof.
  intros Hr He. pose proof (optimize_raw n Hr) as H. rewrite He in H. apply final_no_interim. exact H.
Qed.

End Optimize.

(* ================================================================ Parse *)

Section Final.
Variable parse_number : string -> numlit.
Variable regex_check : string -> option string.
Variable fmt_g : f64 -> string.
Variable quote : string -> string.
Notation Parse := (parse parse_number regex_check fmt_g quote).

Lemma opt_err_ewf src e : opt_err e -> ewf (Z.of_nat (slen src)) e.
Proof. intros [H1 H2]. unfold ewf. rewrite H2. lia. Qed.

(* the combined statement: for every source text, with the linear fuel [parse_fuel], the model
   of Parse returns a tree without interim nodes or a well-formed error; it never panics and
   never runs out of fuel, whatever the four oracles answer *)
Theorem parse_spec src :
  match Parse (parse_fuel src) src with
  | ROk n => final n
  | RErr e => ewf (Z.of_nat (slen src)) e
  | _ => False
  end.
Proof.
  unfold parse, parse_raw, newParser.
  set (p0 := {| plexer := newLexer src; ptoken := zeroToken |}).
  assert (Hp0 : pinv src p0).
  { unfold pinv, twf, p0, zeroToken; simpl. repeat split; try lia; try discriminate.
    apply linv_newLexer. }
  pose proof (advance_spec src true p0 Hp0) as Ha. unfold pspec in Ha.
  destruct (advance true p0) as [[[] p]|e| |]; cbn [rbind]; try contradiction; [|exact Ha].
  destruct Ha as (Hp & Hm & _).
  assert (Hm0 : measure src p0 - nonEOF (ptoken p0) = Z.of_nat (slen src)).
  { unfold measure, nonEOF, p0, zeroToken; simpl. lia. }
  destruct (parse_loops_total src parse_number regex_check fmt_g quote (parse_fuel src)) as [Hpe _].
  specialize (Hpe 0 p Hp). unfold pspec in Hpe.
  assert (Hfuel : 2 * measure src p + 2 <= Z.of_nat (parse_fuel src)).
  { unfold parse_fuel. lia. }
  specialize (Hpe Hfuel).
  destruct (parseExpression parse_number regex_check fmt_g quote (parse_fuel src) 0 p)
    as [[n p']|e| |]; try contradiction; [|exact Hpe].
  destruct Hpe as (Hp' & _ & Hraw).
  destruct (negb (tt_eqb (ttype (ptoken p')) typeEOF)).
  { cbn [rbind]. apply mkError_wf; [unfold ErrSyntaxError; lia|apply pinv_twf; exact Hp']. }
  cbn [rbind]. pose proof (optimize_raw fmt_g quote n Hraw) as Ho. unfold opt_post in Ho.
  destruct (optimize fmt_g quote n) as [n'|e| |]; try contradiction; [exact Ho|].
  apply opt_err_ewf. exact Ho.
Qed.

(* 4. parse_total (property C08 at the model level): Parse terminates and returns an
   expression or a typed error, never panics / loops *)
Theorem parse_total src :
  (exists n, Parse (parse_fuel src) src = ROk n) \/ (exists e, Parse (parse_fuel src) src = RErr e).
Proof.
  pose proof (parse_spec src) as H.
  destruct (Parse (parse_fuel src) src) as [n|e| |]; try contradiction; eauto.
Qed.

(* 5. parse_error_wf *)
Theorem parse_error_wf src e : Parse (parse_fuel src) src = RErr e ->
  (1 <= etype e <= 27)%nat /\ 0 <= epos e <= Z.of_nat (slen src).
Proof. intros He. pose proof (parse_spec src) as H. rewrite He in H. exact H. Qed.

(* 6. optimize_no_interim, for Parse and for optimize on any parser-built tree *)
Theorem parse_no_interim src n : Parse (parse_fuel src) src = ROk n -> no_interim n.
Proof.
  intros He. pose proof (parse_spec src) as H. rewrite He in H. apply final_no_interim. exact H.
Qed.

Theorem optimize_no_interim n n' : raw n -> optimize fmt_g quote n = ROk n' -> no_interim n'.
Proof. apply optimize_no_interim_raw. Qed.

(* the un-optimized tree returned by the parse phase is built from parser constructors only *)
Theorem parse_raw_raw src :
  match parse_raw parse_number regex_check fmt_g quote (parse_fuel src) src with
  | ROk n => raw n
  | RErr e => ewf (Z.of_nat (slen src)) e
  | _ => False
  end.
Proof.
  unfold parse_raw, newParser.
  set (p0 := {| plexer := newLexer src; ptoken := zeroToken |}).
  assert (Hp0 : pinv src p0).
  { unfold pinv, twf, p0, zeroToken; simpl. repeat split; try lia; try discriminate.
    apply linv_newLexer. }
  pose proof (advance_spec src true p0 Hp0) as Ha. unfold pspec in Ha.
  destruct (advance true p0) as [[[] p]|e| |]; cbn [rbind]; try contradiction; [|exact Ha].
  destruct Ha as (Hp & Hm & _).
  assert (Hm0 : measure src p0 - nonEOF (ptoken p0) = Z.of_nat (slen src)).
  { unfold measure, nonEOF, p0, zeroToken; simpl. lia. }
  destruct (parse_loops_total src parse_number regex_check fmt_g quote (parse_fuel src)) as [Hpe _].
  specialize (Hpe 0 p Hp). unfold pspec in Hpe.
  assert (Hfuel : 2 * measure src p + 2 <= Z.of_nat (parse_fuel src)).
  { unfold parse_fuel. lia. }
  specialize (Hpe Hfuel).
  destruct (parseExpression parse_number regex_check fmt_g quote (parse_fuel src) 0 p)
    as [[n p']|e| |]; try contradiction; [|exact Hpe].
  destruct Hpe as (Hp' & _ & Hraw).
  destruct (negb (tt_eqb (ttype (ptoken p')) typeEOF)); [|exact Hraw].
  apply mkError_wf; [unfold ErrSyntaxError; lia|apply pinv_twf; exact Hp'].
Qed.

End Final.

Example parse_total_ex :
  let oracle_num := fun s => match Z_of_dec s with Some z => NumOk (f_of_Z z) | None => NumSyntax end in
  parse oracle_num (fun _ => None) (fun _ => "g") (fun s => s)
        (parse_fuel "a.b[c=1]{d:e}") "a.b[c=1]{d:e}"
  = ROk (NGroup (NPath [NName "a" false;
                        NPredicate (NName "b" false)
                          [NComparison CmpEq (NPath [NName "c" false] false)
                                       (NNumber (f_of_Z 1))]] false)
                [(NPath [NName "d" false] false, NPath [NName "e" false] false)]).
Proof. vm_compute. reflexivity. Qed.

Example parse_error_wf_ex :
  parse (fun _ => NumSyntax) (fun _ => None) (fun _ => "g") (fun s => s)
        (parse_fuel "function($x)<(>{$x}") "function($x)<(>{$x}"
  = RErr {| etype := 27; etoken := ""; ehint := "("; epos := 0 |}.
Proof. vm_compute. reflexivity. Qed.

Lemma bp_rows_valid_true : bp_rows_valid = true.
Proof. vm_compute. reflexivity. Qed.

Print Assumptions unescape_total.
Print Assumptions parse_params_total.
Print Assumptions parse_spec.
Print Assumptions parse_total.
Print Assumptions parse_error_wf.
Print Assumptions optimize_no_interim.
Print Assumptions parse_no_interim.

(* ================================================================ wire format round trip *)

(* ---- hex strings ---- *)
Lemma hex_byte_rt (c : ascii) :
  hex_val (hex_digit (byte_of c / 16)) = Some (byte_of c / 16) /\
  hex_val (hex_digit (byte_of c mod 16)) = Some (byte_of c mod 16) /\
  ascii_of_Z (16 * (byte_of c / 16) + byte_of c mod 16) = c.
Proof. destruct c as [[] [] [] [] [] [] [] []]; vm_compute; auto. Qed.

Lemma string_of_hex_rt s : string_of_hex (hex_of_string s) = Some s.
Proof.
  induction s as [|c r IH]; [reflexivity|].
  cbn [hex_of_string string_of_hex].
  destruct (hex_byte_rt c) as (H1 & H2 & H3). rewrite H1, H2, IH, H3. reflexivity.
Qed.

Lemma rS_wS s : rS (wS s) = Some s.
Proof. unfold rS, wS. apply string_of_hex_rt. Qed.

Lemma rB_wB b : rB (wB b) = Some b.
Proof. destruct b; reflexivity. Qed.

(* ---- decimal numerals ---- *)
Definition is_digit_char (c : ascii) : Prop := 48 <= byte_of c <= 57.

Lemma digit_char d : 0 <= d <= 9 ->
  byte_of (ascii_of_Z (48 + d)) = 48 + d.
Proof.
  intros H. assert (Hc : d = 0 \/ d = 1 \/ d = 2 \/ d = 3 \/ d = 4 \/ d = 5 \/ d = 6 \/ d = 7 \/ d = 8 \/ d = 9) by lia.
  repeat (destruct Hc as [->|Hc]; [reflexivity|]). subst; reflexivity.
Qed.

Lemma dec_digits_value fuel : forall z acc, 0 <= z < 10 ^ Z.of_nat fuel ->
  exists k, 0 <= k /\ forall a, Z_of_dec_acc (dec_digits fuel z acc) a = Z_of_dec_acc acc (a * 10 ^ k + z).
Proof.
  induction fuel as [|f IH]; intros z acc Hz.
  - simpl in Hz. exists 0. split; [lia|]. intros a. simpl. f_equal. lia.
  - cbn [dec_digits].
    assert (Hm : 0 <= z mod 10 <= 9) by (pose proof (Z.mod_pos_bound z 10); lia).
    destruct (z <? 10) eqn:E.
    + exists 1. split; [lia|]. intros a. cbn [Z_of_dec_acc].
      rewrite digit_char by lia.
      replace ((48 <=? 48 + z mod 10) && (48 + z mod 10 <=? 57)) with true by lia.
      f_equal. rewrite Z.mod_small by lia. lia.
    + assert (Hq : 0 <= z / 10 < 10 ^ Z.of_nat f).
      { split; [apply Z.div_pos; lia|]. apply Z.div_lt_upper_bound; [lia|].
        rewrite Nat2Z.inj_succ, Z.pow_succ_r in Hz by lia. lia. }
      destruct (IH (z / 10) (String (ascii_of_Z (48 + z mod 10)) acc) Hq) as (k & Hk & Hv).
      exists (k + 1). split; [lia|]. intros a. rewrite Hv. cbn [Z_of_dec_acc].
      rewrite digit_char by lia.
      replace ((48 <=? 48 + z mod 10) && (48 + z mod 10 <=? 57)) with true by lia.
      f_equal. rewrite Z.pow_add_r by lia. pose proof (Z.div_mod z 10). lia.
Qed.

Lemma dec_digits_head fuel z acc : 0 <= z ->
  exists c r, dec_digits (S fuel) z acc = String c r /\ is_digit_char c.
Proof.
  revert z acc. induction fuel as [|f IH]; intros z acc Hz.
  - cbn [dec_digits].
    assert (Hm : 0 <= z mod 10 <= 9) by (pose proof (Z.mod_pos_bound z 10); lia).
    destruct (z <? 10); eexists _, _; (split; [reflexivity|]); unfold is_digit_char; rewrite digit_char; lia.
  - remember (S f) as f'. cbn [dec_digits].
    assert (Hm : 0 <= z mod 10 <= 9) by (pose proof (Z.mod_pos_bound z 10); lia).
    destruct (z <? 10).
    + eexists _, _; (split; [reflexivity|]); unfold is_digit_char; rewrite digit_char; lia.
    + subst f'. apply IH. apply Z.div_pos; lia.
Qed.

Lemma pow10_log2 z : 0 <= z -> z < 10 ^ Z.of_nat (S (Z.to_nat (Z.log2 z))).
Proof.
  intros Hz. rewrite Nat2Z.inj_succ, Z2Nat.id by apply Z.log2_nonneg.
  destruct (Z.eq_dec z 0) as [->|Hne]; [simpl; lia|].
  pose proof (Z.log2_spec z ltac:(lia)) as [_ H2].
  assert (2 ^ Z.succ (Z.log2 z) <= 10 ^ Z.succ (Z.log2 z)).
  { apply Z.pow_le_mono_l. lia. }
  lia.
Qed.

Lemma Z_of_dec_string_of_Z z : 0 <= z -> Z_of_dec (string_of_Z z) = Some z.
Proof.
  intros Hz. unfold string_of_Z. replace (z <? 0) with false by lia.
  destruct (dec_digits_head (Z.to_nat (Z.log2 z)) z "" Hz) as (c & r & Hd & Hc).
  destruct (dec_digits_value (S (Z.to_nat (Z.log2 z))) z "") as (k & Hk & Hv).
  { split; [exact Hz|apply pow10_log2; exact Hz]. }
  unfold Z_of_dec. rewrite Hd.
  transitivity (Z_of_dec_acc (dec_digits (S (Z.to_nat (Z.log2 z))) z "") 0).
  - rewrite Hd. destruct c as [[] [] [] [] [] [] [] []]; try reflexivity.
    unfold is_digit_char, byte_of in Hc. simpl in Hc. lia.
  - rewrite Hv. simpl. f_equal.
Qed.

Lemma rL_wL n avail : (n <= avail)%nat -> rL (wL n) avail = Some n.
Proof.
  intros H. unfold rL, wL, string_of_nat. rewrite Z_of_dec_string_of_Z by lia.
  replace ((0 <=? Z.of_nat n) && (Z.of_nat n <=? Z.of_nat avail)) with true by lia.
  f_equal. lia.
Qed.

(* ---- tokens contain no space; splitting a joined token list gives the list back ---- *)
Fixpoint nospb (s : string) : bool :=
  match s with EmptyString => true | String c r => negb (Ascii.eqb c " ") && nospb r end.

Lemma nospb_app a b : nospb (a ++ b) = nospb a && nospb b.
Proof. induction a as [|c r IH]; simpl; [reflexivity|]. rewrite IH. apply andb_assoc. Qed.

Lemma hex_digit_nosp d : 0 <= d < 16 -> Ascii.eqb (hex_digit d) " " = false.
Proof.
  intros H.
  assert (Hc : d = 0 \/ d = 1 \/ d = 2 \/ d = 3 \/ d = 4 \/ d = 5 \/ d = 6 \/ d = 7 \/ d = 8 \/ d = 9
               \/ d = 10 \/ d = 11 \/ d = 12 \/ d = 13 \/ d = 14 \/ d = 15) by lia.
  repeat (destruct Hc as [->|Hc]; [reflexivity|]). subst; reflexivity.
Qed.

Lemma byte_of_range c : 0 <= byte_of c < 256.
Proof. destruct c as [[] [] [] [] [] [] [] []]; vm_compute; split; congruence. Qed.

Lemma nospb_hex s : nospb (hex_of_string s) = true.
Proof.
  induction s as [|c r IH]; [reflexivity|]. cbn [hex_of_string nospb].
  pose proof (byte_of_range c) as Hb.
  rewrite !hex_digit_nosp, IH; [reflexivity| |].
  - apply Z.mod_pos_bound; lia.
  - split; [apply Z.div_pos; lia|apply Z.div_lt_upper_bound; lia].
Qed.

Lemma nospb_hex_digits n : forall z acc, nospb acc = true -> nospb (hex_of_Z_digits n z acc) = true.
Proof.
  induction n as [|n IH]; intros z acc Ha; [exact Ha|]. cbn [hex_of_Z_digits].
  apply IH. cbn [nospb]. rewrite hex_digit_nosp, Ha; [reflexivity|apply Z.mod_pos_bound; lia].
Qed.

Lemma digit_nosp d : 0 <= d <= 9 -> Ascii.eqb (ascii_of_Z (48 + d)) " " = false.
Proof.
  intros H. assert (Hc : d = 0 \/ d = 1 \/ d = 2 \/ d = 3 \/ d = 4 \/ d = 5 \/ d = 6 \/ d = 7 \/ d = 8 \/ d = 9) by lia.
  repeat (destruct Hc as [->|Hc]; [reflexivity|]). subst; reflexivity.
Qed.

Lemma nospb_dec_digits fuel : forall z acc, 0 <= z -> nospb acc = true -> nospb (dec_digits fuel z acc) = true.
Proof.
  induction fuel as [|f IH]; intros z acc Hz Ha; [exact Ha|]. cbn [dec_digits].
  assert (Hm : 0 <= z mod 10 <= 9) by (pose proof (Z.mod_pos_bound z 10); lia).
  assert (Hs : nospb (String (ascii_of_Z (48 + z mod 10)) acc) = true).
  { cbn [nospb]. rewrite digit_nosp, Ha by lia. reflexivity. }
  destruct (z <? 10); [exact Hs|]. apply IH; [apply Z.div_pos; lia|exact Hs].
Qed.

Lemma nospb_string_of_Z z : 0 <= z -> nospb (string_of_Z z) = true.
Proof.
  intros Hz. unfold string_of_Z. replace (z <? 0) with false by lia.
  apply nospb_dec_digits; auto.
Qed.

Lemma nospb_wS s : nospb (wS s) = true. Proof. unfold wS. cbn [nospb]. rewrite nospb_hex. reflexivity. Qed.
Lemma nospb_wB b : nospb (wB b) = true. Proof. destruct b; reflexivity. Qed.
Lemma nospb_wL n : nospb (wL n) = true.
Proof. unfold wL, string_of_nat. cbn [nospb]. rewrite nospb_string_of_Z by lia. reflexivity. Qed.
Lemma nospb_wD x : nospb (wD x) = true.
Proof. unfold wD, hex16_of_Z. cbn [nospb]. rewrite nospb_hex_digits; reflexivity. Qed.

Lemma srev_acc_app s : forall a, srev_acc s a = srev_acc s "" ++ a.
Proof.
  induction s as [|c r IH]; intros a; simpl; [reflexivity|].
  rewrite IH, (IH (String c "")). rewrite sapp_assoc. reflexivity.
Qed.
Lemma srev_acc_invol s : forall a b, srev_acc (srev_acc s a) b = srev_acc a (s ++ b).
Proof.
  induction s as [|c r IH]; intros a b; simpl; [reflexivity|]. rewrite IH. reflexivity.
Qed.
Lemma srev_invol s : srev (srev s) = s.
Proof. unfold srev. rewrite srev_acc_invol. simpl. apply sapp_nil_r. Qed.

Lemma split_acc_token t : nospb t = true -> forall s cur,
  ssplit_char_acc " " (t ++ s) cur = ssplit_char_acc " " s (srev_acc t cur).
Proof.
  induction t as [|c r IH]; intros Ht s cur; [reflexivity|].
  cbn [nospb] in Ht. apply andb_true_iff in Ht as [Hc Hr]. apply negb_true_iff in Hc.
  cbn [append ssplit_char_acc]. rewrite Hc. rewrite IH by exact Hr. reflexivity.
Qed.

Lemma ssplit_sjoin ts : ts <> [] -> forallb nospb ts = true ->
  ssplit_char " " (sjoin " " ts) = ts.
Proof.
  unfold ssplit_char.
  assert (H : forall ts cur, ts <> [] -> forallb nospb ts = true ->
            ssplit_char_acc " " (sjoin " " ts) (srev cur) = (cur ++ hd "" ts) :: tl ts).
  { induction ts0 as [|t r IH]; intros cur Hne Hall; [contradiction|].
    cbn [forallb] in Hall. apply andb_true_iff in Hall as [Ht Hr].
    destruct r as [|t2 r2].
    - cbn [sjoin hd tl]. rewrite <- (sapp_nil_r t) at 1. rewrite split_acc_token by exact Ht.
      cbn [ssplit_char_acc]. f_equal. unfold srev. rewrite srev_acc_invol. simpl.
      rewrite srev_acc_invol. simpl. rewrite sapp_nil_r. reflexivity.
    - change (sjoin " " (t :: t2 :: r2)) with (t ++ " " ++ sjoin " " (t2 :: r2)).
      rewrite split_acc_token by exact Ht.
      change (" " ++ sjoin " " (t2 :: r2)) with (String " " (sjoin " " (t2 :: r2))).
      cbn [ssplit_char_acc]. rewrite Ascii.eqb_refl. cbn [hd tl].
      f_equal.
      + unfold srev. rewrite srev_acc_invol. simpl. rewrite srev_acc_invol. simpl.
        rewrite sapp_nil_r. reflexivity.
      + specialize (IH "" ltac:(discriminate) Hr). unfold srev in IH at 1. simpl in IH. exact IH. }
  intros Hne Hall. specialize (H ts "" Hne Hall). unfold srev in H at 1. simpl in H.
  rewrite H. destruct ts; [contradiction|reflexivity].
Qed.

(* ---- the local fixpoints of node_tokens / node_size as list functions ---- *)
Definition toks (l : list node) : list string := List.concat (map node_tokens l).
Definition ptoks (l : list (node * node)) : list string :=
  List.concat (map (fun kv => node_tokens (fst kv) ++ node_tokens (snd kv))%list l).
Definition ttoks (l : list (sortdir * node)) : list string :=
  List.concat (map (fun de => wdir (fst de) :: node_tokens (snd de)) l).

Lemma toks_fix l :
  (fix toks (l : list node) : list string :=
     match l with [] => [] | x :: r => (node_tokens x ++ toks r)%list end) l = toks l.
Proof. unfold toks. induction l as [|x r IH]; simpl; [reflexivity|]. now rewrite IH. Qed.
Lemma ptoks_fix l :
  (fix ptoks (l : list (node * node)) : list string :=
     match l with [] => [] | (k, v) :: r => (node_tokens k ++ node_tokens v ++ ptoks r)%list end) l
  = ptoks l.
Proof.
  unfold ptoks. induction l as [|[k v] r IH]; simpl; [reflexivity|]. rewrite IH.
  now rewrite <- app_assoc.
Qed.
Lemma ttoks_fix l :
  (fix ttoks (l : list (sortdir * node)) : list string :=
     match l with [] => [] | (d, e) :: r => (wdir d :: node_tokens e ++ ttoks r)%list end) l
  = ttoks l.
Proof. unfold ttoks. induction l as [|[d e] r IH]; simpl; [reflexivity|]. now rewrite IH. Qed.

Definition sizes (l : list node) : nat := list_sum (map node_size l).
Definition psizes (l : list (node * node)) : nat :=
  list_sum (map (fun kv => node_size (fst kv) + node_size (snd kv))%nat l).
Definition tsizes (l : list (sortdir * node)) : nat := list_sum (map (fun de => node_size (snd de)) l).

Lemma sizes_fix l :
  (fix sizes (l : list node) : nat :=
     match l with [] => 0 | x :: r => node_size x + sizes r end)%nat l = sizes l.
Proof. unfold sizes. induction l as [|x r IH]; simpl; [reflexivity|]. now rewrite IH. Qed.
Lemma psizes_fix l :
  (fix psizes (l : list (node * node)) : nat :=
     match l with [] => 0 | (a, b) :: r => node_size a + node_size b + psizes r end)%nat l = psizes l.
Proof. unfold psizes. induction l as [|[k v] r IH]; simpl; [reflexivity|]. now rewrite IH. Qed.
Lemma tsizes_fix l :
  (fix tsizes (l : list (sortdir * node)) : nat :=
     match l with [] => 0 | (_, b) :: r => node_size b + tsizes r end)%nat l = tsizes l.
Proof. unfold tsizes. induction l as [|[d e] r IH]; simpl; [reflexivity|]. now rewrite IH. Qed.

Lemma node_size_pos n : (1 <= node_size n)%nat.
Proof. destruct n; simpl; lia. Qed.

(* ---- reading counted lists ---- *)
Lemma read_n_rt {A} (rd : list string -> option (A * list string)) (tok : A -> list string) (l : list A) :
  forall rest,
  Forall (fun x => forall rest', rd (tok x ++ rest')%list = Some (x, rest')) l ->
  read_n rd (List.length l) (List.concat (map tok l) ++ rest)%list = Some (l, rest).
Proof.
  induction l as [|x r IH]; intros rest Hall; [reflexivity|].
  inversion Hall as [|? ? Hx Hr]; subst. cbn [List.length read_n map List.concat].
  rewrite <- app_assoc, Hx. cbn [obind]. rewrite IH by exact Hr. reflexivity.
Qed.

Lemma read_counted_rt {A} (rd : list string -> option (A * list string)) (tok : A -> list string)
      (l : list A) rest :
  (List.length l <= List.length (List.concat (map tok l)))%nat ->
  Forall (fun x => forall rest', rd (tok x ++ rest')%list = Some (x, rest')) l ->
  read_counted rd (wL (List.length l) :: List.concat (map tok l) ++ rest)%list = Some (l, rest).
Proof.
  intros Hlen Hall. unfold read_counted. rewrite rL_wL.
  - cbn [obind]. apply read_n_rt. exact Hall.
  - rewrite app_length. lia.
Qed.

Lemma concat_length_ge {A} (tok : A -> list string) (sz : A -> nat) (l : list A) :
  Forall (fun x => (sz x <= List.length (tok x))%nat) l ->
  (list_sum (map sz l) <= List.length (List.concat (map tok l)))%nat.
Proof.
  induction 1 as [|x r Hx _ IH]; simpl; [lia|]. rewrite app_length. lia.
Qed.

Lemma length_le_sum {A} (sz : A -> nat) (l : list A) :
  (forall x, 1 <= sz x)%nat -> (List.length l <= list_sum (map sz l))%nat.
Proof. intros H. induction l as [|x r IH]; simpl; [lia|]. specialize (H x). lia. Qed.

Lemma forallb_concat {A} (tok : A -> list string) (l : list A) :
  Forall (fun x => forallb nospb (tok x) = true) l -> forallb nospb (List.concat (map tok l)) = true.
Proof.
  induction 1 as [|x r Hx _ IH]; simpl; [reflexivity|]. rewrite forallb_app, Hx, IH. reflexivity.
Qed.

Lemma read_S_rt s rest : read_S (wS s :: rest) = Some (s, rest).
Proof. unfold read_S. rewrite rS_wS. reflexivity. Qed.
Lemma read_B_rt b rest : read_B (wB b :: rest) = Some (b, rest).
Proof. unfold read_B. rewrite rB_wB. reflexivity. Qed.

Lemma names_rt (l : list string) rest :
  read_counted read_S (wL (List.length l) :: map wS l ++ rest)%list = Some (l, rest).
Proof.
  replace (map wS l) with (List.concat (map (fun s => [wS s]) l)).
  - apply read_counted_rt.
    + clear. induction l; simpl; lia.
    + apply Forall_forall. intros s _ rest'. apply read_S_rt.
  - induction l as [|x r IH]; simpl; [reflexivity|]. now rewrite IH.
Qed.

(* ---- params ---- *)
Fixpoint param_size (p : param) : nat :=
  match p with
  | Param _ _ None => 1
  | Param _ _ (Some l) =>
      S ((fix go (l : list param) : nat := match l with [] => 0 | x :: r => param_size x + go r end)%nat l)
  end.

Lemma params_tokens_concat l : params_tokens l = List.concat (map param_tokens l).
Proof. induction l as [|x r IH]; simpl; [reflexivity|]. now rewrite IH. Qed.

Definition psum (l : list param) : nat := list_sum (map param_size l).
Lemma psum_fix l :
  (fix go (l : list param) : nat := match l with [] => 0 | x :: r => param_size x + go r end)%nat l
  = psum l.
Proof. unfold psum. induction l as [|x r IH]; simpl; [reflexivity|]. now rewrite IH. Qed.
Lemma ptokens_fix l :
  (fix go (l : list param) : list string :=
     match l with [] => [] | x :: r => (param_tokens x ++ go r)%list end) l
  = List.concat (map param_tokens l).
Proof. induction l as [|x r IH]; simpl; [reflexivity|]. now rewrite IH. Qed.

Lemma in_sum_le {A} (sz : A -> nat) (l : list A) x : In x l -> (sz x <= list_sum (map sz l))%nat.
Proof. induction l as [|y r IH]; simpl; [contradiction|]. intros [->|H]; [lia|]. apply IH in H. lia. Qed.

Lemma ropt_wopt o : ropt (wopt o) = Some o. Proof. destruct o; reflexivity. Qed.
Lemma nospb_wopt o : nospb (wopt o) = true. Proof. destruct o; reflexivity. Qed.

Definition param_ok (p : param) : Prop :=
  forallb nospb (param_tokens p) = true /\
  (param_size p <= List.length (param_tokens p))%nat /\
  forall fuel rest, (param_size p <= fuel)%nat ->
    param_of_tokens fuel (param_tokens p ++ rest)%list = Some (p, rest).

Lemma param_rt_aux : forall k p, (param_size p <= k)%nat -> param_ok p.
Proof.
  induction k as [|k IH]; intros [typ opt sub] Hk.
  - destruct sub; simpl in Hk; lia.
  - assert (Hty : Z_of_dec (string_of_Z (Z.of_N typ)) = Some (Z.of_N typ))
      by (apply Z_of_dec_string_of_Z; lia).
    assert (Hnt : nospb (string_of_Z (Z.of_N typ)) = true) by (apply nospb_string_of_Z; lia).
    destruct sub as [l|].
    + cbn [param_size] in Hk. rewrite psum_fix in Hk.
      assert (Hall : Forall param_ok l).
      { apply Forall_forall. intros x Hx. apply IH.
        pose proof (in_sum_le param_size l x Hx). unfold psum in Hk. lia. }
      assert (Hlen : (psum l <= List.length (List.concat (map param_tokens l)))%nat).
      { apply concat_length_ge. eapply Forall_impl; [|exact Hall]. intros x (_ & H & _). exact H. }
      unfold param_ok. cbn [param_tokens param_size]. rewrite ptokens_fix, psum_fix.
      split; [|split].
      * cbn [forallb]. rewrite Hnt, nospb_wopt, nospb_wL. cbn [nospb Ascii.eqb Bool.eqb negb andb].
        apply forallb_concat. eapply Forall_impl; [|exact Hall]. intros x (H & _). exact H.
      * cbn [List.length]. lia.
      * intros fuel rest Hf. destruct fuel as [|f]; [lia|].
        cbn [param_of_tokens app]. rewrite Hty. cbn [obind].
        replace (Z.of_N typ <? 0) with false by lia. rewrite ropt_wopt. cbn [obind].
        change (seqb "?1" "?0") with false. change (seqb "?1" "?1") with true. cbv iota.
        rewrite read_counted_rt.
        -- cbn [obind]. rewrite N2Z.id. reflexivity.
        -- pose proof (length_le_sum param_size l). unfold psum in Hlen.
           assert (forall x : param, (1 <= param_size x)%nat) by (intros [? ? [?|]]; simpl; lia). 
           specialize (H H0). lia.
        -- apply Forall_forall. intros x Hx rest'. rewrite Forall_forall in Hall.
           destruct (Hall x Hx) as (_ & _ & Hc). apply Hc.
           pose proof (in_sum_le param_size l x Hx). unfold psum in *. lia.
    + unfold param_ok. cbn [param_tokens param_size]. split; [|split].
      * cbn [forallb]. rewrite Hnt, nospb_wopt. reflexivity.
      * cbn [List.length]. lia.
      * intros fuel rest Hf. destruct fuel as [|f]; [lia|].
        cbn [param_of_tokens app]. rewrite Hty. cbn [obind].
        replace (Z.of_N typ <? 0) with false by lia. rewrite ropt_wopt. cbn [obind].
        change (seqb "?0" "?0") with true. cbv iota. rewrite N2Z.id. reflexivity.
Qed.

Lemma param_rt p : param_ok p.
Proof. apply (param_rt_aux (param_size p)). lia. Qed.

Lemma params_rt (sig : list param) rest :
  read_counted (param_of_tokens (List.length (wL (List.length sig) :: params_tokens sig ++ rest)%list))
               (wL (List.length sig) :: params_tokens sig ++ rest)%list = Some (sig, rest).
Proof.
  rewrite params_tokens_concat.
  assert (Hall : Forall param_ok sig) by (apply Forall_forall; intros; apply param_rt).
  assert (Hlen : (psum sig <= List.length (List.concat (map param_tokens sig)))%nat).
  { apply concat_length_ge. eapply Forall_impl; [|exact Hall]. intros x (_ & H & _). exact H. }
  apply read_counted_rt.
  - pose proof (length_le_sum param_size sig).
    assert (forall x : param, (1 <= param_size x)%nat) by (intros [? ? [?|]]; simpl; lia).
    specialize (H H0). unfold psum in Hlen. lia.
  - apply Forall_forall. intros x Hx rest'.
    destruct (param_rt x) as (_ & Hsz & Hc). apply Hc.
    cbn [List.length]. rewrite app_length.
    pose proof (in_sum_le param_size sig x Hx). unfold psum in Hlen. lia.
Qed.

(* ---- number literals: every valid binary64 value survives D<16 hex digits> ---- *)
Lemma hex_digit_val d : 0 <= d < 16 -> hex_val (hex_digit d) = Some d.
Proof.
  intros H.
  assert (Hc : d = 0 \/ d = 1 \/ d = 2 \/ d = 3 \/ d = 4 \/ d = 5 \/ d = 6 \/ d = 7 \/ d = 8 \/ d = 9
               \/ d = 10 \/ d = 11 \/ d = 12 \/ d = 13 \/ d = 14 \/ d = 15) by lia.
  repeat (destruct Hc as [->|Hc]; [reflexivity|]). subst; reflexivity.
Qed.

Lemma hex_digits_value n : forall z acc a, 0 <= z ->
  Z_of_hex_acc (hex_of_Z_digits n z acc) a = Z_of_hex_acc acc (a * 16 ^ Z.of_nat n + z mod 16 ^ Z.of_nat n).
Proof.
  induction n as [|n IH]; intros z acc a Hz.
  - simpl. rewrite Z.mod_1_r. f_equal. lia.
  - cbn [hex_of_Z_digits]. rewrite IH by (apply Z.div_pos; lia).
    cbn [Z_of_hex_acc]. rewrite hex_digit_val by (apply Z.mod_pos_bound; lia).
    f_equal. rewrite Nat2Z.inj_succ, Z.pow_succ_r by lia.
    rewrite (Z.rem_mul_r z 16 (16 ^ Z.of_nat n)) by lia. lia.
Qed.

Lemma hex_digits_len n : forall z acc, slen (hex_of_Z_digits n z acc) = (n + slen acc)%nat.
Proof.
  induction n as [|n IH]; intros z acc; [reflexivity|]. cbn [hex_of_Z_digits]. rewrite IH. simpl. lia.
Qed.

Lemma Z_of_hex16 z : 0 <= z < 2 ^ 64 -> Z_of_hex (hex16_of_Z z) = Some z /\ slen (hex16_of_Z z) = 16%nat.
Proof.
  intros Hz. unfold Z_of_hex, hex16_of_Z. rewrite hex_digits_value, hex_digits_len by lia.
  split; [|reflexivity]. simpl Z_of_hex_acc. f_equal.
  change (16 ^ Z.of_nat 16) with (2 ^ 64). rewrite Z.mod_small by lia. lia.
Qed.

Lemma digits2_pos_bounds m :
  2 ^ (Zpos (digits2_pos m) - 1) <= Zpos m < 2 ^ Zpos (digits2_pos m).
Proof.
  induction m as [p IH|p IH|]; cbn [digits2_pos].
  - rewrite Pos2Z.inj_succ. replace (Z.succ (Zpos (digits2_pos p)) - 1) with (Z.succ (Zpos (digits2_pos p) - 1)) by lia.
    rewrite !Z.pow_succ_r by lia. lia.
  - rewrite Pos2Z.inj_succ. replace (Z.succ (Zpos (digits2_pos p)) - 1) with (Z.succ (Zpos (digits2_pos p) - 1)) by lia.
    rewrite !Z.pow_succ_r by lia. lia.
  - simpl. lia.
Qed.

Lemma f_of_bits_of_f x : valid_f64 x = true ->
  0 <= bits_of_f x < 2 ^ 64 /\ f_of_bits (bits_of_f x) = x.
Proof.
  destruct x as [s|s| |s m e]; intros Hv.
  - destruct s; vm_compute; repeat split; congruence.
  - destruct s; vm_compute; repeat split; congruence.
  - vm_compute; repeat split; congruence.
  - unfold valid_f64, valid_binary, bounded, canonical_mantissa, fexp, emin in Hv.
    apply andb_true_iff in Hv as [Hc He].
    apply Zeq_bool_eq in Hc. apply Z.leb_le in He.
    unfold prec, emax in *.
    pose proof (digits2_pos_bounds m) as Hd.
    set (d := Zpos (digits2_pos m)) in *.
    assert (Hcase : (d = 53 /\ -1074 <= e) \/ (d < 53 /\ e = -1074)) by lia.
    clear Hc.
    destruct Hcase as [[Hd53 Hge]|[Hlt Heq]].
    + rewrite Hd53 in Hd. change (2 ^ (53 - 1)) with 4503599627370496 in Hd.
      change (2 ^ 53) with 9007199254740992 in Hd.
      assert (Hm : (Zpos m <? 2 ^ 52) = false) by (change (2 ^ 52) with 4503599627370496; lia).
      unfold bits_of_f. rewrite Hm.
      set (z := (if s then 2 ^ 63 else 0) + ((e + 1075) * 2 ^ 52 + (Zpos m - 2 ^ 52))).
      assert (Hz : 0 <= z < 2 ^ 64).
      { unfold z. change (2 ^ 63) with 9223372036854775808. change (2 ^ 64) with 18446744073709551616.
        change (2 ^ 52) with 4503599627370496. destruct s; lia. }
      split; [exact Hz|].
      unfold f_of_bits. rewrite (Z.mod_small z) by exact Hz.
      assert (Hs : (2 ^ 63 <=? z) = s).
      { unfold z. change (2 ^ 63) with 9223372036854775808. change (2 ^ 52) with 4503599627370496.
        destruct s; lia. }
      assert (Hex : (z / 2 ^ 52) mod 2048 = e + 1075).
      { unfold z. change (2 ^ 63) with (2048 * 2 ^ 52). 
        replace ((if s then 2048 * 2 ^ 52 else 0) + ((e + 1075) * 2 ^ 52 + (Zpos m - 2 ^ 52)))
          with ((Zpos m - 2 ^ 52) + ((if s then 2048 else 0) + (e + 1075)) * 2 ^ 52) by (destruct s; lia).
        rewrite Z.div_add by (change (2 ^ 52) with 4503599627370496; lia).
        rewrite (Z.div_small (Zpos m - 2 ^ 52)) by (change (2 ^ 52) with 4503599627370496; lia).
        destruct s.
        - replace (0 + (2048 + (e + 1075))) with ((e + 1075) + 1 * 2048) by lia.
          rewrite Z.mod_add by lia. apply Z.mod_small. lia.
        - apply Z.mod_small. lia. }
      assert (Hmx : z mod 2 ^ 52 = Zpos m - 2 ^ 52).
      { unfold z. change (2 ^ 63) with (2048 * 2 ^ 52).
        replace ((if s then 2048 * 2 ^ 52 else 0) + ((e + 1075) * 2 ^ 52 + (Zpos m - 2 ^ 52)))
          with ((Zpos m - 2 ^ 52) + ((if s then 2048 else 0) + (e + 1075)) * 2 ^ 52) by (destruct s; lia).
        rewrite Z.mod_add by (change (2 ^ 52) with 4503599627370496; lia).
        apply Z.mod_small. change (2 ^ 52) with 4503599627370496. lia. }
      rewrite Hs, Hex, Hmx.
      replace (e + 1075 =? 0) with false by lia. replace (e + 1075 =? 2047) with false by lia.
      replace (Zpos m - 2 ^ 52 + 2 ^ 52) with (Zpos m) by lia.
      f_equal. lia.
    + subst e.
      assert (Hm52 : Zpos m < 2 ^ 52).
      { destruct Hd as [_ Hd]. eapply Z.lt_le_trans; [exact Hd|]. apply Z.pow_le_mono_r; lia. }
      assert (Hm : (Zpos m <? 2 ^ 52) = true) by lia.
      unfold bits_of_f. rewrite Hm.
      set (z := (if s then 2 ^ 63 else 0) + Zpos m).
      change (2 ^ 52) with 4503599627370496 in Hm52.
      assert (Hz : 0 <= z < 2 ^ 64).
      { unfold z. change (2 ^ 63) with 9223372036854775808. change (2 ^ 64) with 18446744073709551616.
        destruct s; lia. }
      split; [exact Hz|].
      unfold f_of_bits. rewrite (Z.mod_small z) by exact Hz.
      assert (Hs : (2 ^ 63 <=? z) = s).
      { unfold z. change (2 ^ 63) with 9223372036854775808. destruct s; lia. }
      assert (Hex : (z / 2 ^ 52) mod 2048 = 0).
      { unfold z. change (2 ^ 63) with (2048 * 2 ^ 52).
        replace ((if s then 2048 * 2 ^ 52 else 0) + Zpos m)
          with (Zpos m + (if s then 2048 else 0) * 2 ^ 52) by (destruct s; lia).
        rewrite Z.div_add by (change (2 ^ 52) with 4503599627370496; lia).
        rewrite (Z.div_small (Zpos m)) by (change (2 ^ 52) with 4503599627370496; lia).
        destruct s; reflexivity. }
      assert (Hmx : z mod 2 ^ 52 = Zpos m).
      { unfold z. change (2 ^ 63) with (2048 * 2 ^ 52).
        replace ((if s then 2048 * 2 ^ 52 else 0) + Zpos m)
          with (Zpos m + (if s then 2048 else 0) * 2 ^ 52) by (destruct s; lia).
        rewrite Z.mod_add by (change (2 ^ 52) with 4503599627370496; lia).
        apply Z.mod_small. change (2 ^ 52) with 4503599627370496. lia. }
      rewrite Hs, Hex, Hmx. reflexivity.
Qed.

Theorem rD_wD x : valid_f64 x = true -> rD (wD x) = Some x.
Proof.
  intros Hv. destruct (f_of_bits_of_f x Hv) as [Hr Hf].
  destruct (Z_of_hex16 (bits_of_f x) Hr) as [Hh Hl].
  unfold rD, wD. rewrite Hl, Hh. simpl. now rewrite Hf.
Qed.

(* ---- nodes ---- *)
Definition numQ (n : node) : Prop := match n with NNumber x => rD (wD x) = Some x | _ => True end.
(* every number literal of the tree survives the D<16 hex digits> encoding *)
Definition num_ok : node -> Prop := all_nodes numQ.

Definition node_ok (n : node) : Prop :=
  forallb nospb (node_tokens n) = true /\
  (node_size n <= List.length (node_tokens n))%nat /\
  forall fuel rest, (node_size n <= fuel)%nat ->
    node_of_tokens fuel (node_tokens n ++ rest)%list = Some (n, rest).

Lemma list_ok_A l : Forall node_ok l -> forallb nospb (toks l) = true.
Proof. intros H. apply forallb_concat. eapply Forall_impl; [|exact H]. intros x (Hx & _). exact Hx. Qed.
Lemma list_ok_B l : Forall node_ok l -> (sizes l <= List.length (toks l))%nat.
Proof. intros H. apply concat_length_ge. eapply Forall_impl; [|exact H]. intros x (_ & Hx & _). exact Hx. Qed.
Lemma list_ok_C l f : Forall node_ok l -> (sizes l <= f)%nat ->
  Forall (fun x => forall rest', node_of_tokens f (node_tokens x ++ rest')%list = Some (x, rest')) l.
Proof.
  intros H Hf. apply Forall_forall. intros x Hx rest'. rewrite Forall_forall in H.
  destruct (H x Hx) as (_ & _ & Hc). apply Hc. pose proof (in_sum_le node_size l x Hx). unfold sizes in Hf. lia.
Qed.
Lemma list_len l : (List.length l <= sizes l)%nat.
Proof. apply length_le_sum. apply node_size_pos. Qed.

Definition pair_ok (kv : node * node) : Prop := node_ok (fst kv) /\ node_ok (snd kv).
Lemma pairs_of_flat l : Forall node_ok (flat_map (fun kv => [fst kv; snd kv]) l) -> Forall pair_ok l.
Proof.
  induction l as [|[k v] r IH]; simpl; intros H; [constructor|].
  inversion H as [|? ? H1 H2]; subst. inversion H2 as [|? ? H3 H4]; subst.
  constructor; [split; assumption|auto].
Qed.
Lemma pairs_ok_A l : Forall pair_ok l -> forallb nospb (ptoks l) = true.
Proof.
  intros H. apply forallb_concat. eapply Forall_impl; [|exact H].
  intros [k v] ((Hk & _) & (Hv & _)). simpl in *. rewrite forallb_app, Hk, Hv. reflexivity.
Qed.
Lemma pairs_ok_B l : Forall pair_ok l -> (psizes l <= List.length (ptoks l))%nat.
Proof.
  intros H. apply concat_length_ge. eapply Forall_impl; [|exact H].
  intros [k v] ((_ & Hk & _) & (_ & Hv & _)). simpl in *. rewrite app_length. lia.
Qed.
Lemma pairs_ok_C l f : Forall pair_ok l -> (psizes l <= f)%nat ->
  Forall (fun kv => forall rest',
    obind (node_of_tokens f ((node_tokens (fst kv) ++ node_tokens (snd kv)) ++ rest')%list)
      (fun '(k, t1) => obind (node_of_tokens f t1) (fun '(v, t2) => Some (k, v, t2)))
    = Some (kv, rest')) l.
Proof.
  intros H Hf. apply Forall_forall. intros [k v] Hx rest'. rewrite Forall_forall in H.
  destruct (H (k, v) Hx) as ((_ & _ & Hk) & (_ & _ & Hv)). simpl in *.
  pose proof (in_sum_le (fun kv => node_size (fst kv) + node_size (snd kv))%nat l (k, v) Hx) as Hle.
  unfold psizes in Hf. simpl in Hle.
  rewrite <- app_assoc, Hk by lia. cbn [obind]. rewrite Hv by lia. reflexivity.
Qed.
Lemma pairs_len l : (List.length l <= psizes l)%nat.
Proof. apply length_le_sum. intros [k v]. pose proof (node_size_pos k). simpl. lia. Qed.

Lemma rdir_wdir d : rdir (wdir d) = Some d. Proof. destruct d; reflexivity. Qed.
Lemma nospb_wdir d : nospb (wdir d) = true. Proof. destruct d; reflexivity. Qed.

Definition term_ok (de : sortdir * node) : Prop := node_ok (snd de).
Lemma terms_of_map l : Forall node_ok (map snd l) -> Forall term_ok l.
Proof. induction l as [|[d e] r IH]; simpl; intros H; [constructor|]. inversion H; subst. constructor; auto. Qed.
Lemma terms_ok_A l : Forall term_ok l -> forallb nospb (ttoks l) = true.
Proof.
  intros H. apply forallb_concat. eapply Forall_impl; [|exact H].
  intros [d e] (He & _). simpl in *. rewrite nospb_wdir, He. reflexivity.
Qed.
Lemma terms_ok_B l : Forall term_ok l -> (tsizes l <= List.length (ttoks l))%nat.
Proof.
  intros H. apply concat_length_ge. eapply Forall_impl; [|exact H].
  intros [d e] (_ & He & _). simpl in *. lia.
Qed.
Lemma terms_ok_C l f : Forall term_ok l -> (tsizes l <= f)%nat ->
  Forall (fun de => forall rest',
    match ((wdir (fst de) :: node_tokens (snd de)) ++ rest')%list with
    | [] => None
    | d :: t1 => obind (rdir d) (fun dir => obind (node_of_tokens f t1) (fun '(e, t2) => Some (dir, e, t2)))
    end = Some (de, rest')) l.
Proof.
  intros H Hf. apply Forall_forall. intros [d e] Hx rest'. rewrite Forall_forall in H.
  destruct (H (d, e) Hx) as (_ & _ & He). simpl in *.
  pose proof (in_sum_le (fun de => node_size (snd de)) l (d, e) Hx) as Hle.
  unfold tsizes in Hf. simpl in Hle.
  rewrite rdir_wdir. cbn [obind]. rewrite He by lia. reflexivity.
Qed.
Lemma terms_len l : (List.length l <= tsizes l)%nat.
Proof. apply length_le_sum. intros [d e]. apply node_size_pos. Qed.

Lemma rnumop_w o : rnumop (wnumop o) = Some o. Proof. destruct o; reflexivity. Qed.
Lemma rcmpop_w o : rcmpop (wcmpop o) = Some o. Proof. destruct o; reflexivity. Qed.
Lemma rboolop_w o : rboolop (wboolop o) = Some o. Proof. destruct o; reflexivity. Qed.
Lemma nospb_numop o : nospb (wnumop o) = true. Proof. destruct o; reflexivity. Qed.
Lemma nospb_cmpop o : nospb (wcmpop o) = true. Proof. destruct o; reflexivity. Qed.
Lemma nospb_boolop o : nospb (wboolop o) = true. Proof. destruct o; reflexivity. Qed.

Lemma forallb_map_wS l : forallb nospb (map wS l) = true.
Proof. induction l as [|x r IH]; simpl; [reflexivity|]. rewrite nospb_hex, IH. reflexivity. Qed.

Lemma params_ok_A sig : forallb nospb (params_tokens sig) = true.
Proof.
  rewrite params_tokens_concat. apply forallb_concat. apply Forall_forall. intros x _.
  destruct (param_rt x) as (H & _). exact H.
Qed.

Ltac eval_seqb :=
  repeat match goal with
         | |- context [seqb ?a ?b] =>
             let v := eval vm_compute in (seqb a b) in
             change (seqb a b) with v
         end;
  cbv iota.

Ltac inv_forall' :=
  repeat match goal with
         | H : Forall _ (_ :: _) |- _ => inversion H; clear H; subst
         | H : Forall _ [] |- _ => clear H
         end.


Ltac solveA :=
  cbn [forallb]; rewrite ?forallb_app; cbn [forallb];
  repeat first
    [ rewrite nospb_wS | rewrite nospb_wB | rewrite nospb_wL | rewrite nospb_wD
    | rewrite nospb_numop | rewrite nospb_cmpop | rewrite nospb_boolop
    | match goal with H : forallb nospb _ = true |- _ => rewrite H end ];
  reflexivity.

Ltac solveB := cbn [List.length]; rewrite ?app_length; cbn [List.length]; lia.

Ltac startC :=
  let f := fresh "f" in let rest := fresh "rest" in let Hf := fresh "Hf" in
  intros [|f] rest Hf; [lia|]; cbn [node_of_tokens app]; eval_seqb; rewrite <- ?app_assoc; cbn [app].

Ltac stepC :=
  repeat (first
    [ match goal with
      | HC : forall fuel rest, (node_size ?c <= fuel)%nat -> node_of_tokens fuel (node_tokens ?c ++ rest)%list = _
        |- context [node_of_tokens ?f (node_tokens ?c ++ ?r)%list] => rewrite (HC f r) by lia
      end
    | rewrite read_S_rt | rewrite read_B_rt | rewrite rnumop_w | rewrite rcmpop_w | rewrite rboolop_w ];
    cbn [obind]).

Theorem node_rt : forall n, num_ok n -> node_ok n.
Proof.
  apply (node_children_ind (fun n => num_ok n -> node_ok n)).
  intros n IH Hnum. apply all_nodes_children in Hnum as [Hq Hnc].
  assert (Hch : Forall node_ok (children n)).
  { rewrite Forall_forall in *. intros x Hx. apply IH; [exact Hx|apply Hnc; exact Hx]. }
  clear IH Hnc.
  destruct n; cbn [children] in Hch; unfold node_ok; cbn [node_tokens node_size];
    rewrite ?toks_fix, ?ptoks_fix, ?ttoks_fix, ?sizes_fix, ?psizes_fix, ?tsizes_fix.
  all: inv_forall'.
  all: repeat match goal with H : node_ok _ |- _ =>
         let HA := fresh "HA" in let HB := fresh "HB" in let HC := fresh "HC" in
         destruct H as (HA & HB & HC) end.
  - (* NString *) split; [|split]; [solveA|solveB|]. startC. stepC. reflexivity.
  - (* NNumber *) split; [|split]; [solveA|solveB|]. startC. unfold numQ in Hq. rewrite Hq. reflexivity.
  - (* NBoolean *) split; [|split]; [solveA|solveB|]. startC. stepC. reflexivity.
  - (* NNull *) split; [|split]; [solveA|solveB|]. startC. reflexivity.
  - (* NRegex *) split; [|split]; [solveA|solveB|]. startC. stepC. reflexivity.
  - (* NVariable *) split; [|split]; [solveA|solveB|]. startC. stepC. reflexivity.
  - (* NName *) split; [|split]; [solveA|solveB|]. startC. stepC. reflexivity.
  - (* NPath *)
    pose proof (list_ok_A _ Hch) as LA. pose proof (list_ok_B _ Hch) as LB. pose proof (list_len steps) as LL.
    split; [|split]; [solveA|solveB|]. startC.
    unfold toks in *. rewrite read_counted_rt; [|lia|apply list_ok_C; auto; lia].
    cbn [obind app]. stepC. reflexivity.
  - (* NNegation *) split; [|split]; [solveA|solveB|]. startC. stepC. reflexivity.
  - (* NRange *) split; [|split]; [solveA|solveB|]. startC. stepC. reflexivity.
  - (* NArray *)
    pose proof (list_ok_A _ Hch) as LA. pose proof (list_ok_B _ Hch) as LB. pose proof (list_len items) as LL.
    split; [|split]; [solveA|solveB|]. startC.
    unfold toks in *. rewrite read_counted_rt; [|lia|apply list_ok_C; auto; lia].
    reflexivity.
  - (* NObject *)
    apply pairs_of_flat in Hch.
    pose proof (pairs_ok_A _ Hch) as LA. pose proof (pairs_ok_B _ Hch) as LB. pose proof (pairs_len pairs) as LL.
    split; [|split]; [solveA|solveB|]. startC.
    unfold ptoks in *. rewrite read_counted_rt; [|lia|apply pairs_ok_C; auto; lia].
    reflexivity.
  - (* NBlock *)
    pose proof (list_ok_A _ Hch) as LA. pose proof (list_ok_B _ Hch) as LB. pose proof (list_len exprs) as LL.
    split; [|split]; [solveA|solveB|]. startC.
    unfold toks in *. rewrite read_counted_rt; [|lia|apply list_ok_C; auto; lia].
    reflexivity.
  - (* NWildcard *) split; [|split]; [solveA|solveB|]. startC. reflexivity.
  - (* NDescendent *) split; [|split]; [solveA|solveB|]. startC. reflexivity.
  - (* NTransform *)
    destruct deletes as [d|]; inv_forall';
      repeat match goal with H : node_ok _ |- _ =>
         let HA := fresh "HA" in let HB := fresh "HB" in let HC := fresh "HC" in
         destruct H as (HA & HB & HC) end;
      (split; [|split]; [solveA|solveB|]); startC; stepC; eval_seqb; stepC; reflexivity.
  - (* NLambda *)
    split; [|split]; [rewrite ?forallb_app; cbn [forallb]; rewrite ?forallb_app, forallb_map_wS; solveA|
                      cbn [List.length]; rewrite ?app_length; cbn [List.length]; lia|].
    startC. rewrite names_rt. cbn [obind]. stepC. reflexivity.
  - (* NTypedLambda *)
    split; [|split]; [cbn [forallb]; rewrite ?forallb_app; cbn [forallb]; rewrite ?forallb_app, forallb_map_wS, params_ok_A; solveA|
                      cbn [List.length]; rewrite ?app_length; cbn [List.length]; lia|].
    startC. rewrite names_rt. cbn [obind]. stepC. rewrite params_rt. reflexivity.
  - (* NPartial *)
    match goal with H : Forall node_ok args |- _ =>
      pose proof (list_ok_A _ H) as LA; pose proof (list_ok_B _ H) as LB; pose proof (list_len args) as LL;
      rename H into Hl end.
    split; [|split]; [solveA|solveB|]. startC. stepC.
    unfold toks in *. rewrite read_counted_rt; [|lia|apply list_ok_C; auto; lia].
    reflexivity.
  - (* NPlaceholder *) split; [|split]; [solveA|solveB|]. startC. reflexivity.
  - (* NCall *)
    match goal with H : Forall node_ok args |- _ =>
      pose proof (list_ok_A _ H) as LA; pose proof (list_ok_B _ H) as LB; pose proof (list_len args) as LL;
      rename H into Hl end.
    split; [|split]; [solveA|solveB|]. startC. stepC.
    unfold toks in *. rewrite read_counted_rt; [|lia|apply list_ok_C; auto; lia].
    reflexivity.
  - (* NPredicate *)
    match goal with H : Forall node_ok filters |- _ =>
      pose proof (list_ok_A _ H) as LA; pose proof (list_ok_B _ H) as LB; pose proof (list_len filters) as LL;
      rename H into Hl end.
    split; [|split]; [solveA|solveB|]. startC. stepC.
    unfold toks in *. rewrite read_counted_rt; [|lia|apply list_ok_C; auto; lia].
    reflexivity.
  - (* NGroup *)
    match goal with H : Forall node_ok (flat_map _ pairs) |- _ => apply pairs_of_flat in H;
      pose proof (pairs_ok_A _ H) as LA; pose proof (pairs_ok_B _ H) as LB; pose proof (pairs_len pairs) as LL;
      rename H into Hl end.
    split; [|split]; [solveA|solveB|]. startC. stepC.
    unfold ptoks in *. rewrite read_counted_rt; [|lia|apply pairs_ok_C; auto; lia].
    reflexivity.
  - (* NConditional *)
    destruct els as [d|]; inv_forall';
      repeat match goal with H : node_ok _ |- _ =>
         let HA := fresh "HA" in let HB := fresh "HB" in let HC := fresh "HC" in
         destruct H as (HA & HB & HC) end;
      (split; [|split]; [solveA|solveB|]); startC; stepC; eval_seqb; stepC; reflexivity.
  - (* NAssignment *) split; [|split]; [solveA|solveB|]. startC. stepC. reflexivity.
  - (* NNumeric *) split; [|split]; [solveA|solveB|]. startC. stepC. reflexivity.
  - (* NComparison *) split; [|split]; [solveA|solveB|]. startC. stepC. reflexivity.
  - (* NBoolOp *) split; [|split]; [solveA|solveB|]. startC. stepC. reflexivity.
  - (* NConcat *) split; [|split]; [solveA|solveB|]. startC. stepC. reflexivity.
  - (* NSort *)
    match goal with H : Forall node_ok (map snd terms) |- _ => apply terms_of_map in H;
      pose proof (terms_ok_A _ H) as LA; pose proof (terms_ok_B _ H) as LB; pose proof (terms_len terms) as LL;
      rename H into Hl end.
    split; [|split]; [solveA|solveB|]. startC. stepC.
    unfold ttoks in *. rewrite read_counted_rt; [|lia|apply terms_ok_C; auto; lia].
    reflexivity.
  - (* NApply *) split; [|split]; [solveA|solveB|]. startC. stepC. reflexivity.
  - (* NDot *) split; [|split]; [solveA|solveB|]. startC. stepC. reflexivity.
  - (* NSingletonArray *) split; [|split]; [solveA|solveB|]. startC. stepC. reflexivity.
  - (* NPred *) split; [|split]; [solveA|solveB|]. startC. stepC. reflexivity.
Qed.

(* AstWire: reading back what was printed gives the same tree, for every tree whose number
   literals survive the D<hex> encoding ([num_ok]; strings and names are arbitrary byte
   strings). *)
Theorem node_of_wire_to_wire n : num_ok n -> node_of_wire (node_to_wire n) = Some n.
Proof.
  intros Hn. destruct (node_rt n Hn) as (HA & HB & HC).
  unfold node_of_wire, node_to_wire.
  assert (Hne : node_tokens n <> []).
  { pose proof (node_size_pos n). destruct (node_tokens n); [simpl in HB; lia|discriminate]. }
  rewrite ssplit_sjoin by assumption.
  rewrite <- (app_nil_r (node_tokens n)) at 2.
  rewrite HC by lia. reflexivity.
Qed.

Example node_of_wire_to_wire_ex :
  let n := NPath [NName "a b" false; NPredicate (NName "" true) [NNumber (f_of_Z 1); NString " "]] true in
  num_ok n /\ node_to_wire n = "Path L2 Name S612062 F Pred Name S T L2 Num D3ff0000000000000 Str S20 T".
Proof. split; [vm_compute; tauto|vm_compute; reflexivity]. Qed.

(* in particular for every tree whose number literals are valid binary64 values *)
Definition valid_nums : node -> Prop :=
  all_nodes (fun n => match n with NNumber x => valid_f64 x = true | _ => True end).

Corollary node_of_wire_to_wire_valid n : valid_nums n -> node_of_wire (node_to_wire n) = Some n.
Proof.
  intros H. apply node_of_wire_to_wire. revert H. apply all_nodes_impl.
  intros m Hm. destruct m; try exact I. apply rD_wD. exact Hm.
Qed.

Print Assumptions node_of_wire_to_wire.
Print Assumptions node_of_wire_to_wire_valid.
