(* Proofs/C07Proofs.v — property C07: inputs are never modified; transform returns a modified
   copy.

   In the model, evaluation is a pure function [eval ... : node -> ovalue -> nat -> M ovalue] of
   the input value: there is no operation by which [eval] could alter its argument, and the
   world it threads holds only environment frames (Model/Value.v [world]).  So "the caller's
   document is deep-equal to what it was before" holds BY CONSTRUCTION for the model — the
   part of C07 that can fail in the Go code (a transform whose pattern selects nodes outside the
   clone writes into the caller's document) is exactly what the model cannot express and is
   checked by the run-time predicate of the harness instead.  What is proved here is the
   content of the transform: it works on a tagged copy, writes by tag, and returns the copy.

   Contents
     A. unfolding equations for the nested fixpoints over [value]
     B. strip_tag_ids: removing the tags from a freshly tagged value gives the value back;
        tag_ids_ids: the tags are n, n+1, ..., n'-1 in pre-order (distinct, in [n, n'))
     C. update_by_id: absent tag = identity; with one carrier exactly one object changes
     D. the CTransform case of [call]: equation, argument errors, nothing selected = copy of
        the argument, illegal update / delete errors
     E. C07_input_immutable: `$ ~> |pattern selecting nothing| ... |` returns its input *)
From Coq Require Import List Bool Arith ZArith Lia String.
From JV Require Import Base.Bytes Base.F64 Model.Value Model.Builtins Model.Ops Model.LibCore Model.Eval.
From JV Require Import Spec.C07 Spec.C17 Proofs.MonadFacts Proofs.C01Proofs Proofs.C17Proofs.
Import ListNotations.
Local Open Scope nat_scope.
Local Open Scope list_scope.

(* ==================================================================================== *)
(* A. the nested fixpoints, named                                                       *)
(* ==================================================================================== *)
Fixpoint tag_list (l : list value) (n : nat) : list value * nat :=
  match l with
  | [] => ([], n)
  | x :: r => let '(x', n1) := tag_ids x n in let '(r', n2) := tag_list r n1 in (x' :: r', n2)
  end.
Fixpoint tag_members (m : list (string * value)) (n : nat) : list (string * value) * nat :=
  match m with
  | [] => ([], n)
  | (k, x) :: r => let '(x', n1) := tag_ids x n in let '(r', n2) := tag_members r n1 in ((k, x') :: r', n2)
  end.
Lemma tag_ids_arr l n : tag_ids (VArr l) n = let '(l', n') := tag_list l n in (VArr l', n').
Proof. reflexivity. Qed.
Lemma tag_ids_obj m n :
  tag_ids (VObj m) n
  = let '(m', n') := tag_members m (S n) in (VObj (obj_insert reserved_id_key (vnat n) m'), n').
Proof. reflexivity. Qed.

Fixpoint strip_members (m : list (string * value)) : list (string * value) :=
  match m with
  | [] => []
  | (k, x) :: r => if seqb k reserved_id_key then strip_members r else (k, strip_ids x) :: strip_members r
  end.
Lemma strip_ids_arr l : strip_ids (VArr l) = VArr (map strip_ids l).
Proof. reflexivity. Qed.
Lemma strip_ids_obj m : strip_ids (VObj m) = VObj (strip_members m).
Proof. reflexivity. Qed.

Definition map_values (g : value -> value) (m : list (string * value)) : list (string * value) :=
  map (fun kv => (fst kv, g (snd kv))) m.

Lemma update_by_id_arr id f l : update_by_id id f (VArr l) = VArr (map (update_by_id id f) l).
Proof. reflexivity. Qed.
Lemma update_by_id_obj id f m :
  update_by_id id f (VObj m)
  = let m' := map_values (update_by_id id f) m in
    match obj_id m with
    | Some x => if feqb x id then VObj (f m') else VObj m'
    | None => VObj m'
    end.
Proof.
  cbn [update_by_id].
  assert (E : (fix um (m : list (string * value)) : list (string * value) :=
                 match m with [] => [] | (k, x) :: r => (k, update_by_id id f x) :: um r end) m
              = map_values (update_by_id id f) m).
  { induction m as [|[k x] r IH]; simpl; congruence. }
  rewrite E. reflexivity.
Qed.

Definition find_list (id : f64) : list value -> option value :=
  fix fl (l : list value) : option value :=
    match l with [] => None | x :: r => match find_by_id id x with Some y => Some y | None => fl r end end.
Definition find_members (id : f64) : list (string * value) -> option value :=
  fix fm (m : list (string * value)) : option value :=
    match m with [] => None | (_, x) :: r => match find_by_id id x with Some y => Some y | None => fm r end end.
Lemma find_by_id_arr id l : find_by_id id (VArr l) = find_list id l.
Proof. reflexivity. Qed.
Lemma find_by_id_obj id m :
  find_by_id id (VObj m)
  = match obj_id m with
    | Some x => if feqb x id then Some (VObj m) else find_members id m
    | None => find_members id m
    end.
Proof. reflexivity. Qed.

Lemma defunc_arr l : defunc (VArr l) = VArr (map defunc l).
Proof. reflexivity. Qed.
Lemma defunc_obj m : defunc (VObj m) = VObj (map_values defunc m).
Proof. cbn [defunc]. f_equal. induction m as [|[k x] r IH]; simpl; congruence. Qed.

Lemma no_reservedb_arr l : no_reservedb (VArr l) = forallb no_reservedb l.
Proof. cbn [no_reservedb]. induction l; simpl; congruence. Qed.
Lemma no_reservedb_obj m :
  no_reservedb (VObj m)
  = forallb (fun kv => negb (seqb (fst kv) reserved_id_key) && no_reservedb (snd kv)) m.
Proof. cbn [no_reservedb]. induction m as [|[k x] r IH]; simpl; congruence. Qed.

Lemma no_funcsb_arr l : no_funcsb (VArr l) = forallb no_funcsb l.
Proof. cbn [no_funcsb]. induction l; simpl; congruence. Qed.
Lemma no_funcsb_obj m : no_funcsb (VObj m) = forallb (fun kv => no_funcsb (snd kv)) m.
Proof. cbn [no_funcsb]. induction m as [|[k x] r IH]; simpl; congruence. Qed.

Lemma obj_ids_arr l : obj_ids (VArr l) = flat_map obj_ids l.
Proof. cbn [obj_ids]. induction l; simpl; congruence. Qed.
Lemma obj_ids_obj m :
  obj_ids (VObj m)
  = match obj_id m with Some x => [x] | None => [] end ++ flat_map (fun kv => obj_ids (snd kv)) m.
Proof. cbn [obj_ids]. f_equal. induction m as [|[k x] r IH]; simpl; congruence. Qed.

(* ==================================================================================== *)
(* B. tagging and stripping                                                             *)
(* ==================================================================================== *)
Lemma tag_list_cons x r n :
  tag_list (x :: r) n
  = (fst (tag_ids x n) :: fst (tag_list r (snd (tag_ids x n))), snd (tag_list r (snd (tag_ids x n)))).
Proof. cbn [tag_list]. destruct (tag_ids x n) as [x' n1]. cbn [fst snd]. now destruct (tag_list r n1). Qed.

Lemma tag_members_cons k x r n :
  tag_members ((k, x) :: r) n
  = ((k, fst (tag_ids x n)) :: fst (tag_members r (snd (tag_ids x n))),
     snd (tag_members r (snd (tag_ids x n)))).
Proof. cbn [tag_members]. destruct (tag_ids x n) as [x' n1]. cbn [fst snd]. now destruct (tag_members r n1). Qed.

Lemma tag_ids_arr' l n : tag_ids (VArr l) n = (VArr (fst (tag_list l n)), snd (tag_list l n)).
Proof. rewrite tag_ids_arr. now destruct (tag_list l n). Qed.

Lemma tag_ids_obj' m n :
  tag_ids (VObj m) n
  = (VObj (obj_insert reserved_id_key (vnat n) (fst (tag_members m (S n)))), snd (tag_members m (S n))).
Proof. rewrite tag_ids_obj. now destruct (tag_members m (S n)). Qed.

Lemma tag_ids_scalar v n :
  match v with VArr _ | VObj _ => False | _ => True end -> tag_ids v n = (v, n).
Proof. destruct v; try contradiction; reflexivity. Qed.

Lemma tag_members_keys m : forall n, map fst (fst (tag_members m n)) = map fst m.
Proof.
  induction m as [|[k x] r IH]; intro n; [reflexivity|].
  rewrite tag_members_cons. cbn [fst map]. now rewrite IH.
Qed.

Definition keys_free (m : list (string * value)) : Prop :=
  Forall (fun k => seqb k reserved_id_key = false) (map fst m).

(* inserting the tag and stripping it again *)
Lemma strip_members_insert x m :
  keys_free m -> strip_members (obj_insert reserved_id_key x m) = strip_members m.
Proof.
  unfold keys_free. induction m as [|[k v] r IH]; intro F; cbn [obj_insert strip_members].
  - now rewrite seqb_refl.
  - cbn [map fst] in F. inversion F as [|? ? Hk Hr]; subst.
    assert (E : seqb reserved_id_key k = false).
    { destruct (seqb reserved_id_key k) eqn:E; [|reflexivity].
      apply seqb_eq in E. subst k. now rewrite seqb_refl in Hk. }
    rewrite E. destruct (sltb reserved_id_key k).
    + cbn [strip_members]. now rewrite seqb_refl, Hk.
    + cbn [strip_members]. rewrite Hk. now rewrite IH.
Qed.

Lemma assoc_get_insert k x m : assoc_get k (obj_insert k x m) = Some x.
Proof.
  induction m as [|[k' v] r IH]; cbn [obj_insert assoc_get].
  - now rewrite seqb_refl.
  - destruct (seqb k k') eqn:E.
    + cbn [assoc_get]. now rewrite seqb_refl.
    + destruct (sltb k k'); cbn [assoc_get]; [now rewrite seqb_refl|]. now rewrite E.
Qed.

Lemma no_reserved_keys_free m : no_reserved (VObj m) -> keys_free m.
Proof.
  unfold no_reserved, keys_free. rewrite no_reservedb_obj. intro H.
  induction m as [|[k x] r IH]; [constructor|]. cbn [forallb fst snd] in H.
  apply andb_true_iff in H as [H1 H2]. apply andb_true_iff in H1 as [H1 _].
  cbn [map fst]. constructor; [now destruct (seqb k reserved_id_key)|auto].
Qed.

Lemma keys_free_tag m n : keys_free m -> keys_free (fst (tag_members m n)).
Proof. unfold keys_free. now rewrite tag_members_keys. Qed.

(* C07.1 : stripping the tags off a freshly tagged value gives the value back *)
Theorem strip_tag_ids v : forall n, no_reserved v -> strip_ids (fst (tag_ids v n)) = v.
Proof.
  induction v as [v Hv|l IH|m IH] using value_ind'; intros n NR.
  - rewrite tag_ids_scalar by exact Hv. destruct v; try contradiction; reflexivity.
  - rewrite tag_ids_arr'. cbn [fst]. rewrite strip_ids_arr. f_equal.
    unfold no_reserved in NR. rewrite no_reservedb_arr in NR.
    revert n. induction l as [|x r IHr]; intro n; [reflexivity|].
    inversion IH as [|? ? Hx Hr]; subst. cbn [forallb] in NR. apply andb_true_iff in NR as [N1 N2].
    rewrite tag_list_cons. cbn [fst map]. rewrite Hx by exact N1. now rewrite IHr.
  - rewrite tag_ids_obj'. cbn [fst]. rewrite strip_ids_obj.
    rewrite strip_members_insert by (apply keys_free_tag, no_reserved_keys_free, NR).
    f_equal. unfold no_reserved in NR. rewrite no_reservedb_obj in NR.
    generalize (S n) as n'. induction m as [|[k x] r IHr]; intro n'; [reflexivity|].
    inversion IH as [|? ? Hx Hr]; subst. cbn [forallb fst snd] in *.
    apply andb_true_iff in NR as [N1 N2]. apply andb_true_iff in N1 as [N0 N1].
    rewrite tag_members_cons. cbn [fst strip_members].
    destruct (seqb k reserved_id_key); [discriminate|].
    rewrite Hx by exact N1. now rewrite IHr.
Qed.

Lemma flat_map_insert_free x m :
  obj_ids x = [] -> keys_free m ->
  flat_map (fun kv => obj_ids (snd kv)) (obj_insert reserved_id_key x m)
  = flat_map (fun kv => obj_ids (snd kv)) m.
Proof.
  intros Hx. unfold keys_free. induction m as [|[k v] r IH]; intro F; cbn [obj_insert flat_map snd].
  - now rewrite Hx.
  - cbn [map fst] in F. inversion F as [|? ? Hk Hr]; subst.
    assert (E : seqb reserved_id_key k = false).
    { destruct (seqb reserved_id_key k) eqn:E; [|reflexivity].
      apply seqb_eq in E. subst k. now rewrite seqb_refl in Hk. }
    rewrite E. destruct (sltb reserved_id_key k); cbn [flat_map snd].
    + now rewrite Hx.
    + now rewrite IH.
Qed.

Lemma seq_split n a b : a <= b -> seq n (b - n) = seq n (a - n) ++ seq a (b - a) \/ a < n.
Proof.
  intro H. destruct (le_lt_dec n a) as [L|L]; [left|right; exact L].
  replace (b - n) with ((a - n) + (b - a)) by lia. rewrite seq_app. do 2 f_equal. lia.
Qed.

(* C07.1b : the tags assigned by tag_ids are exactly n, n+1, ..., n'-1, in pre-order: they are
   pairwise distinct numbers of [n, n') and every object gets one *)
Theorem tag_ids_ids v : forall n, no_reserved v ->
  n <= snd (tag_ids v n) /\
  obj_ids (fst (tag_ids v n)) = map f_of_nat (seq n (snd (tag_ids v n) - n)).
Proof.
  induction v as [v Hv|l IH|m IH] using value_ind'; intros n NR.
  - rewrite tag_ids_scalar by exact Hv. cbn [fst snd]. rewrite Nat.sub_diag.
    split; [lia|]. destruct v; try contradiction; reflexivity.
  - rewrite tag_ids_arr'. cbn [fst snd]. rewrite obj_ids_arr.
    unfold no_reserved in NR. rewrite no_reservedb_arr in NR.
    revert n. induction l as [|x r IHr]; intro n.
    + cbn. rewrite Nat.sub_diag. split; [lia|reflexivity].
    + inversion IH as [|? ? Hx Hr]; subst. cbn [forallb] in NR. apply andb_true_iff in NR as [N1 N2].
      rewrite tag_list_cons. cbn [fst snd flat_map].
      destruct (Hx n N1) as [L1 E1]. destruct (IHr Hr N2 (snd (tag_ids x n))) as [L2 E2].
      split; [lia|]. rewrite E1, E2, <- map_app. f_equal.
      destruct (seq_split n (snd (tag_ids x n)) (snd (tag_list r (snd (tag_ids x n)))) L2) as [E|E];
        [exact (eq_sym E)|lia].
  - rewrite tag_ids_obj'. cbn [fst snd]. rewrite obj_ids_obj.
    unfold obj_id at 1. rewrite assoc_get_insert. unfold vnat at 1.
    rewrite flat_map_insert_free
      by (try reflexivity; apply keys_free_tag, no_reserved_keys_free, NR).
    unfold no_reserved in NR. rewrite no_reservedb_obj in NR.
    assert (G : forall n', n' <= snd (tag_members m n') /\
                flat_map (fun kv => obj_ids (snd kv)) (fst (tag_members m n'))
                = map f_of_nat (seq n' (snd (tag_members m n') - n'))).
    { induction m as [|[k x] r IHr]; intro n'.
      - cbn. rewrite Nat.sub_diag. split; [lia|reflexivity].
      - inversion IH as [|? ? Hx Hr]; subst. cbn [forallb fst snd] in *.
        apply andb_true_iff in NR as [N1 N2]. apply andb_true_iff in N1 as [N0 N1].
        rewrite tag_members_cons. cbn [fst snd flat_map].
        destruct (Hx n' N1) as [L1 E1]. destruct (IHr Hr N2 (snd (tag_ids x n'))) as [L2 E2].
        split; [lia|]. rewrite E1, E2, <- map_app. f_equal.
        destruct (seq_split n' (snd (tag_ids x n')) (snd (tag_members r (snd (tag_ids x n')))) L2) as [E|E];
          [exact (eq_sym E)|lia]. }
    destruct (G (S n)) as [L E]. split; [lia|]. rewrite E.
    replace (snd (tag_members m (S n)) - n) with (S (snd (tag_members m (S n)) - S n)) by lia.
    reflexivity.
Qed.

Corollary tag_ids_range v n x :
  no_reserved v -> In x (obj_ids (fst (tag_ids v n))) ->
  exists i, x = f_of_nat i /\ n <= i < snd (tag_ids v n).
Proof.
  intros NR H. destruct (tag_ids_ids v n NR) as [L E]. rewrite E in H.
  apply in_map_iff in H as (i & <- & Hi). apply in_seq in Hi. exists i. split; [reflexivity|lia].
Qed.

Print Assumptions strip_tag_ids.
Print Assumptions tag_ids_ids.

(* ==================================================================================== *)
(* C. update_by_id                                                                      *)
(* ==================================================================================== *)
Section Counting.
  Context {A : Type}.
  Variables (p : f64 -> bool) (g : A -> list f64).
  Definition cnt (a : A) : nat := List.length (filter p (g a)).

  Lemma cnt_flat_cons a r :
    List.length (filter p (flat_map g (a :: r))) = cnt a + List.length (filter p (flat_map g r)).
  Proof. cbn [flat_map]. now rewrite filter_app, app_length. Qed.

  Lemma cnt_flat_zero l : List.length (filter p (flat_map g l)) = 0 -> Forall (fun a => cnt a = 0) l.
  Proof.
    induction l as [|a r IH]; intro H; [constructor|]. rewrite cnt_flat_cons in H.
    constructor; [lia|apply IH; lia].
  Qed.

  Lemma cnt_flat_one l :
    List.length (filter p (flat_map g l)) = 1 ->
    exists l1 x l2, l = l1 ++ x :: l2 /\ cnt x = 1 /\
                    Forall (fun a => cnt a = 0) l1 /\ Forall (fun a => cnt a = 0) l2.
  Proof.
    induction l as [|a r IH]; intro H; [discriminate|]. rewrite cnt_flat_cons in H.
    destruct (cnt a) as [|[|c]] eqn:Ea; try lia.
    - destruct (IH ltac:(lia)) as (l1 & x & l2 & -> & Hx & H1 & H2).
      exists (a :: l1), x, l2. repeat split; auto.
    - exists [], a, r. repeat split; auto. apply cnt_flat_zero. lia.
  Qed.
End Counting.

Lemma count_id_arr id l :
  count_id id (VArr l) = List.length (filter (fun x => feqb x id) (flat_map obj_ids l)).
Proof. unfold count_id. now rewrite obj_ids_arr. Qed.

Lemma count_id_obj id m :
  count_id id (VObj m)
  = (match obj_id m with Some x => if feqb x id then 1 else 0 | None => 0 end)
    + List.length (filter (fun x => feqb x id) (flat_map (fun kv => obj_ids (snd kv)) m)).
Proof.
  unfold count_id. rewrite obj_ids_obj, filter_app, app_length. f_equal.
  destruct (obj_id m) as [x|]; [|reflexivity]. cbn [filter]. now destruct (feqb x id).
Qed.

(* C07.2a : a tag nobody carries: nothing changes *)
Theorem update_by_id_absent id f v : count_id id v = 0 -> update_by_id id f v = v.
Proof.
  induction v as [v Hv|l IH|m IH] using value_ind'; intro C.
  - destruct v; try contradiction; reflexivity.
  - rewrite update_by_id_arr. f_equal. rewrite count_id_arr in C.
    apply (cnt_flat_zero (fun x => feqb x id) obj_ids) in C.
    induction l as [|x r IHr]; [reflexivity|].
    inversion IH; subst. inversion C; subst. cbn [map]. f_equal; auto.
  - rewrite update_by_id_obj. rewrite count_id_obj in C. cbv zeta.
    assert (E : map_values (update_by_id id f) m = m).
    { assert (C' : List.length (filter (fun x => feqb x id) (flat_map (fun kv => obj_ids (snd kv)) m)) = 0) by lia.
      apply (cnt_flat_zero (fun x => feqb x id) (fun kv : string * value => obj_ids (snd kv))) in C'.
      clear C. induction m as [|[k x] r IHr]; [reflexivity|].
      inversion IH; subst. inversion C'; subst. cbn [map_values map fst snd] in *.
      f_equal; [f_equal; auto|]. apply IHr; auto. }
    rewrite E. destruct (obj_id m) as [x|]; [|reflexivity].
    destruct (feqb x id); [lia|reflexivity].
Qed.

(* C07.2b : a tag carried by exactly one object: exactly that object changes — its member
   list becomes [f] of itself — and every other node of the tree is identical *)
Theorem update_by_id_one id f v :
  count_id id v = 1 -> changed_one id f v (update_by_id id f v).
Proof.
  induction v as [v Hv|l IH|m IH] using value_ind'; intro C.
  - destruct v; try contradiction; discriminate.
  - rewrite update_by_id_arr. rewrite count_id_arr in C.
    destruct (cnt_flat_one (fun x => feqb x id) obj_ids l C) as (l1 & x & l2 & -> & Hx & H1 & H2).
    rewrite map_app. cbn [map].
    assert (Z : forall l0, Forall (fun a => cnt (fun x => feqb x id) obj_ids a = 0) l0 ->
                           map (update_by_id id f) l0 = l0).
    { induction l0 as [|a r IHr]; intro F; [reflexivity|]. inversion F; subst. cbn [map].
      f_equal; [now apply update_by_id_absent|auto]. }
    rewrite (Z l1 H1), (Z l2 H2). apply co_arr.
    apply Forall_app in IH as [_ IH]. inversion IH; subst. auto.
  - rewrite update_by_id_obj. rewrite count_id_obj in C. cbv zeta.
    assert (Z : forall m0, Forall (fun a : string * value => cnt (fun x => feqb x id) (fun kv => obj_ids (snd kv)) a = 0) m0 ->
                           map_values (update_by_id id f) m0 = m0).
    { induction m0 as [|[k a] r IHr]; intro F; [reflexivity|]. inversion F; subst.
      cbn [map_values map fst snd] in *. f_equal; [f_equal; now apply update_by_id_absent|auto]. }
    destruct (obj_id m) as [x|] eqn:Eo; [destruct (feqb x id) eqn:Ex|].
    + (* the object itself carries the tag; nothing below does *)
      assert (C' : List.length (filter (fun x => feqb x id) (flat_map (fun kv => obj_ids (snd kv)) m)) = 0) by lia.
      apply (cnt_flat_zero (fun x => feqb x id) (fun kv : string * value => obj_ids (snd kv))) in C'.
      rewrite (Z m C'). now apply (co_here id f m x).
    + destruct (cnt_flat_one (fun x => feqb x id) (fun kv : string * value => obj_ids (snd kv)) m ltac:(lia))
        as (m1 & [k a] & m2 & -> & Hx & H1 & H2).
      unfold map_values. rewrite map_app. cbn [map fst snd]. fold (map_values (update_by_id id f) m1).
      fold (map_values (update_by_id id f) m2). rewrite (Z m1 H1), (Z m2 H2).
      apply co_obj; [|now rewrite Eo].
      apply Forall_app in IH as [_ IH]. inversion IH; subst. auto.
    + destruct (cnt_flat_one (fun x => feqb x id) (fun kv : string * value => obj_ids (snd kv)) m ltac:(lia))
        as (m1 & [k a] & m2 & -> & Hx & H1 & H2).
      unfold map_values. rewrite map_app. cbn [map fst snd]. fold (map_values (update_by_id id f) m1).
      fold (map_values (update_by_id id f) m2). rewrite (Z m1 H1), (Z m2 H2).
      apply co_obj; [|now rewrite Eo].
      apply Forall_app in IH as [_ IH]. inversion IH; subst. auto.
Qed.

(* what find_by_id returns is an object carrying the tag *)
Theorem find_by_id_carrier id v o :
  find_by_id id v = Some o -> exists m x, o = VObj m /\ obj_id m = Some x /\ feqb x id = true.
Proof.
  induction v as [v Hv|l IH|m IH] using value_ind'; intro H.
  - destruct v; try contradiction; discriminate.
  - rewrite find_by_id_arr in H. induction l as [|a r IHr]; [discriminate|].
    inversion IH; subst. cbn [find_list] in H. destruct (find_by_id id a) eqn:E.
    + inversion H; subst. auto.
    + apply IHr; auto.
  - rewrite find_by_id_obj in H.
    assert (G : find_members id m = Some o -> exists m0 x, o = VObj m0 /\ obj_id m0 = Some x /\ feqb x id = true).
    { clear H. induction m as [|[k a] r IHr]; [discriminate|].
      inversion IH; subst. cbn [find_members snd] in *. destruct (find_by_id id a) eqn:E.
      - intro H; inversion H; subst. auto.
      - apply IHr; auto. }
    destruct (obj_id m) as [x|] eqn:Eo; [destruct (feqb x id) eqn:Ex|]; auto.
    inversion H; subst. eauto.
Qed.

(* --- tags of a tagged tree are told apart by Go's float64 equality --- *)
Lemma feqb_true_cases x y :
  feqb x y = true -> x = y \/ (is_zero x = true /\ is_zero y = true).
Proof.
  unfold feqb, SpecFloat.SFeqb, SpecFloat.SFcompare.
  destruct x as [sx|sx| |sx mx ex], y as [sy|sy| |sy my ey]; try discriminate;
    try (destruct sx; discriminate); try (destruct sy; discriminate).
  - right. split; reflexivity.
  - destruct sx, sy; try discriminate; left; reflexivity.
  - destruct sx, sy; try discriminate; destruct (Z.compare ex ey) eqn:Ee; try discriminate;
      apply Z.compare_eq in Ee; subst ey;
      destruct (Pos.compare_cont Eq mx my) eqn:Em; try discriminate;
      apply Pos.compare_eq in Em; subst my; left; reflexivity.
Qed.

Lemma feqb_refl_not_nan x : is_nan x = false -> feqb x x = true.
Proof.
  destruct x as [s|s| |s m e]; try discriminate; intros _; try (destruct s; reflexivity).
  unfold feqb, SpecFloat.SFeqb, SpecFloat.SFcompare. rewrite Z.compare_refl.
  change (Pos.compare_cont Eq m m) with (Pos.compare m m). rewrite Pos.compare_refl.
  destruct s; reflexivity.
Qed.

Definition ids_inj (n : nat) : Prop :=
  forall i j, i < n -> j < n -> feqb (f_of_nat i) (f_of_nat j) = (i =? j).

Lemma ids_inj_of_int_exact n : int_exact (Z.of_nat n) -> ids_inj n.
Proof.
  intros IE i j Hi Hj.
  assert (Gi : go_int (f_of_nat i) = Z.of_nat i) by (apply IE; lia).
  assert (Gj : go_int (f_of_nat j) = Z.of_nat j) by (apply IE; lia).
  destruct (i =? j) eqn:E.
  - apply Nat.eqb_eq in E. subst j. apply feqb_refl_not_nan.
    destruct (f_of_nat i); try reflexivity. exfalso. cbn in Gi. lia.
  - apply Nat.eqb_neq in E. destruct (feqb (f_of_nat i) (f_of_nat j)) eqn:F; [|reflexivity].
    exfalso. apply feqb_true_cases in F as [F|[F1 F2]].
    + rewrite F in Gi. lia.
    + destruct (f_of_nat i); try discriminate. destruct (f_of_nat j); try discriminate.
      cbn in Gi, Gj. lia.
Qed.

Lemma count_seq_out (n' : nat) (IJ : ids_inj n') i : forall k n, n + k <= n' -> i < n' ->
  i < n \/ n + k <= i ->
  List.length (filter (fun x => feqb x (f_of_nat i)) (map f_of_nat (seq n k))) = 0.
Proof.
  induction k as [|k IH]; intros n Hn Hi Ho; [reflexivity|].
  cbn [seq map filter]. rewrite IJ by lia.
  replace (n =? i) with false by (symmetry; apply Nat.eqb_neq; lia).
  apply IH; lia.
Qed.

Lemma count_seq_in (n' : nat) (IJ : ids_inj n') i : forall k n, n + k <= n' ->
  n <= i < n + k ->
  List.length (filter (fun x => feqb x (f_of_nat i)) (map f_of_nat (seq n k))) = 1.
Proof.
  induction k as [|k IH]; intros n Hn Hi; [lia|].
  cbn [seq map filter]. rewrite IJ by lia.
  destruct (n =? i) eqn:E.
  - apply Nat.eqb_eq in E. subst i. cbn [List.length]. f_equal.
    apply (count_seq_out n' IJ); lia.
  - apply Nat.eqb_neq in E. apply IH; lia.
Qed.

(* C07.2c : in a freshly tagged tree every tag of [n, n') is carried by exactly one object, so
   an update by tag rewrites exactly one object *)
Theorem update_tagged_exactly_one v n i f :
  no_reserved v -> int_exact (Z.of_nat (snd (tag_ids v n))) ->
  n <= i < snd (tag_ids v n) ->
  count_id (f_of_nat i) (fst (tag_ids v n)) = 1 /\
  changed_one (f_of_nat i) f (fst (tag_ids v n)) (update_by_id (f_of_nat i) f (fst (tag_ids v n))).
Proof.
  intros NR IE Hi.
  assert (C : count_id (f_of_nat i) (fst (tag_ids v n)) = 1).
  { unfold count_id. destruct (tag_ids_ids v n NR) as [L E]. rewrite E.
    apply (count_seq_in _ (ids_inj_of_int_exact _ IE)); lia. }
  split; [exact C|]. now apply update_by_id_one.
Qed.

(* the same with the side condition spelled out: fewer than 2^53 objects *)
Corollary update_tagged_exactly_one_bounded v n i f :
  no_reserved v -> (Z.of_nat (snd (tag_ids v n)) < 2 ^ 53)%Z ->
  n <= i < snd (tag_ids v n) ->
  count_id (f_of_nat i) (fst (tag_ids v n)) = 1 /\
  changed_one (f_of_nat i) f (fst (tag_ids v n)) (update_by_id (f_of_nat i) f (fst (tag_ids v n))).
Proof. intros NR B Hi. apply update_tagged_exactly_one; auto. now apply int_exact_small. Qed.

Print Assumptions update_by_id_absent.
Print Assumptions update_by_id_one.
Print Assumptions update_tagged_exactly_one_bounded.
Print Assumptions update_tagged_exactly_one.

(* ==================================================================================== *)
(* D. the transform                                                                     *)
(* ==================================================================================== *)
(* one selected item: evaluate the update and delete clauses with the current state of the
   object as context, apply them to the object carrying the item's tag *)
Definition transform_step (ev : node -> ovalue -> nat -> M ovalue) (upd : node) (del : option node)
           (tenv : nat) (tree : value) (item : value) : M value :=
  match item with
  | VObj im =>
      match obj_id im with
      | None =>            (* an object that is not part of the copy *)
          u <- ev upd (Some (strip_ids item)) tenv ;;
          item1 <-
            match u with
            | None => ret item
            | Some (VObj um) => ret (VObj (fold_left (fun d kv => obj_insert (fst kv) (snd kv) d) um im))
            | Some _ => fail (EEval ErrIllegalUpdate)
            end ;;
          match del with
          | None => ret tree
          | Some dn =>
              d <- ev dn (Some (strip_ids item1)) tenv ;;
              if all_strings (arrayify d) then ret tree
              else fail (EEval ErrIllegalDelete)
          end
      | Some id =>
          let cur := match find_by_id id tree with Some c => c | None => item end in
          u <- ev upd (Some (strip_ids cur)) tenv ;;
          tree1 <-
            match u with
            | None => ret tree
            | Some (VObj um) =>
                ret (update_by_id id (fun m => fold_left (fun d kv => obj_insert (fst kv) (snd kv) d) um m) tree)
            | Some _ => fail (EEval ErrIllegalUpdate)
            end ;;
          match del with
          | None => ret tree1
          | Some dn =>
              let cur1 := match find_by_id id tree1 with Some c => c | None => item end in
              d <- ev dn (Some (strip_ids cur1)) tenv ;;
              let ds := arrayify d in
              if all_strings ds then
                ret (update_by_id id (fun m => fold_left (fun d k => obj_remove k d) (somes (map str_of ds)) m) tree1)
              else fail (EEval ErrIllegalDelete)
          end
      end
  | _ => ret tree
  end.

Section Transform.
  Variables (fm : f64 -> string) (rx : string -> string -> option (list (list (Z * Z))))
            (pw : f64 -> f64 -> option f64) (xl : string -> list carg -> option (lres ovalue)).
  Notation eval' := (eval fm rx pw xl).
  Notation call' := (call fm rx pw xl).

  (* transformationCallable.Call *)
  Lemma call_transform_eq f pat upd del tenv nm ctx argv :
    call' (S f) (CTransform pat upd del tenv) nm ctx argv
    = match argv with
      | [a] =>
          match a with
          | Some (VObj _) | Some (VArr _) | None => ret tt
          | Some _ => fail (EArgType "transform" 1)
          end ;;;
          match a with
          | None => ret None
          | Some orig =>
              if negb (value_finite orig) then fail (EEval ErrClone) else
              let '(tagged, _) := tag_ids (defunc orig) 0 in
              items <- eval' f pat (Some tagged) tenv ;;
              result <- foldM (transform_step (eval' f) upd del tenv) tagged (arrayify items) ;;
              ret (Some (strip_ids result))
          end
      | _ => fail (EArgCount "transform")
      end.
  Proof. reflexivity. Qed.

  (* --- argument errors --- *)
  Theorem C07_transform_arg_count f pat upd del tenv nm ctx argv w :
    List.length argv <> 1 ->
    call' (S f) (CTransform pat upd del tenv) nm ctx argv w = Err (EArgCount "transform").
  Proof.
    intro H. rewrite call_transform_eq. destruct argv as [|a [|b r]]; try reflexivity.
    exfalso. apply H. reflexivity.
  Qed.

  Theorem C07_transform_arg_type f pat upd del tenv nm ctx v w :
    match v with VObj _ | VArr _ => False | _ => True end ->
    call' (S f) (CTransform pat upd del tenv) nm ctx [Some v] w = Err (EArgType "transform" 1).
  Proof. intro H. rewrite call_transform_eq. destruct v; try contradiction; reflexivity. Qed.

  Theorem C07_transform_undefined f pat upd del tenv nm ctx w :
    call' (S f) (CTransform pat upd del tenv) nm ctx [None] w = Ok None w.
  Proof. reflexivity. Qed.

  Theorem C07_transform_not_finite f pat upd del tenv nm ctx v w :
    match v with VObj _ | VArr _ => True | _ => False end -> value_finite v = false ->
    call' (S f) (CTransform pat upd del tenv) nm ctx [Some v] w = Err (EEval ErrClone).
  Proof.
    intros H F. rewrite call_transform_eq. destruct v; try contradiction;
      unfold bind at 1; unfold ret at 1; rewrite F; reflexivity.
  Qed.

  (* the body once the argument checks have passed *)
  Lemma call_transform_body f pat upd del tenv nm ctx v w :
    match v with VObj _ | VArr _ => True | _ => False end -> value_finite v = true ->
    call' (S f) (CTransform pat upd del tenv) nm ctx [Some v] w
    = (items <- eval' f pat (Some (fst (tag_ids (defunc v) 0))) tenv ;;
       result <- foldM (transform_step (eval' f) upd del tenv) (fst (tag_ids (defunc v) 0)) (arrayify items) ;;
       ret (Some (strip_ids result))) w.
  Proof.
    intros H F. rewrite call_transform_eq.
    destruct v; try contradiction; unfold bind at 1; unfold ret at 1; rewrite F; cbn [negb];
      destruct (tag_ids _ 0); reflexivity.
  Qed.

  (* items that are not objects leave the copy alone *)
  Lemma transform_fold_nonobjects ev upd del tenv tree items w :
    Forall (fun it => is_object it = false) items ->
    foldM (transform_step ev upd del tenv) tree items w = Ok tree w.
  Proof.
    induction 1 as [|it r Hit Hr IH]; [reflexivity|].
    cbn [foldM]. unfold bind. destruct it; try discriminate; exact IH.
  Qed.

  Lemma defunc_no_reserved v : no_reserved v -> no_reserved (defunc v).
  Proof.
    unfold no_reserved. induction v as [v Hv|l IH|m IH] using value_ind'; intro H.
    - destruct v; try contradiction; reflexivity.
    - rewrite defunc_arr, no_reservedb_arr. rewrite no_reservedb_arr in H.
      induction l as [|x r IHr]; [reflexivity|]. inversion IH as [|? ? Hx Hr]; subst. cbn [map forallb] in *.
      apply andb_true_iff in H as [H1 H2]. apply andb_true_iff. split; auto.
    - rewrite defunc_obj, no_reservedb_obj. rewrite no_reservedb_obj in H.
      induction m as [|[k x] r IHr]; [reflexivity|]. inversion IH as [|? ? Hx Hr]; subst.
      cbn [map_values map forallb fst snd] in *.
      apply andb_true_iff in H as [H1 H2]. apply andb_true_iff in H1 as [H0 H1].
      apply andb_true_iff. split; [apply andb_true_iff; split; auto|]. apply IHr; auto.
  Qed.

  Lemma defunc_no_funcs v : no_funcs v -> defunc v = v.
  Proof.
    unfold no_funcs. induction v as [v Hv|l IH|m IH] using value_ind'; intro H.
    - destruct v; try contradiction; try reflexivity. discriminate.
    - rewrite defunc_arr. f_equal. rewrite no_funcsb_arr in H.
      induction l as [|x r IHr]; [reflexivity|]. inversion IH as [|? ? Hx Hr]; subst. cbn [map forallb] in *.
      apply andb_true_iff in H as [H1 H2]. f_equal; auto.
    - rewrite defunc_obj. f_equal. rewrite no_funcsb_obj in H.
      induction m as [|[k x] r IHr]; [reflexivity|]. inversion IH as [|? ? Hx Hr]; subst.
      cbn [map_values map forallb fst snd] in *.
      apply andb_true_iff in H as [H1 H2]. f_equal; [f_equal; auto|]. apply IHr; auto.
  Qed.

  (* C07.3 : when the pattern selects nothing — or only values that are not objects — the
     result is the JSON clone of the argument: everything is equal to the original *)
  Theorem C07_transform_copy f pat upd del tenv nm ctx v w items w' :
    match v with VObj _ | VArr _ => True | _ => False end -> value_finite v = true ->
    no_reserved v ->
    eval' f pat (Some (fst (tag_ids (defunc v) 0))) tenv w = Ok items w' ->
    Forall (fun it => is_object it = false) (arrayify items) ->
    call' (S f) (CTransform pat upd del tenv) nm ctx [Some v] w = Ok (Some (defunc v)) w'.
  Proof.
    intros Hs Hf NR Hp Hitems. rewrite call_transform_body by assumption.
    unfold bind at 1. rewrite Hp. unfold bind at 1.
    rewrite transform_fold_nonobjects by exact Hitems.
    unfold ret. rewrite strip_tag_ids by (apply defunc_no_reserved, NR). reflexivity.
  Qed.

  Corollary C07_transform_copy_nothing f pat upd del tenv nm ctx v w w' :
    match v with VObj _ | VArr _ => True | _ => False end -> value_finite v = true ->
    no_reserved v -> no_funcs v ->
    eval' f pat (Some (fst (tag_ids v 0))) tenv w = Ok None w' ->
    call' (S f) (CTransform pat upd del tenv) nm ctx [Some v] w = Ok (Some v) w'.
  Proof.
    intros Hs Hf NR NF Hp.
    rewrite <- (defunc_no_funcs v NF) at 2.
    apply (C07_transform_copy f pat upd del tenv nm ctx v w None w'); auto.
    - now rewrite (defunc_no_funcs v NF).
    - constructor.
  Qed.

  (* --- illegal update / delete: the first selected object of the copy --- *)
  Theorem C07_transform_illegal_update f pat upd del tenv nm ctx v w items w1 im id rest u w2 :
    match v with VObj _ | VArr _ => True | _ => False end -> value_finite v = true ->
    let tagged := fst (tag_ids (defunc v) 0) in
    eval' f pat (Some tagged) tenv w = Ok items w1 ->
    arrayify items = VObj im :: rest -> obj_id im = Some id ->
    eval' f upd (Some (strip_ids (match find_by_id id tagged with Some c => c | None => VObj im end))) tenv w1
    = Ok (Some u) w2 ->
    is_object u = false ->
    call' (S f) (CTransform pat upd del tenv) nm ctx [Some v] w = Err (EEval ErrIllegalUpdate).
  Proof.
    intros Hs Hf tagged Hp Hitems Hid Hu Hobj. rewrite call_transform_body by assumption.
    fold tagged. unfold bind at 1. rewrite Hp. unfold bind at 1. rewrite Hitems.
    cbn [foldM]. unfold bind at 1. unfold transform_step at 1. rewrite Hid. cbv zeta.
    unfold bind at 1. rewrite Hu. unfold bind at 1.
    destruct u; try discriminate; reflexivity.
  Qed.

  Theorem C07_transform_illegal_delete f pat upd dn tenv nm ctx v w items w1 im id rest w2 d w3 :
    match v with VObj _ | VArr _ => True | _ => False end -> value_finite v = true ->
    let tagged := fst (tag_ids (defunc v) 0) in
    eval' f pat (Some tagged) tenv w = Ok items w1 ->
    arrayify items = VObj im :: rest -> obj_id im = Some id ->
    (* the update clause yields no value, so the tree is unchanged when the delete clause runs *)
    eval' f upd (Some (strip_ids (match find_by_id id tagged with Some c => c | None => VObj im end))) tenv w1
    = Ok None w2 ->
    eval' f dn (Some (strip_ids (match find_by_id id tagged with Some c => c | None => VObj im end))) tenv w2
    = Ok d w3 ->
    all_strings (arrayify d) = false ->
    call' (S f) (CTransform pat upd (Some dn) tenv) nm ctx [Some v] w = Err (EEval ErrIllegalDelete).
  Proof.
    intros Hs Hf tagged Hp Hitems Hid Hu Hd Hstr. rewrite call_transform_body by assumption.
    fold tagged. unfold bind at 1. rewrite Hp. unfold bind at 1. rewrite Hitems.
    cbn [foldM]. unfold bind at 1. unfold transform_step at 1. rewrite Hid. cbv zeta.
    unfold bind at 1. rewrite Hu. unfold bind at 1. unfold ret at 1.
    unfold bind at 1. rewrite Hd. rewrite Hstr. reflexivity.
  Qed.
End Transform.

Print Assumptions C07_transform_copy.
Print Assumptions C07_transform_illegal_update.
Print Assumptions C07_transform_illegal_delete.

(* ==================================================================================== *)
(* E. the input is returned unchanged                                                   *)
(* ==================================================================================== *)
Section Immutable.
  Variables (fm : f64 -> string) (rx : string -> string -> option (list (list (Z * Z))))
            (pw : f64 -> f64 -> option f64) (xl : string -> list carg -> option (lres ovalue)).
  Notation eval' := (eval fm rx pw xl).
  Notation call' := (call fm rx pw xl).

  (*  $ ~> | pat | upd, del |   applies the transform to the context value *)
  Lemma eval_apply_transform_eq f pat upd del v env w :
    match v with VObj _ | VArr _ => True | _ => False end ->
    eval' (S (S f)) (NApply (NVariable "") (NTransform pat upd del)) (Some v) env w
    = call' (S f) (CTransform pat upd del env) None None [Some v] w.
  Proof. intro H. destruct v; try contradiction; reflexivity. Qed.

  (* C07.4 : in the model [eval] cannot modify its input (it is a function of it).  The
     non-trivial content: a transform applied to the input itself works on a tagged CLONE and,
     when its pattern selects nothing, hands back a value equal to the input — for every
     JSON input (finite numbers, no functions, the reserved key unused) *)
  Theorem C07_input_immutable f pat upd del v env w w' :
    match v with VObj _ | VArr _ => True | _ => False end ->
    value_finite v = true -> no_reserved v -> no_funcs v ->
    eval' f pat (Some (fst (tag_ids v 0))) env w = Ok None w' ->
    eval' (S (S f)) (NApply (NVariable "") (NTransform pat upd del)) (Some v) env w = Ok (Some v) w'.
  Proof.
    intros Hs Hf NR NF Hp. rewrite eval_apply_transform_eq by exact Hs.
    now apply C07_transform_copy_nothing.
  Qed.
End Immutable.

Print Assumptions C07_input_immutable.

(* ==================================================================================== *)
(* Examples                                                                             *)
(* ==================================================================================== *)
Definition c07_fm (x : f64) : string := EmptyString.
Definition c07_rx (a b : string) : option (list (list (Z * Z))) := None.
Definition c07_pw (x y : f64) : option f64 := None.
Definition c07_xl (n : string) (a : list carg) : option (lres ovalue) := None.
Definition c07_w0 : world := mkWorld [mkFrame None []].
Definition num (z : Z) : value := VNum (f_of_Z z).

(* {"a": {"x": 1}, "l": [{"y": 2}, 3]} *)
Definition c07_doc : value :=
  VObj [("a", VObj [("x", num 1)]); ("l", VArr [VObj [("y", num 2)]; num 3])]%string.

Example c07_doc_ok :
  value_finite c07_doc = true /\ no_reserved c07_doc /\ no_funcs c07_doc.
Proof. repeat split; reflexivity. Qed.

Example c07_tag_strip : strip_ids (fst (tag_ids c07_doc 5)) = c07_doc /\ snd (tag_ids c07_doc 5) = 8.
Proof. split; vm_compute; reflexivity. Qed.

Example c07_ids : obj_ids (fst (tag_ids c07_doc 5)) = [f_of_nat 5; f_of_nat 6; f_of_nat 7].
Proof. vm_compute. reflexivity. Qed.

(*  $ ~> |zzz|{"b": 2}|   selects nothing: the input comes back *)
Example c07_nothing_selected :
  eval c07_fm c07_rx c07_pw c07_xl 8
       (NApply (NVariable "") (NTransform (NName "zzz" false) (NObject [(NString "b", NNumber (f_of_Z 2))]) None))
       (Some c07_doc) 0 c07_w0
  = Ok (Some c07_doc) c07_w0.
Proof. vm_compute. reflexivity. Qed.

(*  $ ~> |a|{"b": 2}, "x"|   rewrites exactly the object under "a" *)
Example c07_update_delete :
  exists w,
  eval c07_fm c07_rx c07_pw c07_xl 8
       (NApply (NVariable "")
               (NTransform (NName "a" false) (NObject [(NString "b", NNumber (f_of_Z 2))]) (Some (NString "x"))))
       (Some c07_doc) 0 c07_w0
  = Ok (Some (VObj [("a", VObj [("b", num 2)]); ("l", VArr [VObj [("y", num 2)]; num 3])]%string)) w.
Proof. eexists. vm_compute. reflexivity. Qed.

(*  $ ~> |a|3|   an update that is not an object *)
Example c07_illegal_update :
  eval c07_fm c07_rx c07_pw c07_xl 8
       (NApply (NVariable "") (NTransform (NName "a" false) (NNumber (f_of_Z 3)) None))
       (Some c07_doc) 0 c07_w0
  = Err (EEval ErrIllegalUpdate).
Proof. vm_compute. reflexivity. Qed.

(*  $ ~> |a|{}, 3|   deletes that are not strings *)
Example c07_illegal_delete :
  eval c07_fm c07_rx c07_pw c07_xl 8
       (NApply (NVariable "") (NTransform (NName "a" false) (NObject []) (Some (NNumber (f_of_Z 3)))))
       (Some c07_doc) 0 c07_w0
  = Err (EEval ErrIllegalDelete).
Proof. vm_compute. reflexivity. Qed.
