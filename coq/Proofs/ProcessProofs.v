(* Proofs/ProcessProofs.v — properties C05 (evaluation is repeatable, the compiled expression is
   unchanged) and C06 (concurrent evaluations are isolated), proved about the model.

   STATE OF THE CODE.  As found, jsonata-go kept two pieces of state that outlived an evaluation:
   the argument list of a parsed call node (overwritten in place by the chain operator) and the
   name/context cells of the process-wide built-in callables (written on every call).  Both have
   been repaired: evaluation no longer writes anything that outlives it.  Accordingly the model
   has NO shared cells:
     - [eval] (Model/Eval.v) has type
         oracles -> fuel -> node -> ovalue -> nat -> world -> res ovalue
       the syntax tree and the input are ARGUMENTS, not state - they are unchanged by
       construction - and the [world] holds only the frames of THIS evaluation, created by
       [initial_world] (Model/Top.v) and discarded when [run_eval] returns;
     - the only state between evaluations is [proc] (Model/Process.v): the package-level
       registry and, per compiled expression, its registry.  An evaluation only READS it
       ([OpResolve]: the lookup of a registered $name).
   So for the model the content of C05/C06 is (i) the type of [eval]/[run_eval], recorded below
   as [C05_eval_deterministic]/[C05_run_eval_deterministic], and (ii) theorems about [proc]:
   evaluations do not change it ([resolve_readonly]), what an evaluation of e reads can only be
   changed by a registration on e itself ([registry_of_e_stable], [C05_repeatable]), and steps of
   different threads commute / can be deleted without changing what the others observe
   ([C06_eval_commutes], [resolves_do_not_interfere], [C06_isolated]).

   What the model cannot express (and is covered by the -race harness instead): the Go memory
   model, goroutine scheduling below the granularity of one registry operation, and the mutex
   discipline of updateGlobalRegistry/Compile - here each [op] is atomic.

   No axioms: every [Print Assumptions] reports "Closed under the global context". *)
From Coq Require Import Lia ZifyBool ZifyNat.
From JV Require Import Model.Process Model.Eval Model.Top Spec.C20 Proofs.C20Proofs.
Local Open Scope nat_scope.
Local Open Scope list_scope.

(* ------------------------------------------------------------------------------------------ *)
(** * C05: repeatability *)

(* an evaluation does not change the process state *)
Theorem resolve_readonly b p e name : fst (proc_step b p (OpResolve e name)) = p.
Proof. cbn [proc_step]. now destruct (nth_error (p_exprs p) e). Qed.
Print Assumptions resolve_readonly.

(* its observation is a function of the state of expression e alone *)
Lemma resolve_depends_on_expr b p p' e name :
  expr_of p e = expr_of p' e ->
  snd (proc_step b p (OpResolve e name)) = snd (proc_step b p' (OpResolve e name)).
Proof.
  unfold expr_of. intro H. cbn [proc_step]. rewrite H. now destruct (nth_error (p_exprs p') e).
Qed.

Lemma not_registers_own_vals e o : ~ registers_on e o -> own_vals e o = [].
Proof.
  intro H. destruct o as [vals ok|src|e' vals ok|e' name]; cbn [own_vals]; try reflexivity.
  destruct ok; [|reflexivity]. destruct (Nat.eqb e' e) eqn:E; [|reflexivity].
  apply Nat.eqb_eq in E. subst e'. exfalso. apply H. now exists vals.
Qed.

Lemma no_registration_owns e ops : Forall (fun o => ~ registers_on e o) ops -> owns e ops = [].
Proof.
  induction 1 as [|o r Ho _ IH]; [reflexivity|].
  now rewrite owns_cons, IH, (not_registers_own_vals e o Ho).
Qed.

(* once e is compiled, only a successful RegisterExpr on e changes it: every other operation -
   evaluations of e or of other expressions, Compile, package-level registration, registrations
   on other expressions, rejected registrations - leaves it exactly as it is *)
Theorem registry_of_e_stable b p e ex ops :
  expr_of p e = Some ex ->
  Forall (fun o => ~ registers_on e o) ops ->
  expr_of (final b p ops) e = Some ex.
Proof.
  intros He Hno. rewrite (final_existing b e ops p ex He), (no_registration_owns e ops Hno).
  now rewrite reg_update_nil, expr_eta.
Qed.
Print Assumptions registry_of_e_stable.

(* the observation of an evaluation of e after [h1 ++ h2] is its observation after [h1], whatever
   h2 contains other than a registration on e: any number of evaluations of e and of other
   expressions, in particular *)
Theorem C05_repeatable b p h1 h2 e name :
  expr_of (final b p h1) e <> None ->                    (* e has been compiled *)
  Forall (fun o => ~ registers_on e o) h2 ->
  snd (proc_step b (final b p (h1 ++ h2)) (OpResolve e name)) =
  snd (proc_step b (final b p h1) (OpResolve e name)).
Proof.
  intros He Hno. apply resolve_depends_on_expr. rewrite final_app.
  destruct (expr_of (final b p h1) e) as [ex|] eqn:E; [|contradiction].
  now apply registry_of_e_stable.
Qed.
Print Assumptions C05_repeatable.

Lemma nth_error_split_at {A} : forall (l : list A) k x,
  nth_error l k = Some x -> l = firstn k l ++ x :: skipn (S k) l /\ List.length (firstn k l) = k.
Proof.
  induction l as [|a l IH]; intros [|k] x H; try discriminate.
  - inversion H. split; reflexivity.
  - cbn [nth_error] in H. destruct (IH k x H) as [E L]. cbn [firstn skipn app List.length].
    split; [now f_equal | now rewrite L].
Qed.

(* ... and every evaluation of e INSIDE h2 observes that same thing: all of them agree *)
Corollary C05_repeatable_all b p h1 h2 e name k :
  expr_of (final b p h1) e <> None ->
  Forall (fun o => ~ registers_on e o) h2 ->
  nth_error h2 k = Some (OpResolve e name) ->
  nth_error (observations b p (h1 ++ h2)) (List.length h1 + k) =
  Some (snd (proc_step b (final b p h1) (OpResolve e name))).
Proof.
  intros He Hno Hk. destruct (nth_error_split_at h2 k _ Hk) as [Es Lk].
  set (a := firstn k h2) in *. set (c := skipn (S k) h2) in *.
  rewrite Es in Hno. apply Forall_app in Hno as [Ha _].
  rewrite Es, app_assoc. replace (List.length h1 + k) with (List.length (h1 ++ a))
    by (rewrite app_length; lia).
  rewrite observation_at. f_equal. now apply C05_repeatable.
Qed.

(* The evaluator.  [eval] and [run_eval] are FUNCTIONS: equal oracles, fuel, tree, input,
   environment index and initial world give equal results.  These two statements are trivial,
   and that is the point: the tree [n] and the input are arguments, so "the compiled expression
   is unchanged by evaluation" holds by construction (there is nothing an evaluation could
   change), and no evaluation can depend on an earlier one except through [proc], which
   [resolve_readonly] covers.  The sanctioned variation of C05 is explicit in the arguments:
   the clock is [clock] (constant within one evaluation: [initial_world] binds it once),
   $random/$shuffle and regular expressions come from the oracle table. *)
Theorem C05_eval_deterministic
        (fmt fmt' : f64 -> string) (rx rx' : string -> string -> option (list (list (Z * Z))))
        (pw pw' : f64 -> f64 -> option f64) (xl xl' : string -> list carg -> option (lres ovalue))
        (fuel fuel' : nat) (n n' : node) (input input' : ovalue) (env env' : nat) (w w' : world) :
  fmt = fmt' -> rx = rx' -> pw = pw' -> xl = xl' -> fuel = fuel' -> n = n' -> input = input' ->
  env = env' -> w = w' ->
  eval fmt rx pw xl fuel n input env w = eval fmt' rx' pw' xl' fuel' n' input' env' w'.
Proof. intros; subst; reflexivity. Qed.

Theorem C05_run_eval_deterministic xlib xlib' tbl tbl' fuel fuel' n n' input input' clock clock' :
  xlib = xlib' -> tbl = tbl' -> fuel = fuel' -> n = n' -> input = input' -> clock = clock' ->
  run_eval xlib tbl fuel n input clock = run_eval xlib' tbl' fuel' n' input' clock'.
Proof. intros; subst; reflexivity. Qed.
Print Assumptions C05_eval_deterministic.
Print Assumptions C05_run_eval_deterministic.

(* a history of evaluations only - of any expressions, existing or not - leaves the whole process
   state as it was *)
Theorem evaluations_readonly b h : forall p,
  Forall (fun o => is_resolve o = true) h -> final b p h = p.
Proof.
  induction h as [|o r IH]; intros p H; [reflexivity|].
  inversion H as [|o' r' Ho Hr]; subst. rewrite final_cons.
  destruct o as [vals ok|src|e vals ok|e name]; try discriminate.
  rewrite resolve_readonly. now apply IH.
Qed.

Corollary C05_evaluations_only b p h1 h2 e name :
  expr_of (final b p h1) e <> None ->
  Forall (fun o => is_resolve o = true) h2 ->
  snd (proc_step b (final b p (h1 ++ h2)) (OpResolve e name)) =
  snd (proc_step b (final b p h1) (OpResolve e name)).
Proof. intros _ H. now rewrite final_app, evaluations_readonly. Qed.

(* three evaluations of expression 0 interleaved with evaluations of expression 1, a Compile, a
   package-level registration and a registration on expression 1: all evaluations of 0 agree *)
Example C05_repeatable_example :
  let h1 := [OpRegisterGlobal [("f", 1)] true; OpCompile 7; OpCompile 8; OpRegisterExpr 0 [("g", 2)] true] in
  let h2 := [OpResolve 0 "g"; OpResolve 1 "g"; OpRegisterExpr 1 [("g", 3)] true; OpResolve 0 "g";
             OpRegisterGlobal [("g", 4)] true; OpCompile 9; OpResolve 1 "g"; OpResolve 2 "g";
             OpResolve 0 "g"] in
  expr_of (final is_builtin_name proc_init h1) 0 <> None /\
  Forall (fun o => ~ registers_on 0 o) h2 /\
  observations is_builtin_name proc_init (h1 ++ h2) =
    [ONone; ONone; ONone; ONone;
     OResolved (RRegistered 2); OResolved RUnbound; ONone; OResolved (RRegistered 2);
     ONone; ONone; OResolved (RRegistered 3); OResolved (RRegistered 4); OResolved (RRegistered 2)].
Proof.
  cbv zeta. split; [vm_compute; discriminate|]. split; [|vm_compute; reflexivity].
  repeat constructor; intros (vals & H); discriminate.
Qed.

(* ------------------------------------------------------------------------------------------ *)
(** * C06: concurrent evaluations *)

(** ** executions *)

Lemma upd_nth (ts : list (list op)) : forall i x y,
  nth_error ts i = Some x ->
  forall j, nth j (firstn i ts ++ y :: skipn (S i) ts) [] = if Nat.eqb j i then y else nth j ts [].
Proof.
  induction ts as [|a ts IH]; intros [|i] x y H; try discriminate.
  - intros [|j]; reflexivity.
  - cbn [nth_error] in H. intros [|j]; [reflexivity|].
    change (nth j (firstn i ts ++ y :: skipn (S i) ts) [] = if Nat.eqb j i then y else nth j ts []).
    exact (IH i x y H j).
Qed.

Lemma upd_length (ts : list (list op)) : forall i x y,
  nth_error ts i = Some x -> List.length (firstn i ts ++ y :: skipn (S i) ts) = List.length ts.
Proof.
  induction ts as [|a ts IH]; intros [|i] x y H; try discriminate.
  - reflexivity.
  - cbn [nth_error] in H.
    change (S (List.length (firstn i ts ++ y :: skipn (S i) ts)) = S (List.length ts)).
    now rewrite (IH i x y H).
Qed.

Lemma thread_proj_cons i s l :
  thread_proj i (s :: l) = if Nat.eqb (fst s) i then snd s :: thread_proj i l else thread_proj i l.
Proof. unfold thread_proj. cbn [filter]. now destruct (Nat.eqb (fst s) i). Qed.

(* an interleaving preserves every thread's program order: the steps of thread i, in order, are
   exactly thread i's operations *)
Theorem interleaving_proj ts l :
  interleaving ts l ->
  (forall i, thread_proj i l = nth i ts []) /\ Forall (fun s => fst s < List.length ts) l.
Proof.
  induction 1 as [ts Hall | ts i o rest ts' l Hi Hts' _ [IH1 IH2]].
  - split; [|constructor]. intro i. cbn. rewrite Forall_forall in Hall.
    destruct (nth_in_or_default i ts []) as [Hin|Hd]; [|now rewrite Hd].
    symmetry. now apply Hall.
  - subst ts'. split.
    + intro j. rewrite thread_proj_cons. cbn [fst snd]. rewrite IH1, (upd_nth ts i _ rest Hi j).
      rewrite (Nat.eqb_sym j i). destruct (Nat.eqb i j) eqn:E; [|reflexivity].
      apply Nat.eqb_eq in E. subst j. symmetry. now apply nth_error_nth with (d := []) in Hi.
    + rewrite (upd_length ts i _ rest Hi) in IH2. constructor; [|exact IH2].
      cbn [fst]. apply nth_error_Some. congruence.
Qed.

(* conversely, every sequence of steps with these projections is an interleaving: the inductive
   definition describes all schedules, not some of them *)
Theorem interleaving_complete : forall l ts,
  (forall i, thread_proj i l = nth i ts []) -> Forall (fun s => fst s < List.length ts) l ->
  interleaving ts l.
Proof.
  induction l as [|[i o] r IH]; intros ts Hp Hb.
  - constructor. apply Forall_forall. intros t Hin.
    destruct (In_nth ts t [] Hin) as (j & _ & Hj). now rewrite <- Hj, <- (Hp j).
  - inversion Hb as [|s l' Hi Hb']; subst. cbn [fst] in Hi.
    pose proof (Hp i) as Hpi. rewrite thread_proj_cons in Hpi. cbn [fst snd] in Hpi.
    rewrite Nat.eqb_refl in Hpi.
    assert (Hn : nth_error ts i = Some (o :: thread_proj i r)).
    { rewrite Hpi. now apply nth_error_nth'. }
    eapply il_step; [exact Hn | reflexivity|]. apply IH.
    + intro j. rewrite (upd_nth ts i _ (thread_proj i r) Hn j).
      destruct (Nat.eqb j i) eqn:E.
      * apply Nat.eqb_eq in E. now subst j.
      * pose proof (Hp j) as Hpj. rewrite thread_proj_cons in Hpj. cbn [fst snd] in Hpj.
        rewrite (Nat.eqb_sym i j), E in Hpj. exact Hpj.
    + rewrite (upd_length ts i _ (thread_proj i r) Hn). exact Hb'.
Qed.

(** ** adjacent steps commute *)

(* the only operations that can change what an evaluation of e observes *)
Definition disturbs (p : proc) (o : op) (e : nat) : Prop :=
  match o with
  | OpRegisterExpr e' _ true => e' = e                (* a successful registration on e itself *)
  | OpCompile _ => e = List.length (p_exprs p)         (* the Compile that creates e *)
  | _ => False
  end.
Definition conflicts (p : proc) (o1 o2 : op) : Prop :=
  exists e name, (o1 = OpResolve e name /\ disturbs p o2 e) \/ (o2 = OpResolve e name /\ disturbs p o1 e).

Lemma step_keeps_expr b p o e : ~ disturbs p o e -> expr_of (fst (proc_step b p o)) e = expr_of p e.
Proof.
  intro H.
  assert (Hown : own_vals e o = []).
  { destruct o as [vals ok|src|e' vals ok|e' name]; cbn [own_vals]; try reflexivity.
    destruct ok; [|reflexivity]. cbn [disturbs] in H. apply Nat.eqb_neq in H. now rewrite H. }
  destruct (expr_of p e) as [ex|] eqn:E.
  - rewrite (step_existing b p o e ex E), Hown. now rewrite reg_update_nil, expr_eta.
  - unfold expr_of in *. apply nth_error_None. apply nth_error_None in E.
    rewrite step_length. destruct o as [vals ok|src|e' vals ok|e' name]; cbn [is_compile]; try lia.
    cbn [disturbs] in H. lia.
Qed.

(* Swapping two adjacent steps, at least one of which is an evaluation, changes neither the
   resulting process state nor what either step observes - unless one is an evaluation of e and
   the other a successful registration on e (or the Compile that creates e). *)
Theorem C06_eval_commutes b p o1 o2 :
  is_resolve o1 = true \/ is_resolve o2 = true ->
  ~ conflicts p o1 o2 ->
  let s1 := proc_step b p o1 in let s12 := proc_step b (fst s1) o2 in
  let s2 := proc_step b p o2 in let s21 := proc_step b (fst s2) o1 in
  fst s12 = fst s21 /\ snd s1 = snd s21 /\ snd s12 = snd s2.
Proof.
  cbv zeta. intros Hres Hnc.
  assert (Case : forall e name o, ~ disturbs p o e ->
            let r := OpResolve e name in
            fst (proc_step b (fst (proc_step b p r)) o) = fst (proc_step b (fst (proc_step b p o)) r) /\
            snd (proc_step b p r) = snd (proc_step b (fst (proc_step b p o)) r) /\
            snd (proc_step b (fst (proc_step b p r)) o) = snd (proc_step b p o)).
  { intros e name o Hd. cbv zeta. rewrite !resolve_readonly. split; [reflexivity|].
    split; [|reflexivity]. apply resolve_depends_on_expr. symmetry. now apply step_keeps_expr. }
  destruct o1 as [vals1 ok1|src1|e1 vals1 ok1|e1 name1] eqn:E1.
  4: { apply Case. intro Hd. apply Hnc. exists e1, name1. left. now split. }
  all: destruct Hres as [Hr|Hr]; [discriminate|];
       destruct o2 as [vals2 ok2|src2|e2 vals2 ok2|e2 name2] eqn:E2; try discriminate;
       rewrite <- E1 in *;
       assert (Hd : ~ disturbs p o1 e2)
         by (intro Hd; apply Hnc; exists e2, name2; right; split; [reflexivity | now rewrite E1 in *]);
       destruct (Case e2 name2 o1 Hd) as (A & B & C); auto.
Qed.
Print Assumptions C06_eval_commutes.

Example C06_eval_commutes_example :
  let p := final is_builtin_name proc_init [OpRegisterGlobal [("f", 1)] true; OpCompile 7; OpCompile 8] in
  (* an evaluation of 0 next to a registration on 1, next to a package-level registration, next
     to a Compile (which creates expression 2), next to another evaluation: no conflict *)
  ~ conflicts p (OpResolve 0 "f") (OpRegisterExpr 1 [("f", 2)] true) /\
  ~ conflicts p (OpRegisterGlobal [("f", 3)] true) (OpResolve 0 "f") /\
  ~ conflicts p (OpResolve 1 "f") (OpCompile 9) /\
  ~ conflicts p (OpResolve 0 "f") (OpResolve 1 "f") /\
  (* ... and the excluded pair really does not commute *)
  conflicts p (OpResolve 1 "f") (OpRegisterExpr 1 [("f", 2)] true) /\
  snd (proc_step is_builtin_name p (OpResolve 1 "f")) <>
  snd (proc_step is_builtin_name (fst (proc_step is_builtin_name p (OpRegisterExpr 1 [("f", 2)] true)))
                 (OpResolve 1 "f")).
Proof.
  cbv zeta. repeat split.
  1-4: intros (e & name & [[H D]|[H D]]); inversion H; subst; vm_compute in D; try discriminate; exact D.
  - exists 1, "f"%string. left. split; reflexivity.
  - vm_compute. discriminate.
Qed.

(** ** deleting other threads' evaluations *)

(* an execution with its observations *)
Definition trace (b : string -> bool) (p : proc) (l : list tstep) : list (tstep * obs) :=
  combine l (observations b p (map snd l)).

Lemma trace_cons b p s l :
  trace b p (s :: l) = (s, snd (proc_step b p (snd s))) :: trace b (fst (proc_step b p (snd s))) l.
Proof. unfold trace. cbn [map]. now rewrite observations_cons. Qed.

(* deleting any set of evaluation steps from an execution changes neither the final state nor
   the observation of any remaining step *)
Lemma delete_resolves b (keep : tstep -> bool) :
  (forall s, keep s = false -> is_resolve (snd s) = true) ->
  forall l p,
    final b p (map snd (filter keep l)) = final b p (map snd l) /\
    trace b p (filter keep l) = filter (fun so => keep (fst so)) (trace b p l).
Proof.
  intros Hk. induction l as [|s r IH]; intro p; [split; reflexivity|].
  rewrite trace_cons. cbn [filter map fst]. destruct (keep s) eqn:E.
  - cbn [map]. rewrite !final_cons, trace_cons. destruct (IH (fst (proc_step b p (snd s)))) as [A B].
    split; [exact A | now rewrite B].
  - cbn [map]. rewrite final_cons. specialize (Hk s E).
    destruct s as [t [vals ok|src|e vals ok|e name]]; try discriminate. cbn [snd] in *.
    rewrite resolve_readonly. apply IH.
Qed.

(* the steps of thread t with what they observed *)
Definition thread_trace (t : nat) (tr : list (tstep * obs)) : list (tstep * obs) :=
  filter (fun so => Nat.eqb (fst (fst so)) t) tr.
(* the execution without the evaluations of the threads other than t *)
Definition without_other_resolves (t : nat) (l : list tstep) : list tstep :=
  filter (fun s => Nat.eqb (fst s) t || negb (is_resolve (snd s))) l.

Lemma filter_filter_impl {A} (f g : A -> bool) (l : list A) :
  (forall x, f x = true -> g x = true) -> filter f (filter g l) = filter f l.
Proof.
  intro H. induction l as [|x r IH]; [reflexivity|]. cbn [filter].
  destruct (g x) eqn:G; cbn [filter].
  - now rewrite IH.
  - destruct (f x) eqn:F; [|exact IH]. rewrite (H x F) in G. discriminate.
Qed.

(* Concurrent evaluations - of the same or of different expressions - cannot influence one
   another: removing all evaluation steps of the other threads from ANY execution leaves the
   final state, every remaining observation and in particular everything thread t observes
   unchanged. *)
Theorem resolves_do_not_interfere b p t l :
  let l' := without_other_resolves t l in
  final b p (map snd l') = final b p (map snd l) /\
  trace b p l' = filter (fun so => Nat.eqb (fst (fst so)) t || negb (is_resolve (snd (fst so)))) (trace b p l) /\
  thread_trace t (trace b p l') = thread_trace t (trace b p l).
Proof.
  cbv zeta. unfold without_other_resolves.
  set (keep := fun s : tstep => Nat.eqb (fst s) t || negb (is_resolve (snd s))).
  assert (Hk : forall s, keep s = false -> is_resolve (snd s) = true).
  { intros s H. unfold keep in H. apply orb_false_iff in H as [_ H]. now apply negb_false_iff in H. }
  destruct (delete_resolves b keep Hk l p) as [A B]. split; [exact A|]. split; [exact B|].
  change (thread_trace t (trace b p (filter keep l)) = thread_trace t (trace b p l)).
  rewrite B. unfold thread_trace. apply filter_filter_impl.
  intros so H. unfold keep. cbv beta in H |- *. apply orb_true_iff. left. exact H.
Qed.
Print Assumptions resolves_do_not_interfere.

(* ... and the execution that remains is an execution of the same threads with the other
   threads' evaluations removed from their programs *)
Lemma without_other_resolves_proj t l i :
  thread_proj i (without_other_resolves t l) =
  if Nat.eqb i t then thread_proj i l else filter (fun o => negb (is_resolve o)) (thread_proj i l).
Proof.
  unfold thread_proj, without_other_resolves. induction l as [|[j o] r IH]; cbn [filter fst snd map].
  - now destruct (Nat.eqb i t).
  - destruct (Nat.eqb j i) eqn:Eji.
    + apply Nat.eqb_eq in Eji. subst j. destruct (Nat.eqb i t) eqn:Eit; cbn [orb filter fst snd map].
      * rewrite Nat.eqb_refl. cbn [map]. now rewrite IH.
      * destruct (negb (is_resolve o)); cbn [filter fst snd map]; [rewrite Nat.eqb_refl; cbn [map]|];
          now rewrite IH.
    + destruct (Nat.eqb j t || negb (is_resolve o)); cbn [filter fst]; [rewrite Eji|]; exact IH.
Qed.

(** ** isolation *)

Lemma owns_own_thread t e seg :
  (forall s, In s seg -> registers_on e (snd s) -> fst s = t) ->
  owns e (map snd seg) = owns e (thread_proj t seg).
Proof.
  induction seg as [|[j o] r IH]; intro H; [reflexivity|].
  cbn [map snd]. rewrite owns_cons, thread_proj_cons. cbn [fst snd].
  assert (IH' : owns e (map snd r) = owns e (thread_proj t r)).
  { apply IH. intros s Hin. apply H. now right. }
  destruct (Nat.eqb j t) eqn:E.
  - now rewrite owns_cons, IH'.
  - rewrite IH'. replace (own_vals e o) with (@nil (string * binding)); [reflexivity|].
    symmetry. apply not_registers_own_vals. intro Hr.
    apply Nat.eqb_neq in E. apply E. apply (H (j, o)); [now left | exact Hr].
Qed.

(* what thread t's evaluation of e would observe in a process where nothing else happens: the
   package-level registrations G, then Compile, then t's own registrations on the expression *)
Definition solo (G : list (string * binding)) (src : nat) (own : list (string * binding))
           (name : string) : list op :=
  [OpRegisterGlobal G true; OpCompile src; OpRegisterExpr 0 own true; OpResolve 0 name].

Lemma solo_observes b G src own name :
  nth_error (observations b proc_init (solo G src own name)) 3 =
  Some (OResolved (visible b G own name)).
Proof.
  pose proof (C20_visibility_at b [OpRegisterGlobal G true; OpCompile src; OpRegisterExpr 0 own true]
                                [] 0 1 src name) as H.
  cbn [List.length app] in H. unfold solo. rewrite H by (split; reflexivity).
  cbn [firstn skipn]. unfold globals, owns. cbn [map global_vals own_vals List.concat Nat.eqb].
  now rewrite !app_nil_r.
Qed.

Lemma firstn_map {A B} (f : A -> B) n l : firstn n (map f l) = map f (firstn n l).
Proof. revert l. induction n as [|n IH]; intros [|x r]; cbn; [reflexivity..|]. now rewrite IH. Qed.
Lemma skipn_map {A B} (f : A -> B) n l : skipn n (map f l) = map f (skipn n l).
Proof. revert l. induction n as [|n IH]; intros [|x r]; cbn; try reflexivity. apply IH. Qed.

Lemma nth_error_firstn_lt {A} : forall (l : list A) k c, c < k -> nth_error (firstn k l) c = nth_error l c.
Proof.
  induction l as [|a l IH]; intros [|k] [|c] H; try reflexivity; try lia.
  cbn [firstn nth_error]. apply IH. lia.
Qed.

(* The isolation theorem, for any execution [l] from the initial state (any number of threads,
   any schedule; Compile, package-level registration, expression-level registration and
   evaluation freely mixed).  Take any evaluation step: thread t looks $name up in expression e,
   which was created by step c.  If no OTHER thread registers on e between c and this step, then
   the evaluation observes exactly what it observes in the single-threaded history
       RegisterGlobal G; Compile src; RegisterExpr own_t; Resolve
   where G is what was registered at package level before e's Compile and own_t are thread t's
   own registrations on e, in t's program order.  Nothing else in the execution - evaluations
   by any thread of e or of other expressions, Compiles, later package-level registrations,
   registrations on other expressions - has any influence. *)
Theorem C06_isolated_exec b (l : list tstep) k t e name c src :
  let ops := map snd l in
  let seg := firstn (k - S c) (skipn (S c) l) in          (* the steps between c and k *)
  nth_error l k = Some (t, OpResolve e name) ->
  created_at ops e c src -> c < k ->
  (forall s, In s seg -> registers_on e (snd s) -> fst s = t) ->
  nth_error (observations b proc_init ops) k =
  nth_error (observations b proc_init
               (solo (globals (firstn c ops)) src (owns e (thread_proj t seg)) name)) 3.
Proof.
  cbv zeta. intros Hk [Hc Hn] Hlt Hown. rewrite solo_observes.
  assert (Hk' : nth_error (map snd l) k = Some (OpResolve e name)).
  { exact (map_nth_error snd k l Hk). }
  destruct (nth_error_split_at _ k _ Hk') as [Es Lk].
  set (ops := map snd l) in *. set (pre := firstn k ops) in *.
  assert (Hcr : created_at pre e c src).
  { split.
    - unfold pre. now rewrite nth_error_firstn_lt.
    - unfold pre. rewrite firstn_firstn. now replace (Nat.min c k) with c by lia. }
  pose proof (C20_visibility_at b pre (skipn (S k) ops) e c src name Hcr) as HL.
  rewrite <- Es, Lk in HL. rewrite HL. do 3 f_equal.
  - unfold pre. rewrite firstn_firstn. now replace (Nat.min c k) with c by lia.
  - unfold pre, ops. rewrite skipn_firstn_comm, skipn_map, firstn_map.
    now apply owns_own_thread.
Qed.
Print Assumptions C06_isolated_exec.

(* for the executions of a set of threads: every interleaving preserves each thread's program
   order, and every evaluation in it is isolated in the sense above *)
Theorem C06_isolated b ts l :
  interleaving ts l ->
  (forall i, thread_proj i l = nth i ts []) /\
  forall k t e name c src,
    let ops := map snd l in
    let seg := firstn (k - S c) (skipn (S c) l) in
    nth_error l k = Some (t, OpResolve e name) ->
    created_at ops e c src -> c < k ->
    (forall s, In s seg -> registers_on e (snd s) -> fst s = t) ->
    nth_error (observations b proc_init ops) k =
    nth_error (observations b proc_init
                 (solo (globals (firstn c ops)) src (owns e (thread_proj t seg)) name)) 3.
Proof.
  intro H. split; [apply (interleaving_proj ts l H)|]. intros. now apply C06_isolated_exec.
Qed.
Print Assumptions C06_isolated.

(* Three threads.  Thread 0 registers f at package level, compiles expression 0 and registers g
   on it, then evaluates; thread 1 compiles expression 1, registers a different g on it and
   evaluates both names; thread 2 registers f again at package level (after both Compiles in
   this schedule) and evaluates expression 0. *)
Example C06_isolated_example :
  let t0 := [OpRegisterGlobal [("f", 1)] true; OpCompile 10; OpRegisterExpr 0 [("g", 2)] true;
             OpResolve 0 "g"; OpResolve 0 "f"] in
  let t1 := [OpCompile 11; OpRegisterExpr 1 [("g", 3)] true; OpResolve 1 "g"; OpResolve 1 "f"] in
  let t2 := [OpRegisterGlobal [("f", 4)] true; OpResolve 0 "f"] in
  let l := [(0, OpRegisterGlobal [("f", 1)] true); (0, OpCompile 10); (1, OpCompile 11);
            (2, OpRegisterGlobal [("f", 4)] true); (1, OpRegisterExpr 1 [("g", 3)] true);
            (0, OpRegisterExpr 0 [("g", 2)] true); (1, OpResolve 1 "g"); (0, OpResolve 0 "g");
            (2, OpResolve 0 "f"); (1, OpResolve 1 "f"); (0, OpResolve 0 "f")] in
  interleaving [t0; t1; t2] l /\
  (* thread 0's evaluation of g at step 7: expression 0 created at step 1 *)
  created_at (map snd l) 0 1 10 /\
  observations is_builtin_name proc_init (map snd l) =
    [ONone; ONone; ONone; ONone; ONone; ONone;
     OResolved (RRegistered 3); OResolved (RRegistered 2); OResolved (RRegistered 1);
     OResolved (RRegistered 1); OResolved (RRegistered 1)] /\
  observations is_builtin_name proc_init (solo [("f", 1)] 10 [("g", 2)] "g") =
    [ONone; ONone; ONone; OResolved (RRegistered 2)] /\
  (* the execution without the other threads' evaluations: thread 0 observes the same *)
  thread_trace 0 (trace is_builtin_name proc_init (without_other_resolves 0 l)) =
  thread_trace 0 (trace is_builtin_name proc_init l).
Proof.
  cbv zeta. split; [|vm_compute; repeat split].
  apply interleaving_complete.
  - intros [|[|[|i]]]; try reflexivity. now destruct i.
  - repeat constructor.
Qed.
