(* Extract/Extract.v — extraction of the executable model to OCaml.
   Directives in force: exactly those of ExtrOcamlBasic and ExtrOcamlString (bool, option,
   unit, list, prod, sumbool, sumor -> OCaml's; ascii -> char, string -> char list).
   nat, positive, N, Z stay the extracted inductive types. *)
Require Extraction.
Require Import ExtrOcamlBasic ExtrOcamlString.
From JV Require Import Model.Top.
Extraction "model.ml" run_line_all.
